import ConfModel.Driver.Common
import ConfModel.Driver.OSCmd
import ConfModel.Model.Run
import ConfModel.Model.ClientPipe
import ConfModel.Model.Cli
import ConfModel.Spec.ClientRunner
import ConfModel.Spec.Glob
namespace ConfModel.Driver.C05
open Lean ConfModel.Driver ConfModel.Run ConfModel.Trie ConfModel.Glob

def split (s : String) : List String := s.splitOn "/"

structure Req where
  name : String
  port : Nat
  proto : Nat
  ver : Nat
  hasCert : Bool
  hasCreds : Bool
  hdrName : List String
  codec : Nat
  comp : Nat
  t : Int
  handedFp : String := ""      -- fingerprint of the certificate the request carries ("" none)
  presentedFp : String := ""   -- fingerprint of the leaf certificate the server at host:port presented to the client's TLS dial

structure Srv where
  port : Nat
  inst : Inst
  start : Int
  stop : Option Int
  certFp : String := ""        -- the certificate this (recording) server presents

def contains (s sub : String) : Bool := (s.splitOn sub).length > 1

/-- servers from their start / stop records (one process = one port) -/
def servers (recs : List Json) : List Srv :=
  let starts := recs.filter (fun r => str (field r "ev") == "start")
  starts.map (fun r =>
    let pid := nat (field r "pid")
    let stop := (recs.find? (fun q => str (field q "ev") == "stop" && nat (field q "pid") == pid)).map (fun q => int (field q "t"))
    ⟨nat (field r "port"), ⟨nat (field r "proto"), nat (field r "ver"), bool (field r "tls"), bool (field r "certs")⟩, int (field r "t"), stop, str (field r "certFp")⟩)

/-- maximum number of simultaneously alive servers (sweep over start/stop instants) -/
def maxAlive (ss : List Srv) : Nat :=
  ss.foldl (fun m s =>
    let alive := (ss.filter (fun o => o.start ≤ s.start && (match o.stop with | some e => s.start < e | none => true))).length
    max m alive) 0

def parseRead (s : String) : Option SrvRead :=
  match s with
  | "blind" => some .blind | "msg" => some .msg | "eof" => some .eof | _ => none

/-- op "handshake": one batch through the real `runTestCasesForServer` against a server that starts
properly and reads its request in one of the legitimate ways (real OS process or in-process, real
pipes).  C05: every permutation of the batch is handed to the client exactly once, with the server's
host and port, while that server is alive; the server is stopped when the batch returns. -/
def judgeHandshake (inp impl : Json) : Verdict :=
  if !(isNull (field impl "panic")) then
    { agree := false, holds := false, why := "panic: " ++ str (field impl "panic") } else
  match parseRead (str (field inp "read")) with
  | none => { agree := true, holds := true, nontrivial := false, cls := "invalid-input" }
  | some need =>
  let n := nat (field inp "n")
  let kind := str (field inp "kind")
  let names := sortStrings (strList (field impl "names"))
  let handed := sortStrings (strList (field impl "handed"))
  let outs := (arr (field impl "outcomes")).map strList
  let hang := bool (field impl "hang")
  let alive := bool (field impl "alive")
  let addrOK := bool (field impl "addrOK")
  let seenOK := bool (field impl "seenOK")
  let allHanded := handed == names && names.length == n
  let allPass := outs.length == n && outs.all (fun o => (o.drop 1).headD "" == "pass")
  let holds := !hang && !alive && allHanded && addrOK && allPass && seenOK
  -- model: the runner's handshake program against this kind of reader
  let m := handshake need runnerHandshake
  { agree := m == (allHanded && !hang), holds := holds, nontrivial := true, cls := "handshake:" ++ kind ++ ":" ++ str (field inp "read"),
    model := Json.mkObj [("handshake", m)],
    why := if holds then "" else
      s!"{kind} server reading its request '{str (field inp "read")}': handed to the client {handed.length} of {n} permutations (each exactly once: {allHanded}), " ++
      s!"host/port filled in {addrOK}, request seen by the server as sent {seenOK}, outcomes {outs}, hang {hang}, server still alive after the batch {alive}" }

/-- op "shared": several batches of the real `runTestCasesForServer` side by side on ONE real client
runner; the client holds back its reading until every batch has a sender inside `sendRequest`, then
its output ends in one of the ways it can end, while it goes on reading (drain) or not.  C05: every
batch returns with its server stopped ("every started server is stopped, and the run terminates"),
every permutation has exactly one outcome and was handed to the client at most once — exactly once,
answered, when the client does not fail — with the address of its own batch's server; a request the
runner accepted gets its callback exactly once.  The model: the scenario's canonical schedule on the
client-runner transition system (`ClientRunner.step`, the system `batch_wait_released` is about)
ends in a terminal state in which the WaitGroup of every batch is released. -/
def judgeShared (inp impl : Json) : Verdict :=
  open ConfModel.ClientRunner in
  if !(isNull (field impl "panic")) then
    { agree := false, holds := false, why := "panic: " ++ str (field impl "panic") } else
  if !(bool (field impl "valid")) then { agree := true, holds := true, nontrivial := false, cls := "invalid-input" } else
  let sizes := natList (field inp "batches")
  let after := nat (field inp "after")
  let fail := str (field inp "fail")
  let thenK := str (field inp "then")
  -- global request ids, batch by batch
  let offs : List Nat := (sizes.foldl (fun (acc : List Nat × Nat) n => (acc.1 ++ [acc.2], acc.2 + n)) ([], 0)).1
  let batchIds : List (List Nat) := (sizes.zip offs).map (fun (n, o) => (List.range n).map (· + o))
  let total := sizes.foldl (· + ·) 0
  let allIds := List.range total
  -- ---- the model: canonical schedule ----
  let serve (g : Nat) : List Event := [.sStart g, .sLock g, .sRegister g, .sWriteOk g, .rRecv g, .rLookup, .rFire]
  let phase1 := (allIds.take after).flatMap serve
  -- the next request of every batch that has one left
  let nexts : List Nat := batchIds.filterMap (fun ids => ids.find? (fun g => g ≥ after))
  let a := nexts.head?
  let queued := nexts.drop 1
  let phase2 : List Event := (match a with | some g => [Event.sStart g, .sLock g, .sRegister g] | none => []) ++ queued.map Event.sStart
  let others := allIds.filter (fun g => g ≥ after && !nexts.contains g)
  let isExit := fail == "exit0" || fail == "exit1"
  let phase3 : List Event := match fail with
    | "unknown" => [.rRecv 999999, .rLookup, .rSetErr, .rTerminate, .rAbort]
    | "dup" => [.rRecv (after - 1), .rLookup, .rSetErr, .rTerminate, .rAbort]
    | "over" | "garbage" => [.rRecvBad, .rSetErr, .rTerminate, .rAbort]
    | "exit0" => [.pExit 0]
    | "exit1" => [.pExit 1]
    | _ => []
  let phase4 : List Event :=
    if fail == "none" then
      (match a with | some g => [Event.sWriteOk g, .rRecv g, .rLookup, .rFire] | none => []) ++
      queued.flatMap (fun g => [Event.sLock g, .sRegister g, .sWriteOk g, .rRecv g, .rLookup, .rFire]) ++ others.flatMap serve ++
      [.uCloseSend, .pExit 0, .rRecvEOF, .rCloseSend, .rDrain, .rDone, .pHook]
    else if !isExit && thenK == "drain" then
      (match a with | some g => [Event.sWriteOk g] | none => []) ++ queued.flatMap (fun g => [Event.sLock g, .sRegister g, .sWriteOk g]) ++
      others.map Event.sStart ++ [.rCloseSend, .rDrain, .rDone, .pExit 0, .pHook]
    else
      (if isExit then [] else [Event.pExit 1]) ++
      (match a with | some g => [Event.sWriteFail g, .sSetErr g] | none => []) ++
      queued.flatMap (fun g => [Event.sLock g, .sRegister g, .sWriteFail g, .sSetErr g]) ++
      [.rRecvEOF, .rCloseSend, .rDrain, .rDone, .pHook]
  let m := ClientRunner.run (fun g => g) ClientRunner.init (phase1 ++ phase2 ++ phase3 ++ phase4)
  let mTerminal := m.rpc == .done && allIds.all (fun g => match m.spc g with | .idle => true | .ret _ => true | _ => false)
  let mReleased := batchIds.all (fun ids => batchWaitPasses m ids)
  -- ---- the implementation's observation ----
  let names := (arr (field impl "names")).map strList
  let handed := strList (field impl "handed")
  let outs := (arr (field impl "outcomes")).map (fun b => (arr b).map strList)
  let rets := (arr (field impl "rets")).map strList
  let cbs := (arr (field impl "cbs")).map natList
  let hang := natList (field impl "hang")
  let srvAlive := natList (field impl "srvAlive")
  let wait := str (field impl "wait")
  let allNames := sortStrings (names.flatMap id)
  let oneOutcome := (names.zip outs).all (fun (ns, os) => sortStrings ns == os.map (fun o => o.headD ""))
  let atMostOnce := dedupSorted handed == handed && handed.all (allNames.contains ·)
  let cbOnce := (rets.zip cbs).all (fun (rs, cs) => rs.length == cs.length && (rs.zip cs).all (fun (r, c) => if r == "ok" then c == 1 else c == 0))
  let addrOK := bool (field impl "addrOK")
  let clean := fail == "none"
  let cleanOK := !clean || (handed == allNames && outs.all (fun os => os.all (fun o => (o.drop 1).headD "" == "pass")) && rets.all (fun rs => rs.all (· == "ok")))
  let holds := hang.isEmpty && srvAlive.isEmpty && wait == "returned" && oneOutcome && atMostOnce && cbOnce && addrOK && cleanOK
  { agree := (mTerminal && mReleased) == hang.isEmpty && oneOutcome && cbOnce, holds := holds,
    nontrivial := sizes.length > 1, cls := "shared:" ++ fail ++ ":" ++ (if clean then "-" else thenK) ++ (if !(bool (field inp "stall")) then ":no-stall" else if bool (field impl "stalled") then "" else ":stall-missed"),
    model := Json.mkObj [("terminal", mTerminal), ("released", mReleased)],
    why := if holds then "" else
      (if !hang.isEmpty then s!"batch(es) {hang} sharing the client with {sizes.length - 1} other(s) never returned (their server is not stopped, the run does not terminate): sendRequest results {rets}, completion callbacks {cbs}; " else "") ++
      (if !srvAlive.isEmpty then s!"server of batch(es) {srvAlive} still running when the batch returned; " else "") ++
      (if hang.isEmpty && wait != "returned" then "waitForResponses after the batches did not return; " else "") ++
      (if !oneOutcome then s!"not exactly one outcome per permutation: {outs}; " else "") ++
      (if !atMostOnce then s!"a permutation was handed to the client more than once (or one that is none): {handed}; " else "") ++
      (if !cbOnce then s!"accepted request without exactly one completion callback (or refused one with a callback): {rets} / {cbs}; " else "") ++
      (if !addrOK then "a request did not carry host/port of its own batch's server; " else "") ++
      (if !cleanOK then s!"well-behaved client, yet not every permutation was handed out once and passed: handed {handed}, outcomes {outs}; " else "") }

def handle : Handler := fun op inp impl =>
  match op with
  | "osserver" => ConfModel.Driver.OSCmd.judgeServer inp impl
  | "shared" => judgeShared inp impl
  | "fill" =>
    -- every request handed to the client carries the test name in its request headers (and in the
    -- headers of its raw HTTP request, which is what goes on the wire), the server's host and port,
    -- and the server's certificate exactly when the server uses TLS
    if !(isNull (field impl "panic")) || bool (field impl "hang") then
      { agree := false, holds := false, why := "batch panicked or hung" } else
    let reqs := arr (field impl "reqs")
    let n := nat (field inp "n")
    let raw := bool (field inp "rawReq")
    let tls := bool (field inp "useTLS")
    let isRef := bool (field inp "isRef")
    let ok := reqs.all fun r =>
      strList (field r "hdrName") == [str (field r "name")] &&
      (!raw || (bool (field r "raw") && strList (field r "rawHdrName") == [str (field r "name")])) &&
      str (field r "host") == "127.0.0.1" && nat (field r "port") == 12345 && bool (field r "hasCert") == tls
    -- the reference server additionally gets its expectation headers, on both header lists
    let refOK := reqs.all fun r => (nat (field r "expectHdrs") > 0) == isRef && (!raw || (nat (field r "rawExpectHdrs") > 0) == isRef)
    let holds := ok && reqs.length == n
    { agree := holds && refOK, holds := holds, nontrivial := raw || tls, cls := "fill",
      why := if holds then "" else "request not filled in as required (test name in request headers / raw request headers, host, port, certificate): " ++ (field impl "reqs").compress }
  | "handshake" => judgeHandshake inp impl
  | "run" | "fate" | "cli" =>
    if !(isNull (field impl "panic")) then
      { agree := false, holds := false, why := "panic: " ++ str (field impl "panic") } else
    if str (field impl "loadErr") != "" then
      -- the suite set (ALL files given) or the configuration is not acceptable — e.g. two files define a
      -- suite of the same name: the run must end and hand out nothing
      let quiet := (arr (field impl "requests")).isEmpty && (arr (field impl "servers")).isEmpty
      let ok := quiet && (bool (field impl "returned") || str (field impl "loadErr") == "not a cli scenario")
      { agree := ok, holds := ok, nontrivial := str (field inp "layout") != "", cls := "load-error" ++ (if str (field inp "layout") != "" then ":" ++ str (field inp "layout") else ""),
        why := if ok then "" else s!"the suites / configuration given are not acceptable ({str (field impl "loadErr")}), yet the run handed out {(arr (field impl "requests")).length} request(s), started {(arr (field impl "servers")).length} server record(s), returned {bool (field impl "returned")}" } else
    let mode := str (field inp "mode")
    let beh := str (field inp "behaviour")
    let run := (strList (field inp "run")).map split
    let skip := (strList (field inp "skip")).map split
    -- op cli: the command line's own decisions (`Cli.run`, the model `port_implies_single_server` /
    -- `both_commands` are about): the effective number of servers, or a refusal
    let isCli := op == "cli"
    let cli := field inp "cli"
    let withPort := isCli && bool (field cli "port")
    let msGiven := str (field cli "maxServers") != "default"
    let cliArgs : ConfModel.Cli.Args :=
      { mode := if mode == "both" then "both" else "client",
        command := if mode == "both" then ["client", "----", "server"] else ["client"],
        maxServers := if msGiven then nat (field inp "maxServers") else 4, maxServersGiven := msGiven,
        port := if withPort then 1 else 0, portGiven := withPort, bindGiven := mode != "both" }
    let cliOut := ConfModel.Cli.run cliArgs
    if isCli && bool (field impl "portTaken") then
      { agree := true, holds := true, nontrivial := false, cls := "set-aside:port-taken-by-another-process" } else
    match (if isCli then (match cliOut with | .proceed p => some p.maxServers | _ => none) else some (nat (field inp "maxServers"))) with
    | none =>
      -- refused by the command line: status 1, nothing started, nothing handed out
      let quiet := (arr (field impl "requests")).isEmpty && (arr (field impl "servers")).isEmpty
      let ok := bool (field impl "returned") && nat (field impl "exitCode") == 1 && quiet
      { agree := ok, holds := ok, nontrivial := true, cls := "cli:refused",
        why := if ok then "" else s!"the command line must be refused (--port with an explicit --max-servers > 1), yet: exit status {int (field impl "exitCode")}, requests handed out {(arr (field impl "requests")).length}, servers started {(arr (field impl "servers")).length}" }
    | some maxS =>
    let perms : List (Perm × Json) := (arr (field impl "perms")).map (fun p =>
      (⟨split (str (field p "name")), ⟨nat (field p "proto"), nat (field p "ver"), bool (field p "tls"), bool (field p "certs")⟩⟩, p))
    let names := perms.map (·.1.name)
    let reqs : List Req := (arr (field impl "requests")).map (fun r =>
      ⟨str (field r "name"), nat (field r "port"), nat (field r "proto"), nat (field r "ver"), bool (field r "hasCert"),
       bool (field r "hasClientCreds"), strList (field r "hdrName"), nat (field r "codec"), nat (field r "comp"), int (field r "t"),
       str (field r "handedFp"), str (field r "presentedFp")⟩)
    let srvs := servers (arr (field impl "servers"))
    let returned := bool (field impl "returned")
    -- validation (C08): a run/skip pattern matching nothing is an error and nothing is dispatched
    let v := validate [] [] run skip names
    let selected := if v == .ok then (perms.filter (fun p => accept run skip p.1.name)).map (·.1) else []
    -- spec of selection by glob semantics, independent of the trie
    let specSel := if v == .ok then
        (perms.filter (fun p => (run.isEmpty || run.any (fun q => globMatch q p.1.name)) && !(skip.any (fun q => globMatch q p.1.name)))).map (·.1.name)
      else []
    let sentNames := sortStrings (reqs.map (·.name))
    let wantNames := sortStrings (specSel.map ("/".intercalate ·))
    -- a server that reads its input to the end before it answers is a proper server
    let serverOK := beh == "ok" || beh == "" || beh == "eof" || beh == "owncert"
    -- the client under test broke down mid-run (its own log says so): what it was handed before is
    -- judged, and what the runner does about its servers
    -- (a client of the kinds read* answers nothing at all, also before it dies — or when it never
    -- gets to read the request it was to die on: it is a client that broke down from the start)
    let broke := bool (field impl "breakdown") || (str (field inp "clientStopHow")).startsWith "read"
    -- (1) each selected permutation handed to the client exactly once (when servers start properly
    -- and the client lives; otherwise at most once, and nothing that was not selected)
    let once := if serverOK && !broke then sentNames == wantNames else sentNames.all (wantNames.contains ·) && (dedupSorted sentNames == sentNames)
    -- (2) test name in the request headers
    let hdrOK := reqs.all (fun r => r.hdrName == [r.name])
    -- (3) both mode: addressed to a server alive at that time with exactly the permutation's instance, cert/creds filled in
    let instOf (n : String) : Option Inst := (perms.find? (fun p => "/".intercalate p.1.name == n)).map (·.1.inst)
    let addrOK := if mode != "both" then true else reqs.all (fun r =>
      match instOf r.name with
      | none => false
      | some i => srvs.any (fun s => s.port == r.port && s.inst == i && s.start ≤ r.t && (match s.stop with | some e => r.t ≤ e | none => true)) &&
          r.hasCert == i.tls && r.hasCreds == i.certs && r.proto == i.proto && r.ver == i.ver)
    -- (4) never more than max servers alive; every started server stopped; run returned
    let alive := maxAlive srvs
    let boundOK := mode != "both" || alive ≤ maxS
    let stoppedOK := srvs.all (fun s => s.stop.isSome)
    -- … and stopped by the time the run terminates: no started server process is still running at
    -- the moment Run returns
    let aliveAtRet := natList (field impl "aliveAtReturn")
    let retOK := aliveAtRet.isEmpty
    -- (5) gRPC-peer permutations only for supported cases and under marked names
    let grpcOK := reqs.all (fun r =>
      if contains r.name "(grpc server impl)" || contains r.name "(grpc client impl)" || contains r.name "(grpc impl)" then
        r.proto != 1 && (if r.proto == 3 then (r.ver == 1 || r.ver == 2) else r.ver == 2) && r.codec == 1 && (r.comp == 1 || r.comp == 2) && !r.hasCert
      else true)
    -- (6) … under their marked names: the model derives the names of the gRPC-peer permutations from
    -- the library itself (full name, the test's own name): the marker is one more path component
    -- immediately before the ENDING of the full name that is the simple name (`markName`)
    let base := (arr (field impl "base")).map (fun p =>
      (split (str (field p "name")), split (str (field p "simple")),
       (⟨nat (field p "proto"), nat (field p "ver"), bool (field p "tls"), bool (field p "certs")⟩ : Inst),
       nat (field p "codec"), nat (field p "comp"), bool (field p "rawResp")))
    let serverGRPC := mode != "both"
    let mMarked : List (List String × Inst) := if !serverGRPC then [] else
      (base.filter (fun b => grpcServerTakes b.2.2.1 b.2.2.2.1 b.2.2.2.2.1 b.2.2.2.2.2)).map (fun b => (markName b.1 b.2.1 grpcServerMarker, b.2.2.1))
    let mAll := sortStrings ((base.map (·.1) ++ mMarked.map (·.1)).map ("/".intercalate ·))
    let namesAgree := mAll == sortStrings (names.map ("/".intercalate ·))
    let marked (n : String) : Bool := contains n "(grpc server impl)" || contains n "(grpc client impl)" || contains n "(grpc impls)"
    let markOK := reqs.all (fun r => !marked r.name ||
      mMarked.any (fun q => "/".intercalate q.1 == r.name && q.2.proto == r.proto && q.2.ver == r.ver))
    -- (7) op cli with --port P: every request is addressed to port P, where a server is listening at
    -- that moment (the recording client dials it): the servers of all instances follow one another on P
    let fixedPort := nat (field impl "fixedPort")
    let probes := (arr (field impl "requests")).map (fun r => str (field r "probe"))
    let portOK := !withPort || (reqs.all (fun r => r.port == fixedPort) && probes.all (· != "dead"))
    -- (8) whose certificate: a request carries a certificate exactly when its permutation's instance
    -- uses TLS (client credentials exactly when it uses client certificates), and the certificate is
    -- the one the server at the request's host:port presents — the recording client dialled it with
    -- crypto/tls when it read the request (HTTP/3 reference servers listen on UDP: not dialled) — and,
    -- with recording servers, the one the request's own server (same port, alive, same instance) says it presents
    let opCert := bool (field inp "opCert")
    let opFp := str (field impl "opCertFp")
    let certOK := reqs.all (fun r =>
      match instOf r.name with
      | none => false
      | some i =>
        r.hasCert == i.tls && r.hasCreds == i.certs && (r.handedFp != "") == i.tls &&
        (!i.tls || (mode != "both" && r.ver == 3) || r.presentedFp == r.handedFp) &&
        (!i.tls || mode != "both" || srvs.any (fun s => s.port == r.port && s.inst == i && s.start ≤ r.t &&
          (match s.stop with | some e => r.t ≤ e | none => true) && s.certFp == r.handedFp)))
    -- the model of the certificate's source (`batchCert`, the function `handed_cert_is_served` /
    -- `reference_cert_source` are about): the operator's when the reference server is given the
    -- operator's files, else the runner's (a recording server echoes it) or the server's own
    let kind : SrvKind := if mode != "both" then .reference else if beh == "owncert" then .own else if beh == "nocert" then .silent else .echo
    let mCert (i : Inst) : Option String := (batchCert kind (if opCert then some "operator" else none) "runner" "own" i).bind handedCert
    let certAgree := reqs.all (fun r =>
      match instOf r.name with
      | none => true
      | some i => match mCert i with
        | none => !r.hasCert
        | some c => r.hasCert && ((c == "operator") == (opCert && r.handedFp == opFp)))
    let cliOK := !isCli || int (field impl "exitCode") == 0 || int (field impl "exitCode") == 1
    -- (9) the instance of a permutation is its CONFIG CASE's (model: `cfgInst`; `instance_is_config_case`),
    -- whatever the suite's request template carries in the fields the runner owns: TLS as the full
    -- name's `TLS:…` component says, client certificates when TLS and the suite relies on them
    let suitesIn : List (List String × Bool) := (arr (field inp "suites")).map (fun s => (split (str (field s "name")), bool (field s "reliesOnTlsClientCerts")))
    let cfgInstOf (p : Perm) : Option Inst :=
      match nameTLS p.name with
      | none => none
      | some b => match ((suitesIn.filter (fun s => s.1.isPrefixOf p.name)).map (·.2)).eraseDups with
        | [c] => some (cfgInst ⟨p.inst.proto, p.inst.ver, b, c⟩)
        | _ => none
    let tmplBad := perms.filter (fun p => match cfgInstOf p.1 with | some i => p.1.inst != i | none => false)
    let tmplOK := tmplBad.isEmpty
    let holds := once && hdrOK && addrOK && boundOK && stoppedOK && retOK && returned && grpcOK && markOK && portOK && cliOK && certOK && tmplOK
    -- the model's plan: batches per instance
    let insts := (perms.map (·.1.inst)).eraseDups
    let pl := if v == .ok then plan (perms.map (·.1)) run skip insts else []
    let planNames := sortStrings ((pl.flatMap (·.2)).map (fun p => "/".intercalate p.name))
    -- a request belongs to the server that listened on its port WHEN it was handed out (the OS may
    -- give the port of a stopped server to a later one)
    let byServer := srvs.map (fun s => (s.inst, sortStrings ((reqs.filter (fun r =>
      r.port == s.port && s.start ≤ r.t && (match s.stop with | some e => r.t ≤ e | none => true))).map (·.name))))
    let planBatches := pl.map (fun b => (b.1, sortStrings (b.2.map (fun p => "/".intercalate p.name))))
    let batchesAgree := mode != "both" || !serverOK ||
      (if broke then byServer.all (fun b => planBatches.any (fun q => q.1 == b.1 && b.2.all (q.2.contains ·)))
       else byServer.all (fun b => planBatches.contains b) && planBatches.all (fun b => byServer.contains b))
    -- the model of the dispatching loop on a fair schedule (the client dying after the first round
    -- when it broke down): the closure returns, and with no server alive
    let final := execSys maxS (initSys pl.length) (fairSchedule pl.length (4 * pl.length + 4) (if broke then some 1 else none))
    -- … in which a batch thread gets from "server started" to "server ended": when the client under
    -- test is a process that is gone (it exited or was killed while requests were still handed out),
    -- a request written to it comes back (model of the stdin path, `ClientPipe`: the client dies
    -- after the length prefix was taken, the goroutines run on)
    let stopHow := str (field inp "clientStopHow")
    let gone := stopHow.startsWith "exit" || stopHow.startsWith "read"
    let afterExit := ClientPipe.run ClientPipe.code (ClientPipe.init ClientPipe.code 2) [.wHand, .pExit]
    let pipeOK := !gone || ClientPipe.senderOut (ClientPipe.settle ClientPipe.code afterExit (ClientPipe.mu afterExit))
    let dispAgree := maxS == 0 || (returned == (final.disp == .returned && pipeOK) && aliveAtRet.length == aliveCount final.threads)
    { agree := certAgree && namesAgree && (if serverOK && !broke then sentNames == planNames else true) && batchesAgree && dispAgree && (selected.map (·.name) |>.map ("/".intercalate ·) |> sortStrings) == wantNames,
      holds := holds, nontrivial := reqs.length > 1 && wantNames.length < names.length || srvs.length > 1,
      cls := (if (arr (field inp "suites")).any (fun s => nat (field s "tmpl") != 0) then "tmpl:" ++ (if bool (field inp "tls") then "tls:" else "plain:") else "") ++ (if str (field inp "layout") != "" then "files-" ++ str (field inp "layout") ++ ":" else "") ++ (if isCli then "cli:" ++ str (field cli "maxServers") ++ (if withPort then ":port:" else ":") else "") ++ mode ++ ":" ++ beh ++ (if str (field inp "clientStopHow") != "" then ":client-" ++ str (field inp "clientStopHow") else ""),
      model := Json.mkObj [("selected", wantNames.length), ("batches", pl.length), ("maxAlive", alive)],
      why := if holds then "" else
        (if !once then s!"selected permutations not handed out exactly once: sent {sentNames.length} want {wantNames.length}; " else "") ++
        (if !hdrOK then "x-test-case-name header wrong; " else "") ++
        (if !addrOK then "request addressed to a server that is not alive / not of the permutation's instance / wrong cert fields; " else "") ++
        (if !boundOK then s!"{alive} servers alive at once, max-servers {maxS}; " else "") ++
        (if !stoppedOK then "a started server was not stopped; " else "") ++
        (if !retOK then s!"{aliveAtRet.length} started server process(es) still running when Run returned (pids {aliveAtRet}); " else "") ++
        (if !returned then "run did not terminate; " else "") ++
        (if !grpcOK then "gRPC-peer permutation issued for an unsupported case; " else "") ++
        (if !portOK then s!"--port {fixedPort}: a request was addressed to another port, or nobody was listening on the port when the request was handed out (ports {(reqs.map (·.port)).eraseDups}, probes {probes.eraseDups}); " else "") ++
        (if !certOK then
          let bad := reqs.filter (fun r => match instOf r.name with
            | none => true
            | some i => !(r.hasCert == i.tls && r.hasCreds == i.certs && (r.handedFp != "") == i.tls && (!i.tls || (mode != "both" && r.ver == 3) || r.presentedFp == r.handedFp)))
          s!"the client was not pointed at a matching server: a request carries a certificate that is not the one its server presents (or carries one / none against its instance's TLS setting): " ++
          s!"{(bad.take 2).map (fun r => (r.name, "handed " ++ r.handedFp, "presented " ++ r.presentedFp))}{if bad.isEmpty then " (the recording server of the request's instance presents another certificate than the one handed over)" else ""}" ++
          s!"{if opCert then " [operator-supplied key pair " ++ opFp ++ "]" else ""}; " else "") ++
        (if !tmplOK then s!"a permutation is grouped under a server instance that is not its config case's (TLS as its name says, client certificates when TLS and the suite relies on them) — the suite's request template must not steer the grouping: {(tmplBad.take 3).map (fun p => ("/".intercalate p.1.name, "instance tls/certs", p.1.inst.tls, p.1.inst.certs))}; " else "") ++
        (if !cliOK then s!"the command ended with status {int (field impl "exitCode")}: {str (field impl "stderr")}; " else "") ++
        (if !markOK then s!"gRPC-peer permutation handed out under a name that is not its marked name (marker immediately before the test's own name at the end of the full name): {(reqs.filter (fun r => marked r.name && !mMarked.any (fun q => "/".intercalate q.1 == r.name))).map (·.name) |>.take 3}; " else "") }
  | _ => bad ("unknown op " ++ op)

end ConfModel.Driver.C05
