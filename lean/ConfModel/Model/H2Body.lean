/-
C14 — the body events of a stream traced at the HTTP/2 connection level
(`internal/tracer/http2.go`: `http2Stream.requestTracer` / `responseTracer`, `handleFrame`,
`closeStreamLocked`, `setMaxStreamIDLocked`, `cancelAll`).

There a `dataTracer` is not wrapped by a reader: it is fed the payloads of the stream's DATA
frames and `emitUnfinished` is called by whoever ends the stream — once when the request ends
(END_STREAM of the request), and *again* together with the response tracer's when the stream
as a whole ends (END_STREAM of the response, RST_STREAM, GOAWAY, loss of the connection), in
whatever order the two directions end.

* `BOp` / `brun`: one tracer under `trace(data)` and `emitUnfinished()` calls (`flush`: emits the
  partial event, resets the state to `init` — prefix included).
* `HOp` / `hrun`: the two tracers of one stream under the frame-level events of its life.
Core Lean only.
-/
import ConfModel.Model.DataTracer
namespace ConfModel.DataTracer

/-- calls on one `dataTracer` -/
inductive BOp
  | data (d : Bytes)   -- trace(d)
  | flush              -- emitUnfinished()
deriving DecidableEq, Repr

def bstep (c : Cfg) (s : St) : BOp → St × List Ev
  | .data d => feed c s d
  | .flush => (init, unfinished s)

def brun (c : Cfg) : St → List BOp → St × List Ev
  | s, [] => (s, [])
  | s, o :: os =>
    let r1 := bstep c s o
    let r2 := brun c r1.1 os
    (r2.1, r1.2 ++ r2.2)

/-- what happens to one open stream, in the order the connection tracer sees it -/
inductive HOp
  | reqData (d : Bytes)    -- DATA frame of the request
  | reqEnd                 -- END_STREAM of the request: closeStreamLocked(isRequest, nil)
  | reqAbort               -- the request side ends the stream with an error (client RST_STREAM, loss of the
                           -- connection on the client side): requestTracer.emitUnfinished, RequestBodyEnd err
  | respData (d : Bytes)   -- DATA frame of the response (after the response HEADERS)
  | respEnd                -- the stream ends as a whole: END_STREAM of the response, RST_STREAM by the server,
                           -- GOAWAY below the stream id, loss of the connection on the server side
deriving DecidableEq, Repr

/-- what reaches the stream's builder -/
inductive HOut
  | q (e : Ev)
  | qEnd
  | p (e : Ev)
  | pEnd
deriving DecidableEq, Repr

structure HSt where
  req : St
  resp : St
deriving DecidableEq, Repr

def hinit : HSt := ⟨init, init⟩

/-- `handleFrame` / `closeStreamLocked` on one stream (cq, cp: the configurations of the two tracers) -/
def hstep (cq cp : Cfg) (h : HSt) : HOp → HSt × List HOut
  | .reqData d => let r := feed cq h.req d; ({ h with req := r.1 }, r.2.map HOut.q)
  | .reqEnd => ({ h with req := init }, (unfinished h.req).map HOut.q ++ [HOut.qEnd])
  | .reqAbort => ({ h with req := init }, (unfinished h.req).map HOut.q ++ [HOut.qEnd])
  | .respData d => let r := feed cp h.resp d; ({ h with resp := r.1 }, r.2.map HOut.p)
  | .respEnd => (⟨init, init⟩, (unfinished h.req).map HOut.q ++ (unfinished h.resp).map HOut.p ++ [HOut.pEnd])

def hrun (cq cp : Cfg) : HSt → List HOp → HSt × List HOut
  | h, [] => (h, [])
  | h, o :: os =>
    let r1 := hstep cq cp h o
    let r2 := hrun cq cp r1.1 os
    (r2.1, r1.2 ++ r2.2)

/-- the request-side tracer's share of a stream's life -/
def reqProj : List HOp → List BOp
  | [] => []
  | .reqData d :: t => .data d :: reqProj t
  | .reqEnd :: t => .flush :: reqProj t
  | .reqAbort :: t => .flush :: reqProj t
  | .respData _ :: t => reqProj t
  | .respEnd :: t => .flush :: reqProj t

/-- the response-side tracer's share -/
def respProj : List HOp → List BOp
  | [] => []
  | .respData d :: t => .data d :: respProj t
  | .respEnd :: t => .flush :: respProj t
  | _ :: t => respProj t

def qEvs : List HOut → List Ev
  | [] => []
  | .q e :: t => e :: qEvs t
  | _ :: t => qEvs t

def pEvs : List HOut → List Ev
  | [] => []
  | .p e :: t => e :: pEvs t
  | _ :: t => pEvs t

/-- the request DATA payloads among the operations -/
def reqBytes : List HOp → List Bytes
  | [] => []
  | .reqData d :: t => d :: reqBytes t
  | _ :: t => reqBytes t

def respBytes : List HOp → List Bytes
  | [] => []
  | .respData d :: t => d :: respBytes t
  | _ :: t => respBytes t

/-- operations after which the code adds a `RequestBodyEnd` -/
def isReqEndOp : HOp → Bool
  | .reqEnd => true
  | .reqAbort => true
  | _ => false

/-- request body ends among a stream's outputs -/
def qEnds : List HOut → Nat
  | [] => 0
  | .qEnd :: t => qEnds t + 1
  | _ :: t => qEnds t

def isData : BOp → Bool
  | .data _ => true
  | .flush => false

end ConfModel.DataTracer
