package main

import (
	"bufio"
	"bytes"
	"crypto/sha256"
	"crypto/tls"
	"crypto/x509"
	"encoding/hex"
	"encoding/json"
	"encoding/pem"
	"fmt"
	"io"
	"math/rand"
	"net"
	"os"
	"os/exec"
	"os/signal"
	"path/filepath"
	"sort"
	"strconv"
	"strings"
	"sync"
	"sync/atomic"
	"syscall"
	"time"

	"connectrpc.com/conformance/internal"
	cc "connectrpc.com/conformance/internal/app/connectconformance"
	conformancev1 "connectrpc.com/conformance/internal/gen/proto/go/connectrpc/conformance/v1"
	"connectrpc.com/conformance/internal/verifharness/gen"
	"google.golang.org/protobuf/encoding/protojson"
)

func init() {
	areas["c05"] = runC05
	rawCommands["c05peer"] = c05Peer
	gen.RegisterOp("c05", "run", func(c *gen.Ctx, raw json.RawMessage) any {
		return c05Run(c, gen.Into[c05In](raw))
	})
	// the same operation under a second name for the process-fate scenarios (a client that breaks
	// down mid-run, servers that are slow to stop, servers that read their input to its end): their
	// inputs are fixed small scenarios, not to be shrunk (every re-run costs seconds)
	gen.RegisterOp("c05", "fate", func(c *gen.Ctx, raw json.RawMessage) any {
		return c05Run(c, gen.Into[c05In](raw))
	})
	// the same operation through the REAL command `connectconformance` built from the tree: the
	// effect of what cmd/connectconformance/main.go decides — `--max-servers` given or left to its
	// default, `--port P` (one server at a time, every server on port P), the split of the positional
	// arguments at "----" in mode both
	gen.RegisterOp("c05", "cli", func(c *gen.Ctx, raw json.RawMessage) any {
		in := gen.Into[c05In](raw)
		if in.Cli == nil || c.BinDir == "" {
			return c05Out{LoadErr: "not a cli scenario"}
		}
		var out c05Out
		for attempt := 0; attempt < 3; attempt++ {
			out = c05Run(c, in)
			if !out.PortTaken {
				break // (somebody else on this machine took the port between the choice and the bind: again)
			}
		}
		return out
	})
}

// ---- recording peers ----

func c05Log(dir, file string, rec map[string]any) {
	if _, preset := rec["t"]; !preset {
		rec["t"] = time.Now().UnixNano()
	}
	b, _ := json.Marshal(rec)
	f, err := os.OpenFile(filepath.Join(dir, file), os.O_APPEND|os.O_CREATE|os.O_WRONLY, 0o644)
	if err != nil {
		return
	}
	f.Write(append(b, '\n'))
	f.Close()
}

// c05CertFp: a short fingerprint of the first certificate of a PEM text (what identifies "the
// certificate" whatever its PEM spelling); "" for no text, "undecodable" for text that is no PEM.
func c05CertFp(pemBytes []byte) string {
	if len(pemBytes) == 0 {
		return ""
	}
	block, _ := pem.Decode(pemBytes)
	if block == nil {
		return "undecodable"
	}
	return c05DERFp(block.Bytes)
}

func c05DERFp(der []byte) string {
	sum := sha256.Sum256(der)
	return hex.EncodeToString(sum[:8])
}

// c05ProbeTLS dials host:port with crypto/tls without verifying anything and returns the
// fingerprint of the leaf certificate the server there presents ("" if it presents none) and how
// the attempt went: presented | noconn | nohandshake.
func c05ProbeTLS(host string, port int, clientCreds *conformancev1.TLSCreds) (string, string) {
	conn, err := net.DialTimeout("tcp", net.JoinHostPort(host, strconv.Itoa(port)), 3*time.Second)
	if err != nil {
		return "", "noconn"
	}
	defer conn.Close()
	leaf := ""
	conf := &tls.Config{InsecureSkipVerify: true, //nolint:gosec
		VerifyPeerCertificate: func(raw [][]byte, _ [][]*x509.Certificate) error {
			if len(raw) > 0 {
				leaf = c05DERFp(raw[0])
			}
			return nil
		}}
	if clientCreds != nil {
		if pair, err := tls.X509KeyPair(clientCreds.Cert, clientCreds.Key); err == nil {
			conf.Certificates = []tls.Certificate{pair}
		}
	}
	tc := tls.Client(conn, conf)
	_ = conn.SetDeadline(time.Now().Add(5 * time.Second))
	_ = tc.Handshake()
	if leaf == "" {
		return "", "nohandshake"
	}
	return leaf, "presented"
}

// the operator's key pair (--cert / --key): generated once per harness process
var (
	c05OpOnce           sync.Once
	c05OpCert, c05OpKey []byte
)

func c05OperatorPair() ([]byte, []byte) {
	c05OpOnce.Do(func() { c05OpCert, c05OpKey, _ = internal.NewServerCert() })
	return c05OpCert, c05OpKey
}

// c05Peer implements `verifharness c05peer server <logdir> <exitDelayMs[,exitDelayMs…]> <behaviour>` and
// `verifharness c05peer client <logdir> <maxLatencyMs> [<stopAfter> <how>]`.
//
// server: with several exit delays the k-th server process started in this log directory (k claimed
// by creating the file seq-k exclusively) takes delay number k mod len: servers running side by side
// need different times to stop after SIGTERM, whatever the order in which the runner visits the
// server instances.  behaviour eof: the server reads its input to its END before it decodes the
// request and answers (ok: it reads exactly the one length-prefixed message).
//
// client: after its stopAfter-th answer (0: before reading anything) the client breaks down: how =
// unknown (a response for a test name that was never requested, then exit), dup (the last response
// once more, then exit), garbage (bytes that are no response, then exit), exit0 / exit3.
// how = readexit0 / readexit3 / readkill: the client dies (exit 0, exit 3, SIGKILL) right after it has
// READ its stopAfter-th request (0: at start-up, before reading anything), answering nothing more —
// while the runner still has requests to hand out, which it then writes to a client that is gone.
func c05Peer(args []string) int {
	if len(args) < 2 {
		return 2
	}
	dir := args[1]
	switch args[0] {
	case "server":
		var delay int
		behaviour := "ok"
		seq := 0
		if len(args) > 2 {
			var delays []int
			for _, f := range strings.Split(args[2], ",") {
				d, _ := strconv.Atoi(f)
				delays = append(delays, d)
			}
			if len(delays) > 1 {
				for ; seq < 10000; seq++ {
					f, err := os.OpenFile(filepath.Join(dir, fmt.Sprintf("seq-%d", seq)), os.O_CREATE|os.O_EXCL|os.O_WRONLY, 0o644)
					if err == nil {
						f.Close()
						break
					}
				}
			}
			if len(delays) > 0 {
				delay = delays[seq%len(delays)]
			}
		}
		if len(args) > 3 {
			behaviour = args[3]
		}
		sig := make(chan os.Signal, 1)
		signal.Notify(sig, syscall.SIGTERM, syscall.SIGINT)
		var req conformancev1.ServerCompatRequest
		if behaviour == "eof" {
			// a perfectly valid way to read the single message: everything up to the end of the input
			all, err := io.ReadAll(os.Stdin)
			if err == nil {
				err = internal.ReadDelimitedMessage(bytes.NewReader(all), &req, "runner", 20*time.Second, 1<<20)
			}
			if err != nil {
				fmt.Fprintln(os.Stderr, "fake server: read request to EOF:", err)
				return 1
			}
		} else if err := internal.ReadDelimitedMessage(os.Stdin, &req, "runner", 20*time.Second, 1<<20); err != nil {
			fmt.Fprintln(os.Stderr, "fake server: read request:", err)
			return 1
		}
		ln, err := net.Listen("tcp", "127.0.0.1:0")
		if err != nil {
			return 1
		}
		port := ln.Addr().(*net.TCPAddr).Port
		file := fmt.Sprintf("srv-%d.jsonl", os.Getpid())
		// under TLS the server really presents a certificate to whoever connects: the one the runner
		// sent (ServerCreds), or — behaviour owncert — one of its own making, which it then reports
		pemCert := req.ServerCreds.GetCert()
		certFp := ""
		if req.UseTls && behaviour != "garbage" {
			keyPEM := req.ServerCreds.GetKey()
			if behaviour == "owncert" {
				pemCert, keyPEM, _ = internal.NewServerCert()
			}
			if pair, err := internal.ParseServerCert(pemCert, keyPEM); err == nil {
				certFp = c05DERFp(pair.Certificate[0])
				go func() {
					for {
						conn, err := ln.Accept()
						if err != nil {
							return
						}
						go func() {
							tc := tls.Server(conn, &tls.Config{Certificates: []tls.Certificate{pair}, MinVersion: tls.VersionTLS12})
							_ = conn.SetDeadline(time.Now().Add(5 * time.Second))
							_ = tc.Handshake()
							conn.Close()
						}()
					}
				}()
			}
		}
		c05Log(dir, file, map[string]any{"ev": "start", "pid": os.Getpid(), "port": port, "proto": int(req.Protocol), "ver": int(req.HttpVersion),
			"tls": req.UseTls, "certs": len(req.ClientTlsCert) > 0, "hasServerCreds": req.ServerCreds != nil, "behaviour": behaviour, "seq": seq, "delay": delay, "certFp": certFp})
		switch behaviour {
		case "garbage":
			os.Stdout.Write([]byte{0, 0, 0, 3, 0xff, 0xff, 0xff})
		case "nocert":
			internal.WriteDelimitedMessage(os.Stdout, &conformancev1.ServerCompatResponse{Host: "127.0.0.1", Port: uint32(port)})
		default:
			resp := &conformancev1.ServerCompatResponse{Host: "127.0.0.1", Port: uint32(port)}
			if req.UseTls {
				resp.PemCert = pemCert
			}
			internal.WriteDelimitedMessage(os.Stdout, resp)
		}
		<-sig
		c05Log(dir, file, map[string]any{"ev": "term", "pid": os.Getpid(), "port": port})
		time.Sleep(time.Duration(delay) * time.Millisecond)
		ln.Close()
		c05Log(dir, file, map[string]any{"ev": "stop", "pid": os.Getpid(), "port": port})
		return 0
	case "client":
		maxLat := 0
		if len(args) > 2 {
			fmt.Sscan(args[2], &maxLat)
		}
		stopAfter, how := -1, ""
		if len(args) > 4 {
			stopAfter, _ = strconv.Atoi(args[3])
			how = args[4]
		}
		in := bufio.NewReader(os.Stdin)
		var wg sync.WaitGroup
		var mu sync.Mutex
		file := fmt.Sprintf("cli-%d.jsonl", os.Getpid())
		written := 0
		var last *conformancev1.ClientCompatResponse
		// breakdown is called with mu held and does not return
		breakdown := func() {
			c05Log(dir, file, map[string]any{"ev": "breakdown", "how": how, "after": written})
			switch how {
			case "unknown":
				internal.WriteDelimitedMessage(os.Stdout, &conformancev1.ClientCompatResponse{TestName: "no/such/test case",
					Result: &conformancev1.ClientCompatResponse_Error{Error: &conformancev1.ClientErrorResult{Message: "recording client: breaking down"}}})
			case "dup":
				if last != nil {
					internal.WriteDelimitedMessage(os.Stdout, last)
				}
			case "garbage":
				os.Stdout.Write([]byte{0, 0, 0, 3, 0xff, 0xff, 0xff})
			case "exit3", "readexit3":
				os.Exit(3)
			case "readkill":
				syscall.Kill(os.Getpid(), syscall.SIGKILL)
				time.Sleep(time.Hour)
			}
			os.Exit(0)
		}
		diesReading := strings.HasPrefix(how, "read")
		if stopAfter == 0 {
			mu.Lock()
			breakdown()
		}
		nRead := 0
		for {
			var req conformancev1.ClientCompatRequest
			if err := internal.ReadDelimitedMessage(in, &req, "runner", time.Hour, 16<<20); err != nil {
				break
			}
			nRead++
			var names []string
			for _, h := range req.RequestHeaders {
				if strings.EqualFold(h.Name, "x-test-case-name") {
					names = append(names, h.Value...)
				}
			}
			// op cli with a fixed port: is a server listening where this request is addressed to, now?
			probe := ""
			if os.Getenv("VERIF_C05_PROBE") == "1" && req.HttpVersion != conformancev1.HTTPVersion_HTTP_VERSION_3 {
				probe = "dead"
				if conn, err := net.DialTimeout("tcp", net.JoinHostPort(req.Host, strconv.Itoa(int(req.Port))), 2*time.Second); err == nil {
					conn.Close()
					probe = "alive"
				}
			}
			// is the certificate this request carries the one the server at host:port presents, now?
			tRead := time.Now().UnixNano()
			handedFp, presentedFp, tlsProbe := c05CertFp(req.ServerTlsCert), "", ""
			if len(req.ServerTlsCert) > 0 {
				presentedFp, tlsProbe = c05ProbeTLS(req.Host, int(req.Port), req.ClientTlsCreds)
			}
			mu.Lock()
			c05Log(dir, file, map[string]any{"t": tRead, "ev": "req", "name": req.TestName, "host": req.Host, "port": int(req.Port), "hasCert": len(req.ServerTlsCert) > 0,
				"hasClientCreds": req.ClientTlsCreds != nil, "proto": int(req.Protocol), "ver": int(req.HttpVersion), "hdrName": names,
				"codec": int(req.Codec), "comp": int(req.Compression), "probe": probe,
				"handedFp": handedFp, "presentedFp": presentedFp, "tlsProbe": tlsProbe})
			if diesReading && nRead == stopAfter {
				breakdown()
			}
			mu.Unlock()
			if diesReading {
				continue // answers nothing: it only takes requests until it dies
			}
			wg.Add(1)
			go func(name string) {
				defer wg.Done()
				if maxLat > 0 {
					time.Sleep(time.Duration(rand.Intn(maxLat*1000)) * time.Microsecond)
				}
				mu.Lock()
				defer mu.Unlock()
				last = &conformancev1.ClientCompatResponse{TestName: name,
					Result: &conformancev1.ClientCompatResponse_Error{Error: &conformancev1.ClientErrorResult{Message: "recording client: not executed"}}}
				internal.WriteDelimitedMessage(os.Stdout, last)
				written++
				if written == stopAfter {
					breakdown()
				}
			}(req.TestName)
		}
		wg.Wait()
		return 0
	}
	return 2
}

// ---- op ----

type c05Test struct {
	Name string `json:"name"`
	St   int    `json:"st"`
}
type c05Suite struct {
	Name   string    `json:"name"`
	Tests  []c05Test `json:"tests"`
	TLS    bool      `json:"reliesOnTls"`
	Certs  bool      `json:"reliesOnTlsClientCerts"`
	Protos []int     `json:"relevantProtocols"`
	// SuiteMode: 0 every run mode, 1 only when a client is tested, 2 only when a server is tested
	SuiteMode int `json:"suiteMode,omitempty"`
	// Tmpl: the request template of every test of the suite carries fields the RUNNER owns (a suite
	// built from a recorded request): 1 server_tls_cert, 2 client_tls_creds (cert + key), 4 host,
	// 8 port, 16 http_version / protocol / codec / compression (stale values), 32 client_tls_creds
	// that is present but empty; 64: only every other test of the suite
	Tmpl int `json:"tmpl,omitempty"`
}
type c05In struct {
	Mode        string     `json:"mode"` // both: recording client + recording servers; client: recording client, in-process reference + grpc servers
	Suites      []c05Suite `json:"suites"`
	Versions    []int      `json:"versions"`
	Protos      []int      `json:"protocols"`
	TLS         bool       `json:"tls"`
	Certs       bool       `json:"certs"`
	Run         []string   `json:"run"`
	Skip        []string   `json:"skip"`
	MaxServers  int        `json:"maxServers"`
	ExitDelayMs int        `json:"exitDelayMs"`
	LatencyMs   int        `json:"latencyMs"`
	Behaviour   string     `json:"behaviour"` // ok | eof (proper servers; eof: reads its input to the end before answering) | garbage | nocert (server fault: the early-return paths)
	// ExitDelays (if given, instead of ExitDelayMs): the k-th server started takes delay k mod len to stop after SIGTERM
	ExitDelays []int `json:"exitDelays,omitempty"`
	// the client breaks down after its ClientStopAfter-th answer: unknown | dup | garbage | exit0 | exit3 ("" = never)
	ClientStopHow   string `json:"clientStopHow,omitempty"`
	ClientStopAfter int    `json:"clientStopAfter,omitempty"`
	Verbose         bool   `json:"verbose,omitempty"` // -v: server instances in sorted order
	// Layout: where the suite files are: "" dir/suite<i>.yaml | samebase: dir/d<i>/basic.yaml (equal file
	// names in different directories) | rel / mixed: paths relative to the working directory (mixed: every
	// other one) | copy: samebase plus the first suite once more in a third file (two suites of one name:
	// the suite set is refused) | twice: samebase, the first path given twice (one suite)
	Layout string `json:"layout,omitempty"`
	// OpCert: the operator gives a key pair of their own (Flags.TLSCertFile / TLSKeyFile, --cert / --key):
	// the in-process reference server (mode client) listens with it; with a server under test (mode
	// both) it has no part
	OpCert bool `json:"opCert,omitempty"`
	// Cli (op cli): the scenario goes through the real command built from the tree
	Cli *c05Cli `json:"cli,omitempty"`
	// TimeoutS: the watchdog of this scenario (0: 90 s) — Run not having returned by then is the
	// observation "the run did not terminate"; the scenario's peer processes are then killed
	TimeoutS int `json:"timeoutS,omitempty"`
}

// c05Cli: how the command line is spelled.  MaxServers: flag (`--max-servers N`) | eq (`--max-servers=N`)
// | default (not given: 4).  Port (mode client): `--port P` with a port that is free at that moment.
// RunSpell / SkipSpell: how the patterns are given, in order: "L" the next pattern as a literal flag
// value, "F<n>" the next n patterns in a file given as `@file` (nothing: all literal).
type c05Cli struct {
	MaxServers string   `json:"maxServers"`
	Port       bool     `json:"port,omitempty"`
	RunSpell   []string `json:"runSpell,omitempty"`
	SkipSpell  []string `json:"skipSpell,omitempty"`
}

type c05Out struct {
	Perms []cc.VerifC05Perm `json:"perms"`
	// Base: the library itself, every permutation with the simple name of its test case
	Base     []cc.VerifC05Perm `json:"base"`
	Requests []map[string]any  `json:"requests"`
	Servers  []map[string]any  `json:"servers"`
	RunErr   string            `json:"runErr"`
	Returned bool              `json:"returned"`
	ElapsedS float64           `json:"elapsedS"`
	LoadErr  string            `json:"loadErr,omitempty"`
	// AliveAtReturn: pids of started server processes that were still running at the moment Run returned
	AliveAtReturn []int `json:"aliveAtReturn"`
	// Breakdown: the client really broke down (its own log says so)
	Breakdown bool `json:"breakdown"`
	// op cli: exit status of the command (-1: killed by the watchdog); with --port: the port, and a
	// bind failure seen on every attempt (somebody else took the port in between: set aside)
	ExitCode  int    `json:"exitCode,omitempty"`
	FixedPort int    `json:"fixedPort,omitempty"`
	PortTaken bool   `json:"portTaken,omitempty"`
	Stderr    string `json:"stderr,omitempty"`
	// OpCertFp: fingerprint of the operator's certificate (opCert)
	OpCertFp string `json:"opCertFp,omitempty"`
}

// c05AliveServers: the server processes of this scenario (one log file per pid) that are running
// right now: /proc/<pid>/cmdline still names this scenario's log directory (a zombie — ended, not yet
// reaped — has an empty command line and has stopped; a recycled pid names something else).
func c05AliveServers(dir string) []int {
	alive := []int{}
	matches, _ := filepath.Glob(filepath.Join(dir, "srv-*.jsonl"))
	sort.Strings(matches)
	for _, m := range matches {
		base := strings.TrimSuffix(strings.TrimPrefix(filepath.Base(m), "srv-"), ".jsonl")
		pid, err := strconv.Atoi(base)
		if err != nil {
			continue
		}
		cmdline, err := os.ReadFile(fmt.Sprintf("/proc/%d/cmdline", pid))
		if err == nil && bytes.Contains(cmdline, []byte(dir)) && bytes.Contains(cmdline, []byte("c05peer")) {
			alive = append(alive, pid)
		}
	}
	return alive
}

// c05KillScenario kills every peer process (client, servers) of the scenario with this log directory.
func c05KillScenario(dir string) {
	entries, _ := os.ReadDir("/proc")
	for _, e := range entries {
		pid, err := strconv.Atoi(e.Name())
		if err != nil || pid == os.Getpid() {
			continue
		}
		cmdline, err := os.ReadFile(fmt.Sprintf("/proc/%d/cmdline", pid))
		if err == nil && bytes.Contains(cmdline, []byte(dir)) && bytes.Contains(cmdline, []byte("c05peer")) {
			syscall.Kill(pid, syscall.SIGKILL)
		}
	}
}

var c05Seq atomic.Int64

func c05CfgYAML(in c05In) string {
	var b strings.Builder
	b.WriteString("features:\n")
	list := func(key string, vals []int, names map[int32]string) {
		fmt.Fprintf(&b, "  %s:\n", key)
		for _, v := range vals {
			fmt.Fprintf(&b, "  - %s\n", names[int32(v)])
		}
	}
	list("versions", in.Versions, conformancev1.HTTPVersion_name)
	list("protocols", in.Protos, conformancev1.Protocol_name)
	b.WriteString("  codecs: [CODEC_PROTO]\n  compressions: [COMPRESSION_IDENTITY]\n")
	fmt.Fprintf(&b, "  supportsTls: %v\n  supportsTlsClientCerts: %v\n", in.TLS, in.Certs)
	b.WriteString("  supportsHalfDuplexBidiOverHttp1: true\n  supportsConnectGet: false\n  supportsMessageReceiveLimit: false\n")
	return b.String()
}

// c05StaleTemplate fills in the fields of a request template that the runner itself owns: whatever
// they hold, the runner must assign (or clear) them for every permutation.
func c05StaleTemplate(req *conformancev1.ClientCompatRequest, bits int) {
	if bits&1 != 0 {
		req.ServerTlsCert = []byte("-----BEGIN CERTIFICATE-----\nc3RhbGU=\n-----END CERTIFICATE-----\n")
	}
	if bits&2 != 0 {
		req.ClientTlsCreds = &conformancev1.TLSCreds{Cert: []byte("stale client cert"), Key: []byte("stale client key")}
	} else if bits&32 != 0 {
		req.ClientTlsCreds = &conformancev1.TLSCreds{}
	}
	if bits&4 != 0 {
		req.Host = "stale.invalid"
	}
	if bits&8 != 0 {
		req.Port = 9
	}
	if bits&16 != 0 {
		req.HttpVersion = conformancev1.HTTPVersion_HTTP_VERSION_3
		req.Protocol = conformancev1.Protocol_PROTOCOL_GRPC_WEB
		req.Codec = conformancev1.Codec_CODEC_JSON
		req.Compression = conformancev1.Compression_COMPRESSION_GZIP
	}
}

// c05TmplScenarios (op run): suites whose request templates carry runner-owned fields x TLS on/off
// configs x both modes. The instance of a permutation is its config case's, whatever the template says.
func c05TmplScenarios(c *gen.Ctx, allKinds []c05Suite) []any {
	r := c.R
	with := func(bits []int, suites []c05Suite) []c05Suite {
		out := make([]c05Suite, len(suites))
		for i, s := range suites {
			s.Tmpl = bits[i%len(bits)]
			out[i] = s
		}
		return out
	}
	mk := func(mode string, tls, certs bool, ms int, bits []int, suites []c05Suite) any {
		c.E.Count(fmt.Sprintf("tmpl:%s:tls=%v:certs=%v", mode, tls, certs))
		return c05In{Mode: mode, MaxServers: ms, Versions: []int{1, 2}, Protos: []int{1, 2}, TLS: tls, Certs: certs, Behaviour: "ok",
			Run: []string{}, Skip: []string{}, Suites: with(bits, suites)}
	}
	ins := []any{
		mk("both", false, false, 2, []int{1 | 2 | 4 | 8 | 16}, allKinds[:1]),
		mk("both", true, true, 3, []int{2 | 64, 1 | 2, 32 | 4}, allKinds),
		mk("client", false, false, 1, []int{gen.Pick(r, []int{1, 2, 3, 1 | 32})}, allKinds[:1]),
		mk("client", true, false, 2, []int{2 | 8, 31}, allKinds[:2]),
	}
	if c.Thorough() {
		for i := 0; i < 8; i++ {
			tls := r.Bool()
			ins = append(ins, mk(gen.Pick(r, []string{"client", "both"}), tls, tls && r.Bool(), r.Range(1, 3), []int{r.Range(1, 127), r.Range(0, 127), r.Range(1, 63)}, allKinds))
		}
	}
	return ins
}

func c05Files(in c05In, dir string) (map[string][]byte, []string) {
	files := map[string][]byte{}
	var paths []string
	for i, s := range in.Suites {
		suite := &conformancev1.TestSuite{Name: s.Name, ReliesOnTls: s.TLS, ReliesOnTlsClientCerts: s.Certs, Mode: conformancev1.TestSuite_TestMode(s.SuiteMode)}
		for _, p := range s.Protos {
			suite.RelevantProtocols = append(suite.RelevantProtocols, conformancev1.Protocol(p))
		}
		for _, t := range s.Tests {
			req := &conformancev1.ClientCompatRequest{TestName: t.Name, StreamType: conformancev1.StreamType(t.St)}
			if s.Tmpl != 0 && (s.Tmpl&64 == 0 || len(suite.TestCases)%2 == 0) {
				c05StaleTemplate(req, s.Tmpl)
			}
			suite.TestCases = append(suite.TestCases, &conformancev1.TestCase{Request: req})
		}
		b, _ := protojson.Marshal(suite)
		p := filepath.Join(dir, fmt.Sprintf("suite%d.yaml", i))
		switch in.Layout {
		case "samebase", "copy", "twice":
			// every suite in a directory of its own, all files with the same name
			p = filepath.Join(dir, fmt.Sprintf("d%d", i), "basic.yaml")
		case "rel", "mixed":
			// a path relative to the working directory (mixed: every other one)
			if cwd, err := os.Getwd(); err == nil && (in.Layout == "rel" || i%2 == 1) {
				if r, err := filepath.Rel(cwd, filepath.Join(dir, fmt.Sprintf("d%d", i%2), fmt.Sprintf("s%d.yaml", i/2))); err == nil {
					p = r
				}
			} else {
				p = filepath.Join(dir, fmt.Sprintf("d%d", i%2), fmt.Sprintf("s%d.yaml", i/2))
			}
		}
		files[p] = b
		paths = append(paths, p)
		if i == 0 && in.Layout == "copy" {
			// the first suite once more, in another file: two suites of one name
			q := filepath.Join(dir, "again", "basic.yaml")
			files[q] = b
			paths = append(paths, q)
		}
	}
	if in.Layout == "twice" && len(paths) > 0 {
		paths = append(paths, paths[0]) // the same path given twice: one suite
	}
	return files, paths
}

func c05ReadLogs(dir, prefix string) []map[string]any {
	var out []map[string]any
	matches, _ := filepath.Glob(filepath.Join(dir, prefix+"-*.jsonl"))
	sort.Strings(matches)
	for _, m := range matches {
		data, _ := os.ReadFile(m)
		for _, l := range strings.Split(string(data), "\n") {
			if l == "" {
				continue
			}
			var rec map[string]any
			if json.Unmarshal([]byte(l), &rec) == nil {
				out = append(out, rec)
			}
		}
	}
	return out
}

func c05Run(c *gen.Ctx, in c05In) c05Out {
	dir := filepath.Join(c.WorkDir, fmt.Sprintf("c05-%d-%d", os.Getpid(), c05Seq.Add(1)))
	os.MkdirAll(dir, 0o755)
	defer os.RemoveAll(dir)
	files, paths := c05Files(in, dir)
	for p, b := range files {
		os.MkdirAll(filepath.Dir(p), 0o755)
		os.WriteFile(p, b, 0o644)
	}
	cfg := c05CfgYAML(in)
	cfgPath := filepath.Join(dir, "cfg.yaml")
	os.WriteFile(cfgPath, []byte(cfg), 0o644)
	self, _ := os.Executable()
	flags := &cc.Flags{ConfigFile: cfgPath, TestFiles: paths, MaxServers: uint(in.MaxServers), Parallelism: 4, ServerBind: "127.0.0.1",
		RunPatterns: in.Run, SkipPatterns: in.Skip, Verbose: in.Verbose}
	opCertPath, opKeyPath := filepath.Join(dir, "operator-cert.pem"), filepath.Join(dir, "operator-key.pem")
	var opCertFp string
	if in.OpCert {
		certPEM, keyPEM := c05OperatorPair()
		os.WriteFile(opCertPath, certPEM, 0o644)
		os.WriteFile(opKeyPath, keyPEM, 0o600)
		flags.TLSCertFile, flags.TLSKeyFile = opCertPath, opKeyPath
		opCertFp = c05CertFp(certPEM)
	}
	flags.ClientCommand = []string{self, "c05peer", "client", dir, fmt.Sprint(in.LatencyMs)}
	if in.ClientStopHow != "" {
		flags.ClientCommand = append(flags.ClientCommand, fmt.Sprint(in.ClientStopAfter), in.ClientStopHow)
	}
	delays := fmt.Sprint(in.ExitDelayMs)
	maxDelay := in.ExitDelayMs
	if len(in.ExitDelays) > 0 {
		parts := make([]string, len(in.ExitDelays))
		maxDelay = 0
		for i, d := range in.ExitDelays {
			parts[i] = fmt.Sprint(d)
			if d > maxDelay {
				maxDelay = d
			}
		}
		delays = strings.Join(parts, ",")
	}
	mode := conformancev1.TestSuite_TEST_MODE_CLIENT
	serverGRPC := true
	if in.Mode == "both" {
		beh := in.Behaviour
		if beh == "" {
			beh = "ok"
		}
		flags.ServerCommand = []string{self, "c05peer", "server", dir, delays, beh}
		mode = conformancev1.TestSuite_TEST_MODE_UNSPECIFIED
		serverGRPC = false
	}
	var out c05Out
	out.OpCertFp = opCertFp
	perms, err := cc.VerifC05Perms(files, cfg, mode, false, serverGRPC)
	if err == nil {
		out.Perms = perms
		out.Base, err = cc.VerifC05Library(files, cfg, mode)
	}
	if err != nil {
		// the suite set (all files given) or the configuration is not acceptable: the run is made all the
		// same — it must hand out nothing
		out.LoadErr = err.Error()
		out.Perms, out.Base = []cc.VerifC05Perm{}, []cc.VerifC05Perm{}
	}
	t0 := time.Now()
	done := make(chan error, 1)
	var runErr error
	timeout := in.TimeoutS
	if timeout <= 0 || timeout > 600 {
		timeout = 90
	}
	var cliCmd *exec.Cmd
	var cliErr bytes.Buffer
	if in.Cli != nil && in.Cli.Port {
		// a port that is free right now
		if ln, err := net.Listen("tcp", "127.0.0.1:0"); err == nil {
			out.FixedPort = ln.Addr().(*net.TCPAddr).Port
			ln.Close()
		}
	}
	if in.Cli != nil {
		// the real command: cmd/connectconformance (flag parsing, --port / --max-servers, the split
		// of the positional arguments at "----")
		args := []string{"--mode", map[bool]string{true: "both", false: "client"}[in.Mode == "both"], "--conf", cfgPath}
		for _, p := range paths {
			args = append(args, "--test-file", p)
		}
		switch in.Cli.MaxServers {
		case "flag":
			args = append(args, "--max-servers", fmt.Sprint(in.MaxServers))
		case "eq":
			args = append(args, fmt.Sprintf("--max-servers=%d", in.MaxServers))
		}
		spell := func(flag string, pats, how []string) {
			k := 0
			for fi, h := range how {
				if k >= len(pats) {
					break
				}
				if n, err := strconv.Atoi(strings.TrimPrefix(h, "F")); strings.HasPrefix(h, "F") && err == nil && n > 0 {
					if k+n > len(pats) {
						n = len(pats) - k
					}
					f := filepath.Join(dir, fmt.Sprintf("%s-%d.txt", strings.TrimPrefix(flag, "--"), fi))
					os.WriteFile(f, []byte("# patterns\n"+strings.Join(pats[k:k+n], "\n")+"\n"), 0o644)
					args = append(args, flag, "@"+f)
					k += n
					continue
				}
				args = append(args, flag, pats[k])
				k++
			}
			for ; k < len(pats); k++ {
				args = append(args, flag, pats[k])
			}
		}
		spell("--run", in.Run, in.Cli.RunSpell)
		spell("--skip", in.Skip, in.Cli.SkipSpell)
		if in.Verbose {
			args = append(args, "-v")
		}
		if in.OpCert {
			args = append(args, "--cert", opCertPath, "--key", opKeyPath)
		}
		if in.Mode != "both" {
			args = append(args, "--bind", "127.0.0.1")
			if in.Cli.Port {
				args = append(args, "--port", fmt.Sprint(out.FixedPort))
			}
		}
		args = append(args, "--")
		args = append(args, flags.ClientCommand...)
		if in.Mode == "both" {
			args = append(args, "----")
			args = append(args, flags.ServerCommand...)
		}
		cliCmd = exec.Command(filepath.Join(c.BinDir, "connectconformance"), args...)
		cliCmd.Env = append(os.Environ(), "VERIF_C05_PROBE=1")
		cliCmd.Stdout, cliCmd.Stderr = io.Discard, &cliErr
		cliCmd.SysProcAttr = &syscall.SysProcAttr{Setpgid: true}
		if err := cliCmd.Start(); err != nil {
			out.LoadErr = "start: " + err.Error()
			return out
		}
		go func() { done <- cliCmd.Wait() }()
	} else {
		go func() {
			_, err := cc.Run(flags, &c02Printer{}, &c02Printer{})
			done <- err
		}()
	}
	// the watchdog counts ticks this process has received, not wall-clock time (see cc.VerifDog)
	dog := cc.VerifNewDog(timeout)
	defer dog.Stop()
	select {
	case runErr = <-done:
		out.Returned = true
		// "every started server is stopped, and the run terminates": at the very moment Run returns,
		// none of the server processes it started may still be running
		out.AliveAtReturn = c05AliveServers(dir)
	case <-dog.C:
		out.AliveAtReturn = []int{}
		// Run hangs: its goroutines are lost, its peers must not stay behind
		if cliCmd != nil {
			_ = syscall.Kill(-cliCmd.Process.Pid, syscall.SIGKILL)
			out.ExitCode = -1
		}
		c05KillScenario(dir)
	}
	if cliCmd != nil && out.Returned {
		if ee, ok := runErr.(*exec.ExitError); ok {
			out.ExitCode = ee.ExitCode()
		}
		// a bind failure is set aside only when the port is held by somebody else: the command has
		// ended, so have its servers; if the port can be bound now, the runner's own servers collided
		if strings.Contains(cliErr.String(), "address already in use") && out.FixedPort != 0 {
			if ln, err := net.Listen("tcp", fmt.Sprintf("127.0.0.1:%d", out.FixedPort)); err != nil {
				out.PortTaken = true
			} else {
				ln.Close()
			}
		}
		if out.ExitCode != 0 {
			out.Stderr = c04Tail(cliErr.String(), 300)
		}
	}
	out.ElapsedS = time.Since(t0).Seconds()
	if len(out.AliveAtReturn) > 0 {
		// do not leak them, and let them write their stop records
		for deadline := time.Now().Add(time.Duration(maxDelay)*time.Millisecond + 8*time.Second); time.Now().Before(deadline) && len(c05AliveServers(dir)) > 0; {
			time.Sleep(20 * time.Millisecond)
		}
		for _, pid := range c05AliveServers(dir) {
			syscall.Kill(pid, syscall.SIGKILL)
		}
	}
	if runErr != nil {
		out.RunErr = runErr.Error()
		if i := strings.IndexByte(out.RunErr, '\n'); i > 0 {
			out.RunErr = out.RunErr[:i]
		}
	}
	out.Requests = []map[string]any{}
	for _, rec := range c05ReadLogs(dir, "cli") {
		if rec["ev"] == "breakdown" {
			out.Breakdown = true
			continue
		}
		out.Requests = append(out.Requests, rec)
	}
	out.Servers = c05ReadLogs(dir, "srv")
	if out.Servers == nil {
		out.Servers = []map[string]any{}
	}
	return out
}

// ---- generator ----

// c05FateScenarios: plaintext suites with 3 or 5 server instances of 3 permutations each.
func c05FateScenarios(c *gen.Ctx) []any {
	r := c.R
	suite := []c05Suite{{Name: "F", Tests: []c05Test{{Name: "a/t0", St: 1}, {Name: "a/t1", St: 1}, {Name: "b/t2", St: 1}}}}
	base := func(five bool, ms int) c05In {
		in := c05In{Mode: "both", MaxServers: ms, Versions: []int{2}, Protos: []int{1, 2, 3}, Behaviour: "ok", Run: []string{}, Skip: []string{}, Suites: suite}
		if five {
			in.Versions = []int{1, 2}
		}
		return in
	}
	var ins []any
	add := func(in c05In) {
		if in.TimeoutS == 0 {
			// far below the time-out of the whole harness, far above what the slowest legitimate course
			// takes (a client that died silently is noticed by the 20 s response time-out)
			in.TimeoutS = 45
		}
		ins = append(ins, in)
		c.E.Count("fate:" + in.Behaviour + ":" + in.ClientStopHow)
	}
	// a client that breaks down while two (three) batches are in flight: the batch whose server
	// stops first frees a slot, the dispatcher finds the client gone and gives up — while the other
	// servers are still shutting down
	stop := func(five bool, ms int, delays []int, how string, after int) c05In {
		in := base(five, ms)
		in.ExitDelays, in.ClientStopHow, in.ClientStopAfter = delays, how, after
		return in
	}
	add(stop(true, 2, []int{300, 2000}, "unknown", 2))
	add(stop(false, 2, []int{2000, 300}, "garbage", 1))
	add(stop(true, 3, []int{300, 1500, 2500}, "dup", 3))
	add(stop(false, 2, []int{300, 2000}, gen.Pick(r, []string{"exit0", "exit3"}), 2))
	add(stop(false, 1, []int{300, 1000}, "unknown", 1)) // a single slot: nothing else is in flight
	add(stop(true, 4, []int{400, 1200}, "unknown", 0))  // broken before the first request
	vb := stop(true, 2, []int{300, 2000}, "unknown", r.Range(1, 2))
	vb.Verbose = true
	add(vb)
	// a client process that is GONE while the runner still has requests to hand out: it exits at
	// start-up, or after it has answered a whole batch (so that the next batch, started when the slot
	// is free again, writes to a dead process), or it dies (exit 0 / 3, SIGKILL) right after it has
	// read its k-th request, answering nothing.  Every write to the dead process must come back (as
	// an error), the remaining permutations are recorded as not run, every started server is stopped
	// and Run returns.  A single slot (requests go out one after the other) and several (concurrent
	// senders).  The watchdog is far below the time-out of the whole harness.  (A client that dies
	// silently while nothing more is written to it is only noticed when the 20 s response time-out
	// fires: os/exec's Wait does not return while its stdin copier sits in a read of the runner's
	// pipe.  That is slow, not wrong; the scenarios here make the runner write again.)
	gone := func(five bool, ms int, delays []int, how string, after int) c05In {
		in := stop(five, ms, delays, how, after)
		in.TimeoutS = 30
		return in
	}
	add(gone(false, 2, []int{300, 1000}, "exit0", 0))
	add(gone(true, 3, []int{0, 400}, "exit3", 0))
	add(gone(false, 1, []int{300}, gen.Pick(r, []string{"exit0", "exit3"}), 3))
	add(gone(true, 2, []int{200, 900}, "exit3", 6))
	if c.Thorough() {
		// whether a write meets the dead process here is a race: if none does, the scenario takes 20 s
		g := gone(false, 2, []int{300, 1200}, gen.Pick(r, []string{"readkill", "readexit3", "readexit0"}), 2)
		g.TimeoutS = 70
		add(g)
	}
	// servers that read their input to its end before they answer, through the whole Run
	eof := base(true, 2)
	eof.Behaviour, eof.ExitDelayMs = "eof", 20
	add(eof)
	eofTLS := c05In{Mode: "both", MaxServers: gen.Pick(r, []int{1, 4}), ExitDelayMs: 0, Versions: []int{1, 2}, Protos: []int{1, 3}, TLS: true, Certs: true, Behaviour: "eof",
		Run: []string{}, Skip: []string{"**/a/t1"}, Suites: []c05Suite{{Name: "P", Tests: suite[0].Tests}, {Name: "T", TLS: true, Certs: true, Tests: suite[0].Tests[:2]}}}
	add(eofTLS)
	eofStop := stop(false, 2, []int{300, 1500}, "unknown", 2)
	eofStop.Behaviour = "eof"
	add(eofStop)
	n := 0
	if c.Thorough() {
		n = 40
	}
	for i := 0; i < n; i++ {
		ms := r.Range(1, 4)
		in := stop(r.Bool(), ms, [][]int{{300, 2000}, {2000, 300}, {100, 900, 1800}, {0, 1500}, {700}}[r.Intn(5)],
			gen.Pick(r, []string{"unknown", "unknown", "garbage", "dup", "exit0", "exit3", "readexit0", "readexit3", "readkill"}), r.Range(0, 10))
		in.LatencyMs = gen.Pick(r, []int{0, 0, 2, 10})
		in.TimeoutS = 70
		in.Verbose = r.Bool()
		if in.ClientStopHow == "dup" && in.ClientStopAfter == 0 {
			in.ClientStopAfter = 1
		}
		if strings.HasPrefix(in.ClientStopHow, "read") {
			in.ClientStopAfter %= 5 // it must die, not sit on its requests until the response time-out
		}
		if r.Chance(1, 3) {
			in.Behaviour = "eof"
		}
		if r.Chance(1, 4) {
			in.Run = []string{gen.Pick(r, []string{"**/a/*", "**/t0", "**/Protocol:PROTOCOL_GRPC/**"})}
		}
		add(in)
	}
	return ins
}

// c05NameScenarios: suites and test cases whose names repeat themselves — the test's own name is
// also the suite's name, a suffix or a word of it, a whole path component of it, or the text of one
// of the axis components every full name contains ("TLS", "false", "Protocol", "HTTPVersion:2") —
// run against the in-process reference servers (mode client: the gRPC-peer permutations and their
// marked names take part): every permutation, plain or gRPC-peer, must be handed out exactly once
// under its own name, the marker sitting immediately before the LAST occurrence of the test's name.
func c05NameScenarios(c *gen.Ctx) []any {
	mk := func(ms int, run, skip []string, suites ...c05Suite) any {
		c.E.Count("names")
		return c05In{Mode: "client", MaxServers: ms, Versions: []int{1, 2}, Protos: []int{1, 2, 3}, Behaviour: "ok", Run: run, Skip: skip, Suites: suites}
	}
	t := func(names ...string) []c05Test {
		var out []c05Test
		for _, n := range names {
			out = append(out, c05Test{Name: n, St: 1})
		}
		return out
	}
	ins := []any{
		mk(2, []string{}, []string{}, c05Suite{Name: "Echo unary", Tests: t("unary", "unary/with-headers", "Echo unary")}),
		mk(1, []string{}, []string{}, c05Suite{Name: "a", Tests: t("a", "a/a", "b/a")}, c05Suite{Name: "b", Tests: t("a")}),
		mk(4, []string{}, []string{"**/(grpc server impl)/TLS"}, c05Suite{Name: "TLS", Tests: t("TLS", "false", "TLS:false", "HTTPVersion:2", "Protocol")}),
	}
	if c.Thorough() {
		ins = append(ins,
			mk(2, []string{"**/unary", "**/(grpc server impl)/x/unary"}, []string{}, c05Suite{Name: "unary", Tests: t("unary", "x/unary", "unary/unary")}),
			mk(2, []string{}, []string{"**/a"}, c05Suite{Name: "a", Tests: t("a", "a/a/a", "Codec:CODEC_PROTO")}),
		)
	}
	return ins
}

// c05CertScenarios: whose certificate is it?  The client must be handed the certificate that the
// server at the address it is handed presents (the recording client dials every TLS request's
// host:port with crypto/tls and compares the leaf certificate), and none for a plaintext instance —
// with the key pair generated by the runner and with one the operator supplies (--cert / --key:
// the in-process reference server listens with it), TLS on / off, client certificates on / off;
// and with a server under test (mode both) that echoes the runner's credentials or presents a
// certificate of its own making (owncert), where the operator's files have no part.
func c05CertScenarios(c *gen.Ctx, allKinds []c05Suite) []any {
	r := c.R
	mk := func(mode string, op, tls, certs bool, ms int, beh string, run []string, suites []c05Suite) any {
		c.E.Count(fmt.Sprintf("cert:%s:%s:op=%v:tls=%v:certs=%v", mode, beh, op, tls, certs))
		return c05In{Mode: mode, MaxServers: ms, Versions: []int{1, 2}, Protos: []int{1, 2, 3}, TLS: tls, Certs: certs, OpCert: op,
			Behaviour: beh, Run: run, Skip: []string{}, Suites: suites}
	}
	ins := []any{
		mk("client", true, true, true, 2, "ok", []string{}, allKinds),
		mk("client", true, true, false, 1, "ok", []string{"**/TLS:true/**"}, allKinds[:2]),
		mk("client", false, true, true, gen.Pick(r, []int{1, 3}), "ok", []string{}, allKinds),
		mk("client", true, false, false, 2, "ok", []string{}, allKinds[:1]),
		mk("both", true, true, true, 2, "ok", []string{}, allKinds),
	}
	own := c05In{Mode: "both", MaxServers: 2, Versions: []int{2}, Protos: []int{1}, TLS: true, Certs: r.Bool(), OpCert: r.Bool(), Behaviour: "owncert",
		Run: []string{}, Skip: []string{}, Suites: allKinds[:2]}
	c.E.Count("cert:both:owncert")
	ins = append(ins, own)
	if c.Thorough() {
		for i := 0; i < 6; i++ {
			tls := r.Chance(3, 4)
			ins = append(ins, mk(gen.Pick(r, []string{"client", "client", "both"}), r.Chance(2, 3), tls, tls && r.Bool(), r.Range(1, 4), gen.Pick(r, []string{"ok", "ok", "eof"}),
				gen.Pick(r, [][]string{{}, {"**/a/*"}, {"T/**", "M/**"}}), allKinds))
		}
	}
	return ins
}

// c05CliScenarios (op cli): a handful of the scenarios of op run through the real command.
func c05CliScenarios(c *gen.Ctx) []any {
	r := c.R
	plain := []c05Suite{{Name: "F", Tests: []c05Test{{Name: "a/t0", St: 1}, {Name: "a/t1", St: 1}, {Name: "b/t2", St: 1}}}}
	kinds := []c05Suite{
		{Name: "P", Tests: []c05Test{{Name: "a/t0", St: 1}, {Name: "b/t1", St: 3}}},
		{Name: "T", TLS: true, Tests: []c05Test{{Name: "a/t0", St: 1}, {Name: "a/t1", St: 2}}},
		{Name: "M", TLS: true, Certs: true, Tests: []c05Test{{Name: "a/t0", St: 1}}},
	}
	var ins []any
	add := func(in c05In) {
		in.TimeoutS = 60
		if in.Run == nil {
			in.Run = []string{}
		}
		if in.Skip == nil {
			in.Skip = []string{}
		}
		ins = append(ins, in)
		c.E.Count("cli:" + in.Mode + ":" + in.Cli.MaxServers + map[bool]string{true: ":port", false: ""}[in.Cli.Port])
	}
	// mode both: `-- client … ---- server …`; --max-servers given in both spellings / left to its default (4)
	add(c05In{Mode: "both", MaxServers: 2, ExitDelayMs: 60, LatencyMs: 2, Versions: []int{1, 2}, Protos: []int{1, 2, 3}, Behaviour: "ok", Suites: plain, Cli: &c05Cli{MaxServers: "flag"}})
	add(c05In{Mode: "both", MaxServers: 4, ExitDelayMs: 120, LatencyMs: 5, Versions: []int{1, 2}, Protos: []int{1, 2, 3}, TLS: true, Certs: true, Behaviour: "ok", Suites: kinds, Cli: &c05Cli{MaxServers: "default"}})
	add(c05In{Mode: "both", MaxServers: 1, ExitDelayMs: 20, Versions: []int{1, 2}, Protos: []int{1, 3}, TLS: true, Behaviour: gen.Pick(r, []string{"ok", "eof"}), Suites: kinds[:2], Skip: []string{"**/b/*"}, Cli: &c05Cli{MaxServers: "eq"}})
	// mode client with a fixed port: several server instances (HTTP/1.1 and HTTP/2, three protocols; with
	// and without TLS), two in-process reference servers each — all of them on port P, hence one at a
	// time, whatever --max-servers defaults to; an explicit --max-servers 1 is accepted, 2 is refused
	add(c05In{Mode: "client", MaxServers: 4, Versions: []int{1, 2}, Protos: []int{1, 2, 3}, Behaviour: "ok", Suites: plain, Cli: &c05Cli{MaxServers: "default", Port: true}})
	add(c05In{Mode: "client", MaxServers: 1, Versions: []int{1, 2}, Protos: []int{1, 3}, TLS: true, Behaviour: "ok", Suites: kinds[:2], Cli: &c05Cli{MaxServers: gen.Pick(r, []string{"flag", "eq"}), Port: true}})
	add(c05In{Mode: "client", MaxServers: 2, Versions: []int{1, 2}, Protos: []int{1, 2}, Behaviour: "ok", Suites: plain, Cli: &c05Cli{MaxServers: "flag", Port: true}})
	// the operator's own key pair given as --cert / --key (mode client: the reference server listens with
	// it; mode both: it has no part): the client is handed the certificate its server presents
	add(c05In{Mode: "client", MaxServers: 2, Versions: []int{1, 2}, Protos: []int{1, 3}, TLS: true, Certs: true, OpCert: true, Behaviour: "ok", Suites: kinds, Cli: &c05Cli{MaxServers: "flag", Port: r.Bool()}})
	if c.Thorough() {
		add(c05In{Mode: "both", MaxServers: 2, Versions: []int{2}, Protos: []int{1, 2}, TLS: true, OpCert: true, Behaviour: "ok", Suites: kinds[:2], Cli: &c05Cli{MaxServers: "eq"}})
	}
	// the suite SET and the pattern SET the user gave: several --test-file arguments with equal file names
	// in different directories / relative and absolute paths / one path twice / one suite in two files
	// (refused: nothing handed out); --run / --skip as repeated flags mixing literals and @files (a
	// literal before, between and after a file; two files)
	two := []c05Suite{{Name: "P", Tests: plain[0].Tests}, {Name: "Q", Tests: []c05Test{{Name: "a/t0", St: 1}, {Name: "c/t3", St: 1}}}}
	add(c05In{Mode: "both", MaxServers: 2, ExitDelayMs: 20, Versions: []int{1, 2}, Protos: []int{1, 2}, Behaviour: "ok", Suites: two, Layout: "samebase",
		Run: []string{"P/**/a/t0", "Q/**", "**/b/*"}, Cli: &c05Cli{MaxServers: "flag", RunSpell: []string{"L", "F1", "L"}}})
	add(c05In{Mode: "both", MaxServers: 3, Versions: []int{2}, Protos: []int{1, 2, 3}, Behaviour: "ok", Suites: append(append([]c05Suite{}, two...), c05Suite{Name: "R", Tests: plain[0].Tests[:1]}), Layout: gen.Pick(r, []string{"mixed", "rel", "twice"}),
		Skip: []string{"**/a/t1", "Q/**/c/*", "R/**", "**/Protocol:PROTOCOL_GRPC_WEB/**"}, Cli: &c05Cli{MaxServers: "eq", SkipSpell: []string{"F1", "F2", "L"}}})
	add(c05In{Mode: "both", MaxServers: 2, Versions: []int{2}, Protos: []int{1}, Behaviour: "ok", Suites: two, Layout: "copy", Cli: &c05Cli{MaxServers: "flag"}})
	if c.Thorough() {
		for i := 0; i < 12; i++ {
			in := c05In{Mode: gen.Pick(r, []string{"both", "both", "client"}), MaxServers: r.Range(1, 4), ExitDelayMs: gen.Pick(r, []int{0, 20, 120}), LatencyMs: gen.Pick(r, []int{0, 2, 10}),
				Versions: [][]int{{1}, {1, 2}, {2}}[r.Intn(3)], Protos: [][]int{{1}, {1, 2, 3}, {1, 3}}[r.Intn(3)], Behaviour: "ok", Suites: gen.Pick(r, [][]c05Suite{plain, kinds[:2], kinds}),
				Cli: &c05Cli{MaxServers: gen.Pick(r, []string{"flag", "eq", "default"})}}
			hasV2 := false
			for _, v := range in.Versions {
				hasV2 = hasV2 || v == 2
			}
			if !hasV2 {
				in.Protos = []int{1, 3}
			}
			in.TLS = r.Bool()
			in.Certs = in.TLS && r.Bool()
			in.OpCert = r.Chance(1, 3)
			if in.Cli.MaxServers == "default" {
				in.MaxServers = 4
			}
			if in.Mode == "client" {
				in.ExitDelayMs = 0
				in.Cli.Port = r.Chance(2, 3)
			}
			if r.Chance(1, 3) {
				in.Run = []string{gen.Pick(r, []string{"**/a/*", "**/t0", "**/Protocol:PROTOCOL_GRPC_WEB/**"})}
			}
			add(in)
		}
	}
	return ins
}

func runC05(c *gen.Ctx) error {
	r := c.R
	n := 10
	if c.Thorough() {
		n = 150
	}
	var ins []any
	for k := 0; k < n; k++ {
		in := c05In{Mode: "both", MaxServers: gen.Pick(r, []int{1, 1, 2, 4}), ExitDelayMs: gen.Pick(r, []int{0, 20, 120}), LatencyMs: gen.Pick(r, []int{0, 2, 10}),
			Versions: [][]int{{1}, {1, 2}, {1, 2, 3}, {2}}[r.Intn(4)], Protos: [][]int{{1}, {1, 2}, {1, 2, 3}, {2, 3}}[r.Intn(4)], Behaviour: "ok"}
		in.TLS = r.Chance(1, 2)
		hasV := func(v int) bool {
			for _, x := range in.Versions {
				if x == v {
					return true
				}
			}
			return false
		}
		if hasV(3) {
			in.TLS = true // HTTP/3 needs TLS
		}
		if !hasV(2) {
			in.Protos = [][]int{{1}, {1, 3}, {3}}[r.Intn(3)] // gRPC needs HTTP/2
		}
		in.Certs = in.TLS && r.Bool()
		if k%4 == 3 {
			in.Mode = "client"
			in.ExitDelayMs = 0
		}
		if in.Mode == "both" && k%5 == 2 {
			in.Behaviour = gen.Pick(r, []string{"garbage", "nocert"})
		}
		ns := r.Range(1, 3)
		tricky := r.Chance(1, 3) // names whose components repeat (see c05NameScenarios)
		for s := 0; s < ns; s++ {
			su := c05Suite{Name: fmt.Sprintf("S%d", s)}
			if tricky {
				su.Name = []string{"Echo unary", "a", "TLS"}[s]
			}
			if r.Chance(1, 4) {
				su.TLS = true
			}
			if r.Chance(1, 6) {
				su.TLS, su.Certs = true, true
			}
			if r.Chance(1, 4) {
				su.Protos = [][]int{{1}, {2}, {2, 3}}[r.Intn(3)]
			}
			nt := r.Range(1, 4)
			for t := 0; t < nt; t++ {
				name := fmt.Sprintf("%s/t%d", gen.Pick(r, []string{"a", "b", "grp/x"}), t)
				if tricky {
					// the test's own name occurs earlier in the full name too: in the suite name, as a
					// suffix or a whole component of it, or in one of the axis components
					pool := []string{"unary", "a", "a/a", "TLS", "false", "Protocol", "TLS:false", su.Name, "x/" + su.Name, "unary/a", "HTTPVersion:2", "b"}
					name = pool[(r.Intn(len(pool))+t*5)%len(pool)]
					for _, prev := range su.Tests {
						if prev.Name == name {
							name = fmt.Sprintf("%s/t%d", name, t)
						}
					}
				}
				su.Tests = append(su.Tests, c05Test{Name: name, St: r.Range(1, 5)})
			}
			if r.Chance(1, 5) {
				su.Tmpl = r.Range(1, 127)
			}
			in.Suites = append(in.Suites, su)
		}
		// patterns derived from plausible names
		pat := func() string {
			if tricky && r.Bool() {
				return gen.Pick(r, []string{"**/unary", "Echo unary/**", "**/(grpc server impl)/a", "a/**", "**/TLS:false/TLS", "**/a"})
			}
			switch r.Intn(7) {
			case 0:
				return "S0/**"
			case 1:
				return "**/t0"
			case 2:
				return "**/a/*"
			case 3:
				return "**/Protocol:PROTOCOL_GRPC/**"
			case 4:
				return "**/TLS:true/**"
			case 5:
				return "**/(grpc server impl)/**"
			default:
				return "**/b/**"
			}
		}
		if ns > 1 && r.Chance(1, 3) {
			in.Layout = gen.Pick(r, []string{"samebase", "samebase", "mixed", "rel", "twice", "copy"})
		}
		in.Run, in.Skip = []string{}, []string{}
		if r.Chance(1, 2) {
			for i := r.Range(1, 2); i > 0; i-- {
				in.Run = append(in.Run, pat())
			}
		}
		if r.Chance(1, 2) {
			in.Skip = append(in.Skip, pat())
		}
		// the operator's own key pair: the reference server's listener in mode client, no part in mode both
		in.OpCert = (in.Mode == "client" && in.TLS && r.Bool()) || r.Chance(1, 5)
		if in.OpCert {
			c.E.Count("opcert:" + in.Mode + fmt.Sprintf(":tls=%v:certs=%v", in.TLS, in.Certs))
		}
		ins = append(ins, in)
	}
	// fixed coverage scenarios: every instance kind in one run (plaintext, TLS, TLS + client certs),
	// and patterns that tell the gRPC-peer permutations (marked names) from the plain ones
	allKinds := []c05Suite{
		{Name: "P", Tests: []c05Test{{Name: "a/t0", St: 1}, {Name: "b/t1", St: 3}}},
		{Name: "T", TLS: true, Tests: []c05Test{{Name: "a/t0", St: 1}, {Name: "a/t1", St: 2}}},
		{Name: "M", TLS: true, Certs: true, Tests: []c05Test{{Name: "a/t0", St: 1}}},
	}
	for _, ms := range []int{1, 3} {
		ins = append(ins, c05In{Mode: "both", MaxServers: ms, ExitDelayMs: 20, LatencyMs: 2, Versions: []int{1, 2}, Protos: []int{1, 2, 3}, TLS: true, Certs: true,
			Behaviour: "ok", Run: []string{}, Skip: []string{}, Suites: allKinds})
	}
	markerPats := [][2][]string{
		{{"**/(grpc server impl)/**"}, {}},
		{{}, {"**/(grpc server impl)/**"}},
		{{"**/TLS:false/a/t0"}, {}},
		{{"P/**"}, {"**/(grpc server impl)/b/*"}},
		{{"**/(grpc server impl)/a/t0", "T/**"}, {"**/Protocol:PROTOCOL_GRPC_WEB/**"}},
	}
	for i, mp := range markerPats {
		if !c.Thorough() && i%2 == int(c.Seed%2) && i > 1 {
			continue
		}
		ins = append(ins, c05In{Mode: "client", MaxServers: 2, Versions: []int{1, 2}, Protos: []int{1, 2, 3}, TLS: true, Certs: false,
			Behaviour: "ok", Run: mp[0], Skip: mp[1], Suites: allKinds[:2]})
	}
	ins = append(ins, c05NameScenarios(c)...)
	ins = append(ins, c05CertScenarios(c, allKinds)...)
	ins = append(ins, c05TmplScenarios(c, allKinds)...)
	// the suite set as given in files (Flags.TestFiles): equal file names in different directories, a suite in two files
	for _, layout := range []string{"samebase", "copy"} {
		ins = append(ins, c05In{Mode: "both", MaxServers: 2, ExitDelayMs: 0, Versions: []int{1, 2}, Protos: []int{1, 3}, Behaviour: "ok", Run: []string{}, Skip: []string{},
			Layout: layout, Suites: []c05Suite{{Name: "P", Tests: []c05Test{{Name: "a/t0", St: 1}, {Name: "b/t1", St: 3}}}, {Name: "Q", Tests: []c05Test{{Name: "a/t0", St: 1}}}}})
	}
	// server faults with slow-exiting servers and a single permit: the early-return paths of the
	// batch runner must not free the permit while the aborted server is still alive
	for _, beh := range []string{"garbage", "nocert"} {
		ins = append(ins, c05In{Mode: "both", MaxServers: 1, ExitDelayMs: 150, Versions: []int{1, 2}, Protos: []int{1, 2, 3}, TLS: true, Behaviour: beh,
			Run: []string{}, Skip: []string{}, Suites: []c05Suite{{Name: "S0", Tests: []c05Test{{Name: "a/t0", St: 1}, {Name: "a/t1", St: 3}}}}})
	}
	// process fates (op "fate"): the handshake with servers that read their input to its end, and a
	// client that breaks down mid-run while several batches are in flight whose servers need different
	// times to stop — when Run returns, no server it started may still be running.
	// a real server process that ignores SIGTERM must still be stopped (killed) before the batch
	// returns its --max-servers slot (osserver).
	// All operations run side by side (the scenarios that may end in a watchdog first): what a hang
	// in the code under test costs is one watchdog, not one per group.
	var opsOf []string
	var all []any
	group := func(op string, xs []any) {
		for _, x := range xs {
			opsOf = append(opsOf, op)
			all = append(all, x)
		}
	}
	group("fate", c05FateScenarios(c))
	if c.BinDir != "" {
		group("cli", c05CliScenarios(c))
	}
	group("shared", c05SharedScenarios(c))
	group("osserver", oscmdServerScenarios(c)[2:])
	group("handshake", c05HandshakeScenarios(c))
	group("run", ins)
	group("fill", c05FillScenarios())
	c.DoParallelOps(opsOf, all, 8)
	return nil
}
