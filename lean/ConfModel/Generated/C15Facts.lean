/- Generated from the working tree by `verifharness c15facts` (internal/tracer constants). Do not edit. -/
namespace ConfModel.Generated.C15Facts

def clientPreface : List UInt8 := [80, 82, 73, 32, 42, 32, 72, 84, 84, 80, 47, 50, 46, 48, 13, 10, 13, 10, 83, 77, 13, 10, 13, 10]
def frameHeaderLen : Nat := 9
def retryWaitMs : Nat := 3000
def traceTimeoutMs : Nat := 5000

/-- Go kind: uint32 -/
def ftExpectingBits : Nat := 32
def ftExpectingSigned : Bool := false
/-- Go kind: uint64 -/
def ftActualBits : Nat := 64
def ftActualSigned : Bool := false
/-- Go kind: uint32 -/
def frameLengthBits : Nat := 32
def frameLengthSigned : Bool := false
/-- http2.ReadFrameHeader on length bytes ff ff ff -/
def maxWireFrameLen : Nat := 16777215

end ConfModel.Generated.C15Facts
