/-
Declarative specification of suite expansion (property C07), written without the loops of
test_case_library.go: which (suite, config case, test) triples have a permutation, what its name
spells, what its request carries, what "grouped under exactly one server instance" means, and
which suite definitions are well-formed.  Every predicate is decidable (the driver evaluates
them on the implementation's output).
-/
import ConfModel.Model.Library
namespace ConfModel.Library
open ConfModel.Config

/-- the suite's mode admits the run mode -/
def ModeAdmits (s : Suite) (mode : Mode) : Prop := s.mode = .unspec ∨ s.mode = mode

instance (s : Suite) (m : Mode) : Decidable (ModeAdmits s m) := by unfold ModeAdmits; infer_instance

/-- an omitted relevant list admits every real value, a given one exactly its members -/
def Relevant {α} (l all : List α) (x : α) : Prop := x ∈ (if l = [] then all else l)

instance {α} [DecidableEq α] (l all : List α) (x : α) : Decidable (Relevant l all x) := by
  unfold Relevant; infer_instance

/-- "A permutation of a test case exists for a config case exactly when …" (the part that does
not mention the test): mode, relevant protocols / versions / codecs / compressions, TLS reliance,
client certificates / GET / receive limit / connect-version mode exactly as relied on; the case
has a real stream type. -/
def Admits (s : Suite) (mode : Mode) (c : Case) : Prop :=
  ModeAdmits s mode ∧
  Relevant s.protocols realProtos c.p ∧ Relevant s.versions realVers c.v ∧
  Relevant s.codecs realCodecs c.c ∧ Relevant s.comps realComps c.z ∧
  (s.reliesOnTls = true → c.tls = true) ∧
  c.certs = s.reliesOnCerts ∧ c.get = s.reliesOnGet ∧ c.limit = s.reliesOnLimit ∧ c.cvm = s.cvm ∧
  c.s ≠ .unspec

instance (s : Suite) (m : Mode) (c : Case) : Decidable (Admits s m c) := by unfold Admits; infer_instance

/-- the name components for the axes the suite leaves open: a component is present exactly when
the corresponding relevant list does not have exactly one element (TLS: when the suite does not
rely on it) -/
def openAxes (s : Suite) (c : Case) : List String :=
  [(decide (s.versions.length ≠ 1), "HTTPVersion:" ++ toString c.v.num),
   (decide (s.protocols.length ≠ 1), "Protocol:" ++ c.p.str),
   (decide (s.codecs.length ≠ 1), "Codec:" ++ c.c.str),
   (decide (s.comps.length ≠ 1), "Compression:" ++ c.z.str),
   (decide (s.reliesOnTls = false), "TLS:" ++ boolStr c.tls)].filterMap
    fun (x : Bool × String) => if x.1 then some x.2 else none

/-- suite / open axes … / test -/
def specName (join : List String → String) (s : Suite) (c : Case) (t : Test) : String :=
  join ([s.name] ++ openAxes s c ++ [t.name])

/-- what the request of the permutation carries: the case's version, protocol, codec, compression;
the TLS markers (server-certificate placeholder iff the case uses TLS, client-credential
placeholders iff it also uses client certificates); service and method; the receive limit the
runner always sets -/
def specPerm (join : List String → String) (s : Suite) (c : Case) (t : Test) : Perm :=
  { fullName := specName join s c t, simpleName := t.name,
    v := c.v, p := c.p, c := c.c, z := c.z, st := t.st,
    serverCert := c.tls, clientCreds := c.tls && c.certs,
    service := if t.service = "" ∧ t.method = "" then serviceName else t.service,
    method := if t.service = "" ∧ t.method = "" then defaultMethod t.st else t.method,
    rawRequest := t.rawRequest, rawResponse := t.rawResponse,
    certText := if c.tls then placeholder else "",
    credsText := if c.tls ∧ c.certs then placeholder ++ "|" ++ placeholder else "",
    recvLimit := clientReceiveLimit,
    suite := s.name, case := c, test := t }

/-- all permutations, by comprehension over suites × given cases × tests -/
def specList (join : List String → String) (suites : List Suite) (cases : List Case) (mode : Mode) : List Perm :=
  suites.flatMap fun s =>
  (cases.filter fun c => decide (Admits s mode c)).flatMap fun c =>
  (s.tests.filter fun t => decide (t.st = c.s)).map fun t => specPerm join s c t

/-- the documented misconfigurations of a suite: client certificates without TLS; Connect GET or a
connect-version mode with relevant protocols other than exactly Connect -/
def Misconfigured (s : Suite) : Prop :=
  (s.reliesOnCerts = true ∧ s.reliesOnTls = false) ∨
  ((s.reliesOnGet = true ∨ s.cvm ≠ .unspec) ∧ ¬ (s.protocols ≠ [] ∧ ∀ p ∈ s.protocols, p = Proto.connect))

instance (s : Suite) : Decidable (Misconfigured s) := by unfold Misconfigured; infer_instance

/-- service and method are given together or not at all -/
def ServiceMethodOk (t : Test) : Prop := (t.service = "" ↔ t.method = "")

instance (t : Test) : Decidable (ServiceMethodOk t) := by unfold ServiceMethodOk; infer_instance

/-- no relevant list of the suite lists the value the case has on that axis twice -/
def NoRepeat (s : Suite) (c : Case) : Prop :=
  s.protocols.count c.p ≤ 1 ∧ s.versions.count c.v ≤ 1 ∧ s.codecs.count c.c ≤ 1 ∧ s.comps.count c.z ≤ 1

instance (s : Suite) (c : Case) : Decidable (NoRepeat s c) := by unfold NoRepeat; infer_instance

/-- The suite definitions are well-formed relative to a run: suites are named (distinctly) and
non-empty; a suite taking part is not misconfigured; where it meets a config case every test has
a name and a stream type, the tests of that stream type have service and method given together,
and — when there is such a test — no relevant list repeats the case's value (the code would look
the case up twice and define every permutation twice); and no two permutations spell the same
name.  `newLibrary_accepts_iff` (Props/C07) proves that this is exactly what the code accepts. -/
def WellFormed (join : List String → String) (suites : List Suite) (cases : List Case) (mode : Mode) : Prop :=
  (∀ s ∈ suites, s.name ≠ "" ∧ s.tests ≠ []) ∧
  (suites.map (·.name)).Nodup ∧
  (∀ s ∈ suites, ModeAdmits s mode → ¬ Misconfigured s) ∧
  (∀ s ∈ suites, ∀ c ∈ cases, Admits s mode c →
    (∀ t ∈ s.tests, t.name ≠ "" ∧ t.st ≠ .unspec ∧ (t.st = c.s → ServiceMethodOk t)) ∧
    ((∃ t ∈ s.tests, t.st = c.s) → NoRepeat s c)) ∧
  ((specList join suites cases mode).map (·.fullName)).Nodup

instance (join : List String → String) (suites : List Suite) (cases : List Case) (mode : Mode) :
    Decidable (WellFormed join suites cases mode) := by unfold WellFormed; infer_instance

/-! ### when names cannot collide -/

/-- the '/'-separated segments of a name -/
def segments (x : String) : List (List Char) := splitSlash x.toList

/-- a path segment `path.Clean` leaves alone: not empty, not `.`, not `..` -/
def CleanSeg (seg : List Char) : Prop := seg ≠ [] ∧ seg ≠ ['.'] ∧ seg ≠ ['.', '.']

instance (seg : List Char) : Decidable (CleanSeg seg) := by unfold CleanSeg; infer_instance

/-- a name `path.Join` does not rewrite: every segment is clean (so: not empty, no leading,
trailing or doubled slash, no `.` or `..` segment) -/
def CleanName (x : String) : Prop := ∀ seg ∈ segments x, CleanSeg seg

instance (x : String) : Decidable (CleanName x) := by unfold CleanName; infer_instance

/-- The condition under which full names identify definitions: every suite name and every test
name is clean, and no suite name is, segment-wise, a proper prefix of another suite's name
(`a` and `a/b`: test `b/c` of the first and test `c` of the second would both be `a/b/c`). -/
def NamesClean (suites : List Suite) : Prop :=
  (∀ s ∈ suites, CleanName s.name ∧ ∀ t ∈ s.tests, CleanName t.name) ∧
  (∀ s₁ ∈ suites, ∀ s₂ ∈ suites, segments s₁.name <+: segments s₂.name → s₁.name = s₂.name)

instance (suites : List Suite) : Decidable (NamesClean suites) := by unfold NamesClean; infer_instance

/-- no definition is duplicated: suite names differ and, inside a suite, test names differ -/
def DefinitionsDistinct (suites : List Suite) : Prop :=
  (suites.map (·.name)).Nodup ∧ ∀ s ∈ suites, (s.tests.map (·.name)).Nodup

instance (suites : List Suite) : Decidable (DefinitionsDistinct suites) := by
  unfold DefinitionsDistinct; infer_instance

/-- "grouped under exactly one server instance": the buckets have distinct keys, every
permutation name sits in exactly one bucket, exactly once, that bucket's key is the permutation's
(protocol, version, TLS, client-certificate) projection, and buckets hold nothing else. -/
def GroupedOnce (perms : List (String × ServerKey)) (groups : List (ServerKey × List String)) : Prop :=
  (groups.map (·.1)).Nodup ∧
  (∀ x ∈ perms, ∀ g ∈ groups, (x.1 ∈ g.2 ↔ g.1 = x.2) ∧ (g.1 = x.2 → g.2.count x.1 = 1)) ∧
  (∀ x ∈ perms, ∃ g ∈ groups, g.1 = x.2) ∧
  (∀ g ∈ groups, ∀ n ∈ g.2, ∃ x ∈ perms, x.1 = n)

instance (perms : List (String × ServerKey)) (groups : List (ServerKey × List String)) :
    Decidable (GroupedOnce perms groups) := by unfold GroupedOnce; infer_instance

/-- where raw payloads are allowed: a raw request only in server-mode suites, a raw response only
in client-mode suites and only with an explicit expected response -/
def RawPayloadsOk (suites : List Suite) : Prop :=
  ∀ s ∈ suites, ∀ t ∈ s.tests,
    (t.rawRequest = true → s.mode = .server) ∧
    (t.rawResponse = true → s.mode = .client ∧ t.hasExpected = true)

instance (suites : List Suite) : Decidable (RawPayloadsOk suites) := by unfold RawPayloadsOk; infer_instance

/-- Which permutations also run against the grpc-go reference peers: never Connect; with the
gRPC client only gRPC; gRPC-Web over HTTP/1.1 or HTTP/2 and everything else over HTTP/2 only;
proto codec; identity or gzip; no TLS; no raw request with the gRPC client and no raw response
with the gRPC server. -/
def GrpcPeerApplicable (client server : Bool) (q : Perm) : Prop :=
  q.p ≠ .connect ∧ (client = true → q.p = .grpc) ∧
  (if q.p = .grpcWeb then (q.v = .v1 ∨ q.v = .v2) else q.v = .v2) ∧
  q.c = .proto ∧ (q.z = .identity ∨ q.z = .gzip) ∧ q.serverCert = false ∧
  (client = true → q.rawRequest = false) ∧ (server = true → q.rawResponse = false)

instance (cl sv : Bool) (q : Perm) : Decidable (GrpcPeerApplicable cl sv q) := by
  unfold GrpcPeerApplicable; infer_instance

/-- names of the permutations run against the gRPC peers: the marker is inserted before the
test's own name -/
def markedNames (client server : Bool) (perms : List Perm) : List String :=
  (perms.filter fun q => decide (GrpcPeerApplicable client server q)).map fun q =>
    addMarker q.fullName q.simpleName client server

/-- names `allPermutations(client, server)` must return -/
def specAllNames (client server : Bool) (perms : List Perm) : List String :=
  perms.map (·.fullName) ++ (if client then markedNames true false perms else []) ++
  (if server then markedNames false true perms else []) ++
  (if client && server then markedNames true true perms else [])

end ConfModel.Library
