/-
Model of the glue around ONE call of the reference client in reference mode, and of a HISTORY of
calls in one process (`internal/app/referenceclient/impl.go`: `doUnary` / `serverStream` ...,
`invoker.withWireCapture`, `invoker.examineWireDetails`; `wire_details.go`: `withWireCapture`,
`wireCaptureTransport.RoundTrip`, `wireReader`, `examineWireDetails`):

  ctx = withWireCapture(ctx)          -- a buffer for the body of this call
  stub(ctx, request)                  -- wireReader appends every chunk read to that buffer
  examineWireDetails(ctx, printer)    -- the examiner reads the buffer (as far as its decoder gets)

What the process keeps between two calls is the parameter `S` of the model: the code as it is keeps
nothing (`fresh`: `&bytes.Buffer{}` per call). Counter-models: buffers recycled through a pool
without / with a reset.
-/
import ConfModel.Model.Capture
namespace ConfModel.Session
open ConfModel.Capture (Bytes)

/-- what the glue does with the capture buffer before and after a call; `S`: the state the
process keeps between calls -/
structure Glue (S : Type) where
  /-- `withWireCapture`: the buffer this call captures into -/
  acquire : S → Bytes × S
  /-- after `examineWireDetails`: what becomes of the buffer (its unread rest) -/
  release : Bytes → S → S

/-- One completed call: the response `r`, its body arriving in `chunks`.
`examine r captured` = (feedback, the bytes of the buffer the examiner's reader left unread). -/
def call {S R F : Type} (g : Glue S) (examine : R → Bytes → F × Bytes) (s : S) (r : R)
    (chunks : List Bytes) : F × S :=
  let a := g.acquire s
  let st := chunks.foldl Capture.read { buf := a.1, delivered := [] }
  let e := examine r st.buf
  (e.1, g.release e.2 a.2)

/-- a history of calls in one process: the feedback of each call -/
def run {S R F : Type} (g : Glue S) (examine : R → Bytes → F × Bytes) : S → List (R × List Bytes) → List F
  | _, [] => []
  | s, c :: t =>
    let o := call g examine s c.1 c.2
    o.1 :: run g examine o.2 t

/-- the same response as the only call: the examiner on exactly its body -/
def alone {R F : Type} (examine : R → Bytes → F × Bytes) (c : R × List Bytes) : F :=
  (examine c.1 c.2.flatten).1

/-- the code as it is: a new `bytes.Buffer` per call, nothing kept -/
def fresh : Glue Unit := { acquire := fun _ => ([], ()), release := fun _ s => s }

/-- counter-model: buffers recycled through a pool, returned as they are -/
def pooled : Glue (List Bytes) :=
  { acquire := fun s => match s with | [] => ([], []) | b :: t => (b, t),
    release := fun rest s => rest :: s }

/-- a pool whose buffers are reset on return -/
def pooledReset : Glue (List Bytes) :=
  { acquire := fun s => match s with | [] => ([], []) | b :: t => (b, t),
    release := fun _ s => [] :: s }

/-- every state reachable hands out empty buffers -/
def Clean {S : Type} (g : Glue S) (inv : S → Prop) : Prop :=
  ∀ s, inv s → (g.acquire s).1 = [] ∧ ∀ rest, inv (g.release rest (g.acquire s).2)

end ConfModel.Session
