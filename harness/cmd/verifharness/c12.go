package main

// C12 — reference server checks (referenceServerChecks, extractTimeout) driven in memory.
//
// ops
//   timeout : {proto, connect:[hex], grpc:[hex]}  -> extractTimeout on a header map
//   checks  : {reqs:[request], stderr}           -> a fresh handler instance serving the requests in order;
//                                                    stderr=true: the checks print through internal.NewPrinter
//                                                    (as in run()) and every line of that stream is attributed
//                                                    by the real runTestCasesForServer (c12Attribute)
//   matrix  : {e:[7], a:[7], v:[3], name}         -> the request a conformant client sends for actual
//                                                    aspects a (variant v) carrying the runner's
//                                                    expectation headers for e, served by a fresh handler
//   render  : {e, a, v, name}                     -> that request itself (ties the Go renderer to Lean's)
//   real    : see c12real.go                      -> the real server createServer builds, over real connections
//
// Feedback messages are mapped to a small enum of classes by anchored regular expressions.

import (
	"crypto/tls"
	"crypto/x509"
	"crypto/x509/pkix"
	"encoding/hex"
	"encoding/json"
	"io"
	"net/http"
	"net/http/httptest"
	"net/url"
	"regexp"
	"sort"
	"strconv"
	"strings"
	"sync"

	cc "connectrpc.com/conformance/internal/app/connectconformance"
	rs "connectrpc.com/conformance/internal/app/referenceserver"
	"connectrpc.com/conformance/internal/verifharness/gen"
)

func init() {
	areas["c12"] = runC12
	gen.RegisterOp("c12", "timeout", func(c *gen.Ctx, raw json.RawMessage) any {
		return c12Timeout(c, gen.Into[c12TimeoutIn](raw))
	})
	gen.RegisterOp("c12", "checks", func(c *gen.Ctx, raw json.RawMessage) any {
		in := gen.Into[c12ChecksIn](raw)
		return c12Serve(c, in.Reqs, in.Stderr, in.Traced)
	})
	gen.RegisterOp("c12", "matrix", func(c *gen.Ctx, raw json.RawMessage) any {
		in := gen.Into[c12MatrixIn](raw)
		r := c12Render(in)
		r.Body = in.Body
		return c12Serve(c, []c12Req{r}, false, in.Traced)
	})
	gen.RegisterOp("c12", "render", func(c *gen.Ctx, raw json.RawMessage) any {
		return c12Render(gen.Into[c12MatrixIn](raw))
	})
}

// ---------------------------------------------------------------- feedback classes

type c12Rule struct {
	re  *regexp.Regexp
	cls string // "$1" is replaced by the canonical form of the first group
}

var c12Rules = []c12Rule{
	{regexp.MustCompile(`^client sent another request \(#\d+\) for the same test case$`), "repeat"},
	{regexp.MustCompile(`^(\S+) header appears \d+ times; should appear just once$`), "dup:$1"},
	{regexp.MustCompile(`^(\S+) query string param appears \d+ times; should appear just once$`), "dupq:$1"},
	{regexp.MustCompile(`^invalid value for "Grpc-Timeout" header: ""$`), "timeout-empty"},
	{regexp.MustCompile(`^invalid value for "([^"]+)" header: -?\d+ is not in range$`), "range:$1"},
	{regexp.MustCompile(`(?s)^invalid value for "([^"]+)" header: ".*": .*$`), "badvalue:$1"},
	{regexp.MustCompile(`^invalid expected HTTP version -?\d+$`), "bad-expected-version"},
	{regexp.MustCompile(`^expected HTTP version \d+; instead got \d+$`), "version"},
	{regexp.MustCompile(`(?s)^could not determine protocol from content-type ".*"$`), "protocol-unknown"},
	{regexp.MustCompile(`^expected protocol \S+; instead got \S+$`), "protocol"},
	{regexp.MustCompile(`^gRPC protocol client should use 'te: trailers' header`), "te"},
	{regexp.MustCompile(`^invalid expected codec -?\d+$`), "bad-expected-codec"},
	{regexp.MustCompile(`^content-type header should not appear with method GET$`), "get-content-type"},
	{regexp.MustCompile(`^GET methods should not have a request body$`), "get-body"},
	{regexp.MustCompile(`^encoding query parameter is missing$`), "encoding-missing"},
	{regexp.MustCompile(`(?s)^expected codec \S+; instead got .*$`), "codec"},
	{regexp.MustCompile(`^invalid expected compression -?\d+$`), "bad-expected-compression"},
	{regexp.MustCompile(`(?s)^expected compression \S+; instead got .*$`), "compression"},
	{regexp.MustCompile(`^expecting TLS request but instead was plain-text$`), "tls-expected"},
	{regexp.MustCompile(`^expecting plain-text request but instead was TLS$`), "plain-expected"},
	{regexp.MustCompile(`(?s)^expecting client cert ".*", instead was ".*"$`), "client-cert"},
	{regexp.MustCompile(`(?s)^expected HTTP method ".*", got ".*"$`), "method"},
	{regexp.MustCompile(`^request should NOT include any HTTP trailers \(\d+ trailer keys found\)$`), "trailers"},
	{regexp.MustCompile(`(?s)^invalid numeric value (for|in) "(?:Connect-Timeout-Ms|Grpc-Timeout)" header: ".*"$`), "timeout-numeric"},
	{regexp.MustCompile(`(?s)^invalid numeric value \(>\d+ digits\) in "(?:Connect-Timeout-Ms|Grpc-Timeout)" header: ".*"$`), "timeout-digits"},
	{regexp.MustCompile(`(?s)^invalid unit in "Grpc-Timeout" header: ".*"$`), "timeout-unit"},
}

func c12Class(msg string) string {
	for _, r := range c12Rules {
		if m := r.re.FindStringSubmatch(msg); m != nil {
			if strings.Contains(r.cls, "$1") {
				name := m[1]
				if strings.HasPrefix(r.cls, "dupq:") {
					return strings.Replace(r.cls, "$1", name, 1)
				}
				return strings.Replace(r.cls, "$1", http.CanonicalHeaderKey(name), 1)
			}
			return r.cls
		}
	}
	return "other:" + msg
}

// classes of the lines and whether every line was feedback prefixed with the test name
func c12Classes(c *gen.Ctx, lines []rs.VerifC12Line, name string) ([]string, bool) {
	out := []string{}
	named := true
	for _, l := range lines {
		cls := c12Class(l.Msg)
		out = append(out, cls)
		if i := strings.IndexByte(cls, ':'); i >= 0 {
			c.E.Count("fb:" + cls[:i])
		} else {
			c.E.Count("fb:" + cls)
		}
		if !l.Prefixed || l.Prefix != name {
			named = false
		}
	}
	return out, named
}

// ---------------------------------------------------------------- timeout op

type c12TimeoutIn struct {
	Proto   int32    `json:"proto"`
	Connect []string `json:"connect"` // hex values of Connect-Timeout-Ms
	Grpc    []string `json:"grpc"`    // hex values of Grpc-Timeout
}

type c12TimeoutOut struct {
	OK          bool     `json:"ok"`
	Ns          string   `json:"ns"`
	Ms          *string  `json:"ms"`
	Fb          []string `json:"fb"`
	Named       bool     `json:"named"`
	ConnectLeft int      `json:"connectLeft"`
	GrpcLeft    int      `json:"grpcLeft"`
}

func c12Unhex(xs []string) []string {
	var out []string
	for _, x := range xs {
		b, err := hex.DecodeString(x)
		if err != nil {
			panic(err)
		}
		out = append(out, string(b))
	}
	return out
}

func c12Timeout(c *gen.Ctx, in c12TimeoutIn) c12TimeoutOut {
	h := http.Header{}
	if len(in.Connect) > 0 {
		h["Connect-Timeout-Ms"] = c12Unhex(in.Connect)
	}
	if len(in.Grpc) > 0 {
		h["Grpc-Timeout"] = c12Unhex(in.Grpc)
	}
	const name = "T/timeout"
	d, ok, lines, ms := rs.VerifC12ExtractTimeout(h, in.Proto, name)
	var out c12TimeoutOut
	out.OK = ok
	out.Ns = strconv.FormatInt(int64(d), 10)
	if ms != nil {
		s := strconv.FormatInt(*ms, 10)
		out.Ms = &s
	}
	out.Fb, out.Named = c12Classes(c, lines, name)
	out.ConnectLeft = len(h.Values("Connect-Timeout-Ms"))
	out.GrpcLeft = len(h.Values("Grpc-Timeout"))
	if ok {
		c.E.Count("timeout:accepted")
	} else {
		c.E.Count("timeout:rejected-or-absent")
	}
	return out
}

// ---------------------------------------------------------------- checks op

type c12Req struct {
	Major     int         `json:"major"`
	Method    string      `json:"method"`
	Headers   [][2]string `json:"headers"`
	Query     [][2]string `json:"query"`
	TLS       int         `json:"tls"` // 0 plain, 1 TLS without peer certificate, 2 TLS with peer certificate CN
	CN        string      `json:"cn"`
	Trailers  int         `json:"trailers"`
	BodyEmpty bool        `json:"bodyEmpty"`
	// Body: 0 - as BodyEmpty says: no body at all (http.NoBody) / one byte; 3 - a body that is
	// there but empty (a reader at its end, not http.NoBody); BodyEmpty must be true then
	Body int `json:"body,omitempty"`
}

type c12ChecksIn struct {
	Reqs   []c12Req `json:"reqs"`
	Stderr bool     `json:"stderr,omitempty"`
	Traced bool     `json:"traced,omitempty"` // tracer.TracingHandler around the checks, as createServer installs it with a tracer
}

type c12MatrixIn struct {
	E    [7]int `json:"e"`
	A    [7]int `json:"a"`
	V    [3]int `json:"v"`
	Name string `json:"name"`
	// Traced: as in c12ChecksIn. Body: as in c12Req (3: the GET request carries an empty body
	// that is not http.NoBody)
	Traced bool `json:"traced,omitempty"`
	Body   int  `json:"body,omitempty"`
}

type c12Obs struct {
	Called bool        `json:"called"`
	Fb     []string    `json:"fb"`
	Named  bool        `json:"named"`
	Ms     *string     `json:"ms"`
	Seen   [][2]string `json:"seen"`
	Status int         `json:"status"`
	Error  bool        `json:"error"`
	Lines  [][3]string `json:"lines"` // stderr mode: (line as written, record | forward | skip | hang, test name it was recorded for)
}

// ---------------------------------------------------------------- the stderr stream and its reader

// c12Decoy is a test case of the same batch that the request at hand is not about.
const c12Decoy = "C12/another case of the batch"

// c12Batch: the names of the test cases of a batch (what runTestCasesForServer is given),
// without duplicates, plus the decoy.
func c12Batch(names ...string) []string {
	out := []string{}
	seen := map[string]bool{"": true}
	for _, n := range append(names, c12Decoy) {
		if !seen[n] {
			seen[n] = true
			out = append(out, n)
		}
	}
	return out
}

var c12AttrMemo sync.Map // batch + line -> [3]string

// c12Attribute hands one line of a reference server's stderr stream to the REAL reader of that
// stream: runTestCasesForServer (server_runner.go) run by the C11 wrapper on a scripted server
// process of a batch with the given test names whose stderr is that line. Result: the line was
// recorded as feedback for test case `to` with message msg (results.recordSideband), forwarded
// to the user as noise, or skipped.
func c12Attribute(batch []string, line string) (kind, to, msg string) {
	key := strings.Join(batch, "\x00") + "\x00\x00" + line
	if v, ok := c12AttrMemo.Load(key); ok {
		a := v.([3]string)
		return a[0], a[1], a[2]
	}
	cases := make([]cc.VerifC11Case, len(batch))
	for i := range cases {
		cases[i] = cc.VerifC11Case{K: "pass"}
	}
	obs := cc.VerifC11Run(cc.VerifC11Spec{Names: batch, Cases: cases, IsRef: true, Start: "ok", Write: "ok", Close: "ok",
		Resp: "ok", Dies: -1, RespLen: cc.VerifC11RespLen(), Stderr: line + "\n"})
	switch {
	case obs.Hang || !obs.StderrEOF:
		kind = "hang"
	case len(obs.Sideband) == 1 && len(obs.Forwarded) == 0:
		kind, to, msg = "record", obs.Sideband[0][0], obs.Sideband[0][1]
	case len(obs.Sideband) == 0 && len(obs.Forwarded) == 1:
		kind = "forward"
	case len(obs.Sideband) == 0 && len(obs.Forwarded) == 0:
		kind = "skip"
	default:
		kind = "hang"
	}
	c12AttrMemo.Store(key, [3]string{kind, to, msg})
	return kind, to, msg
}

// c12ReadStderr reads a stderr stream the way the runner does, line by line: the messages
// (with the test case they were recorded for) for c12Classes, and the raw lines with what the
// runner made of them.
func c12ReadStderr(batch []string, stderr string) (lines []rs.VerifC12Line, raw [][3]string) {
	raw = [][3]string{}
	for _, l := range strings.Split(stderr, "\n") {
		if l == "" {
			continue
		}
		kind, to, msg := c12Attribute(batch, l)
		raw = append(raw, [3]string{l, kind, to})
		if kind == "record" {
			// the runner trims the line; the message is classified with the white space it was written with
			if full, ok := strings.CutPrefix(l, to+": "); ok && strings.TrimSpace(full) == msg {
				msg = full
			}
			lines = append(lines, rs.VerifC12Line{Prefixed: true, Prefix: to, Msg: msg})
		} else {
			lines = append(lines, rs.VerifC12Line{Msg: l})
		}
	}
	return lines, raw
}

func c12Build(r c12Req) *http.Request {
	target := "/connectrpc.conformance.v1.ConformanceService/Unary"
	if len(r.Query) > 0 {
		var parts []string
		for _, kv := range r.Query {
			parts = append(parts, url.QueryEscape(kv[0])+"="+url.QueryEscape(kv[1]))
		}
		target += "?" + strings.Join(parts, "&")
	}
	var body io.Reader
	if !r.BodyEmpty {
		body = strings.NewReader("x")
	} else if r.Body == 3 {
		body = strings.NewReader("")
	}
	req := httptest.NewRequest(http.MethodPost, target, body)
	req.Method = r.Method
	req.ProtoMajor, req.ProtoMinor = r.Major, 0
	req.Header = http.Header{}
	for _, kv := range r.Headers {
		req.Header[kv[0]] = append(req.Header[kv[0]], kv[1])
	}
	switch r.TLS {
	case 1:
		req.TLS = &tls.ConnectionState{}
	case 2:
		req.TLS = &tls.ConnectionState{PeerCertificates: []*x509.Certificate{{Subject: pkix.Name{CommonName: r.CN}}}}
	}
	if r.Trailers > 0 {
		req.Trailer = http.Header{}
		for i := 0; i < r.Trailers; i++ {
			req.Trailer["X-Trailer-"+strconv.Itoa(i)] = []string{"v"}
		}
	}
	return req
}

func c12Name(r c12Req) string {
	for _, kv := range r.Headers {
		if kv[0] == "X-Test-Case-Name" {
			return kv[1]
		}
	}
	return ""
}

func c12Serve(c *gen.Ctx, reqs []c12Req, stderr, traced bool) []c12Obs {
	srv := rs.VerifC12NewServerOpts(stderr, traced)
	if traced {
		c.E.Count("handler:traced")
	} else {
		c.E.Count("handler:untraced")
	}
	var batch []string
	if stderr {
		var names []string
		for _, r := range reqs {
			names = append(names, c12Name(r))
		}
		batch = c12Batch(names...)
	}
	out := make([]c12Obs, 0, len(reqs))
	for _, r := range reqs {
		o := srv.Serve(c12Build(r))
		var obs c12Obs
		obs.Called = o.Called
		obs.Lines = [][3]string{}
		if stderr {
			o.Lines, obs.Lines = c12ReadStderr(batch, o.Stderr)
			c.E.Add("stderr-lines-read-by-the-real-runner", len(obs.Lines))
			if name := c12Name(r); !c12Attributable(name) {
				// a name the runner's "name: message" reading cannot carry: only what the SERVER does is
				// judged - every line it writes starts with the name and ": "
				o.Lines = nil
				for _, raw := range obs.Lines {
					if msg, ok := strings.CutPrefix(raw[0], name+": "); ok && name != "" {
						o.Lines = append(o.Lines, rs.VerifC12Line{Prefixed: true, Prefix: name, Msg: msg})
					} else {
						o.Lines = append(o.Lines, rs.VerifC12Line{Msg: raw[0]})
					}
				}
				c.E.Count("checks:name-the-runner-cannot-carry")
			}
		}
		obs.Fb, obs.Named = c12Classes(c, o.Lines, c12Name(r))
		if o.TimeoutMs != nil {
			s := strconv.FormatInt(*o.TimeoutMs, 10)
			obs.Ms = &s
		}
		obs.Seen = [][2]string{}
		keys := make([]string, 0, len(o.Seen))
		for k := range o.Seen {
			keys = append(keys, k)
		}
		sort.Strings(keys)
		for _, k := range keys {
			for _, v := range o.Seen[k] {
				obs.Seen = append(obs.Seen, [2]string{k, v})
			}
		}
		obs.Status = o.Status
		obs.Error = o.ErrorResponse
		if len(obs.Fb) == 0 {
			c.E.Count("checks:no-feedback")
		} else {
			c.E.Count("checks:feedback")
		}
		out = append(out, obs)
	}
	return out
}

// ---------------------------------------------------------------- rendering a conformant client

var (
	c12Methods = []string{"POST", "GET"}
	c12Codecs  = []string{"proto", "json"}
	c12Comps   = []string{"identity", "gzip", "br", "zstd", "deflate", "snappy"}
)

const c12ClientCert = "Conformance Client"

// aspects: [version 0..2, method 0..1, protocol 0..2, codec 0..1, compression 0..5, tls 0..1, cert 0..1]
// variant: [stream, explicitIdentity, bareGrpc]
func c12Render(in c12MatrixIn) c12Req {
	e, a, v := in.E, in.A, in.V
	var r c12Req
	r.Major = a[0] + 1
	r.Method = c12Methods[a[1]]
	add := func(k, val string) { r.Headers = append(r.Headers, [2]string{k, val}) }
	// what the runner adds (server_runner.go)
	add("X-Test-Case-Name", in.Name)
	add("X-Expect-Http-Version", strconv.Itoa(e[0]+1))
	add("X-Expect-Http-Method", c12Methods[e[1]])
	add("X-Expect-Protocol", strconv.Itoa(e[2]+1))
	add("X-Expect-Codec", strconv.Itoa(e[3]+1))
	add("X-Expect-Compression", strconv.Itoa(e[4]+1))
	add("X-Expect-Tls", strconv.FormatBool(e[5] == 1))
	if e[6] == 1 {
		add("X-Expect-Client-Cert", c12ClientCert)
	}
	codec, comp := c12Codecs[a[3]], c12Comps[a[4]]
	announced := a[4] != 0 || v[1] == 1
	r.Query = [][2]string{}
	if a[1] == 1 { // GET
		r.Query = append(r.Query, [2]string{"connect", "v1"}, [2]string{"encoding", codec}, [2]string{"message", ""})
		if announced {
			r.Query = append(r.Query, [2]string{"compression", comp})
		}
		r.BodyEmpty = true
	} else {
		switch a[2] {
		case 0:
			if v[0] == 1 {
				add("Content-Type", "application/connect+"+codec)
			} else {
				add("Content-Type", "application/"+codec)
			}
		case 1:
			if v[2] == 1 && a[3] == 0 {
				add("Content-Type", "application/grpc")
			} else {
				add("Content-Type", "application/grpc+"+codec)
			}
		case 2:
			if v[2] == 1 && a[3] == 0 {
				add("Content-Type", "application/grpc-web")
			} else {
				add("Content-Type", "application/grpc-web+"+codec)
			}
		}
		if announced {
			switch {
			case a[2] == 0 && v[0] == 1:
				add("Connect-Content-Encoding", comp)
			case a[2] == 0:
				add("Content-Encoding", comp)
			default:
				add("Grpc-Encoding", comp)
			}
		}
		if a[2] == 1 {
			add("Te", "trailers")
		}
	}
	if a[5] == 1 {
		r.TLS = 1
		if a[6] == 1 {
			r.TLS = 2
			r.CN = c12ClientCert
		}
	}
	return r
}

var c12Dims = [7]int{3, 2, 3, 2, 6, 2, 2}

func c12Tuple(i int) [7]int {
	var t [7]int
	for k := 6; k >= 0; k-- {
		t[k] = i % c12Dims[k]
		i /= c12Dims[k]
	}
	return t
}

func c12Realisable(a [7]int) bool { return (a[1] == 0 || a[2] == 0) && (a[6] == 0 || a[5] == 1) }

// ---------------------------------------------------------------- generator

func c12Hex(s string) string { return hex.EncodeToString([]byte(s)) }

func c12Words(alphabet []string, maxLen int, f func(string)) {
	var rec func(prefix string, n int)
	rec = func(prefix string, n int) {
		f(prefix)
		if n == maxLen {
			return
		}
		for _, a := range alphabet {
			rec(prefix+a, n+1)
		}
	}
	rec("", 0)
}

func runC12(c *gen.Ctx) error {
	r := c.R
	to := func(proto int32, connect, grpc []string) {
		in := c12TimeoutIn{Proto: proto, Connect: []string{}, Grpc: []string{}}
		for _, s := range connect {
			in.Connect = append(in.Connect, c12Hex(s))
		}
		for _, s := range grpc {
			in.Grpc = append(in.Grpc, c12Hex(s))
		}
		c.Do("timeout", in)
	}
	both := func(s string) {
		to(1, []string{s}, nil)
		to(2, nil, []string{s})
	}

	// (ii.a) all strings over a 10-letter alphabet up to length 4 (quick) / 5 (thorough);
	// quick adds a seeded sample of the length-5 strings
	alpha := []string{"0", "1", "9", "+", "-", " ", "H", "S", "m", "x"}
	maxLen := 4
	if c.Thorough() {
		maxLen = 5
	}
	c12Words(alpha, maxLen, func(s string) {
		both(s)
		if len(s) <= 3 {
			to(3, nil, []string{s})
		}
		c.E.Count("kind:timeout-exhaustive")
	})
	if !c.Thorough() {
		for i := 0; i < 15000; i++ {
			var sb strings.Builder
			for k := 0; k < 5; k++ {
				sb.WriteString(gen.Pick(r, alpha))
			}
			both(sb.String())
			c.E.Count("kind:timeout-len5-sample")
		}
	}
	// (ii.b) digit strings of length 1..12 over {0,9}, bare and with every unit
	units := []string{"H", "M", "S", "m", "u", "n"}
	c12Words([]string{"0", "9"}, 12, func(s string) {
		if s == "" {
			return
		}
		if !c.Thorough() && len(s) > 9 && r.Intn(4) != 0 {
			return
		}
		to(1, []string{s}, nil)
		to(2, nil, []string{s})
		u := units[len(s)%6]
		to(2, nil, []string{s + u})
		if len(s) >= 7 && len(s) <= 9 {
			for _, u := range units {
				to(3, nil, []string{s + u})
			}
		}
		c.E.Count("kind:timeout-digit-strings")
	})
	// (ii.c) boundaries per unit
	bounds := []int64{0, 1, 2562046, 2562047, 2562048, 2562049, 99999998, 99999999, 100000000, 100000001,
		153722867, 153722868, 9223372036, 9223372037, 9999999998, 9999999999, 10000000000, 10000000001,
		9223372036854775806, 9223372036854775807}
	for _, b := range bounds {
		s := strconv.FormatInt(b, 10)
		forms := []string{s, "0" + s, "00" + s, "+" + s, "-" + s, " " + s, s + " "}
		for len(s) < 8 {
			s = "0" + s
		}
		forms = append(forms, s, "0"+s)
		for len(s) < 10 {
			s = "0" + s
		}
		forms = append(forms, s, "0"+s)
		for _, f := range forms {
			to(1, []string{f}, nil)
			for _, u := range units {
				to(2, nil, []string{f + u})
				to(3, nil, []string{f + u})
			}
			c.E.Count("kind:timeout-boundary")
		}
	}
	for _, s := range []string{"9223372036854775808", "-9223372036854775808", "-9223372036854775809", "18446744073709551615",
		"18446744073709551616", "99999999999999999999999", "-0", "+0", "-00", "+", "-", "", "5\x00", "\xc8", "5\xc8", "5\xe2\x84\xaa", "１２"} {
		both(s)
		for _, u := range units {
			to(2, nil, []string{s + u})
		}
	}
	// every final byte as the unit
	for b := 0; b < 256; b++ {
		to(2, nil, []string{"5" + string([]byte{byte(b)})})
		to(1, []string{"5" + string([]byte{byte(b)})}, nil)
		to(1, []string{string([]byte{byte(b)}) + "5"}, nil)
	}
	// (ii.d) random: mostly near-valid values, several header values, other protocols
	nRand := 20000
	if c.Thorough() {
		nRand = 200000
	}
	rich := []string{"0", "1", "2", "5", "9", "0", "9", "+", "-", " ", "\t", "H", "M", "S", "m", "u", "n", "h", "s", "x", ".", "_", "e", "\x00", "\xff", "\xc3\xa9"}
	randVal := func() string {
		var sb strings.Builder
		switch r.Intn(4) {
		case 0: // digits + unit
			n := r.Range(0, 12)
			for k := 0; k < n; k++ {
				sb.WriteByte(byte('0' + r.Intn(10)))
			}
			if r.Intn(3) != 0 {
				sb.WriteString(gen.Pick(r, units))
			}
		case 1: // a number near a boundary
			b := gen.Pick(r, bounds) + int64(r.Range(-2, 2))
			sb.WriteString(strconv.FormatInt(b, 10))
			if r.Bool() {
				sb.WriteString(gen.Pick(r, units))
			}
		default:
			n := r.Range(0, 8)
			for k := 0; k < n; k++ {
				sb.WriteString(gen.Pick(r, rich))
			}
		}
		return sb.String()
	}
	for i := 0; i < nRand; i++ {
		proto := int32(gen.Pick(r, []int{1, 1, 2, 2, 3, 0, 4}))
		var cv, gv []string
		for k := r.Intn(3); k > 0; k-- {
			cv = append(cv, randVal())
		}
		for k := r.Intn(3); k > 0; k-- {
			gv = append(gv, randVal())
		}
		if len(cv) == 0 && len(gv) == 0 {
			gv = []string{randVal()}
			cv = []string{randVal()}
		}
		to(proto, cv, gv)
		c.E.Count("kind:timeout-random")
	}

	// matrix and checks ops are independent of each other: run them on 8 workers, in batches (the
	// lines are emitted in the order they were generated)
	var parOps []string
	var parIns []any
	flush := func() {
		if len(parIns) > 0 {
			c.DoParallelOps(parOps, parIns, 8)
			parOps, parIns = nil, nil
		}
	}
	par := func(op string, in any) {
		parOps, parIns = append(parOps, op), append(parIns, in)
		if len(parIns) >= 20000 {
			flush()
		}
	}

	// ---------------- expectation-header checks
	// (i.a) the renderer itself: every expected tuple, every actual tuple x variant
	for i := 0; i < 864; i++ {
		c.Do("render", c12MatrixIn{E: c12Tuple(i), A: c12Tuple((i * 7) % 864), V: [3]int{i % 2, (i / 2) % 2, (i / 4) % 2}, Name: "S/t" + strconv.Itoa(i)})
	}
	for i := 0; i < 864; i++ {
		for v := 0; v < 8; v++ {
			c.Do("render", c12MatrixIn{E: c12Tuple((i * 5) % 864), A: c12Tuple(i), V: [3]int{v & 1, (v >> 1) & 1, (v >> 2) & 1}, Name: "S/t"})
		}
	}
	// (i.b) the expected x actual matrix (complete in thorough, a seeded tenth in quick), the variant
	// rotating with the pair; plus every actual x every variant against itself and against every
	// single-aspect deviation of itself (all tiers)
	slice := int(c.Seed % 10)
	for ei := 0; ei < 864; ei++ {
		for ai := 0; ai < 864; ai++ {
			if !c.Thorough() && (ei*31+ai)%10 != slice {
				continue
			}
			v := (ei*13 + ai*7 + int(c.Seed)) % 8
			in := c12MatrixIn{E: c12Tuple(ei), A: c12Tuple(ai), V: [3]int{v & 1, (v >> 1) & 1, (v >> 2) & 1}, Name: "Suite/case-" + strconv.Itoa(ei%7)}
			// both configurations of the chain (with and without the tracing handler around the
			// checks), alternating; a GET with an empty body that is not http.NoBody now and then
			in.Traced = (ei+ai/3+int(c.Seed))%2 == 0
			if in.A[1] == 1 && (ei+ai)%3 == 0 {
				in.Body = 3
			}
			par("matrix", in)
			if c12Realisable(in.A) {
				c.E.Count("kind:matrix-realisable")
			} else {
				c.E.Count("kind:matrix-unrealisable-actual")
			}
		}
	}
	for ai := 0; ai < 864; ai++ {
		a := c12Tuple(ai)
		for v := 0; v < 8; v++ {
			vv := [3]int{v & 1, (v >> 1) & 1, (v >> 2) & 1}
			// the diagonal in both configurations of the chain; a GET also with an empty body that
			// is not http.NoBody
			par("matrix", c12MatrixIn{E: a, A: a, V: vv, Name: "Suite/same"})
			par("matrix", c12MatrixIn{E: a, A: a, V: vv, Name: "Suite/same", Traced: true})
			c.E.Count("kind:matrix-diagonal-traced")
			if a[1] == 1 {
				par("matrix", c12MatrixIn{E: a, A: a, V: vv, Name: "Suite/same", Traced: v%2 == 0, Body: 3})
			}
			for k := 0; k < 7; k++ {
				for d := 1; d < c12Dims[k]; d++ {
					e := a
					e[k] = (a[k] + d) % c12Dims[k]
					par("matrix", c12MatrixIn{E: e, A: a, V: vv, Name: "Suite/one-off", Traced: (ai+v+k+d)%2 == 0})
					c.E.Count("kind:matrix-single-deviation")
				}
			}
		}
	}
	// (i.c) sequences: repeated names, trailers, missing name, duplicated / malformed expectation
	// headers, timeouts inside the handler, perturbed renderings
	nSeq := 6000
	if c.Thorough() {
		nSeq = 60000
	}
	names := []string{"A/x", "A/y", "B", ""}
	badVals := []string{"", "0", "4", "7", "-1", "+1", "01", "x", "1 ", "2147483648", "99999999999", "true", "TRUE", "t", "F", "yes"}
	for i := 0; i < nSeq; i++ {
		n := r.Range(1, 4)
		var reqs []c12Req
		for k := 0; k < n; k++ {
			ai := r.Intn(864)
			a := c12Tuple(ai)
			e := a
			if r.Intn(3) == 0 {
				e = c12Tuple(r.Intn(864))
			}
			name := gen.Pick(r, names)
			if r.Intn(4) != 0 {
				name = names[0]
			}
			req := c12Render(c12MatrixIn{E: e, A: a, V: [3]int{r.Intn(2), r.Intn(2), r.Intn(2)}, Name: name})
			if name == "" && r.Bool() { // header absent rather than empty
				req.Headers = req.Headers[1:]
			}
			c12Perturb(r, &req, badVals)
			reqs = append(reqs, req)
		}
		par("checks", c12ChecksIn{Reqs: reqs, Traced: i%2 == 1})
		c.E.Count("kind:checks-sequence")
	}
	// (i.d) the same sequences with the printer of the real process (internal.NewPrinter around
	// the stderr stream) and the stream read by the real runner; test case names are arbitrary
	// strings (YAML): format verbs, colons, quotes, ...
	nErr := 1500
	if c.Thorough() {
		nErr = 15000
	}
	for i := 0; i < nErr; i++ {
		batchNames := []string{c12OddName(r, i), c12OddName(r, i+1), gen.Pick(r, names)}
		if i%5 == 4 { // names with ': ' inside, white space in front or at the end
			batchNames[0] = c12HardNames[(i/5)%len(c12HardNames)]
		}
		n := r.Range(1, 4)
		var reqs []c12Req
		for k := 0; k < n; k++ {
			a := c12Tuple(r.Intn(864))
			e := a
			switch r.Intn(4) {
			case 0:
				e = c12Tuple(r.Intn(864))
			case 1, 2: // one deviating aspect
				d := r.Intn(7)
				e[d] = (a[d] + 1) % c12Dims[d]
			}
			name := batchNames[0]
			if r.Intn(3) == 0 {
				name = gen.Pick(r, batchNames)
			}
			req := c12Render(c12MatrixIn{E: e, A: a, V: [3]int{r.Intn(2), r.Intn(2), r.Intn(2)}, Name: name})
			if r.Intn(3) == 0 {
				c12Perturb(r, &req, badVals)
			}
			reqs = append(reqs, req)
		}
		par("checks", c12ChecksIn{Reqs: reqs, Stderr: true, Traced: i%2 == 1})
		c.E.Count("kind:checks-sequence-stderr")
	}
	flush()
	// (i.e) overlapping requests on one handler instance, and whole stderr streams with lines of
	// any length read by the real runner (c12overlap.go)
	c12OverlapGen(c)
	c12StreamGen(c)
	c12ClientFbGen(c)
	// (iii) the real reference server as createServer builds it (c12real.go)
	c12RealGen(c)
	c12RealOverlapGen(c)
	return nil
}

// c12OddNames: test case names are free-form YAML strings; these carry everything that means
// something to a formatter, a line reader or a "name: message" splitter - except the separator
// ": " itself, a line break, and white space at the ends, which the runner's reading of the
// stream cannot survive by construction (checks/C12.json, assumptions).
var c12OddNames = []string{
	"Timeouts/HTTPVersion:1/deadline at 110%-of-timeout/unary", "100%", "%", "%%", "%%%", "50% off", "%d", "%s", "%v", "%q", "%x",
	"%!", "%!d(MISSING)", "a %s b %d c", "%[1]s", "%[2]d", "%[9]*.[8]*f", "%*d", "%.3f", "%+v", "%#v", "%T", "%c", "%U", "%5%", "%-8s|",
	"% d", "%w", "%!(EXTRA string=x)", "%!(NOVERB)", "100%/200%", "ends with %", "a:b", "a :b", "x::y", "trailing:", ":leading", "::",
	"quote\"d", "back\\slash", "\\n", "{brace}", "$dollar ${x}", "`tick`", "<a&b>", "tab\tinside", "two  spaces", "é%ü", "名前/%s", "#1", "*", "?", "[x]",
	"referenceserver", "referenceserver/x", "-", "0", strings.Repeat("long%", 40),
}

// c12Attributable: the runner's reading of a stderr line ("trim; split at the first ': '") gives
// back this test case name.
func c12Attributable(name string) bool {
	return !strings.Contains(name, ": ") && !strings.ContainsAny(name, "\n\r") && strings.TrimLeft(name, " \t\n\v\f\r") == name
}

// c12HardNames: names with the separator inside, white space in front or at the end.
var c12HardNames = []string{"a: b", "Suite: case/1", "x: y: z", ": ", "a: ", " leading", "\tleading tab", "trailing ", "trailing  ", "both ", "trail%s ", "100% ", "q: 100%d", "é: ü ", "ends with colon:", "colon:: twice"}

func c12OddName(r *gen.Rand, i int) string {
	if i%3 == 0 {
		return c12OddNames[(i/3)%len(c12OddNames)]
	}
	alpha := []string{"%", "%", "%", "s", "d", "v", "q", "x", "!", "(", ")", "[", "]", "1", "2", "9", "*", ".", "+", "-", "#", " ", ":", "/", "a", "Z", "_", "\\", "\"", "é"}
	var sb strings.Builder
	for k := r.Range(1, 14); k > 0; k-- {
		sb.WriteString(gen.Pick(r, alpha))
	}
	name := strings.TrimSpace(strings.ReplaceAll(sb.String(), ": ", ":_"))
	if name == "" {
		name = "%"
	}
	return name
}

// c12Perturb applies zero or more deviations a client (or a broken runner) could produce.
func c12Perturb(r *gen.Rand, req *c12Req, badVals []string) {
	for k := r.Intn(3); k > 0; k-- {
		switch r.Intn(12) {
		case 0:
			req.Trailers = r.Range(1, 3)
		case 1: // duplicate a header
			if len(req.Headers) > 0 {
				h := gen.Pick(r, req.Headers)
				if r.Bool() {
					h[1] = gen.Pick(r, badVals)
				}
				req.Headers = append(req.Headers, h)
			}
		case 2: // drop a header
			if len(req.Headers) > 1 {
				i := r.Range(1, len(req.Headers)-1)
				req.Headers = append(append([][2]string{}, req.Headers[:i]...), req.Headers[i+1:]...)
			}
		case 3: // malformed expectation value
			if len(req.Headers) > 1 {
				i := r.Range(1, len(req.Headers)-1)
				req.Headers[i][1] = gen.Pick(r, badVals)
			}
		case 4: // a timeout header (valid or not)
			vals := []string{"5", "0", "9999999999", "10000000000", "+5", "-0", "00000000005", "1S", "99999999H", "2562048H", "100000000S", "+5S", "000000005S", "5", "", "S", "5x", "5 S"}
			name := gen.Pick(r, []string{"Connect-Timeout-Ms", "Grpc-Timeout"})
			req.Headers = append(req.Headers, [2]string{name, gen.Pick(r, vals)})
			if r.Intn(4) == 0 {
				req.Headers = append(req.Headers, [2]string{name, gen.Pick(r, vals)})
			}
		case 5:
			req.Method = gen.Pick(r, []string{"GET", "POST", "PUT", "get"})
		case 6:
			req.BodyEmpty = !req.BodyEmpty
		case 7: // odd content type
			cts := []string{"application/grpc-web", "application/grpc+", "application/grpcx", "application/grpc-webx", "text/plain", "", "application/", "application/connect+", "Application/json", "application/grpc-web+proto", "application/connect+json", "application/proto; charset=utf-8"}
			set := false
			for i := range req.Headers {
				if req.Headers[i][0] == "Content-Type" {
					req.Headers[i][1] = gen.Pick(r, cts)
					set = true
				}
			}
			if !set {
				req.Headers = append(req.Headers, [2]string{"Content-Type", gen.Pick(r, cts)})
			}
		case 8: // query parameters
			req.Query = append(req.Query, [2]string{gen.Pick(r, []string{"encoding", "compression", "message"}), gen.Pick(r, []string{"proto", "json", "gzip", "identity", ""})})
		case 9:
			req.TLS = r.Intn(3)
			req.CN = gen.Pick(r, []string{c12ClientCert, "Other", ""})
		case 10:
			req.Major = r.Range(0, 4)
		case 11: // an encoding header that does not belong to the protocol
			req.Headers = append(req.Headers, [2]string{gen.Pick(r, []string{"Content-Encoding", "Connect-Content-Encoding", "Grpc-Encoding", "Te"}), gen.Pick(r, []string{"gzip", "identity", "br", "trailers", ""})})
		}
	}
}
