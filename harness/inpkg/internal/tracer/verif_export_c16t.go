//go:build verif

package tracer

import (
	"bytes"
	"errors"
	"net"
	"strconv"
	"strings"
	"sync"
	"time"

	"golang.org/x/net/http2"
	"golang.org/x/net/http2/hpack"
)

// C16, exactly-once completion on an HTTP/2 connection for EVERY Collector: the real
// TracingHTTP2Conn (with its http2RetryCollector) over a scripted net.Conn, a counting
// collector downstream, and every way of tearing the connection down (read error, write
// error, Close, in any order and multiplicity) around streams that are refused in a
// retryable way, retried or not.

type verifC16Delivery struct {
	Name string
	ID   string
	Err  string
}

type verifC16Counting struct {
	mu  sync.Mutex
	got []verifC16Delivery
}

func verifC16ErrKind(err error) string {
	var se http2.StreamError
	var ce http2.ConnectionError
	switch {
	case err == nil:
		return "nil"
	case errors.As(err, &se):
		switch se.Code {
		case http2.ErrCodeRefusedStream:
			return "refused"
		case http2.ErrCodeCancel:
			return "cancel"
		}
		return "stream" + strconv.Itoa(int(se.Code))
	case errors.As(err, &ce):
		return "goaway" + strconv.Itoa(int(http2.ErrCode(ce)))
	default:
		return "io"
	}
}

func (c *verifC16Counting) Complete(t Trace) {
	d := verifC16Delivery{Name: t.TestName, Err: verifC16ErrKind(t.Err)}
	if t.Request != nil {
		d.ID = t.Request.Header.Get("X-Verif-Id")
	}
	c.mu.Lock()
	c.got = append(c.got, d)
	c.mu.Unlock()
}

type verifC16TimeoutErr struct{}

func (verifC16TimeoutErr) Error() string   { return "verif: scripted timeout" }
func (verifC16TimeoutErr) Timeout() bool   { return true }
func (verifC16TimeoutErr) Temporary() bool { return true }

// verifC16Conn is the scripted inner connection.
type verifC16Conn struct {
	pending  []byte
	readErr  error
	writeErr error
	closeErr error
}

func (c *verifC16Conn) Read(p []byte) (int, error) {
	if len(c.pending) > 0 {
		n := copy(p, c.pending)
		c.pending = c.pending[n:]
		return n, nil
	}
	err := c.readErr
	c.readErr = nil
	if err == nil {
		err = verifC16TimeoutErr{}
	}
	return 0, err
}

func (c *verifC16Conn) Write(p []byte) (int, error) {
	if err := c.writeErr; err != nil {
		c.writeErr = nil
		return 0, err
	}
	return len(p), nil
}
func (c *verifC16Conn) Close() error                     { err := c.closeErr; c.closeErr = nil; return err }
func (c *verifC16Conn) LocalAddr() net.Addr              { return &net.TCPAddr{} }
func (c *verifC16Conn) RemoteAddr() net.Addr             { return &net.TCPAddr{} }
func (c *verifC16Conn) SetDeadline(time.Time) error      { return nil }
func (c *verifC16Conn) SetReadDeadline(time.Time) error  { return nil }
func (c *verifC16Conn) SetWriteDeadline(time.Time) error { return nil }

// VerifC16TeardownOut: the downstream Complete calls in order, each as [name, id, error kind].
type VerifC16TeardownOut struct {
	Deliveries [][]string `json:"deliveries"`
	// Busy is the longest stretch of the script between two timer waits (or its ends): if a
	// retry timer may have fired inside it, the run says nothing.
	Slow bool `json:"slow,omitempty"`
}

// VerifC16Teardown executes a script on one traced HTTP/2 connection.
//
//	o:<sid>:<name>   request HEADERS opening stream sid for the test name ("-": no test name)
//	q:<sid>          request side ends its stream (empty DATA, END_STREAM)
//	p:<sid>          response HEADERS with END_STREAM: the operation ends normally
//	f:<sid>          server refuses the stream: RST_STREAM(REFUSED_STREAM)
//	k:<sid>          server resets the stream: RST_STREAM(CANCEL);  kc:<sid> the client does
//	g:<last>:<code>  server sends GOAWAY(last stream id, error code)
//	re / rt          the next Read fails (rt: with a timeout, which the tracer must ignore)
//	we               the next Write fails
//	cl / ce          Close (ce: the inner Close fails too)
//	t                wait until every retry timer started so far has fired
func VerifC16Teardown(server bool, steps []string) VerifC16TeardownOut {
	inner := &verifC16Conn{}
	coll := &verifC16Counting{}
	conn := TracingHTTP2Conn(inner, server, coll)
	var reqBuf, respBuf bytes.Buffer
	reqFr, respFr := http2.NewFramer(&reqBuf, nil), http2.NewFramer(&respBuf, nil)
	var reqBlock, respBlock bytes.Buffer
	reqEnc, respEnc := hpack.NewEncoder(&reqBlock), hpack.NewEncoder(&respBlock)
	rbuf := make([]byte, 1<<14)
	// flush hands the bytes of each direction to the traced connection: the request side is
	// written by a client connection and read by a server connection, the response side the
	// other way round
	flush := func() {
		send := func(b *bytes.Buffer, written bool) {
			if b.Len() == 0 {
				return
			}
			data := append([]byte(nil), b.Bytes()...)
			b.Reset()
			if written {
				_, _ = conn.Write(data)
				return
			}
			inner.pending = append(inner.pending, data...)
			for len(inner.pending) > 0 {
				if _, err := conn.Read(rbuf); err != nil {
					break
				}
			}
		}
		send(&reqBuf, !server)
		send(&respBuf, server)
	}
	reqBuf.WriteString(clientPreface)
	_ = reqFr.WriteSettings()
	_ = respFr.WriteSettings()
	flush()
	var out VerifC16TeardownOut
	segment := time.Now()
	check := func() {
		if time.Since(segment) >= retryWait/3 {
			out.Slow = true
		}
	}
	num := func(s string) uint32 {
		n, _ := strconv.Atoi(s)
		return uint32(n)
	}
	ioErr := errors.New("verif: scripted i/o error")
	for _, st := range steps {
		f := strings.Split(st, ":")
		switch f[0] {
		case "o":
			reqBlock.Reset()
			fields := []hpack.HeaderField{
				{Name: ":method", Value: "POST"}, {Name: ":scheme", Value: "http"},
				{Name: ":path", Value: "/svc/Method"}, {Name: ":authority", Value: "verif"},
				{Name: "content-type", Value: "application/grpc"}, {Name: "x-verif-id", Value: f[1]},
			}
			if f[2] != "-" {
				fields = append(fields, hpack.HeaderField{Name: "x-test-case-name", Value: f[2]})
			}
			for _, fd := range fields {
				_ = reqEnc.WriteField(fd)
			}
			_ = reqFr.WriteHeaders(http2.HeadersFrameParam{StreamID: num(f[1]), BlockFragment: reqBlock.Bytes(), EndHeaders: true})
		case "q":
			_ = reqFr.WriteData(num(f[1]), true, nil)
		case "p":
			respBlock.Reset()
			_ = respEnc.WriteField(hpack.HeaderField{Name: ":status", Value: "200"})
			_ = respEnc.WriteField(hpack.HeaderField{Name: "grpc-status", Value: "0"})
			_ = respFr.WriteHeaders(http2.HeadersFrameParam{StreamID: num(f[1]), BlockFragment: respBlock.Bytes(), EndHeaders: true, EndStream: true})
		case "f":
			_ = respFr.WriteRSTStream(num(f[1]), http2.ErrCodeRefusedStream)
		case "k":
			_ = respFr.WriteRSTStream(num(f[1]), http2.ErrCodeCancel)
		case "kc":
			_ = reqFr.WriteRSTStream(num(f[1]), http2.ErrCodeCancel)
		case "g":
			_ = respFr.WriteGoAway(num(f[1]), http2.ErrCode(num(f[2])), nil)
		case "re":
			inner.readErr = ioErr
			_, _ = conn.Read(rbuf)
		case "rt":
			_, _ = conn.Read(rbuf)
		case "we":
			inner.writeErr = ioErr
			var ping bytes.Buffer
			_ = http2.NewFramer(&ping, nil).WritePing(false, [8]byte{1})
			_, _ = conn.Write(ping.Bytes())
		case "cl":
			_ = conn.Close()
		case "ce":
			inner.closeErr = ioErr
			_ = conn.Close()
		case "t":
			check()
			time.Sleep(retryWait + 400*time.Millisecond)
			// on an overloaded machine the timers' goroutines may lag: every entry that is
			// still held back now has a timer that is due, so wait (bounded) until none is left
			if tc, ok := conn.(*tracingHTTP2Conn); ok {
				for i := 0; i < 500; i++ {
					tc.collector.mu.Lock()
					n := len(tc.collector.waiting)
					tc.collector.mu.Unlock()
					if n == 0 {
						break
					}
					time.Sleep(10 * time.Millisecond)
				}
				time.Sleep(20 * time.Millisecond) // timesUp calls the collector right after its unlock
			}
			segment = time.Now()
		}
		flush()
	}
	check()
	coll.mu.Lock()
	out.Deliveries = [][]string{}
	for _, d := range coll.got {
		out.Deliveries = append(out.Deliveries, []string{d.Name, d.ID, d.Err})
	}
	coll.mu.Unlock()
	// release whatever timers are still running (after the observation)
	_ = conn.Close()
	return out
}
