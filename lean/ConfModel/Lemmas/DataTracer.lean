/-
Helper lemmas for C14 (model `ConfModel.DataTracer`, spec `ConfModel.Envelopes`).
-/
import ConfModel.Model.DataTracer
import ConfModel.Spec.Envelopes
namespace ConfModel.DataTracer

def Inv (s : St) : Prop :=
  s.pfx.length < 5 ∧ (s.expecting = 0 → s.actual = 0) ∧ (s.expecting ≠ 0 → s.actual < s.expecting ∧ s.pfx = [])

theorem inv_init : Inv init := by simp [Inv, init]

theorem inv_finishPrefix (c : Cfg) (s : St) (p : Bytes) (h : Inv s) (h0 : s.expecting = 0) :
    Inv (finishPrefix c s p).1 := by
  obtain ⟨_, h2, _⟩ := h
  have ha := h2 h0
  unfold finishPrefix
  simp only
  split
  · simp [Inv, ha]
  · rename_i hl
    simp [Inv, ha]
    omega

theorem inv_finishMsg (c : Cfg) (s : St) (p : Bytes) (h : Inv s) (he : s.expecting ≠ 0) :
    Inv (finishMsg c s p).1 := by
  have := (h.2.2 he).2
  simp [finishMsg, Inv, this]

theorem trace_unfold (c : Cfg) (fuel : Nat) (s : St) (data : Bytes) :
    trace c (fuel+1) s data =
    if data.isEmpty then (s, []) else
    if s.expecting = 0 then
      if data.length < 5 - s.pfx.length then ({ s with pfx := s.pfx ++ data }, [])
      else
        ((trace c fuel (finishPrefix c s (s.pfx ++ data.take (5 - s.pfx.length))).1 (data.drop (5 - s.pfx.length))).1,
         (finishPrefix c s (s.pfx ++ data.take (5 - s.pfx.length))).2 ++
         (trace c fuel (finishPrefix c s (s.pfx ++ data.take (5 - s.pfx.length))).1 (data.drop (5 - s.pfx.length))).2)
    else
      if data.length < s.expecting - s.actual then
        ({ s with actual := s.actual + data.length, eos := s.eos.map (· ++ data) }, [])
      else
        ((trace c fuel (finishMsg c s (data.take (s.expecting - s.actual))).1 (data.drop (s.expecting - s.actual))).1,
         (finishMsg c s (data.take (s.expecting - s.actual))).2 ++
         (trace c fuel (finishMsg c s (data.take (s.expecting - s.actual))).1 (data.drop (s.expecting - s.actual))).2) := by
  rfl

theorem fuel_irrel (c : Cfg) : ∀ (f f' : Nat) (s : St) (d : Bytes), Inv s → d.length < f → d.length < f' →
    trace c f s d = trace c f' s d
  | 0, _, _, _, _, h, _ => by omega
  | _, 0, _, _, _, _, h => by omega
  | f+1, f'+1, s, d, hi, h1, h2 => by
    rw [trace_unfold, trace_unfold]
    by_cases hd : d.isEmpty
    · simp [hd]
    · simp only [hd, Bool.false_eq_true, if_false]
      have hpos : 0 < d.length := by
        cases d with
        | nil => simp at hd
        | cons _ _ => simp
      by_cases he : s.expecting = 0
      · simp only [he, if_true]
        by_cases hl : d.length < 5 - s.pfx.length
        · simp [hl]
        · simp only [hl, if_false]
          have hneed : 0 < 5 - s.pfx.length := by have := hi.1; omega
          have hlen : (d.drop (5 - s.pfx.length)).length < d.length := by simp; omega
          rw [fuel_irrel c f f' _ _ (inv_finishPrefix c s _ hi he) (by omega) (by omega)]
      · simp only [he, if_false]
        by_cases hl : d.length < s.expecting - s.actual
        · simp [hl]
        · simp only [hl, if_false]
          have hneed : 0 < s.expecting - s.actual := by have := (hi.2.2 he).1; omega
          have hlen : (d.drop (s.expecting - s.actual)).length < d.length := by simp; omega
          rw [fuel_irrel c f f' _ _ (inv_finishMsg c s _ hi he) (by omega) (by omega)]


theorem run_nil (c : Cfg) (s : St) : run c s [] = (s, []) := rfl

theorem finishPrefix_pfx (c : Cfg) (s : St) (q p : Bytes) :
    finishPrefix c { s with pfx := q } p = finishPrefix c s p := by
  simp [finishPrefix]

/-- one-step unfolding of `run` on non-empty input, prefix state, not enough bytes -/
theorem run_pfx_short (c : Cfg) (s : St) (d : Bytes) (hd : d ≠ []) (he : s.expecting = 0)
    (hl : d.length < 5 - s.pfx.length) : run c s d = ({ s with pfx := s.pfx ++ d }, []) := by
  have : d.isEmpty = false := by cases d <;> simp_all
  simp [run, trace_unfold, this, he, hl]

theorem run_pfx_full (c : Cfg) (s : St) (d : Bytes) (hi : Inv s) (hd : d ≠ []) (he : s.expecting = 0)
    (hl : ¬ d.length < 5 - s.pfx.length) :
    run c s d =
      ((run c (finishPrefix c s (s.pfx ++ d.take (5 - s.pfx.length))).1 (d.drop (5 - s.pfx.length))).1,
       (finishPrefix c s (s.pfx ++ d.take (5 - s.pfx.length))).2 ++
       (run c (finishPrefix c s (s.pfx ++ d.take (5 - s.pfx.length))).1 (d.drop (5 - s.pfx.length))).2) := by
  have hne : d.isEmpty = false := by cases d <;> simp_all
  have hneed : 0 < 5 - s.pfx.length := by have := hi.1; omega
  have hpos : 0 < d.length := by cases d <;> simp_all
  unfold run
  rw [trace_unfold]
  simp only [hne, Bool.false_eq_true, if_false, he, if_true, hl]
  rw [fuel_irrel c d.length ((d.drop (5 - s.pfx.length)).length + 1) _ _
    (inv_finishPrefix c s _ hi he) (by simp; omega) (by omega)]

theorem run_msg_short (c : Cfg) (s : St) (d : Bytes) (hd : d ≠ []) (he : s.expecting ≠ 0)
    (hl : d.length < s.expecting - s.actual) :
    run c s d = ({ s with actual := s.actual + d.length, eos := s.eos.map (· ++ d) }, []) := by
  have : d.isEmpty = false := by cases d <;> simp_all
  simp [run, trace_unfold, this, he, hl]

theorem run_msg_full (c : Cfg) (s : St) (d : Bytes) (hi : Inv s) (hd : d ≠ []) (he : s.expecting ≠ 0)
    (hl : ¬ d.length < s.expecting - s.actual) :
    run c s d =
      ((run c (finishMsg c s (d.take (s.expecting - s.actual))).1 (d.drop (s.expecting - s.actual))).1,
       (finishMsg c s (d.take (s.expecting - s.actual))).2 ++
       (run c (finishMsg c s (d.take (s.expecting - s.actual))).1 (d.drop (s.expecting - s.actual))).2) := by
  have hne : d.isEmpty = false := by cases d <;> simp_all
  have hneed : 0 < s.expecting - s.actual := by have := (hi.2.2 he).1; omega
  have hpos : 0 < d.length := by cases d <;> simp_all
  unfold run
  rw [trace_unfold]
  simp only [hne, Bool.false_eq_true, if_false, he, hl]
  rw [fuel_irrel c d.length ((d.drop (s.expecting - s.actual)).length + 1) _ _
    (inv_finishMsg c s _ hi he) (by simp; omega) (by omega)]


def comb (r1 : St × List Ev) (f : St → St × List Ev) : St × List Ev :=
  ((f r1.1).1, r1.2 ++ (f r1.1).2)

theorem run_append (c : Cfg) : ∀ (n : Nat) (a : Bytes), a.length ≤ n → ∀ (s : St) (b : Bytes), Inv s →
    run c s (a ++ b) = comb (run c s a) (fun s' => run c s' b)
  | n, [], _, s, b, _ => by simp [run_nil, comb]
  | 0, x :: a, h, _, _, _ => by simp at h
  | n+1, x :: a, hlen, s, b, hi => by
    have hd : (x :: a) ≠ [] := by simp
    have hdab : (x :: a) ++ b ≠ [] := by simp
    by_cases he : s.expecting = 0
    · -- prefix state
      have hp := hi.1
      by_cases hl : (x :: a).length < 5 - s.pfx.length
      · rw [run_pfx_short c s _ hd he hl]
        by_cases hl2 : ((x :: a) ++ b).length < 5 - s.pfx.length
        · rw [run_pfx_short c s _ hdab he hl2]
          by_cases hb : b = []
          · subst hb; simp [comb, run_nil]
          · have hl3 : b.length < 5 - (s.pfx ++ (x :: a)).length := by
              simp at hl2 ⊢; omega
            simp only [comb]
            rw [run_pfx_short c { s with pfx := s.pfx ++ (x :: a) } b hb he hl3]
            simp [List.append_assoc]
        · have hb : b ≠ [] := by
            intro hb; subst hb; simp at hl2 hl; omega
          have hi1 : Inv { s with pfx := s.pfx ++ (x :: a) } := by
            refine ⟨?_, hi.2.1, fun h => absurd he h⟩
            simp at hl ⊢; omega
          have hl3 : ¬ b.length < 5 - (s.pfx ++ (x :: a)).length := by
            simp at hl2 hl ⊢; omega
          rw [run_pfx_full c s _ hi hdab he hl2]
          simp only [comb]
          rw [run_pfx_full c { s with pfx := s.pfx ++ (x :: a) } b hi1 hb he hl3]
          have e1 : s.pfx ++ ((x :: a) ++ b).take (5 - s.pfx.length) =
              (s.pfx ++ (x :: a)) ++ b.take (5 - (s.pfx ++ (x :: a)).length) := by
            rw [List.take_append]
            have : 5 - s.pfx.length - (x :: a).length = 5 - (s.pfx ++ (x :: a)).length := by
              simp; omega
            rw [List.take_of_length_le (by simp at hl ⊢; omega), this]
            simp
          have e2 : ((x :: a) ++ b).drop (5 - s.pfx.length) =
              b.drop (5 - (s.pfx ++ (x :: a)).length) := by
            rw [List.drop_append]
            have : 5 - s.pfx.length - (x :: a).length = 5 - (s.pfx ++ (x :: a)).length := by
              simp; omega
            rw [List.drop_of_length_le (by simp at hl ⊢; omega), this]
            simp
          have e3 : ∀ P, finishPrefix c { s with pfx := s.pfx ++ (x :: a) } P = finishPrefix c s P := by
            intro P; simp [finishPrefix]
          rw [e1, e2, e3]
          simp
      · -- a alone completes the prefix
        have hl2 : ¬ ((x :: a) ++ b).length < 5 - s.pfx.length := by
          simp at hl ⊢; omega
        have hneed : 0 < 5 - s.pfx.length := by omega
        rw [run_pfx_full c s _ hi hdab he hl2, run_pfx_full c s _ hi hd he hl]
        have e1 : ((x :: a) ++ b).take (5 - s.pfx.length) = (x :: a).take (5 - s.pfx.length) := by
          rw [List.take_append_of_le_length (by simp at hl ⊢; omega)]
        have e2 : ((x :: a) ++ b).drop (5 - s.pfx.length) = (x :: a).drop (5 - s.pfx.length) ++ b := by
          rw [List.drop_append_of_le_length (by simp at hl ⊢; omega)]
        rw [e1, e2]
        have hshort : ((x :: a).drop (5 - s.pfx.length)).length ≤ n := by
          simp at hlen ⊢; omega
        rw [run_append c n _ hshort _ b (inv_finishPrefix c s _ hi he)]
        simp [comb, List.append_assoc]
    · -- message state
      have hm := hi.2.2 he
      by_cases hl : (x :: a).length < s.expecting - s.actual
      · rw [run_msg_short c s _ hd he hl]
        by_cases hl2 : ((x :: a) ++ b).length < s.expecting - s.actual
        · rw [run_msg_short c s _ hdab he hl2]
          by_cases hb : b = []
          · subst hb; simp [comb, run_nil]
          · simp only [comb]
            rw [run_msg_short c (St.mk s.pfx s.env s.expecting (s.actual + (x :: a).length) (s.eos.map (· ++ (x :: a)))) b hb he (by simp at hl2 ⊢; omega)]
            cases hes : s.eos <;> simp [Nat.add_assoc] <;> omega
        · have hb : b ≠ [] := by
            intro hb; subst hb; simp at hl2 hl; omega
          have hi1 : Inv (St.mk s.pfx s.env s.expecting (s.actual + (x :: a).length) (s.eos.map (· ++ (x :: a)))) := by
            refine ⟨hi.1, fun h => absurd h he, fun _ => ⟨?_, hm.2⟩⟩
            simp at hl ⊢; omega
          rw [run_msg_full c s _ hi hdab he hl2]
          simp only [comb]
          rw [run_msg_full c (St.mk s.pfx s.env s.expecting (s.actual + (x :: a).length) (s.eos.map (· ++ (x :: a)))) b hi1 hb he (by simp at hl2 hl ⊢; omega)]
          have hk : s.expecting - (s.actual + (x :: a).length) = s.expecting - s.actual - (x :: a).length := by
            omega
          have e1 : ((x :: a) ++ b).take (s.expecting - s.actual) =
              (x :: a) ++ b.take (s.expecting - (s.actual + (x :: a).length)) := by
            rw [List.take_append, List.take_of_length_le (by simp at hl ⊢; omega), hk]
          have e2 : ((x :: a) ++ b).drop (s.expecting - s.actual) =
              b.drop (s.expecting - (s.actual + (x :: a).length)) := by
            rw [List.drop_append, List.drop_of_length_le (by simp at hl ⊢; omega), hk]
            simp
          simp only [e1, e2]
          have e3 : finishMsg c s ((x :: a) ++ b.take (s.expecting - (s.actual + (x :: a).length))) =
              finishMsg c (St.mk s.pfx s.env s.expecting (s.actual + (x :: a).length) (s.eos.map (· ++ (x :: a))))
                (b.take (s.expecting - (s.actual + (x :: a).length))) := by
            cases hes : s.eos <;> simp [finishMsg, hes, List.append_assoc]
          rw [e3]
          simp
      · have hl2 : ¬ ((x :: a) ++ b).length < s.expecting - s.actual := by
          simp at hl ⊢; omega
        have hneed : 0 < s.expecting - s.actual := by omega
        rw [run_msg_full c s _ hi hdab he hl2, run_msg_full c s _ hi hd he hl]
        have e1 : ((x :: a) ++ b).take (s.expecting - s.actual) = (x :: a).take (s.expecting - s.actual) := by
          rw [List.take_append_of_le_length (by simp at hl ⊢; omega)]
        have e2 : ((x :: a) ++ b).drop (s.expecting - s.actual) = (x :: a).drop (s.expecting - s.actual) ++ b := by
          rw [List.drop_append_of_le_length (by simp at hl ⊢; omega)]
        rw [e1, e2]
        have hshort : ((x :: a).drop (s.expecting - s.actual)).length ≤ n := by
          simp at hlen ⊢; omega
        rw [run_append c n _ hshort _ b (inv_finishMsg c s _ hi he)]
        simp [comb, List.append_assoc]



/-! ### invariant preservation, chunk lists -/

theorem inv_run (c : Cfg) : ∀ (n : Nat) (d : Bytes), d.length ≤ n → ∀ s, Inv s → Inv (run c s d).1
  | _, [], _, s, hi => by simpa [run_nil] using hi
  | 0, x :: d, h, _, _ => by simp at h
  | n+1, x :: d, hlen, s, hi => by
    have hd : (x :: d) ≠ [] := by simp
    by_cases he : s.expecting = 0
    · by_cases hl : (x :: d).length < 5 - s.pfx.length
      · rw [run_pfx_short c s _ hd he hl]
        refine ⟨?_, hi.2.1, fun h => absurd he h⟩
        simp at hl ⊢; omega
      · rw [run_pfx_full c s _ hi hd he hl]
        have hneed : 0 < 5 - s.pfx.length := by have := hi.1; omega
        exact inv_run c n _ (by simp at hlen ⊢; omega) _ (inv_finishPrefix c s _ hi he)
    · have hm := hi.2.2 he
      by_cases hl : (x :: d).length < s.expecting - s.actual
      · rw [run_msg_short c s _ hd he hl]
        refine ⟨hi.1, fun h => absurd h he, fun _ => ⟨?_, hm.2⟩⟩
        simp at hl ⊢; omega
      · rw [run_msg_full c s _ hi hd he hl]
        have hneed : 0 < s.expecting - s.actual := by omega
        exact inv_run c n _ (by simp at hlen ⊢; omega) _ (inv_finishMsg c s _ hi he)

theorem run_append' (c : Cfg) (s : St) (a b : Bytes) (hi : Inv s) :
    run c s (a ++ b) = ((run c (run c s a).1 b).1, (run c s a).2 ++ (run c (run c s a).1 b).2) :=
  run_append c a.length a (Nat.le_refl _) s b hi

/-- stream protocol: successive `trace` calls = one call on the concatenation -/
theorem feedAll_stream (c : Cfg) (hs : c.isStream = true) : ∀ (chunks : List Bytes) (s : St), Inv s →
    feedAll c s chunks = run c s chunks.flatten
  | [], s, _ => by simp [feedAll, run_nil]
  | d :: ds, s, hi => by
    have hinv : Inv (run c s d).1 := inv_run c d.length d (Nat.le_refl _) s hi
    simp only [feedAll, feed, hs, if_true, List.flatten_cons]
    rw [feedAll_stream c hs ds _ hinv, run_append' c s d ds.flatten hi]

/-- non-stream protocol: only `actual` moves, by the total number of bytes -/
theorem feedAll_count (c : Cfg) (hs : c.isStream = false) : ∀ (chunks : List Bytes) (s : St),
    feedAll c s chunks = ({ s with actual := s.actual + chunks.flatten.length }, [])
  | [], s => by simp [feedAll]
  | d :: ds, s => by
    simp only [feedAll, feed, hs, Bool.false_eq_true, if_false, List.flatten_cons, List.length_append,
      List.nil_append]
    rw [feedAll_count c hs ds]
    simp [Nat.add_assoc]

/-! ### the wrapper (`tracingReader`, `tracingResponseWriter`) -/

theorem wrun_append (c : Cfg) : ∀ (a b : List Op) (w : WSt),
    wrun c w (a ++ b) = ((wrun c (wrun c w a).1 b).1, (wrun c w a).2 ++ (wrun c (wrun c w a).1 b).2)
  | [], b, w => by simp [wrun]
  | o :: a, b, w => by
    simp only [List.cons_append, wrun]
    rw [wrun_append c a b]
    simp [List.append_assoc]

theorem wrun_datas (c : Cfg) : ∀ (chunks : List Bytes) (w : WSt),
    wrun c w (chunks.map Op.data) =
      (⟨(feedAll c w.dt chunks).1, w.closed⟩, (feedAll c w.dt chunks).2.map Out.ev)
  | [], w => by simp [wrun, feedAll]
  | d :: ds, w => by
    simp only [List.map_cons, wrun, wstep, feedAll]
    rw [wrun_datas c ds]
    simp

def isFin : Op → Bool
  | .fin _ => true
  | .data _ => false

def isOutEnd : Out → Bool
  | .bodyEnd _ => true
  | .ev _ => false

theorem wrun_closed (c : Cfg) : ∀ (ops : List Op) (w : WSt), w.closed = true →
    ((wrun c w ops).2.filter isOutEnd) = []
  | [], w, _ => by simp [wrun]
  | .data d :: ops, w, h => by
    simp only [wrun, wstep, List.filter_append]
    rw [wrun_closed c ops _ (by simpa using h)]
    simp [List.filter_map, isOutEnd, Function.comp_def]
  | .fin e :: ops, w, h => by
    simp only [wrun, wstep, h, if_true, List.nil_append]
    exact wrun_closed c ops w h

theorem wrun_ends (c : Cfg) : ∀ (ops : List Op) (w : WSt), w.closed = false →
    ((wrun c w ops).2.filter isOutEnd).length = if ops.any isFin then 1 else 0
  | [], w, _ => by simp [wrun]
  | .data d :: ops, w, h => by
    simp only [wrun, wstep, List.filter_append, List.length_append, List.any_cons, isFin, Bool.false_or]
    rw [wrun_ends c ops _ (by simpa using h)]
    simp [List.filter_map, isOutEnd, Function.comp_def]
  | .fin e :: ops, w, h => by
    simp only [wrun, wstep, h, Bool.false_eq_true, if_false, List.filter_append, List.length_append,
      List.any_cons, isFin, Bool.true_or, if_true]
    rw [wrun_closed c ops ⟨init, true⟩ rfl]
    simp [List.filter_map, isOutEnd, Function.comp_def, List.filter_cons]

end ConfModel.DataTracer

namespace ConfModel.Envelopes
open ConfModel.DataTracer

theorem number_filter_end : ∀ (k : Nat) (outs : List Out),
    ((number k outs).filter isBodyEnd).length = (outs.filter isOutEnd).length
  | _, [] => by simp [number]
  | k, Out.ev (Ev.data e n) :: t => by simp [number, isBodyEnd, isOutEnd, number_filter_end (k+1) t]
  | k, Out.ev (Ev.endStream x) :: t => by simp [number, isBodyEnd, isOutEnd, number_filter_end k t]
  | k, Out.bodyEnd e :: t => by
    have := number_filter_end k t
    simp [number, List.filter_cons, isBodyEnd, isOutEnd, this]

theorem number_indices : ∀ (k : Nat) (outs : List Out),
    indices (number k outs) = List.range' k (indices (number k outs)).length
  | _, [] => by simp [number, indices]
  | k, Out.ev (Ev.data e n) :: t => by
    simp only [number, indices, List.length_cons, List.range'_succ]
    rw [← number_indices (k+1) t]
  | k, Out.ev (Ev.endStream x) :: t => by
    simp only [number, indices]; exact number_indices k t
  | k, Out.bodyEnd e :: t => by
    simp only [number, indices]; exact number_indices k t

theorem number_evs : ∀ (k : Nat) (evs : List Ev) (e : EndErr),
    number k (evs.map Out.ev ++ [Out.bodyEnd e]) = numberEvs k evs ++ [NEv.bodyEnd e]
  | _, [], _ => by simp [number, numberEvs]
  | k, Ev.data v n :: t, e => by simp [number, numberEvs, number_evs (k+1) t e]
  | k, Ev.endStream x :: t, e => by simp [number, numberEvs, number_evs k t e]

open ConfModel.DataTracer

theorem parseF_unfold (n : Nat) (b : Bytes) :
    parseF (n+1) b =
      if b.isEmpty then ([], .clean)
      else if b.length < 5 then ([], .partialPrefix b.length)
      else
        if (b.drop 5).length < (envOf (b.take 5)).len then
          ([], .partialPayload (envOf (b.take 5)) (b.drop 5).length)
        else
          (⟨envOf (b.take 5), (b.drop 5).take (envOf (b.take 5)).len⟩ ::
              (parseF n ((b.drop 5).drop (envOf (b.take 5)).len)).1,
            (parseF n ((b.drop 5).drop (envOf (b.take 5)).len)).2) := by
  rfl

theorem eventsOf_cons (c : Cfg) (it : Item) (r : List Item × Tail) :
    eventsOf c (it :: r.1, r.2) = itemEvents c it ++ eventsOf c r := by
  simp [eventsOf, List.append_assoc]

/-- the state machine started at a message boundary emits, for the bytes `b` followed by
`emitUnfinished`, exactly the events of the parse of `b` -/
theorem run_init_parse (c : Cfg) : ∀ (n : Nat) (b : Bytes), b.length < n →
    (run c init b).2 ++ unfinished (run c init b).1 = eventsOf c (parseF n b)
  | 0, _, h => by omega
  | n+1, b, hlen => by
    rw [parseF_unfold]
    by_cases hb : b = []
    · subst hb; simp [run_nil, unfinished, init, eventsOf, tailEvents]
    have hne : b.isEmpty = false := by cases b <;> simp_all
    have hpos : 0 < b.length := by cases b <;> simp_all
    simp only [hne, Bool.false_eq_true, if_false]
    have he0 : init.expecting = 0 := rfl
    by_cases h5 : b.length < 5
    · have hl : b.length < 5 - init.pfx.length := by simpa [init] using h5
      rw [run_pfx_short c init b hb he0 hl]
      simp [h5, unfinished, init, eventsOf, tailEvents, hpos]
    · have hl : ¬ b.length < 5 - init.pfx.length := by simpa [init] using h5
      rw [run_pfx_full c init b inv_init hb he0 hl]
      simp only [h5, if_false]
      have hp : init.pfx ++ b.take (5 - init.pfx.length) = b.take 5 := by simp [init]
      have hd : b.drop (5 - init.pfx.length) = b.drop 5 := by simp [init]
      rw [hp, hd]
      generalize hrest : b.drop 5 = rest
      have hrl : rest.length + 5 = b.length := by rw [← hrest]; simp; omega
      generalize he : envOf (b.take 5) = e
      have hfp : finishPrefix c init (b.take 5) =
          if e.len = 0 then (init, [Ev.data (some e) 0])
          else (⟨[], some e, e.len, 0, if !c.isRequest && isEndFlag e.flags then some [] else none⟩, []) := by
        rw [← he]; simp [finishPrefix, envOf, init]
      rw [hfp]
      by_cases hz : e.len = 0
      · simp only [hz, if_true]
        have ih := run_init_parse c n rest (by omega)
        have : ¬ rest.length < 0 := by omega
        simp only [this, if_false, List.drop_zero, List.take_zero]
        rw [eventsOf_cons c ⟨e, []⟩ (parseF n rest), ← ih]
        simp [itemEvents, hz]
      · simp only [hz, if_false]
        generalize hs1 : (St.mk [] (some e) e.len 0 (if !c.isRequest && isEndFlag e.flags then some [] else none)) = s1
        have hi1 : Inv s1 := by
          subst hs1; refine ⟨by simp, fun h => absurd h hz, fun _ => ⟨by simp; omega, rfl⟩⟩
        have hex : s1.expecting ≠ 0 := by subst hs1; exact hz
        have hexp : s1.expecting = e.len := by subst hs1; rfl
        have hact : s1.actual = 0 := by subst hs1; rfl
        have henv : s1.env = some e := by subst hs1; rfl
        by_cases hr : rest = []
        · subst hr
          have : (0 : Nat) < e.len := by omega
          simp [run_nil, unfinished, hex, hact, this, eventsOf, tailEvents]
        by_cases hsh : rest.length < e.len
        · have hl2 : rest.length < s1.expecting - s1.actual := by rw [hexp, hact]; simpa using hsh
          rw [run_msg_short c s1 rest hr hex hl2]
          have hrp : 0 < rest.length := by cases rest <;> simp_all
          simp [hsh, unfinished, hex, hact, henv, eventsOf, tailEvents, hrp]
        · have hl2 : ¬ rest.length < s1.expecting - s1.actual := by rw [hexp, hact]; simpa using hsh
          rw [run_msg_full c s1 rest hi1 hr hex hl2]
          simp only [hsh, if_false]
          have hk : s1.expecting - s1.actual = e.len := by rw [hexp, hact]; simp
          rw [hk]
          have hfm : finishMsg c s1 (rest.take e.len) =
              (init, Ev.data (some e) e.len ::
                (if !c.isRequest && isEndFlag e.flags then eosEvents c e.flags (rest.take e.len) else [])) := by
            subst hs1
            by_cases hq : (!c.isRequest && isEndFlag e.flags) = true
            · simp [finishMsg, hq, init]
            · simp [finishMsg, hq, init]
          rw [hfm]
          have ih := run_init_parse c n (rest.drop e.len) (by simp; omega)
          rw [eventsOf_cons c ⟨e, rest.take e.len⟩ (parseF n (rest.drop e.len)), ← ih]
          have hne0 : (e.len != 0) = true := by simpa using hz
          by_cases hq : (!c.isRequest && isEndFlag e.flags) = true
          · simp [itemEvents, hq, hne0, eosEvents, content]
            rfl
          · simp [itemEvents, hq, hne0]

theorem run_init_spec (c : Cfg) (b : Bytes) :
    (run c init b).2 ++ unfinished (run c init b).1 = eventsOf c (parse b) :=
  run_init_parse c (b.length + 1) b (Nat.lt_succ_self _)

end ConfModel.Envelopes
