/-
Line-protocol plumbing shared by all area drivers.  Core Lean + Lean.Data.Json only
(no Mathlib), so `confdriver` links as a `lean_exe`.
-/
import Lean.Data.Json
namespace ConfModel.Driver
open Lean

/-- verdict of the driver on one line -/
structure Verdict where
  agree : Bool
  holds : Bool
  nontrivial : Bool := true
  model : Json := Json.null
  why : String := ""
  /-- optional class label used for coverage statistics -/
  cls : String := ""

def Verdict.toJson (v : Verdict) : Json :=
  Json.mkObj [("agree", v.agree), ("holds", v.holds), ("nontrivial", v.nontrivial),
    ("model", v.model), ("why", v.why), ("cls", v.cls)]

def bad (msg : String) : Verdict := { agree := false, holds := true, nontrivial := false, why := "driver: " ++ msg }

def getD {α} (e : Except String α) (d : α) : α := match e with | .ok a => a | .error _ => d

def field (j : Json) (k : String) : Json := getD (j.getObjVal? k) Json.null

def strList (j : Json) : List String :=
  match j.getArr? with
  | .ok a => a.toList.map (fun x => getD x.getStr? "")
  | .error _ => []

def boolList (j : Json) : List Bool :=
  match j.getArr? with
  | .ok a => a.toList.map (fun x => getD x.getBool? false)
  | .error _ => []

def natList (j : Json) : List Nat :=
  match j.getArr? with
  | .ok a => a.toList.map (fun x => getD x.getNat? 0)
  | .error _ => []

def intList (j : Json) : List Int :=
  match j.getArr? with
  | .ok a => a.toList.map (fun x => getD x.getInt? 0)
  | .error _ => []

def arr (j : Json) : List Json :=
  match j.getArr? with
  | .ok a => a.toList
  | .error _ => []

def str (j : Json) : String := getD j.getStr? ""
def nat (j : Json) : Nat := getD j.getNat? 0
def int (j : Json) : Int := getD j.getInt? 0
def bool (j : Json) : Bool := getD j.getBool? false
def isNull (j : Json) : Bool := match j with | .null => true | _ => false

def hexVal (c : Char) : Nat :=
  if '0' ≤ c ∧ c ≤ '9' then c.toNat - '0'.toNat
  else if 'a' ≤ c ∧ c ≤ 'f' then c.toNat - 'a'.toNat + 10
  else if 'A' ≤ c ∧ c ≤ 'F' then c.toNat - 'A'.toNat + 10 else 0

def unhexAux : List Char → List UInt8
  | a :: b :: rest => UInt8.ofNat (hexVal a * 16 + hexVal b) :: unhexAux rest
  | _ => []

def unhex (s : String) : List UInt8 := unhexAux s.toList

def hexDigit (n : Nat) : Char := if n < 10 then Char.ofNat (n + 48) else Char.ofNat (n + 87)

def hex (b : List UInt8) : String :=
  String.ofList (b.flatMap fun x => [hexDigit (x.toNat / 16), hexDigit (x.toNat % 16)])

def sortStrings (l : List String) : List String := (l.toArray.qsort (· < ·)).toList

def dedupSorted : List String → List String
  | a :: b :: t => if a == b then dedupSorted (b :: t) else a :: dedupSorted (b :: t)
  | l => l

def asSet (l : List String) : List String := dedupSorted (sortStrings l)

/-- A handler judges one line: `op`, `in`, `impl`. -/
abbrev Handler := String → Json → Json → Verdict

partial def loop (h : Handler) (stdin : IO.FS.Stream) (stdout : IO.FS.Stream) : IO Unit := do
  let line ← stdin.getLine
  if line.isEmpty then return ()
  let v : Verdict :=
    match Json.parse line with
    | .error e => bad ("json: " ++ e)
    | .ok j => h (str (field j "op")) (field j "in") (field j "impl")
  stdout.putStrLn v.toJson.compress
  loop h stdin stdout

end ConfModel.Driver
