package main

import (
	"bytes"
	"encoding/base64"
	"encoding/binary"
	"encoding/json"
	"fmt"
	"io"
	"net"
	"os"
	"os/exec"
	"path/filepath"
	"regexp"
	"sort"
	"strconv"
	"strings"
	"sync"
	"time"
	"unicode/utf8"

	"connectrpc.com/conformance/internal"
	cc "connectrpc.com/conformance/internal/app/connectconformance"
	conformancev1 "connectrpc.com/conformance/internal/gen/proto/go/connectrpc/conformance/v1"
	"connectrpc.com/conformance/internal/verifharness/gen"
)

// C04, op "runloop": the real Run end to end with a scripted client process.
//
// The client command is this binary itself (`verifharness c04peer …`): a proxy in front of the
// real reference client built from the tree.  It relays the first k requests (and their
// responses, which are the reference client's real results against the in-process reference
// servers) and then stops as scripted:
//   serve     k = all: serves until its stdin is closed, exits with status 0
//   serve3    the same, exits with status 3
//   exit0     exits with status 0 right after the k-th answer (k = 0: before reading anything)
//   exit3     exits with status 3 right after the k-th answer
//   closeout  closes its stdout after the k-th answer and keeps reading (and ignoring) requests
//   blind0    after the k-th answer it reads only the beginning of request k+1 (enough for the test
//             name; the runner is still blocked writing the rest), answers it with a client error,
//             waits until the runner has processed that answer and exits with status 0: the
//             runner's write fails for a request that is already answered (sendRequest returns
//             nil, no error is latched), the reader sees a clean end of stream, and every later
//             send is refused on `closedSend` with `c.err == nil` — the path on which F03 + F04
//             let Run succeed
//   readexit0 after the k-th answer it reads m further requests COMPLETELY (m = the 5th argument) and
//             exits with status 0 without answering them: the runner has handed those requests over
//             (sendRequest returned nil) and their callbacks are pending when the process is gone
//             — selected cases that never produce a result.  (The runner notices through its 20 s
//             response time-out, not through an end of stream: see c04LoopGen; the variant with a
//             clean end of stream is op "inrun".)
//   readexit3 the same, exits with status 3
// A file tamper.json in the scenario's directory (test-name suffix -> kind) makes the proxy DEVIATE on
// the wire for those cases while it still reports the reference client's (expected) result, so that
// only the reference server has something to say about them (its feedback lines on stderr):
//   dup          the request is issued twice (the server: "client sent another request (#2) …")
//   codec | compression | method   the x-expect-… header the runner added is altered, so that what
//                the server is told to expect is not what the client does
// Every answered test name is appended to a log file in the scenario's directory; the op reports
// it, so that the judge knows which selected cases received a real answer whatever the
// interleaving of concurrently running batches was.
//
// in  = {layout, maxServers, cases, k, stop, quiet}; quiet = without -v (Flags.Verbose false); layout = number of server batches (1: Connect over
//       HTTP/1.1; 2: + HTTP/2; 3: Connect and gRPC-Web over HTTP/1.1, the latter also against the
//       gRPC reference server); cases[i] as in op "run" (r|w expectation, u|f|k marking)
// impl = {ok, batches (selected permutations per batch, as the library computes them), answered,
//       total/passed/failed/notRun/expected (the printed totals), failedNames, infoNames}

// test names of gRPC-peer permutations contain blanks ("(grpc server impl)")
var (
	c04LoopReFailed   = regexp.MustCompile(`^FAILED: ([^\n]+):\n`)
	c04LoopReFailedUP = regexp.MustCompile(`^FAILED: ([^\n]+) was expected to fail but did not\n$`)
	c04LoopReInfo     = regexp.MustCompile(`^INFO: ([^\n]+) failed \(as expected\):\n`)
)

func init() {
	rawCommands["c04peer"] = c04Peer
	gen.RegisterOp("c04", "runloop", func(c *gen.Ctx, raw json.RawMessage) any {
		return c04RunLoop(c, gen.Into[c04LoopIn](raw))
	})
}

func c04Peer(args []string) int {
	if len(args) < 4 {
		return 2
	}
	dir, bin, stop := args[0], args[1], args[3]
	k, err := strconv.Atoi(args[2])
	if err != nil {
		return 2
	}
	if k == 0 && (stop == "exit0" || stop == "exit3") {
		if stop == "exit3" {
			return 3
		}
		return 0
	}
	child := exec.Command(bin)
	cin, err := child.StdinPipe()
	if err != nil {
		return 4
	}
	cout, err := child.StdoutPipe()
	if err != nil {
		return 4
	}
	child.Stderr = os.Stderr
	if err := child.Start(); err != nil {
		return 4
	}
	logPath := filepath.Join(dir, fmt.Sprintf("cli-%d.log", os.Getpid()))
	tamper := map[string]string{}
	if data, err := os.ReadFile(filepath.Join(dir, "tamper.json")); err == nil {
		_ = json.Unmarshal(data, &tamper)
	}
	tamperOf := func(testName string) string {
		best, kind := -1, ""
		for suffix, k := range tamper {
			if strings.HasSuffix(testName, "/"+suffix) && len(suffix) > best {
				best, kind = len(suffix), k
			}
		}
		return kind
	}
	in := os.Stdin // unbuffered: never read ahead of the request being served
	out := cout
	answered := 0
	// "#late-last": "<n>" in tamper.json — the n-th (= last) request of the run is made by the proxy
	// itself as an HTTP/1.1 request with a chunked body that announces a trailer; the proxy reports a
	// matching result at once (the previous case's real result: the cases are alike) and finishes the
	// request 400 ms later.  The reference server complains about request trailers only when the
	// handler has returned — by then the runner has told it to stop: feedback during the shutdown.
	lateLast, _ := strconv.Atoi(tamper["#late-last"])
	var lastResult *conformancev1.ClientResponseResult
	var late sync.WaitGroup
	for k < 0 || answered < k {
		var req conformancev1.ClientCompatRequest
		if err := internal.ReadDelimitedMessage(in, &req, "runner", time.Hour, 16<<20); err != nil {
			// stdin closed: let the reference client finish, then end as scripted
			late.Wait()
			cin.Close()
			child.Wait()
			if stop == "serve3" {
				return 3
			}
			return 0
		}
		kind := tamperOf(req.TestName)
		c04PeerTamper(&req, kind)
		var resp conformancev1.ClientCompatResponse
		if lateLast > 0 && answered == lateLast-1 && lastResult != nil && c04PeerLateTrailer(&req, &late) {
			resp.TestName = req.TestName
			resp.Result = &conformancev1.ClientCompatResponse_Response{Response: lastResult}
			if f, err := os.OpenFile(logPath, os.O_APPEND|os.O_CREATE|os.O_WRONLY, 0o644); err == nil {
				f.WriteString("~" + req.TestName + "\n")
				f.Close()
			}
		} else if key, ok := strings.CutPrefix(kind, "err:"); ok && len(key) == 1 {
			// the client reports an error of its own, with that message; no request is made
			resp.TestName = req.TestName
			resp.Result = &conformancev1.ClientCompatResponse_Error{Error: &conformancev1.ClientErrorResult{Message: c04Msgs[key[0]]}}
		} else {
			if err := internal.WriteDelimitedMessage(cin, &req); err != nil {
				return 4
			}
			if err := internal.ReadDelimitedMessage(out, &resp, "reference client", time.Minute, 16<<20); err != nil {
				return 4
			}
		}
		if kind == "dup" {
			// the same request once more; its result is dropped
			if err := internal.WriteDelimitedMessage(cin, &req); err != nil {
				return 4
			}
			var again conformancev1.ClientCompatResponse
			if err := internal.ReadDelimitedMessage(out, &again, "reference client", time.Minute, 16<<20); err != nil {
				return 4
			}
		}
		if r := resp.GetResponse(); r != nil {
			lastResult = r
		}
		if err := internal.WriteDelimitedMessage(os.Stdout, &resp); err != nil {
			return 4
		}
		if f, err := os.OpenFile(logPath, os.O_APPEND|os.O_CREATE|os.O_WRONLY, 0o644); err == nil {
			f.WriteString(resp.TestName + "\n")
			f.Close()
		}
		answered++
	}
	child.Process.Kill()
	child.Wait()
	if stop == "readexit0" || stop == "readexit3" {
		m := 1
		if len(args) > 4 {
			if v, err := strconv.Atoi(args[4]); err == nil {
				m = v
			}
		}
		for i := 0; i < m; i++ {
			var req conformancev1.ClientCompatRequest
			if err := internal.ReadDelimitedMessage(in, &req, "runner", time.Hour, 16<<20); err != nil {
				break // nothing more was sent
			}
			if f, err := os.OpenFile(logPath, os.O_APPEND|os.O_CREATE|os.O_WRONLY, 0o644); err == nil {
				f.WriteString("?" + req.TestName + "\n")
				f.Close()
			}
		}
		if stop == "readexit3" {
			return 3
		}
		return 0
	}
	if stop == "blind0" {
		head := make([]byte, 4+512)
		if _, err := io.ReadFull(in, head); err != nil {
			return 4
		}
		body := head[4:]
		// ClientCompatRequest.test_name is field 1 and is marshalled first: 0x0A, length, bytes
		if body[0] != 0x0A {
			return 4
		}
		n, w := binary.Uvarint(body[1:])
		if w <= 0 || 1+w+int(n) > len(body) {
			return 4
		}
		name := string(body[1+w : 1+w+int(n)])
		resp := &conformancev1.ClientCompatResponse{TestName: name, Result: &conformancev1.ClientCompatResponse_Error{
			Error: &conformancev1.ClientErrorResult{Message: "answered before the request was complete"}}}
		if err := internal.WriteDelimitedMessage(os.Stdout, resp); err != nil {
			return 4
		}
		if f, err := os.OpenFile(logPath, os.O_APPEND|os.O_CREATE|os.O_WRONLY, 0o644); err == nil {
			f.WriteString("!" + name + "\n")
			f.Close()
		}
		time.Sleep(700 * time.Millisecond)
		return 0
	}
	switch stop {
	case "exit3":
		return 3
	case "closeout":
		os.Stdout.Close()
		io.Copy(io.Discard, in)
		return 0
	}
	return 0
}

// c04PeerLateTrailer starts the request of req as an HTTP/1.1 request with a chunked body announcing
// a trailer, waits until the server has it in hand, and finishes it (empty body, the trailer) 400 ms
// later in the background.  false: the request could not be started.
func c04PeerLateTrailer(req *conformancev1.ClientCompatRequest, late *sync.WaitGroup) bool {
	conn, err := net.Dial("tcp", net.JoinHostPort(req.Host, strconv.Itoa(int(req.Port))))
	if err != nil {
		return false
	}
	var head strings.Builder
	head.WriteString("POST /connectrpc.conformance.v1.ConformanceService/Unary HTTP/1.1\r\n")
	head.WriteString("Host: " + req.Host + "\r\n")
	head.WriteString("Content-Type: application/proto\r\n")
	head.WriteString("Connect-Protocol-Version: 1\r\n")
	head.WriteString("Transfer-Encoding: chunked\r\n")
	head.WriteString("Trailer: X-Late\r\n")
	for _, hdr := range req.RequestHeaders {
		for _, val := range hdr.Value {
			head.WriteString(hdr.Name + ": " + val + "\r\n")
		}
	}
	head.WriteString("\r\n")
	if _, err := io.WriteString(conn, head.String()); err != nil {
		conn.Close()
		return false
	}
	time.Sleep(300 * time.Millisecond) // the server has the request in hand
	late.Add(1)
	go func() {
		defer late.Done()
		defer conn.Close()
		time.Sleep(400 * time.Millisecond)
		if _, err := io.WriteString(conn, "0\r\nX-Late: 1\r\n\r\n"); err != nil {
			return
		}
		_ = conn.SetReadDeadline(time.Now().Add(5 * time.Second))
		_, _ = io.ReadAll(io.LimitReader(conn, 1<<16))
	}()
	return true
}

// c04PeerTamper alters what the reference server is told to expect for this request (the x-expect-…
// headers the runner added), so that the reference client's perfectly normal request deviates.
func c04PeerTamper(req *conformancev1.ClientCompatRequest, kind string) {
	var name, from, to string
	switch kind {
	case "codec":
		name, from, to = "x-expect-codec", "1", "2"
	case "compression":
		name, from, to = "x-expect-compression", "1", "2"
	case "method":
		name, from, to = "x-expect-http-method", "POST", "GET"
	default:
		return
	}
	for _, h := range req.RequestHeaders {
		if strings.EqualFold(h.Name, name) {
			for i, v := range h.Value {
				if v == from {
					h.Value[i] = to
				}
			}
		}
	}
}

type c04LoopIn struct {
	Layout     int      `json:"layout"`
	MaxServers int      `json:"maxServers"`
	Cases      []string `json:"cases"`
	K          int      `json:"k"`
	Stop       string   `json:"stop"`
	// Quiet: run without -v (Flags.Verbose = false, the command line's default): no log lines before
	// the report, server instances visited in map order.  What is reported must not depend on it.
	Quiet bool `json:"quiet,omitempty"`
	// Names: the test names of the cases (default c<i>).  Test names are arbitrary strings: they are
	// data for everything between the request header and the report, never syntax.
	Names []string `json:"names,omitempty"`
	// Tamper[i]: "" | dup | codec | compression | method — the client deviates on the wire for case i
	// while it reports the expected result (only the reference server notices); err:<key> — the
	// client reports an error of its own for case i whose message is c04Msgs[key] (empty, blank, many
	// lines, format verbs, long …)
	Tamper []string `json:"tamper,omitempty"`
	// LateLast: the last request of the run (its number = LateLast) is made by the proxy itself with a
	// chunked body announcing a trailer and finished 400 ms after the (matching) result was reported:
	// the reference server's complaint comes during its graceful shutdown
	LateLast int `json:"lateLast,omitempty"`
	// Unanswered: stops readexit0 / readexit3 — how many further requests are read but never answered
	Unanswered int `json:"unanswered,omitempty"`
}

type c04LoopOut struct {
	OK          bool       `json:"ok"`
	Err         string     `json:"err"`
	Batches     [][]string `json:"batches"`
	Invalid     bool       `json:"invalid,omitempty"`
	Answered    []string   `json:"answered"`
	Blind       []string   `json:"blind"`
	Read        []string   `json:"read"`
	Late        []string   `json:"late,omitempty"`
	Total       int        `json:"total"`
	Passed      int        `json:"passed"`
	Failed      int        `json:"failed"`
	NotRun      int        `json:"notRun"`
	Expected    int        `json:"expected"`
	FailedNames []string   `json:"failedNames"`
	InfoNames   []string   `json:"infoNames"`
}

func c04LoopCfg(layout int) string {
	versions, protocols := "[HTTP_VERSION_1]", "[PROTOCOL_CONNECT]"
	switch layout {
	case 2:
		versions = "[HTTP_VERSION_1, HTTP_VERSION_2]"
	case 3:
		protocols = "[PROTOCOL_CONNECT, PROTOCOL_GRPC_WEB]"
	}
	return "features:\n  versions: " + versions + "\n  protocols: " + protocols + `
  codecs: [CODEC_PROTO]
  compressions: [COMPRESSION_IDENTITY]
  streamTypes: [STREAM_TYPE_UNARY]
  supportsTls: false
  supportsConnectGet: false
  supportsMessageReceiveLimit: false
`
}

// Every request carries 120 KiB of request data, more than an OS pipe holds (64 KiB): the
// runner's write of request j+1 only completes once the client has read it, so that "the client
// exits after its k-th answer" really is "before request k+1 was sent" — otherwise the whole
// batch is queued in the pipe at once, nothing ever fails in a write, and the runner only finds
// out when its 20 s response time-out expires.
var c04LoopPayload = base64.StdEncoding.EncodeToString(bytes.Repeat([]byte("x"), 120*1024))

func c04LoopSuite(cases []string) (string, []string, []string) {
	return c04LoopSuiteNamed(cases, nil)
}

func c04LoopName(names []string, i int) string {
	if i < len(names) {
		return names[i]
	}
	return fmt.Sprintf("c%d", i)
}

func c04LoopSuiteNamed(cases []string, names []string) (string, []string, []string) {
	var sb strings.Builder
	sb.WriteString("name: V\ntestCases:\n")
	var failing, flaky []string
	for i, code := range cases {
		if len(code) != 2 || (code[0] != 'r' && code[0] != 'w') || (code[1] != 'u' && code[1] != 'f' && code[1] != 'k') {
			panic("c04: bad run case code " + code)
		}
		name := c04LoopName(names, i)
		fmt.Fprintf(&sb, "- request:\n    testName: %s\n    streamType: STREAM_TYPE_UNARY\n    requestMessages:\n    - \"@type\": type.googleapis.com/connectrpc.conformance.v1.UnaryRequest\n      requestData: \"%s\"\n      responseDefinition:\n        responseData: \"dGVzdA==\"\n", strconv.Quote(name), c04LoopPayload)
		if code[0] == 'w' {
			sb.WriteString("  expectedResponse:\n    payloads:\n    - data: \"b3RoZXI=\"\n")
		}
		switch code[1] {
		case 'f':
			failing = append(failing, "V/**/"+name)
		case 'k':
			flaky = append(flaky, "V/**/"+name)
		}
	}
	return sb.String(), failing, flaky
}

// c04NameOK: what the transport between runner, client and reference server can carry as a test name
// and the judge can tell apart.  A test name is DATA on every hop (suite file, protobuf string, the
// x-test-case-name header of the request, the label of the reference server's feedback line, the
// runner's line reader, the report), so everything is allowed that those hops can carry at all:
// any valid UTF-8 (protobuf strings and JSON are UTF-8) — per-cent signs whether or not they look like
// an escape (%25, %2F, %41, %zz, a trailing %), '+', '=', '&', '?', '#', quotes, backslash, upper and
// lower case, non-ASCII (accents, CJK, symbols outside the BMP, combining marks, NBSP, compatibility
// forms), a TAB inside, hundreds of characters.  Excluded is ONLY
//   * what an HTTP header value cannot carry: control characters other than TAB (CR, LF, NUL, …, DEL
//     — net/http refuses to send them) and a blank or TAB at either end (optional white space around a
//     field value is not part of the value: RFC 9110 §5.5);
//   * the pattern wildcard '*' and empty path components (the marking patterns are "V/**/<name>").
// A name may hold the ": " that separates name and message on the reference server's feedback lines:
// nothing validates test names, and the property speaks about every selected case (finding F32; the
// random name pools do not contain it, two fixed scenarios do).
func c04NameOK(n string) bool {
	if n == "" || strings.HasPrefix(n, " ") || strings.HasSuffix(n, " ") || strings.HasPrefix(n, "\t") || strings.HasSuffix(n, "\t") ||
		strings.Contains(n, "*") || strings.HasPrefix(n, "/") || strings.HasSuffix(n, "/") || strings.Contains(n, "//") {
		return false
	}
	if !utf8.ValidString(n) {
		return false
	}
	for _, r := range n {
		if (r < 0x20 && r != '\t') || r == 0x7f {
			return false
		}
	}
	return true
}

// c04EscapeNames / c04UnicodeNames / c04CaseNames: test names that some layer between the runner's
// request header and the report could be tempted to REWRITE (URL unescaping, form decoding of '+',
// Unicode normalisation, case folding, truncation): they must arrive as they were sent.
var c04EscapeNames = []string{"100%25-compressible", "a%2Fb", "%41bc", "%zz", "tail%", "%2", "%25", "%2f%2F", "%20x", "x%20",
	"%E2%82%AC", "%00", "%0A", "%0d%0a-x", "%3A%20y", "a+b", "+", "c++", "k=v", "%u0041", "&amp;", "%%25", "%2525", "%7e", "a%2", "%g1%1g"}
var c04UnicodeNames = []string{"caf\u00e9", "na\u00efve-\u00fc", "\u65e5\u672c\u8a9e", "\u20acuro", "smile-\U0001F600", "\u03a9mega", "\u0130stanbul", "\u01c5",
	"a\u00a0b", "e\u0301", "\ufb01", "\uff26\uff55\uff4c\uff4c", "\u212a", "\u017f", "tab\there", "zw\u200bj", "\ufeffbom", "\u0085nel", "rtl-\u05d0\u05d1"}
var c04CaseNames = []string{"MiXeD", "UPPER", "lower", "Stra\u00dfe", "STRASSE", "X-Test-Case-Name", "content-TYPE",
	strings.Repeat("long-", 60) + "x", strings.Repeat("%41", 50), strings.Repeat("\u00e9", 120)}

// c04TwinNames: pairs of names that a normalising hop would identify.  Both are in the same batch, the
// client deviates on the first only: the complaint belongs to the first and to nobody else.
var c04TwinNames = [][2]string{{"a%41", "aA"}, {"Abc", "abc"}, {"e\u0301", "\u00e9"}, {"a+b", "a b"}, {"\u212a", "K"}, {"x%2Fy", "x/y"},
	{"%25", "%"}, {"%2525", "%25"}, {"q%3A%20r", "q"}, {"\uff21", "A"}, {"a%20b", "a b"}, {"tab\there", "tab here"}, {"caf\u00e9", "caf\u00c3\u00a9"}}

func c04RunLoop(c *gen.Ctx, in c04LoopIn) c04LoopOut {
	// inputs mutated by the shrinker / the neighbourhood search may be malformed: not a scenario
	valid := in.Layout >= 1 && in.Layout <= 3 && in.MaxServers >= 1 && len(in.Cases) > 0
	switch in.Stop {
	case "serve", "serve3", "exit0", "exit3", "closeout", "blind0", "readexit0", "readexit3":
	default:
		valid = false
	}
	if (len(in.Names) != 0 && len(in.Names) != len(in.Cases)) || (len(in.Tamper) != 0 && len(in.Tamper) != len(in.Cases)) || in.Unanswered < 0 {
		valid = false
	}
	for i, n := range in.Names {
		if !c04NameOK(n) {
			valid = false
		}
		for j, o := range in.Names {
			if i != j && (n == o || strings.HasSuffix(n, "/"+o)) {
				valid = false // the judge tells the cases apart by the end of the permutation's name
			}
		}
	}
	for _, t := range in.Tamper {
		switch t {
		case "", "dup", "codec", "compression", "method":
		default:
			if _, ok := c04Msgs[t[len(t)-1]]; !ok || len(t) != 5 || !strings.HasPrefix(t, "err:") {
				valid = false
			}
		}
	}
	for _, code := range in.Cases {
		if len(code) != 2 || (code[0] != 'r' && code[0] != 'w') || (code[1] != 'u' && code[1] != 'f' && code[1] != 'k') {
			valid = false
		}
	}
	if !valid {
		return c04LoopOut{Invalid: true}
	}
	suite, failing, flaky := c04LoopSuiteNamed(in.Cases, in.Names)
	cfg := c04LoopCfg(in.Layout)
	dir := filepath.Join(c.WorkDir, fmt.Sprintf("c04loop-%d-%d", os.Getpid(), c04RunSeq.Add(1)))
	if err := os.MkdirAll(dir, 0o755); err != nil {
		panic(err)
	}
	defer os.RemoveAll(dir)
	out := c04LoopOut{Total: -1, Answered: []string{}, Blind: []string{}, Read: []string{}, FailedNames: []string{}, InfoNames: []string{}}
	if in.LateLast > 0 && len(in.Tamper) == 0 {
		data, _ := json.Marshal(map[string]string{"#late-last": strconv.Itoa(in.LateLast)})
		if err := os.WriteFile(filepath.Join(dir, "tamper.json"), data, 0o644); err != nil {
			panic(err)
		}
	}
	if len(in.Tamper) != 0 {
		tm := map[string]string{}
		for i, t := range in.Tamper {
			if t != "" {
				tm[c04LoopName(in.Names, i)] = t
			}
		}
		data, _ := json.Marshal(tm)
		if err := os.WriteFile(filepath.Join(dir, "tamper.json"), data, 0o644); err != nil {
			panic(err)
		}
	}
	batches, err := cc.VerifC04Batches(filepath.Join(dir, "suite.yaml"), suite, cfg)
	if err != nil {
		out.Err = "load: " + err.Error()
		return out
	}
	out.Batches = batches
	self, _ := os.Executable()
	cmd := []string{self, "c04peer", dir, filepath.Join(c.BinDir, "referenceclient"), strconv.Itoa(in.K), in.Stop, strconv.Itoa(in.Unanswered)}
	t0 := time.Now()
	ok, errText, lines, errLines := cc.VerifC04RunLoopFlags(dir, cmd, suite, cfg, failing, flaky, uint(in.MaxServers), !in.Quiet)
	if os.Getenv("VERIF_C04_TIMING") != "" {
		fmt.Fprintf(os.Stderr, "c04 runloop %+v: %.1fs ok=%v\n", in, time.Since(t0).Seconds(), ok)
	}
	if os.Getenv("VERIF_C04_DEBUG") != "" {
		fmt.Fprintf(os.Stderr, "c04 runloop err=%q\nlog: %q\nstderr: %q\n", errText, lines, errLines)
	}
	out.OK, out.Err = ok, errText
	atoi := func(s string) int { v, _ := strconv.Atoi(s); return v }
	for _, m := range lines {
		if !strings.HasSuffix(m, "\n") {
			m += "\n"
		}
		switch {
		case c04LoopReFailedUP.MatchString(m):
			out.FailedNames = append(out.FailedNames, c04LoopReFailedUP.FindStringSubmatch(m)[1])
		case c04LoopReFailed.MatchString(m):
			out.FailedNames = append(out.FailedNames, c04LoopReFailed.FindStringSubmatch(m)[1])
		case c04LoopReInfo.MatchString(m):
			out.InfoNames = append(out.InfoNames, c04LoopReInfo.FindStringSubmatch(m)[1])
		case c04ReTotal.MatchString(m) && out.Total < 0:
			g := c04ReTotal.FindStringSubmatch(m)
			out.Total, out.Passed, out.Failed = atoi(g[1]), atoi(g[2]), atoi(g[3])
		case c04ReNotRun.MatchString(m) && out.NotRun == 0:
			out.NotRun = atoi(c04ReNotRun.FindStringSubmatch(m)[1])
		case c04ReExpected.MatchString(m) && out.Expected == 0:
			out.Expected = atoi(c04ReExpected.FindStringSubmatch(m)[1])
		}
	}
	logs, _ := filepath.Glob(filepath.Join(dir, "cli-*.log"))
	for _, l := range logs {
		data, _ := os.ReadFile(l)
		for _, n := range strings.Split(string(data), "\n") {
			if strings.HasPrefix(n, "?") {
				out.Read = append(out.Read, n[1:])
				continue
			}
			if strings.HasPrefix(n, "~") {
				n = n[1:]
				out.Late = append(out.Late, n)
			}
			if strings.HasPrefix(n, "!") {
				n = n[1:]
				out.Blind = append(out.Blind, n)
			}
			if n != "" {
				out.Answered = append(out.Answered, n)
			}
		}
	}
	sort.Strings(out.Answered)
	sort.Strings(out.Blind)
	sort.Strings(out.Read)
	sort.Strings(out.FailedNames)
	sort.Strings(out.InfoNames)
	return out
}

// c04LoopGen: the scripted-client scenarios.  Every stop mode, at every kind of position (before
// any request, inside the first batch, exactly between two batches, inside a later batch, after
// the last answer), 1-3 server batches, --max-servers 1 and 4.  At most one scenario of the quick
// tier waits for the 20 s response time-out ("closeout"); everything runs in parallel.
func c04LoopGen(c *gen.Ctx) {
	if c.BinDir == "" {
		return
	}
	r := c.R
	var ins []any
	add := func(layout, ms int, cases []string, k int, stop string) {
		ins = append(ins, c04LoopIn{Layout: layout, MaxServers: ms, Cases: cases, K: k, Stop: stop})
		c.E.Count("runloop:" + stop)
	}
	// the same without -v (the command line's default)
	addQuiet := func(layout, ms int, cases []string, k int, stop string) {
		ins = append(ins, c04LoopIn{Layout: layout, MaxServers: ms, Cases: cases, K: k, Stop: stop, Quiet: true})
		c.E.Count("runloop:quiet:" + stop)
	}
	good := []string{"ru", "wf", "rk"} // every case meets its expectation when it is answered
	// the 20 s scenario first, so that it overlaps with all the others
	add(2, 1, good, 4, "closeout")
	if c.Thorough() {
		add(1, 1, good, 0, "closeout")
		add(3, 4, good, 5, "closeout")
		add(2, 4, []string{"ru", "wu"}, 2, "closeout")
		add(2, 1, good, 6, "closeout")
	}
	for _, layout := range []int{1, 2, 3} {
		for _, ms := range []int{1, 4} {
			n := len(good) * layout
			add(layout, ms, good, -1, "serve")
			add(layout, ms, good, n, "exit0") // exits by itself after the last answer
			if !c.Thorough() && (layout+ms)%2 == int(c.Seed%2) {
				// quick: half of the early-stop grid per seed, the fixed points below always
				add(layout, ms, good, r.Range(0, n-1), "exit0")
				continue
			}
			add(layout, ms, good, 0, "exit0")
			add(layout, ms, good, 1, "exit0")
			add(layout, ms, good, n-1, "exit0")
			if layout > 1 {
				add(layout, ms, good, len(good), "exit0") // exactly between the first two batches
				add(layout, ms, good, len(good)+1, "exit0")
			}
			add(layout, ms, good, r.Range(0, n-1), "exit3")
		}
	}
	// fixed points of the statement: exit 0 before any request / between batches / inside a batch
	add(1, 1, []string{"ru"}, 0, "exit0")
	add(2, 1, good, 3, "exit0")
	add(2, 4, good, 2, "exit0")
	add(3, 1, []string{"ru", "rf"}, 3, "exit3")
	add(1, 1, good, -1, "serve3") // every case answered, the client then exits with status 3
	add(2, 4, []string{"ru", "wu", "rf"}, -1, "serve") // answered but not meeting the expectation
	add(1, 1, []string{"wk", "rk", "wf"}, 3, "exit0")
	// the path without a latched error (see blind0): the blind answer is the last request of the
	// first batch (--max-servers 1), every case is marked so that a client error is an expected failure
	add(2, 1, []string{"rk", "rk", "rk"}, 2, "blind0")
	add(3, 1, []string{"rk", "wf"}, 1, "blind0")
	// without -v: the verdict, the names and the totals are the same function of what happened; the
	// early stops with fewer permits than batches leave whole batches undispatched, whose cases are
	// known to the report only through the number of selected permutations
	for _, layout := range []int{2, 3} {
		n := len(good) * layout
		addQuiet(layout, 1, good, -1, "serve")
		addQuiet(layout, 1, good, 0, "exit0")
		addQuiet(layout, 1, good, 1, "exit0")
		addQuiet(layout, 1, good, len(good), "exit0") // exactly between the first two batches
		addQuiet(layout, 1, good, r.Range(0, len(good)), "exit3")
		addQuiet(layout, gen.Pick(r, []int{1, 2, 4}), good, r.Range(0, n), "exit0")
	}
	addQuiet(1, 1, []string{"ru"}, 0, "exit0")
	addQuiet(3, 2, []string{"ru", "wu", "rf"}, 2, "exit3")
	// --- requests that were handed over and never answered, the client exiting with status 0 -------
	// (readexit0: after k answers the client reads m further requests and exits with status 0): the
	// unanswered cases must not be excused whatever their marking.
	addX := func(in c04LoopIn) {
		ins = append(ins, in)
		tag := in.Stop
		if len(in.Tamper) != 0 {
			if strings.Contains(strings.Join(in.Tamper, ","), "err:") {
				tag = "client-error-message:" + tag
			} else {
				tag = "feedback:" + tag
			}
		}
		if len(in.Names) != 0 {
			tag += ":odd-names"
		}
		c.E.Count("runloop:" + tag)
	}
	// With a client PROCESS the reader does not see that end of stream: the copier goroutine that feeds
	// the process's stdin keeps exec.Cmd.Wait (and with it the closing of the runner's side of stdout)
	// from returning; the 20 s response time-out fires instead and the run fails with an error.  The
	// clean variant is op "inrun"; here one scenario at the end of the run and one in its middle
	// (each waits for the time-out, in parallel with "closeout"), 16 more per seed in the thorough tier.
	allMarked := []string{"rk", "wf", "rk"} // whichever case is left unanswered, it is marked
	addX(c04LoopIn{Layout: 1, MaxServers: 1, Cases: allMarked, K: 2, Stop: "readexit0", Unanswered: 1, Quiet: r.Bool()})
	addX(c04LoopIn{Layout: 2, MaxServers: 1, Cases: allMarked, K: r.Range(0, 3), Stop: gen.Pick(r, []string{"readexit0", "readexit3"}), Unanswered: 1})
	if c.Thorough() {
		for i := 0; i < 16; i++ {
			layout := r.Range(1, 3)
			cs := make([]string, r.Range(1, 4))
			for j := range cs {
				cs[j] = gen.Pick(r, []string{"rk", "wf", "rk", "wf", "ru", "rf", "wk"})
			}
			n := len(cs) * layout
			m := r.Range(1, 3)
			k := r.Range(0, n)
			if r.Chance(2, 3) && n >= m {
				k = n - m // the unanswered requests are the last ones
			}
			addX(c04LoopIn{Layout: layout, MaxServers: gen.Pick(r, []int{1, 2, 4}), Cases: cs, K: k,
				Stop: gen.Pick(r, []string{"readexit0", "readexit0", "readexit3"}), Unanswered: m, Quiet: r.Bool()})
		}
	}
	// --- feedback of the REAL reference server, end to end ---------------------------------------
	// The client deviates on the wire (request issued twice, or not what the x-expect-… headers
	// announce) and reports the expected result: only the in-process reference server notices; its
	// complaint travels as a "<test name>: <message>" line over its stderr to the batch runner and
	// into the report.  Test names are arbitrary strings (a --test-file may call a case anything):
	// names that mean something to a formatter, to a "name: message" reader, to a URL or a shell are
	// data on every hop.
	oddClasses := [][]string{
		{"50%off", "100%", "%s", "%d%%", "%v-%s", "%!v(MISSING)", "%[1]s", "%+q", "50% off", "%", "%%", "%x%x%x%n"}, // format verbs
		{"q:x", "x :y", "a:b:c", ":lead", "trail:", "http://h:1/p"},                                              // the feedback line's own separator characters
		{"a b", "two  blanks", "spaced out name", "(x)"},                                   // blanks
		{"grp/50%", "a/b/c", "x/%s", "deep/er/na:me"},                                                             // further path components
		{"n=1&m=2", "$HOME", "`id`", "a;b", "<x>", "\"quoted\"", "back\\slash", "{a,b}", "[1]", "~", "#c", "?q", "!bang", "'s'"},
		c04EscapeNames,  // valid and invalid per-cent escapes, '+', '='
		c04UnicodeNames, // non-ASCII UTF-8, a TAB inside
		c04CaseNames,    // upper / lower case, header-like names, hundreds of characters
	}
	var allAtoms []string
	for _, cl := range oddClasses {
		allAtoms = append(allAtoms, cl...)
	}
	tampers := []string{"dup", "codec", "compression", "method"}
	codes0 := []string{"ru", "rf", "rk", "wu", "wf", "wk"}
	fbScenario := func(i int) c04LoopIn {
		n := r.Range(2, 3)
		in := c04LoopIn{Layout: gen.Pick(r, []int{1, 1, 1, 2}), MaxServers: gen.Pick(r, []int{1, 4}), K: -1, Stop: "serve", Quiet: r.Bool()}
		for j := 0; j < n; j++ {
			cl := oddClasses[(i+j)%len(oddClasses)]
			name := ""
			for !c04NameOK(name) {
				name = fmt.Sprintf("n%d-", j) + gen.Pick(r, cl)
				if r.Chance(1, 4) {
					name = gen.Pick(r, cl) + fmt.Sprintf("/n%d", j)
				} else if r.Chance(1, 4) {
					// a composition over the whole alphabet: an atom of this class among 1-3 others
					name = fmt.Sprintf("n%d-", j)
					at := r.Range(0, 2)
					for a, m := 0, r.Range(2, 4); a < m; a++ {
						if a == at {
							name += gen.Pick(r, cl)
						} else {
							name += gen.Pick(r, allAtoms)
						}
					}
					if len(name) > 900 {
						name = ""
					}
				}
			}
			in.Names = append(in.Names, name)
			in.Cases = append(in.Cases, gen.Pick(r, []string{"ru", "ru", "ru", "rf", "rk", "wf"}))
			t := ""
			if j == 0 || r.Chance(1, 2) {
				t = tampers[(i+j)%len(tampers)]
			}
			in.Tamper = append(in.Tamper, t)
		}
		return in
	}
	nFb := len(oddClasses) + 2
	if c.Thorough() {
		nFb = 80
	}
	for i := 0; i < nFb; i++ {
		in := fbScenario(i)
		if !c.Thorough() && i < len(oddClasses) {
			// quick: every class of name once on an unmarked, otherwise passing case
			in.Cases[0] = "ru"
		}
		addX(in)
	}
	// what the client SAYS when it reports an error never changes what happened (the message is
	// empty, blank, many lines, format verbs, 10 KB …): unmarked => the run fails and names the case,
	// known-failing / known-flaky => an expected failure
	{
		keys := append([]byte{}, c04MsgKeys...)
		for i := len(keys) - 1; i > 0; i-- {
			j := r.Intn(i + 1)
			keys[i], keys[j] = keys[j], keys[i]
		}
		blank := []string{"err:e", "err:n", "err:b", "err:s"}
		addX(c04LoopIn{Layout: 1, MaxServers: 1, Cases: []string{"ru", "ru", "rf"}, Tamper: []string{gen.Pick(r, blank), "", "err:" + string(keys[0])}, K: -1, Stop: "serve", Quiet: r.Bool()})
		addX(c04LoopIn{Layout: 1, MaxServers: 1, Cases: []string{"rf", "rk", "ru"}, Tamper: []string{gen.Pick(r, blank), "err:" + string(keys[1]), ""}, K: -1, Stop: "serve"})
		addX(c04LoopIn{Layout: gen.Pick(r, []int{1, 2}), MaxServers: 4, Cases: []string{"ru", "wu", "rk"}, Tamper: []string{"err:" + string(keys[2]), "err:" + string(keys[3]), "err:" + string(keys[4])}, K: -1, Stop: "serve", Quiet: true})
		if c.Thorough() {
			for i := 0; i < 30; i++ {
				in := c04LoopIn{Layout: r.Range(1, 3), MaxServers: gen.Pick(r, []int{1, 4}), K: -1, Stop: "serve", Quiet: r.Bool()}
				for j := r.Range(1, 3); j > 0; j-- {
					in.Cases = append(in.Cases, gen.Pick(r, codes0))
					t := ""
					if r.Chance(2, 3) {
						t = "err:" + string(c04MsgKeys[r.Intn(len(c04MsgKeys))])
					}
					in.Tamper = append(in.Tamper, t)
				}
				addX(in)
			}
		}
	}
	// feedback during the reference server's graceful shutdown, through the real Run: the last request of
	// the run carries a request trailer and is finished after its (matching) result was reported
	addX(c04LoopIn{Layout: 1, MaxServers: 1, Cases: []string{"ru", "ru"}, K: -1, Stop: "serve", LateLast: 2, Quiet: r.Bool()})
	if c.Thorough() {
		addX(c04LoopIn{Layout: 1, MaxServers: 1, Cases: []string{"ru", "rf", "rk"}, K: -1, Stop: "serve", LateLast: 3})
		addX(c04LoopIn{Layout: 1, MaxServers: 1, Cases: []string{"ru", "ru", "ru"}, K: -1, Stop: "serve", LateLast: 2})
	}
	// F32 (known finding): a test name that contains ": " — the separator of the feedback lines.  The
	// reference server's line "<name>: <message>" is split at the FIRST ": " by the runner's reader, the
	// front part is not a test case, the complaint is forwarded as noise and the deviating case passes;
	// with a case named by the front part in the same batch the complaint is recorded for that one.
	addX(c04LoopIn{Layout: 1, MaxServers: 1, Cases: []string{"ru"}, Names: []string{"n0-x: y"}, Tamper: []string{gen.Pick(r, tampers)}, K: -1, Stop: "serve"})
	addX(c04LoopIn{Layout: 1, MaxServers: 1, Cases: []string{"ru", "ru"}, Names: []string{"n0-x: y", "n0-x"}, Tamper: []string{"dup", ""}, K: -1, Stop: "serve", Quiet: true})
	// the same with ordinary names; feedback on a known-failing case that otherwise passes makes it
	// the expected failure (the run succeeds); a client that stops early after a deviating request
	addX(c04LoopIn{Layout: 1, MaxServers: 1, Cases: []string{"ru", "ru", "rk"}, Tamper: []string{"", gen.Pick(r, tampers), ""}, K: -1, Stop: "serve"})
	addX(c04LoopIn{Layout: 2, MaxServers: 4, Cases: []string{"rf", "ru"}, Tamper: []string{gen.Pick(r, tampers), ""}, K: -1, Stop: "serve", Quiet: true})
	addX(c04LoopIn{Layout: 1, MaxServers: 1, Cases: []string{"rf", "rk"}, Names: []string{"n0-100%", "n1-%d"}, Tamper: []string{"dup", "method"}, K: -1, Stop: "serve"})
	addX(c04LoopIn{Layout: 1, MaxServers: 1, Cases: []string{"ru", "ru", "ru"}, Names: []string{"n0-%s", "n1-a b", "n2-q:x"}, Tamper: []string{"codec", "codec", "codec"}, K: 2, Stop: "exit0"})
	// NAMES ARE NOT REWRITTEN ON ANY HOP: a name holding a VALID per-cent escape on an unmarked, otherwise
	// passing case whose request deviates (fixed, in every run, with and without -v), and twins — two
	// names of one batch that a normalising hop (URL unescaping, '+' as blank, case folding, Unicode
	// normalisation, Latin-1 decoding) would identify, the client deviating on the first only: the
	// complaint fails the first and nobody else
	addX(c04LoopIn{Layout: 1, MaxServers: 1, Cases: []string{"ru", "ru"}, Names: []string{"n0-wrong-codec-100%25-compressible", "n1-a%2Fb+c%41"},
		Tamper: []string{gen.Pick(r, tampers), gen.Pick(r, tampers)}, K: -1, Stop: "serve", Quiet: r.Bool()})
	nTwin := 2
	if c.Thorough() {
		nTwin = 2 * len(c04TwinNames)
	}
	for i := 0; i < nTwin; i++ {
		tw := c04TwinNames[i%len(c04TwinNames)]
		if !c.Thorough() && i > 0 {
			tw = gen.Pick(r, c04TwinNames[1:])
		}
		a, b := "t-"+tw[0], "t-"+tw[1]
		if i > 0 && r.Bool() {
			a, b = b, a // the deviating case is the plain one
		}
		second := "ru"
		if i > 0 {
			second = gen.Pick(r, []string{"ru", "ru", "rf"})
		}
		addX(c04LoopIn{Layout: gen.Pick(r, []int{1, 1, 2}), MaxServers: gen.Pick(r, []int{1, 4}), Cases: []string{"ru", second},
			Names: []string{a, b}, Tamper: []string{gen.Pick(r, tampers), ""}, K: -1, Stop: "serve", Quiet: r.Bool()})
	}
	nRand := 6
	if c.Thorough() {
		nRand = 120
	}
	codes := []string{"ru", "rf", "rk", "wu", "wf", "wk"}
	for i := 0; i < nRand; i++ {
		layout := r.Range(1, 3)
		cs := make([]string, r.Range(1, 4))
		for j := range cs {
			if r.Chance(3, 4) {
				cs[j] = gen.Pick(r, good)
			} else {
				cs[j] = gen.Pick(r, codes)
			}
		}
		n := len(cs) * layout
		stop := gen.Pick(r, []string{"exit0", "exit0", "exit0", "exit3", "serve", "serve3"})
		k := r.Range(0, n)
		if stop == "serve" || stop == "serve3" {
			k = -1
		}
		if r.Bool() {
			addQuiet(layout, gen.Pick(r, []int{1, 2, 4}), cs, k, stop)
		} else {
			add(layout, gen.Pick(r, []int{1, 4}), cs, k, stop)
		}
	}
	c.DoParallel("runloop", ins, 8)
}
