//go:build verif

package referenceserver

import (
	"errors"
	"net/http"

	"connectrpc.com/conformance/internal"
	conformancev1 "connectrpc.com/conformance/internal/gen/proto/go/connectrpc/conformance/v1"
	"connectrpc.com/conformance/internal/gen/proto/go/connectrpc/conformance/v1/conformancev1connect"
	"connectrpc.com/connect"
	"google.golang.org/protobuf/types/known/anypb"
)

// VerifC13Detail is one error detail: message type name and serialized bytes.
type VerifC13Detail struct {
	Type  string
	Value []byte
}

func verifC13Error(code int32, msg string, details []VerifC13Detail) *connect.Error {
	err := connect.NewError(connect.Code(code), errors.New(msg))
	for _, d := range details {
		det, derr := connect.NewErrorDetail(&anypb.Any{TypeUrl: internal.DefaultAnyResolverPrefix + d.Type, Value: d.Value})
		if derr != nil {
			panic(derr)
		}
		err.AddDetail(det)
	}
	return err
}

// VerifC13GrpcStatusTrailers is grpcStatusTrailers on an error built from its parts.
func VerifC13GrpcStatusTrailers(code int32, msg string, details []VerifC13Detail) []*conformancev1.Header {
	return grpcStatusTrailers(verifC13Error(code, msg, details))
}

// VerifC13GrpcWebEndStream is grpcWebStatusEndStream.
func VerifC13GrpcWebEndStream(code int32, msg string, details []VerifC13Detail, trailers []*conformancev1.Header) string {
	return grpcWebStatusEndStream(verifC13Error(code, msg, details), trailers)
}

// VerifC13Handler is the reference-mode service handler as createServer assembles it (codec,
// interceptors, raw responder), without the request checks and without a listener.
func VerifC13Handler() http.Handler {
	mux := http.NewServeMux()
	mux.Handle(conformancev1connect.NewConformanceServiceHandler(
		&conformanceServer{referenceMode: true},
		connect.WithCodec(internal.StrictJSONCodec{}),
		connect.WithInterceptors(serverNameHandlerInterceptor{}, rawResponseRecorder{}),
	))
	return rawResponder(mux)
}
