import ConfModel.Driver.Common
import ConfModel.Model.Echo
import ConfModel.Spec.EchoAgree
namespace ConfModel.Driver.C02
open Lean ConfModel.Driver ConfModel.Echo

def hdrs (j : Json) : List Hdr := (arr j).map (fun h => ⟨str (field h "n"), strList (field h "v")⟩)

def errIn (j : Json) : Option Err :=
  if isNull j then none else
    some ⟨nat (field j "code"), (if isNull (field j "msg") then none else some (str (field j "msg"))),
          (natList (field j "details")).map Detail.other⟩

def stOf : String → ST
  | "unary" => .unary | "clientStream" => .clientStream | "serverStream" => .serverStream
  | "halfDuplex" => .halfDuplex | _ => .fullDuplex

def tcOf (j : Json) : TC :=
  let st := stOf (str (field j "st"))
  let d := field j "def"
  let hasDef := bool (field j "hasDef")
  let dh := hdrs (field d "hdrs")
  let dt := hdrs (field d "trls")
  let data := strList (field d "data")
  let kind := str (field d "kind")
  let udef : Option UnaryDef :=
    if hasDef && (st == .unary || st == .clientStream) then
      some ⟨dh, dt, match kind with
        | "data" => .data (data.headD "")
        | "error" => (match errIn (field d "err") with | some e => .error e | none => .none)
        | _ => .none⟩
    else none
  let sdef : Option StreamDef :=
    if hasDef && !(st == .unary || st == .clientStream) then some ⟨dh, dt, data, errIn (field d "err")⟩ else none
  { st := st, reqHdrs := hdrs (field j "reqHdrs"), reqs := natList (field j "reqs"), udef := udef, sdef := sdef,
    fdFlag := bool (field j "fdFlag") }

def infoOf (j : Json) : Option ReqInfo :=
  if isNull j then none else some ⟨hdrs (field j "hdrs"), (intList (field j "reqs")).map (fun i => if i < 0 then 1000000 else i.toNat)⟩

def detailOf (j : Json) : Detail :=
  if !(isNull (field j "info")) then .info ((infoOf (field j "info")).getD ⟨[], []⟩)
  else .other (let i := int (field j "other"); if i < 0 then 1000000 else i.toNat)

def errOut (j : Json) : Option Err :=
  if isNull j then none else
    some ⟨nat (field j "code"), (if isNull (field j "msg") then none else some (str (field j "msg"))),
          (arr (field j "details")).map detailOf⟩

def resultOf (j : Json) : Result :=
  ⟨hdrs (field j "hdrs"), hdrs (field j "trls"),
   (arr (field j "payloads")).map (fun p => ⟨str (field p "data"), infoOf (field p "info")⟩), errOut (field j "err")⟩

def hdrJ (h : Hdr) : Json := Json.mkObj [("n", h.name), ("v", toJson h.vals)]
def infoJ : Option ReqInfo → Json
  | none => Json.null
  | some ri => Json.mkObj [("hdrs", Json.arr (ri.hdrs.map hdrJ).toArray), ("reqs", toJson ri.reqs)]
def resultJ (r : Result) : Json :=
  Json.mkObj [("hdrs", Json.arr (r.hdrs.map hdrJ).toArray), ("trls", Json.arr (r.trls.map hdrJ).toArray),
    ("payloads", Json.arr (r.payloads.map (fun p => Json.mkObj [("data", p.data), ("info", infoJ p.info)])).toArray),
    ("err", match r.err with
      | none => Json.null
      | some e => Json.mkObj [("code", e.code), ("msg", match e.msg with | some m => Json.str m | none => Json.null),
          ("details", Json.arr (e.details.map (fun d => match d with
            | .other i => Json.mkObj [("other", i)]
            | .info ri => Json.mkObj [("info", infoJ (some ri))])).toArray)])]

/-- the identity transport (the model's own rendering of what the peers deliver) -/
def idWire (tc : TC) : Wire := ⟨tc.reqHdrs, id, id, fun h t => mergeHeaders h t⟩

def judgeE2E (inp impl : Json) : Verdict :=
    if !(isNull (field impl "panic")) then
      { agree := false, holds := false, why := "panic during the run: " ++ str (field impl "panic") } else
    let cases := (arr (field inp "cases")).map tcOf
    let perms := arr (field impl "perms")
    let wf := cases.all (fun tc => WellFormed tc)
    -- property: every permutation of every well-formed case passes
    let failing0 := perms.filter (fun p => str (field p "verdict") != "pass")
    -- known finding F22 (schedule-dependent): the grpc-go reference server behind the grpc-web
    -- wrapper over HTTP/1.1 intermittently fails a call with "http: invalid Read on closed Body"
    let isF22 (p : Json) : Bool :=
      let n := str (field p "name")
      (n.splitOn "HTTPVersion:1/Protocol:PROTOCOL_GRPC_WEB/").length > 1 && (n.splitOn "(grpc server impl)").length > 1 &&
        ((str (field p "why")).splitOn "http: invalid Read on closed Body").length > 1
    let onlyF22 := !failing0.isEmpty && failing0.all isF22
    let failing := failing0
    -- correspondence: what the wrapped reference client reported is what the model of the peers says
    let disagree := perms.filter (fun p =>
      let a := field p "actual"
      if isNull a || isF22 p then false else
        match cases[nat (field p "case")]? with
        | none => true
        | some tc => !(agree tc.st (actual tc (idWire tc) false) (resultOf a)))
    let runErr := str (field impl "runErr")
    let holds := failing.isEmpty && (!perms.isEmpty || cases.isEmpty)
    { agree := disagree.isEmpty && (runErr == "" || !failing.isEmpty), holds := holds || !wf, nontrivial := perms.length > 1,
      model := Json.mkObj [("perms", perms.length), ("disagree", disagree.length)],
      cls := str (field inp "mode"),
      why := if !holds then
          (if onlyF22 then "F22: " else "") ++ "permutations of well-formed cases fail: " ++ toString ((failing.take 3).map (fun p => str (field p "name") ++ " :: " ++ str (field p "why"))) ++ " runErr=" ++ runErr
        else if !disagree.isEmpty then
          "reported result differs from the model of the peers: " ++ toString ((disagree.take 2).map (fun p => str (field p "name") ++ " actual=" ++ (field p "actual").compress))
        else "" }

def handle : Handler := fun op inp impl =>
  match op with
  | "expected" =>
    let tc := tcOf inp
    if !(isNull (field impl "panic")) then
      { agree := false, holds := false, why := "panic while deriving the expectation: " ++ str (field impl "panic") } else
    if str (field impl "err") != "" then
      -- the repaired generator never rejects a case of this family
      { agree := false, holds := true, why := "generator returned an error" } else
    let r := resultOf (field impl "result")
    let m := expected tc
    { agree := r == m, holds := true, nontrivial := tc.udef.isSome || tc.sdef.isSome, model := resultJ m,
      cls := str (field inp "st") }
  | "load" =>
    let p := !(isNull (field impl "panic"))
    { agree := true, holds := !p, nontrivial := true, cls := str (field impl "class"),
      why := if p then "loading a parseable suite crashed the runner: " ++ str (field impl "panic") else "" }
  | "e2e" =>
    -- the main stream must not contain the shape of known finding F07 (it has its own op)
    if ((arr (field inp "cases")).map tcOf).any isF07 then bad "F07-shaped case in the e2e stream" else
    if str (field inp "mode") == "client" && ((arr (field inp "cases")).map tcOf).any isF27 then bad "F27-shaped case in the client-mode e2e stream" else
    judgeE2E inp impl
  | "e2e-f07" =>
    -- only F07-shaped cases: full-duplex, no responses, an error, >= 2 requests
    if !(((arr (field inp "cases")).map tcOf).all isF07) then bad "e2e-f07 input contains a case outside the F07 shape" else
    let v := judgeE2E inp impl
    -- every failure of this op must be the F07 symptom and nothing else
    let perms := arr (field impl "perms")
    let other := perms.filter (fun p => str (field p "verdict") != "pass" &&
      !((str (field p "why")).startsWith "expecting " && (str (field p "why")).endsWith " request messages to be described but instead got 1"))
    if other.isEmpty then { v with why := if v.holds then "" else "F07: " ++ v.why }
    else { v with holds := false, why := "failure other than the F07 symptom: " ++ toString ((other.take 2).map (fun p => str (field p "name") ++ " :: " ++ str (field p "why"))) }
  | "e2e-f27" =>
    -- only F27-shaped cases (empty request stream), mode client
    if !(((arr (field inp "cases")).map tcOf).all isF27) || str (field inp "mode") != "client" then bad "e2e-f27 input outside the F27 shape" else
    let v := judgeE2E inp impl
    -- every failure of this op must be the F27 symptom (grpc-go's own HTTP/2 server, gRPC, timed out) and nothing else
    let perms := arr (field impl "perms")
    let has (s sub : String) : Bool := (s.splitOn sub).length > 1
    let other := perms.filter (fun p => str (field p "verdict") != "pass" &&
      !(has (str (field p "name")) "HTTPVersion:2/Protocol:PROTOCOL_GRPC/" && has (str (field p "name")) "(grpc server impl)" &&
        has (str (field p "why")) "timed out waiting for result from client"))
    if other.isEmpty then { v with why := if v.holds then "" else "F27: " ++ v.why }
    else { v with holds := false, why := "failure other than the F27 symptom: " ++ toString ((other.take 2).map (fun p => str (field p "name") ++ " :: " ++ str (field p "why"))) }
  | _ => bad ("unknown op " ++ op)

end ConfModel.Driver.C02
