/-
Declarative side of C16 for the glue around the tracer slots:
* the reference client's per-call hand-off (what the waiter `examineWireDetails` must obtain),
  in terms of the history of a script alone — the state of the call's context plays no role;
* the server-side middleware: the trace handed over is final and complete.
-/
import ConfModel.Model.WireHandoff
import ConfModel.Model.HandlerTrace
namespace ConfModel.HandoffGlue
open ConfModel

/-! ### the reference client's per-call hand-off -/
section wire
open WireHandoff

def completesCall (k : Nat) : Op → Option Nat
  | .complete j t => if j == k then some t else none
  | _ => none

/-- the first trace completed for call `k` among `ops` -/
def firstTrace (k : Nat) (ops : List Op) : Option Nat := (ops.filterMap (completesCall k)).head?

/-- the operation belongs to the waiter of call `k` -/
def usesWaiter (k : Nat) : Op → Bool
  | .begin j | .grace j | .join j | .peek j => j == k
  | _ => false

def isCtx : Op → Bool
  | .ctxDone _ => true
  | _ => false

/-- what the property allows at one position, given the history `hist` (everything before) and
the set `pending` of calls whose examination has begun and has not been seen to return.
The context events of the history are never looked at. -/
def specStep (bare : List Nat) (hist : List Op) (pending : List Nat) : Op → List Nat × Obs
  | .begin k =>
    if pending.contains k then (pending, .busy)
    else if bare.contains k then (pending, .notConfigured)
    else match firstTrace k hist with
      | some t => (pending, .trace t)           -- completed before the wait begins: at once
      | none => (k :: pending, .waiting)
  | .ctxDone _ => (pending, .none)
  | .complete k _ =>
    if !bare.contains k && (firstTrace k hist).isSome then (pending, .panic) else (pending, .none)
  | .grace k =>
    if pending.contains k then
      (pending.filter (· != k), match firstTrace k hist with | some t => .trace t | none => .notFound)
    else (pending, .idle)
  | .join k | .peek k =>
    if pending.contains k then
      match firstTrace k hist with
      | some t => (pending.filter (· != k), .trace t)   -- completed while waiting: delivered
      | none => (pending, .waiting)                      -- still inside the grace period
    else (pending, .idle)

def specGo (bare : List Nat) : List Op → List Nat → List Op → List Obs
  | _, _, [] => []
  | hist, pending, o :: os =>
    let r := specStep bare hist pending o
    r.2 :: specGo bare (hist ++ [o]) r.1 os

/-- the observations the property allows for a whole script -/
def specObs (bare : List Nat) (ops : List Op) : List Obs := specGo bare [] [] ops

end wire

/-! ### the server-side middleware -/
section handler
open HandlerTrace

/-- What belongs to the response as trailers when it ends with the header map `h`, the names
`declared` having been announced when the header was written (net/http's rule): an announced
name carries the values of its plain entry followed by those of its prefixed entry; any other
name is a trailer only through a `Trailer:`-prefixed entry. -/
def trailerSpec (declared : List String) (h : Hdr) (n : String) : Option (List String) :=
  if declared.contains n then some (hget h (.plain n) ++ hget h (.pre n))
  else h.lookup (.pre n)

/-- every name of `names` has in `t` exactly the value `trailerSpec` gives (used with all names
that occur anywhere) -/
def trailersOK (declared : List String) (h : Hdr) (t : Tr) (names : List String) : Bool :=
  names.all fun n => t.lookup n == trailerSpec declared h n

/-- the hand-off is final: what the consumer saw when the trace was completed is what is there
when everything is over -/
def isFinal (s : St) : Bool := finalView s == atCompletion s

/-- an action that can end the operation before the response ends -/
def isEarlyEnd : Act → Bool
  | .readErr | .closeReq | .cancel => true
  | _ => false

end handler

end ConfModel.HandoffGlue
