#!/usr/bin/env python3
"""Runs every claimed check on the current tree for several seeds and reports exits/violations.
Usage: sweep.py [--seeds 1,2,3] [--tier quick|thorough] [--props C01,C02]   (evidence is restored afterwards)"""
import sys, os, json, subprocess, time
VERIF = os.path.dirname(os.path.abspath(__file__))
seeds, tier, props = [1, 2, 3], "quick", None
a = sys.argv[1:]
while a:
    if a[0] == "--seeds": seeds = [int(x) for x in a[1].split(",")]; a = a[2:]
    elif a[0] == "--tier": tier = a[1]; a = a[2:]
    elif a[0] == "--props": props = a[1].split(","); a = a[2:]
    else: a = a[1:]
man = json.load(open(os.path.join(VERIF, "MANIFEST.json")))
bad = 0
for c in man["checks"]:
    pid = c["property_id"]
    if props and pid not in props: continue
    for s in seeds:
        t0 = time.time()
        env = dict(os.environ, VERIF_SEED=str(s))
        p = subprocess.run(["python3", "check.py", pid, "--tier", tier], cwd=VERIF, env=env, capture_output=True, text=True)
        viol = [l for l in p.stdout.splitlines() if l.startswith("VIOLATION")]
        kf = len([l for l in p.stdout.splitlines() if l.startswith("KNOWN-FINDING")])
        status = "ok" if p.returncode == 0 and not viol else "FAIL"
        if status != "ok": bad += 1
        print(f"{pid} seed={s} {status} exit={p.returncode} known={kf} {time.time()-t0:.0f}s {viol[:1]}", flush=True)
subprocess.run(["git", "checkout", "evidence/"], cwd=VERIF, capture_output=True)
sys.exit(1 if bad else 0)
