/-
End-to-end (C15): the wrapped connection.  Running `Read`/`Write`/`Close` calls is running
layers 2 + 3 on the wire events of the calls; the frames of a direction among those events
are the frames layer 1 makes of the direction's whole byte string.
-/
import ConfModel.Lemmas.H2E2EMain
import ConfModel.Lemmas.H2Frame
set_option linter.unusedSimpArgs false
set_option linter.unusedVariables false
namespace ConfModel.H2
open Machine

variable {σ : Type}

theorem applyOps_append (c : Coll) (a b : Ops) : applyOps c (a ++ b) = applyOps (applyOps c a) b := by
  simp [applyOps, Coll.run, List.foldl_append]

theorem runW_append (s : L2 × Coll) (a b : List WEv) : runW s (a ++ b) = runW (runW s a) b := by
  simp [runW, List.foldl_append]

/-- the frames of one call go through `handleFrame` one after the other -/
theorem runW_frames (isReq : Bool) : ∀ (fs : List Frame) (l2 : L2) (c : Coll),
    runW (l2, c) (fs.map (WEv.frame isReq)) = ((handleFrames l2 isReq fs).1, applyOps c (handleFrames l2 isReq fs).2)
  | [], l2, c => by simp [runW, handleFrames, applyOps, Coll.run]
  | f :: fs, l2, c => by
    have ih := runW_frames isReq fs (handleFrame l2 isReq f).1 (applyOps c (handleFrame l2 isReq f).2)
    simp only [List.map_cons, handleFrames, applyOps_append]
    rw [← ih]
    rfl

theorem conn_step_eq (decR decW : Bytes → σ → Option (Frame × σ)) (c : Conn σ) (call : Call) :
    ((c.step decR decW call).l2, (c.step decR decW call).coll) = runW (c.l2, c.coll) (c.callEvents decR decW call) := by
  cases call with
  | read data err =>
    simp only [Conn.callEvents, runW_append, runW_frames]
    cases err <;> simp [Conn.step, lostAfterRead, runW, wstep, Conn.cancelAll]
  | write data n err =>
    simp only [Conn.callEvents, runW_append, runW_frames]
    cases err <;> simp [Conn.step, lostAfterWrite, runW, wstep, Conn.cancelAll]
  | close err =>
    cases err <;> simp [Conn.step, Conn.callEvents, closeErr, runW, wstep, Conn.cancelAll]
  | timers => simp [Conn.step, Conn.callEvents, runW, wstep]

theorem conn_run_eq (decR decW : Bytes → σ → Option (Frame × σ)) : ∀ (calls : List Call) (c : Conn σ),
    ((c.run decR decW calls).l2, (c.run decR decW calls).coll) = runW (c.l2, c.coll) (c.wireEvents decR decW calls)
  | [], c => rfl
  | call :: calls, c => by
    have ih := conn_run_eq decR decW calls (c.step decR decW call)
    simp only [Conn.run, List.foldl_cons, Conn.wireEvents, runW_append] at ih ⊢
    rw [← conn_step_eq]
    exact ih

theorem lossesOK_append (a b : List WEv) : lossesOK (a ++ b) = (lossesOK a && lossesOK b) := by
  simp [lossesOK, List.all_append]

theorem lossesOK_frames (isReq : Bool) (fs : List Frame) : lossesOK (fs.map (WEv.frame isReq)) = true := by
  simp [lossesOK, WEv.lossOK]

theorem callEvents_lossesOK (decR decW : Bytes → σ → Option (Frame × σ)) (c : Conn σ) (call : Call) :
    lossesOK (c.callEvents decR decW call) = true := by
  cases call with
  | read data err =>
    simp only [Conn.callEvents, lossesOK_append, lossesOK_frames, Bool.true_and]
    cases err <;> simp [lostAfterRead, lossesOK, WEv.lossOK, Err.isLoss]
  | write data n err =>
    simp only [Conn.callEvents, lossesOK_append, lossesOK_frames, Bool.true_and]
    cases err <;> simp [lostAfterWrite, lossesOK, WEv.lossOK, Err.isLoss]
  | close err => cases err <;> simp [Conn.callEvents, closeErr, lossesOK, WEv.lossOK, Err.isLoss]
  | timers => simp [Conn.callEvents, lossesOK, WEv.lossOK]

/-- the connection only ever ends with an I/O error or `Close` -/
theorem wireEvents_lossesOK (decR decW : Bytes → σ → Option (Frame × σ)) : ∀ (calls : List Call) (c : Conn σ),
    lossesOK (c.wireEvents decR decW calls) = true
  | [], _ => rfl
  | call :: calls, c => by
    simp only [Conn.wireEvents, lossesOK_append, callEvents_lossesOK, Bool.true_and]
    exact wireEvents_lossesOK decR decW calls _

/-! ### the frames of one direction -/

theorem trace_preserves {S O : Type} (m : Machine S O) (P : S → Prop) (ha : ∀ s d, P s → P (m.absorb s d))
    (hc : ∀ s d, P s → P (m.complete s d).1) : ∀ (fuel : Nat) (s : S) (d : Bytes), P s → P (m.trace fuel s d).1
  | 0, _, _, h => h
  | fuel+1, s, d, h => by
    rw [trace_unfold]
    split
    · exact h
    · split
      · exact h
      · split
        · exact ha s d h
        · exact trace_preserves m P ha hc fuel _ _ (hc s _ h)

theorem emit_isReq (dec : Bytes → σ → Option (Frame × σ)) (s : FSt σ) : (emit dec s).1.isReq = s.isReq := by
  unfold emit
  split
  · rfl
  · split <;> rfl

theorem frameTrace_isReq (dec : Bytes → σ → Option (Frame × σ)) (s : FSt σ) (d : Bytes) :
    (frameTrace dec s d).1.isReq = s.isReq := by
  apply trace_preserves (frameMachine dec) (fun s' => s'.isReq = s.isReq) _ _ _ s d rfl
  · intro s' d' h
    show (fAbsorb s' d').isReq = s.isReq
    unfold fAbsorb
    split
    · exact h
    · split <;> exact h
  · intro s' d' h
    show (fComplete dec s' d').1.isReq = s.isReq
    unfold fComplete
    split
    · split <;> exact h
    · split
      · simp only []
        split
        · rw [emit_isReq]; exact h
        · exact h
      · rw [emit_isReq]; exact h

theorem dirFrames_append (isReq : Bool) : ∀ (a b : List WEv), dirFrames isReq (a ++ b) = dirFrames isReq a ++ dirFrames isReq b
  | [], _ => rfl
  | w :: a, b => by
    cases w with
    | frame r f =>
      simp only [List.cons_append, dirFrames]
      split <;> simp [dirFrames_append isReq a b]
    | lost err => simpa [dirFrames] using dirFrames_append isReq a b
    | timers => simpa [dirFrames] using dirFrames_append isReq a b

theorem dirFrames_same (isReq : Bool) : ∀ (fs : List Frame), dirFrames isReq (fs.map (WEv.frame isReq)) = fs
  | [] => rfl
  | f :: fs => by simp [dirFrames, dirFrames_same isReq fs]

theorem dirFrames_other (isReq r : Bool) (h : r ≠ isReq) : ∀ (fs : List Frame), dirFrames isReq (fs.map (WEv.frame r)) = []
  | [] => rfl
  | f :: fs => by simp [dirFrames, h, dirFrames_other isReq r h fs]

theorem dirFrames_lostR (isReq : Bool) (err : IOErr) : dirFrames isReq (lostAfterRead err) = [] := by
  cases err <;> rfl
theorem dirFrames_lostW (isReq : Bool) (err : IOErr) : dirFrames isReq (lostAfterWrite err) = [] := by
  cases err <;> rfl

theorem step_rd (decR decW : Bytes → σ → Option (Frame × σ)) (c : Conn σ) (call : Call) :
    (c.step decR decW call).rd = (match call with | .read d _ => (frameTrace decR c.rd d).1 | _ => c.rd) ∧
    (c.step decR decW call).wr = (match call with | .write d _ _ => (frameTrace decW c.wr d).1 | _ => c.wr) := by
  cases call with
  | read data err => cases err <;> exact ⟨rfl, rfl⟩
  | write data n err => cases err <;> exact ⟨rfl, rfl⟩
  | close err => cases err <;> exact ⟨rfl, rfl⟩
  | timers => exact ⟨rfl, rfl⟩

/-- **The request/response frames among the wire events are those of the direction's whole
byte string**, however the bytes were cut into calls and whatever happened in between. -/
theorem wire_frames_read (decR decW : Bytes → σ → Option (Frame × σ)) : ∀ (calls : List Call) (c : Conn σ),
    FInv c.rd → c.wr.isReq ≠ c.rd.isReq →
    dirFrames c.rd.isReq (c.wireEvents decR decW calls) = (frameTrace decR c.rd (readBytes calls)).2
  | [], c, _, _ => by simp [Conn.wireEvents, dirFrames, readBytes, frameTrace, run_nil]
  | call :: calls, c, hi, hne => by
    have hs := step_rd decR decW c call
    simp only [Conn.wireEvents, dirFrames_append]
    cases call with
    | read data err =>
      simp only at hs
      have hi' : FInv (c.step decR decW (.read data err)).rd := by rw [hs.1]; exact inv_run' (frame_lawful decR) c.rd data hi
      have hq : (c.step decR decW (.read data err)).rd.isReq = c.rd.isReq := by rw [hs.1]; exact frameTrace_isReq decR c.rd data
      have hne' : (c.step decR decW (.read data err)).wr.isReq ≠ (c.step decR decW (.read data err)).rd.isReq := by
        rw [hq, hs.2]; exact hne
      have ih := wire_frames_read decR decW calls _ hi' hne'
      rw [hq, hs.1] at ih
      simp only [Conn.callEvents, dirFrames_append, dirFrames_same, dirFrames_lostR, List.append_nil, ih, readBytes]
      unfold frameTrace
      rw [Machine.run_append (frame_lawful decR) c.rd data (readBytes calls) hi]
      rfl
    | write data n err =>
      simp only at hs
      have hq : (c.step decR decW (.write data n err)).wr.isReq = c.wr.isReq := by rw [hs.2]; exact frameTrace_isReq decW c.wr data
      have hne' : (c.step decR decW (.write data n err)).wr.isReq ≠ (c.step decR decW (.write data n err)).rd.isReq := by
        rw [hq, hs.1]; exact hne
      have ih := wire_frames_read decR decW calls _ (by rw [hs.1]; exact hi) hne'
      rw [hs.1] at ih
      simp only [Conn.callEvents, dirFrames_append, dirFrames_other c.rd.isReq c.wr.isReq hne, dirFrames_lostW, List.append_nil,
        List.nil_append, ih, readBytes]
    | close err =>
      simp only at hs
      have ih := wire_frames_read decR decW calls _ (by rw [hs.1]; exact hi) (by rw [hs.1, hs.2]; exact hne)
      rw [hs.1] at ih
      simp only [Conn.callEvents, dirFrames, List.nil_append, ih, readBytes]
    | timers =>
      simp only at hs
      have ih := wire_frames_read decR decW calls _ (by rw [hs.1]; exact hi) (by rw [hs.1, hs.2]; exact hne)
      rw [hs.1] at ih
      simp only [Conn.callEvents, dirFrames, List.nil_append, ih, readBytes]

theorem wire_frames_write (decR decW : Bytes → σ → Option (Frame × σ)) : ∀ (calls : List Call) (c : Conn σ),
    FInv c.wr → c.wr.isReq ≠ c.rd.isReq →
    dirFrames c.wr.isReq (c.wireEvents decR decW calls) = (frameTrace decW c.wr (writeBytes calls)).2
  | [], c, _, _ => by simp [Conn.wireEvents, dirFrames, writeBytes, frameTrace, run_nil]
  | call :: calls, c, hi, hne => by
    have hs := step_rd decR decW c call
    simp only [Conn.wireEvents, dirFrames_append]
    cases call with
    | write data n err =>
      simp only at hs
      have hi' : FInv (c.step decR decW (.write data n err)).wr := by rw [hs.2]; exact inv_run' (frame_lawful decW) c.wr data hi
      have hq : (c.step decR decW (.write data n err)).wr.isReq = c.wr.isReq := by rw [hs.2]; exact frameTrace_isReq decW c.wr data
      have hne' : (c.step decR decW (.write data n err)).wr.isReq ≠ (c.step decR decW (.write data n err)).rd.isReq := by
        rw [hq, hs.1]; exact hne
      have ih := wire_frames_write decR decW calls _ hi' hne'
      rw [hq, hs.2] at ih
      simp only [Conn.callEvents, dirFrames_append, dirFrames_same, dirFrames_lostW, List.append_nil, ih, writeBytes]
      unfold frameTrace
      rw [Machine.run_append (frame_lawful decW) c.wr data (writeBytes calls) hi]
      rfl
    | read data err =>
      simp only at hs
      have hq : (c.step decR decW (.read data err)).rd.isReq = c.rd.isReq := by rw [hs.1]; exact frameTrace_isReq decR c.rd data
      have hne' : (c.step decR decW (.read data err)).wr.isReq ≠ (c.step decR decW (.read data err)).rd.isReq := by
        rw [hq, hs.2]; exact hne
      have ih := wire_frames_write decR decW calls _ (by rw [hs.2]; exact hi) hne'
      rw [hs.2] at ih
      simp only [Conn.callEvents, dirFrames_append, dirFrames_other c.wr.isReq c.rd.isReq (fun h => hne h.symm), dirFrames_lostR,
        List.append_nil, List.nil_append, ih, writeBytes]
    | close err =>
      simp only at hs
      have ih := wire_frames_write decR decW calls _ (by rw [hs.2]; exact hi) (by rw [hs.1, hs.2]; exact hne)
      rw [hs.2] at ih
      simp only [Conn.callEvents, dirFrames, List.nil_append, ih, writeBytes]
    | timers =>
      simp only at hs
      have ih := wire_frames_write decR decW calls _ (by rw [hs.2]; exact hi) (by rw [hs.1, hs.2]; exact hne)
      rw [hs.2] at ih
      simp only [Conn.callEvents, dirFrames, List.nil_append, ih, writeBytes]

end ConfModel.H2
