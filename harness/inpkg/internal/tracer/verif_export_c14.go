//go:build verif

package tracer

import (
	"bytes"
	"context"
	"errors"
	"fmt"
	"io"
	"net/http"
	"net/url"
	"sort"
	"strings"
	"sync"
	"time"

	"connectrpc.com/conformance/internal/gen/proto/go/connectrpc/conformance/v1"
)

// VerifErrInner is the error the scripted inner readers/writers return.
var VerifErrInner = errors.New("verif: scripted inner error")

// VerifCollector records every Collector.Complete call.
type VerifCollector struct {
	mu     sync.Mutex
	Traces []Trace
}

func (c *VerifCollector) Complete(t Trace) {
	c.mu.Lock()
	defer c.mu.Unlock()
	c.Traces = append(c.Traces, t)
}

func (c *VerifCollector) Count() int {
	c.mu.Lock()
	defer c.mu.Unlock()
	return len(c.Traces)
}

// VerifErrClass maps an error to nil / inner (is or wraps the scripted error) / other.
func VerifErrClass(err error) string {
	switch {
	case err == nil:
		return "nil"
	case errors.Is(err, VerifErrInner):
		return "inner"
	case errors.Is(err, io.EOF):
		return "eof"
	default:
		return "other"
	}
}

// VerifBodyEvents renders the events of a trace canonically:
//
//	qd:<flags|->:<len|->:<actual>:<index>   request body data      (p… for the response)
//	ps:<hex>                                 end-stream content
//	qe:<nil|inner|other>                     body end
//	Q request start, P response start, PX response error, QC request cancelled
func VerifBodyEvents(tr Trace) []string {
	out := make([]string, 0, len(tr.Events))
	data := func(side string, env *Envelope, n uint64, idx int) string {
		if env == nil {
			return fmt.Sprintf("%sd:-:-:%d:%d", side, n, idx)
		}
		return fmt.Sprintf("%sd:%d:%d:%d:%d", side, env.Flags, env.Len, n, idx)
	}
	for _, ev := range tr.Events {
		switch ev := ev.(type) {
		case *RequestStart:
			out = append(out, "Q")
		case *RequestBodyData:
			out = append(out, data("q", ev.Envelope, ev.Len, ev.MessageIndex))
		case *RequestBodyEnd:
			out = append(out, "qe:"+VerifErrClass(ev.Err))
		case *ResponseStart:
			out = append(out, "P")
		case *ResponseError:
			out = append(out, "PX")
		case *ResponseBodyData:
			out = append(out, data("p", ev.Envelope, ev.Len, ev.MessageIndex))
		case *ResponseBodyEndStream:
			out = append(out, fmt.Sprintf("ps:%x", ev.Content))
		case *ResponseBodyEnd:
			out = append(out, "pe:"+VerifErrClass(ev.Err))
		case *RequestCanceled:
			out = append(out, "QC")
		default:
			out = append(out, fmt.Sprintf("?%T", ev))
		}
	}
	return out
}

// verifArray is the ONE array a scripted caller owns for its Reads (or Writes) — the discipline of
// bufio.Reader / bufio.Writer and of handlers with a fixed buffer.  Before every call the whole
// array is overwritten with a canary that changes from call to call (what the caller's next use
// does to the previous call's bytes); the slice handed to the wrapper has spare capacity; after
// the call the caller looks at the whole array.
type verifArray struct {
	b     []byte
	calls int
	viol  string
}

func newVerifArray(n int) *verifArray { return &verifArray{b: make([]byte, n+8)} }

// The canaries have neither bit of 0x82 set: should a tracer under test ever read one as the flags
// byte of an envelope, it is not an end-stream message, for which the tracer pre-allocates the
// declared length (four canary bytes declare up to a gigabyte).
func (a *verifArray) canary() byte { return [...]byte{0x41, 0x01, 0x24, 0x05, 0x11}[a.calls%5] }

// next refills the array and returns the slice of length n (capacity: the rest of the array)
func (a *verifArray) next(n int) []byte {
	a.calls++
	c := a.canary()
	for i := range a.b {
		a.b[i] = c
	}
	return a.b[:n]
}

// check: everything behind the first n bytes still is the canary
func (a *verifArray) check(what string, n int) {
	c := a.canary()
	for i := n; i < len(a.b); i++ {
		if a.b[i] != c && a.viol == "" {
			a.viol = fmt.Sprintf("%s %d: the caller's array was modified beyond the %d bytes of the call (offset %d)", what, a.calls, n, i)
		}
	}
}

// VerifStep is one result of the scripted inner reader / writer.
type VerifStep struct {
	Data string `json:"d"` // hex
	Err  string `json:"e"` // nil | eof | inner
}

// VerifScriptReader returns the scripted results in turn (a Read never returns more than the
// caller's buffer holds; the remainder is then returned by the next Read, without error).
type VerifScriptReader struct {
	Steps    [][]byte
	Errs     []error
	CloseErr error
	Log      []VerifStep // what it actually returned
	Closes   int
	pos      int
	after    error // returned by Reads past the end of the script
}

func (r *VerifScriptReader) Read(p []byte) (int, error) {
	if r.pos >= len(r.Steps) {
		err := r.after
		if err == nil {
			err = io.EOF
		}
		r.Log = append(r.Log, VerifStep{"", VerifErrClass(err)})
		return 0, err
	}
	d := r.Steps[r.pos]
	n := copy(p, d)
	var err error
	if n < len(d) {
		r.Steps[r.pos] = d[n:]
	} else {
		err = r.Errs[r.pos]
		r.pos++
		if err != nil {
			r.after = err
		}
	}
	r.Log = append(r.Log, VerifStep{fmt.Sprintf("%x", p[:n]), VerifErrClass(err)})
	return n, err
}

func (r *VerifScriptReader) Close() error {
	r.Closes++
	return r.CloseErr
}

func verifErr(cls string) error {
	switch cls {
	case "eof":
		return io.EOF
	case "inner":
		return VerifErrInner
	}
	return nil
}

// VerifNewScriptReader builds a scripted reader; errs[i] ∈ {"", "nil", "eof", "inner"}.
func VerifNewScriptReader(chunks [][]byte, errs []string, closeErr string) *VerifScriptReader {
	r := &VerifScriptReader{CloseErr: verifErr(closeErr)}
	for i, c := range chunks {
		r.Steps = append(r.Steps, append([]byte(nil), c...))
		r.Errs = append(r.Errs, verifErr(errs[i]))
	}
	return r
}

func verifRequest(h http.Header) *http.Request {
	hdr := h.Clone()
	if hdr == nil {
		hdr = http.Header{}
	}
	hdr.Set(testCaseNameHeader, "verif/case")
	return &http.Request{
		Method: http.MethodPost, URL: &url.URL{Scheme: "http", Host: "verif", Path: "/svc/Method"},
		Proto: "HTTP/1.1", ProtoMajor: 1, ProtoMinor: 1, Header: hdr, ContentLength: -1,
	}
}

// VerifReaderOut is what one tracing-reader session produced.
type VerifReaderOut struct {
	Events      []string    `json:"events"`      // body events of the single completed trace
	Seen        []VerifStep `json:"seen"`        // what the caller of the tracing reader got
	Inner       []VerifStep `json:"inner"`       // what the inner reader returned
	Completions int         `json:"completions"` // Collector.Complete calls
	Done        int         `json:"done"`        // whenDone calls (response side)
	Closes      int         `json:"closes"`      // Close calls that reached the inner reader
	CloseSeen   []string    `json:"closeSeen"`   // error classes the caller got from Close
	BufViol     string      `json:"bufViol"`     // "" or: how the caller found its array modified outside buf[:n]
}

// VerifTraceReader drives the real tracing reader — newRequestReader for the request side,
// newReader (with a whenDone hook, as TracingRoundTripper does) for the response side — over
// a scripted body. actions: "r" = Read with a bufSize buffer, "c" = Close. The builder is the
// real one (newBuilder) and is flushed with build() at the end.
func VerifTraceReader(isRequest, client bool, headers http.Header, inner *VerifScriptReader, actions []string, bufSize int) VerifReaderOut {
	var out VerifReaderOut
	coll := &VerifCollector{}
	bld, _ := newBuilder(verifRequest(headers), client, coll)
	var rd io.ReadCloser
	if isRequest {
		rd = newRequestReader(headers, inner, true, bld)
	} else {
		rd = newReader(headers, inner, false, bld, func() { out.Done++ })
	}
	arr := newVerifArray(bufSize)
	for _, a := range actions {
		switch a {
		case "r":
			buf := arr.next(bufSize) // stale bytes beyond n must never be looked at, nothing may be kept or written
			n, err := rd.Read(buf)
			arr.check("Read", n)
			out.Seen = append(out.Seen, VerifStep{fmt.Sprintf("%x", buf[:n]), VerifErrClass(err)})
		case "c":
			out.CloseSeen = append(out.CloseSeen, VerifErrClass(rd.Close()))
		}
	}
	bld.build()
	out.BufViol = arr.viol
	out.Completions = coll.Count()
	out.Events = []string{}
	if len(coll.Traces) > 0 {
		out.Events = VerifBodyEvents(coll.Traces[0])
	}
	out.Inner = inner.Log
	out.Closes = inner.Closes
	if out.Seen == nil {
		out.Seen = []VerifStep{}
	}
	if out.Inner == nil {
		out.Inner = []VerifStep{}
	}
	if out.CloseSeen == nil {
		out.CloseSeen = []string{}
	}
	return out
}

var verifCompressions = map[string]conformancev1.Compression{
	"": conformancev1.Compression_COMPRESSION_IDENTITY, "identity": conformancev1.Compression_COMPRESSION_IDENTITY,
	"gzip": conformancev1.Compression_COMPRESSION_GZIP, "br": conformancev1.Compression_COMPRESSION_BR,
	"zstd": conformancev1.Compression_COMPRESSION_ZSTD, "deflate": conformancev1.Compression_COMPRESSION_DEFLATE,
	"snappy": conformancev1.Compression_COMPRESSION_SNAPPY,
}

// VerifCompressionOf is the harness's own reading of an encoding name (ok=false: unknown).
func VerifCompressionOf(name string) (conformancev1.Compression, bool) {
	c, ok := verifCompressions[strings.ToLower(name)]
	return c, ok
}

// VerifSortedKeys is a small helper for canonical header dumps.
func VerifSortedKeys(h http.Header) []string {
	keys := make([]string, 0, len(h))
	for k := range h {
		keys = append(keys, k)
	}
	sort.Strings(keys)
	return keys
}

// ---------------------------------------------------------------- middleware sessions

// VerifHAction is one step of a scripted handler / caller.
type VerifHAction struct {
	Kind   string `json:"k"`           // read | closeReq | wh | w | flush | set | panic
	Data   string `json:"d,omitempty"` // hex, for w
	Status int    `json:"s,omitempty"` // for wh
	Key    string `json:"key,omitempty"`
	Val    string `json:"val,omitempty"`
}

// verifRW is a scripted http.ResponseWriter: it accepts `accept` bytes in total (-1: all),
// then fails with a short write.
type verifRW struct {
	h       http.Header
	status  int
	snap    []string
	written []byte
	accept  int
	flushes int
	wrote   bool
}

func verifDumpHeader(h http.Header) []string {
	out := []string{}
	for _, k := range VerifSortedKeys(h) {
		out = append(out, k+"="+strings.Join(h[k], ","))
	}
	return out
}

func (w *verifRW) Header() http.Header { return w.h }
func (w *verifRW) WriteHeader(code int) {
	if w.wrote {
		return
	}
	w.wrote = true
	w.status = code
	w.snap = verifDumpHeader(w.h)
}
func (w *verifRW) Write(p []byte) (int, error) {
	if !w.wrote {
		w.WriteHeader(http.StatusOK)
	}
	if w.accept >= 0 && len(w.written)+len(p) > w.accept {
		n := w.accept - len(w.written)
		w.written = append(w.written, p[:n]...)
		return n, VerifErrInner
	}
	w.written = append(w.written, p...)
	return len(p), nil
}
func (w *verifRW) Flush() { w.flushes++ }

// VerifHandlerOut is what one server-side session produced.
type VerifHandlerOut struct {
	Events      []string    `json:"events"`
	Completions int         `json:"completions"`
	Saw         []string    `json:"saw"`   // what the handler got back from each action
	Inner       []VerifStep `json:"inner"` // what the scripted request body returned
	Status      int         `json:"status"`
	HeaderAtWH  []string    `json:"headerAtWH"`
	Written     string      `json:"written"`
	FinalHeader []string    `json:"finalHeader"`
	Flushes     int         `json:"flushes"`
	Panicked    bool        `json:"panicked"`
	BufViol     string      `json:"bufViol"` // "" or: how the handler found one of its two arrays modified
}

// VerifServeHandler runs a scripted handler against a scripted ResponseWriter and request body,
// through the real TracingHandler when traced, directly otherwise.
func VerifServeHandler(traced bool, reqHeaders http.Header, body *VerifScriptReader, actions []VerifHAction, accept int) VerifHandlerOut {
	var out VerifHandlerOut
	coll := &VerifCollector{}
	rw := &verifRW{h: http.Header{}, accept: accept}
	ctx, cancel := context.WithCancel(context.Background())
	defer cancel()
	req := verifRequest(reqHeaders).WithContext(ctx)
	req.Body = body
	maxW := 0
	for _, a := range actions {
		if a.Kind == "w" && len(a.Data)/2 > maxW {
			maxW = len(a.Data) / 2
		}
	}
	rarr, warr := newVerifArray(1<<12), newVerifArray(maxW)
	handler := http.HandlerFunc(func(w http.ResponseWriter, r *http.Request) {
		for _, a := range actions {
			switch a.Kind {
			case "read":
				buf := rarr.next(1 << 12)
				n, err := r.Body.Read(buf)
				rarr.check("request Read", n)
				out.Saw = append(out.Saw, fmt.Sprintf("r:%x:%s", buf[:n], VerifErrClass(err)))
			case "closeReq":
				out.Saw = append(out.Saw, "c:"+VerifErrClass(r.Body.Close()))
			case "wh":
				w.WriteHeader(a.Status)
			case "w":
				data, _ := hexDecode(a.Data)
				arg := warr.next(len(data)) // the handler's one write buffer, refilled for every Write
				copy(arg, data)
				n, err := w.Write(arg)
				warr.check("response Write", len(data))
				if !bytes.Equal(arg, data) && warr.viol == "" {
					warr.viol = fmt.Sprintf("response Write %d: the argument was modified", warr.calls)
				}
				out.Saw = append(out.Saw, fmt.Sprintf("w:%d:%s", n, VerifErrClass(err)))
			case "flush":
				if f, ok := w.(http.Flusher); ok {
					f.Flush()
				}
			case "set":
				w.Header().Set(a.Key, a.Val)
			case "cancel": // the client goes away: the server cancels the request's context
				cancel()
			case "yield": // let the middleware's goroutine run
				time.Sleep(time.Millisecond)
			case "panic":
				panic("verif: scripted panic")
			}
		}
	})
	func() {
		defer func() {
			if r := recover(); r != nil {
				out.Panicked = true
			}
		}()
		if traced {
			TracingHandler(handler, coll).ServeHTTP(rw, req)
		} else {
			handler.ServeHTTP(rw, req)
		}
		// what net/http's server does when a handler returns without having written anything
		if !rw.wrote {
			rw.WriteHeader(http.StatusOK)
		}
	}()
	if traced {
		// when the cancel goroutine takes the trace it hands it to the collector on its own,
		// possibly after the handler has returned: wait for the delivery
		for i := 0; i < 5000 && coll.Count() == 0; i++ {
			time.Sleep(time.Millisecond)
		}
	}
	out.Completions = coll.Count()
	out.Events = []string{}
	if len(coll.Traces) > 0 {
		out.Events = VerifBodyEvents(coll.Traces[0])
	}
	if out.Saw == nil {
		out.Saw = []string{}
	}
	out.Inner = body.Log
	if out.Inner == nil {
		out.Inner = []VerifStep{}
	}
	out.Status, out.HeaderAtWH, out.Written = rw.status, rw.snap, fmt.Sprintf("%x", rw.written)
	if out.HeaderAtWH == nil {
		out.HeaderAtWH = []string{}
	}
	out.FinalHeader = verifDumpHeader(rw.h)
	out.Flushes = rw.flushes
	out.BufViol = rarr.viol
	if out.BufViol == "" {
		out.BufViol = warr.viol
	}
	return out
}

func hexDecode(s string) ([]byte, error) {
	out := make([]byte, len(s)/2)
	for i := range out {
		var b byte
		_, err := fmt.Sscanf(s[2*i:2*i+2], "%02x", &b)
		if err != nil {
			return nil, err
		}
		out[i] = b
	}
	return out, nil
}

// VerifRoundTripOut is what one client-side session produced.
type VerifRoundTripOut struct {
	Events       []string    `json:"events"`
	Completions  int         `json:"completions"`
	TransportSaw []VerifStep `json:"transportSaw"` // what the transport read from the request body
	ReqInner     []VerifStep `json:"reqInner"`     // what the scripted request body returned
	CallerSaw    []VerifStep `json:"callerSaw"`    // what the caller read from the response body
	RespInner    []VerifStep `json:"respInner"`
	Err          string      `json:"err"`        // class of RoundTrip's error
	SameErr      bool        `json:"sameErr"`    // the caller got the transport's own error value
	Status       int         `json:"status"`     // status the caller saw
	RespHeader   []string    `json:"respHeader"` // response headers the caller saw
	ReqCloses    int         `json:"reqCloses"`
	CloseSeen    []string    `json:"closeSeen"`
	BufViol      string      `json:"bufViol"` // "" or: how the transport / the caller found its array modified
}

// VerifRoundTrip drives the real TracingRoundTripper over a fake transport that reads the
// request body to its end (then closes it) and answers with a scripted response or an error.
func VerifRoundTrip(reqHeaders http.Header, reqBody *VerifScriptReader, fail bool, status int, respHeaders http.Header, respBody *VerifScriptReader, actions []string) VerifRoundTripOut {
	var out VerifRoundTripOut
	coll := &VerifCollector{}
	tarr, carr := newVerifArray(1<<12), newVerifArray(1<<12)
	transport := roundTripperFunc(func(req *http.Request) (*http.Response, error) {
		for {
			buf := tarr.next(1 << 12)
			n, err := req.Body.Read(buf)
			tarr.check("request Read", n)
			out.TransportSaw = append(out.TransportSaw, VerifStep{fmt.Sprintf("%x", buf[:n]), VerifErrClass(err)})
			if err != nil {
				break
			}
		}
		req.Body.Close()
		if fail {
			return nil, VerifErrInner
		}
		return &http.Response{
			Status: fmt.Sprintf("%d x", status), StatusCode: status, Proto: "HTTP/1.1", ProtoMajor: 1, ProtoMinor: 1,
			Header: respHeaders, Body: respBody, ContentLength: -1, Request: req,
		}, nil
	})
	ctx, cancel := context.WithCancel(context.Background())
	defer cancel() // releases the middleware's goroutine; the observations are taken by then
	req := verifRequest(reqHeaders).WithContext(ctx)
	req.Body = reqBody
	resp, err := TracingRoundTripper(transport, coll).RoundTrip(req)
	cancelled := false
	out.Err = VerifErrClass(err)
	out.SameErr = err == nil || err == VerifErrInner //nolint:errorlint // identity is the point
	out.RespHeader = []string{}
	if resp != nil {
		out.Status = resp.StatusCode
		out.RespHeader = verifDumpHeader(resp.Header)
		for _, a := range actions {
			switch a {
			case "r":
				buf := carr.next(1 << 12)
				n, err := resp.Body.Read(buf)
				carr.check("response Read", n)
				out.CallerSaw = append(out.CallerSaw, VerifStep{fmt.Sprintf("%x", buf[:n]), VerifErrClass(err)})
			case "c":
				out.CloseSeen = append(out.CloseSeen, VerifErrClass(resp.Body.Close()))
			case "x": // the caller cancels the request's context
				cancel()
				cancelled = true
			case "y": // let the middleware's goroutine run
				time.Sleep(time.Millisecond)
			}
		}
	}
	if cancelled {
		// the RequestCanceled event is added by a goroutine: give it time to arrive
		for i := 0; i < 5000 && coll.Count() == 0; i++ {
			time.Sleep(time.Millisecond)
		}
	}
	out.Completions = coll.Count()
	out.Events = []string{}
	if len(coll.Traces) > 0 {
		out.Events = VerifBodyEvents(coll.Traces[0])
	}
	out.BufViol = tarr.viol
	if out.BufViol == "" {
		out.BufViol = carr.viol
	}
	out.ReqInner, out.ReqCloses = reqBody.Log, reqBody.Closes
	if respBody != nil {
		out.RespInner = respBody.Log
	}
	for _, p := range []*[]VerifStep{&out.TransportSaw, &out.ReqInner, &out.CallerSaw, &out.RespInner} {
		if *p == nil {
			*p = []VerifStep{}
		}
	}
	if out.CloseSeen == nil {
		out.CloseSeen = []string{}
	}
	return out
}
