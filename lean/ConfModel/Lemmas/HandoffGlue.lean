/-
Helper lemmas for C16, glue around the slots (models `ConfModel.WireHandoff`,
`ConfModel.HandlerTrace`, spec `ConfModel.HandoffGlue`).
-/
import ConfModel.Spec.HandoffGlue

namespace ConfModel.WireHandoff
open ConfModel.HandoffGlue

@[simp] theorem upd_same (f : Nat → Call) (k : Nat) (c : Call) : upd f k c k = c := by simp [upd]
theorem upd_other (f : Nat → Call) (k x : Nat) (c : Call) (h : x ≠ k) : upd f k c x = f x := by
  simp [upd, h]

theorem exec_append : ∀ (a b : List Op) (s : St),
    exec s (a ++ b) = ((exec (exec s a).1 b).1, (exec s a).2 ++ (exec (exec s a).1 b).2)
  | [], b, s => by simp [exec]
  | o :: a, b, s => by simp [exec, exec_append a b]

theorem firstTrace_nil (k : Nat) : firstTrace k [] = none := rfl

theorem firstTrace_cons (k : Nat) (o : Op) (os : List Op) :
    firstTrace k (o :: os) = (completesCall k o).or (firstTrace k os) := by
  unfold firstTrace
  cases h : completesCall k o <;> simp [h]

theorem firstTrace_append (k : Nat) (a b : List Op) :
    firstTrace k (a ++ b) = (firstTrace k a).or (firstTrace k b) := by
  induction a with
  | nil => simp [firstTrace_nil]
  | cons o os ih =>
    rw [List.cons_append, firstTrace_cons, firstTrace_cons, ih]
    cases completesCall k o <;> simp

theorem firstTrace_snoc (k : Nat) (a : List Op) (o : Op) :
    firstTrace k (a ++ [o]) = (firstTrace k a).or (completesCall k o) := by
  rw [firstTrace_append, firstTrace_cons, firstTrace_nil]
  cases completesCall k o <;> simp

/-- the state of one call after one operation -/
theorem step_other (s : St) (o : Op) (k : Nat)
    (h : match o with
      | .begin j | .ctxDone j | .grace j | .join j | .peek j => j ≠ k
      | .complete j _ => j ≠ k) :
    (step s o).1.calls k = s.calls k := by
  cases o with
  | begin j =>
    have hj : k ≠ j := fun e => h e.symm
    simp only [step]
    split
    · rfl
    · split
      · rfl
      · split
        · rfl
        · exact upd_other _ _ _ _ hj
  | ctxDone j =>
    have hj : k ≠ j := fun e => h e.symm
    exact upd_other _ _ _ _ hj
  | complete j t =>
    have hj : k ≠ j := fun e => h e.symm
    simp only [step]
    split
    · rfl
    · split
      · rfl
      · exact upd_other _ _ _ _ hj
  | grace j =>
    have hj : k ≠ j := fun e => h e.symm
    simp only [step]
    split
    · exact upd_other _ _ _ _ hj
    · rfl
  | join j =>
    have hj : k ≠ j := fun e => h e.symm
    simp only [step]
    split
    · split
      · exact upd_other _ _ _ _ hj
      · rfl
    · rfl
  | peek j =>
    have hj : k ≠ j := fun e => h e.symm
    simp only [step]
    split
    · split
      · exact upd_other _ _ _ _ hj
      · rfl
    · rfl

/-- `wrapped` never changes -/
theorem step_wrapped (s : St) (o : Op) (k : Nat) : ((step s o).1.calls k).wrapped = (s.calls k).wrapped := by
  cases o with
  | begin j =>
    by_cases e : k = j
    · subst e; simp only [step]; split
      · rfl
      · split
        · rfl
        · split <;> simp
    · rw [step_other s _ k (by simpa using fun h => e h.symm)]
  | ctxDone j =>
    by_cases e : k = j
    · subst e; simp [step]
    · rw [step_other s _ k (by simpa using fun h => e h.symm)]
  | complete j t =>
    by_cases e : k = j
    · subst e; simp only [step]; split
      · rfl
      · split <;> simp
    · rw [step_other s _ k (by simpa using fun h => e h.symm)]
  | grace j =>
    by_cases e : k = j
    · subst e; simp only [step]; split <;> simp
    · rw [step_other s _ k (by simpa using fun h => e h.symm)]
  | join j =>
    by_cases e : k = j
    · subst e; simp only [step]; split
      · split <;> simp
      · rfl
    · rw [step_other s _ k (by simpa using fun h => e h.symm)]
  | peek j =>
    by_cases e : k = j
    · subst e; simp only [step]; split
      · split <;> simp
      · rfl
    · rw [step_other s _ k (by simpa using fun h => e h.symm)]

/-- the trace of a prepared call is set by the first completion and never changes afterwards -/
theorem step_avail (s : St) (o : Op) (k : Nat) (hw : (s.calls k).wrapped = true) :
    ((step s o).1.calls k).avail = ((s.calls k).avail).or (completesCall k o) := by
  cases o with
  | begin j =>
    have : completesCall k (.begin j) = none := rfl
    rw [this, Option.or_none]
    by_cases e : k = j
    · subst e; simp only [step]; split
      · rfl
      · split
        · rfl
        · split
          · rfl
          · simp
    · rw [step_other s _ k (by simpa using fun h => e h.symm)]
  | ctxDone j =>
    have : completesCall k (.ctxDone j) = none := rfl
    rw [this, Option.or_none]
    by_cases e : k = j
    · subst e; simp [step]
    · rw [step_other s _ k (by simpa using fun h => e h.symm)]
  | complete j t =>
    by_cases e : k = j
    · subst e
      have : completesCall k (.complete k t) = some t := by simp [completesCall]
      rw [this]
      simp only [step, hw]
      cases ha : (s.calls k).avail with
      | none => simp
      | some t' => simp [ha]
    · have : completesCall k (.complete j t) = none := by
        have : (j == k) = false := by simpa using fun h => e h.symm
        simp [completesCall, this]
      rw [this, Option.or_none, step_other s _ k (by simpa using fun h => e h.symm)]
  | grace j =>
    have : completesCall k (.grace j) = none := rfl
    rw [this, Option.or_none]
    by_cases e : k = j
    · subst e; simp only [step]; split <;> simp
    · rw [step_other s _ k (by simpa using fun h => e h.symm)]
  | join j =>
    have : completesCall k (.join j) = none := rfl
    rw [this, Option.or_none]
    by_cases e : k = j
    · subst e; simp only [step]; split
      · split <;> simp
      · rfl
    · rw [step_other s _ k (by simpa using fun h => e h.symm)]
  | peek j =>
    have : completesCall k (.peek j) = none := rfl
    rw [this, Option.or_none]
    by_cases e : k = j
    · subst e; simp only [step]; split
      · split <;> simp
      · rfl
    · rw [step_other s _ k (by simpa using fun h => e h.symm)]

/-- a call without wire wrapper never gets a trace -/
theorem step_avail_bare (s : St) (o : Op) (k : Nat) (hw : (s.calls k).wrapped = false)
    (ha : (s.calls k).avail = none) : ((step s o).1.calls k).avail = none := by
  cases o with
  | begin j =>
    by_cases e : k = j
    · subst e; simp only [step]; split
      · exact ha
      · simp [hw, ha]
    · rw [step_other s _ k (by simpa using fun h => e h.symm)]; exact ha
  | ctxDone j =>
    by_cases e : k = j
    · subst e; simp [step, ha]
    · rw [step_other s _ k (by simpa using fun h => e h.symm)]; exact ha
  | complete j t =>
    by_cases e : k = j
    · subst e; simp [step, hw, ha]
    · rw [step_other s _ k (by simpa using fun h => e h.symm)]; exact ha
  | grace j =>
    by_cases e : k = j
    · subst e; simp only [step]; split <;> simp [ha]
    · rw [step_other s _ k (by simpa using fun h => e h.symm)]; exact ha
  | join j =>
    by_cases e : k = j
    · subst e; simp only [step]; split
      · split <;> simp [ha]
      · exact ha
    · rw [step_other s _ k (by simpa using fun h => e h.symm)]; exact ha
  | peek j =>
    by_cases e : k = j
    · subst e; simp only [step]; split
      · split <;> simp [ha]
      · exact ha
    · rw [step_other s _ k (by simpa using fun h => e h.symm)]; exact ha

/-- operations that are not the waiter's leave `waiting` alone -/
theorem step_waiting (s : St) (o : Op) (k : Nat) (h : usesWaiter k o = false) :
    ((step s o).1.calls k).waiting = (s.calls k).waiting := by
  cases o with
  | begin j =>
    have e : j ≠ k := by simpa [usesWaiter] using h
    rw [step_other s _ k (by simpa using e)]
  | grace j =>
    have e : j ≠ k := by simpa [usesWaiter] using h
    rw [step_other s _ k (by simpa using e)]
  | join j =>
    have e : j ≠ k := by simpa [usesWaiter] using h
    rw [step_other s _ k (by simpa using e)]
  | peek j =>
    have e : j ≠ k := by simpa [usesWaiter] using h
    rw [step_other s _ k (by simpa using e)]
  | ctxDone j =>
    by_cases e : k = j
    · subst e; simp [step]
    · rw [step_other s _ k (by simpa using fun h => e h.symm)]
  | complete j t =>
    by_cases e : k = j
    · subst e; simp only [step]; split
      · rfl
      · split <;> simp
    · rw [step_other s _ k (by simpa using fun h => e h.symm)]

theorem exec_wrapped : ∀ (ops : List Op) (s : St) (k : Nat), ((exec s ops).1.calls k).wrapped = (s.calls k).wrapped
  | [], _, _ => rfl
  | o :: os, s, k => by
    show ((exec (step s o).1 os).1.calls k).wrapped = _
    rw [exec_wrapped os, step_wrapped]

theorem exec_avail : ∀ (ops : List Op) (s : St) (k : Nat), (s.calls k).wrapped = true →
    ((exec s ops).1.calls k).avail = ((s.calls k).avail).or (firstTrace k ops)
  | [], s, k, _ => by simp [exec, firstTrace_nil]
  | o :: os, s, k, hw => by
    show ((exec (step s o).1 os).1.calls k).avail = _
    rw [exec_avail os _ k (by rw [step_wrapped]; exact hw), step_avail s o k hw, firstTrace_cons]
    cases (s.calls k).avail <;> cases completesCall k o <;> simp

theorem exec_waiting : ∀ (ops : List Op) (s : St) (k : Nat), (∀ o ∈ ops, usesWaiter k o = false) →
    ((exec s ops).1.calls k).waiting = (s.calls k).waiting
  | [], _, _, _ => rfl
  | o :: os, s, k, h => by
    show ((exec (step s o).1 os).1.calls k).waiting = _
    rw [exec_waiting os _ k (fun o' ho' => h o' (by simp [ho'])), step_waiting s o k (h o (by simp))]

/-! #### the state machine and the history-based specification -/

structure Rel (bare : List Nat) (s : St) (hist : List Op) (pending : List Nat) : Prop where
  wrapped : ∀ k, (s.calls k).wrapped = !bare.contains k
  avail : ∀ k, (s.calls k).avail = if bare.contains k then none else firstTrace k hist
  waiting : ∀ k, (s.calls k).waiting = pending.contains k
  pend : ∀ k, pending.contains k = true → bare.contains k = false

theorem rel_init (bare : List Nat) : Rel bare (init bare) [] [] :=
  ⟨fun _ => rfl, fun k => by simp [init, firstTrace_nil], fun _ => by simp [init], fun k h => by simp at h⟩

theorem contains_filter_ne (l : List Nat) (k j : Nat) :
    (l.filter (· != k)).contains j = (l.contains j && j != k) := by
  induction l with
  | nil => simp
  | cons x xs ih =>
    by_cases hx : x = k
    · subst hx
      simp only [List.filter_cons, bne_self_eq_false, Bool.false_eq_true, if_false, ih, List.contains_cons]
      by_cases hj : j = x
      · subst hj; simp
      · have : (j == x) = false := by simpa using hj
        simp [this]
    · have hx' : (x != k) = true := by simpa using hx
      simp only [List.filter_cons, hx', if_true, List.contains_cons, ih]
      by_cases hj : j = x
      · subst hj; simp [hx]
      · have : (j == x) = false := by simpa using hj
        simp [this]

/-- states related to the same history differ at most in what is not observable; the common
part of the proof: after any operation the relation holds again and the observation is the
specification's -/
theorem rel_step (bare : List Nat) (s : St) (hist : List Op) (pending : List Nat) (o : Op)
    (h : Rel bare s hist pending) :
    (step s o).2 = (specStep bare hist pending o).2 ∧
    Rel bare (step s o).1 (hist ++ [o]) (specStep bare hist pending o).1 := by
  have hwr : ∀ k, ((step s o).1.calls k).wrapped = !bare.contains k := fun k => by
    rw [step_wrapped]; exact h.wrapped k
  have hav : ∀ k, ((step s o).1.calls k).avail = if bare.contains k then none else firstTrace k (hist ++ [o]) := by
    intro k
    cases hb : bare.contains k with
    | true =>
      simp only [if_true]
      exact step_avail_bare s o k (by rw [h.wrapped, hb]; rfl) (by rw [h.avail, hb]; rfl)
    | false =>
      simp only [Bool.false_eq_true, if_false]
      rw [step_avail s o k (by rw [h.wrapped, hb]; rfl), h.avail, hb, firstTrace_snoc]
      simp
  cases o with
  | begin k =>
    have hw := h.waiting k
    cases hp : pending.contains k with
    | true =>
      rw [hp] at hw
      have e1 : step s (.begin k) = (s, .busy) := by simp [step, hw]
      have e2 : specStep bare hist pending (.begin k) = (pending, .busy) := by simp only [specStep, hp, ↓reduceIte, Bool.false_eq_true]
      refine ⟨by rw [e1, e2], ⟨hwr, hav, ?_, ?_⟩⟩
      · rw [e1, e2]; exact h.waiting
      · rw [e2]; exact h.pend
    | false =>
      rw [hp] at hw
      cases hb : bare.contains k with
      | true =>
        have hwrp : (s.calls k).wrapped = false := by rw [h.wrapped, hb]; rfl
        have e1 : step s (.begin k) = (s, .notConfigured) := by simp [step, hw, hwrp]
        have e2 : specStep bare hist pending (.begin k) = (pending, .notConfigured) := by simp only [specStep, hp, hb, ↓reduceIte, Bool.false_eq_true]
        refine ⟨by rw [e1, e2], ⟨hwr, hav, ?_, ?_⟩⟩
        · rw [e1, e2]; exact h.waiting
        · rw [e2]; exact h.pend
      | false =>
        have hwrp : (s.calls k).wrapped = true := by rw [h.wrapped, hb]; rfl
        have ha := h.avail k
        rw [hb] at ha
        simp only [Bool.false_eq_true, if_false] at ha
        cases hf : firstTrace k hist with
        | some t =>
          rw [hf] at ha
          have e1 : step s (.begin k) = (s, .trace t) := by simp [step, hw, hwrp, ha]
          have e2 : specStep bare hist pending (.begin k) = (pending, .trace t) := by simp only [specStep, hp, hb, hf, ↓reduceIte, Bool.false_eq_true]
          refine ⟨by rw [e1, e2], ⟨hwr, hav, ?_, ?_⟩⟩
          · rw [e1, e2]; exact h.waiting
          · rw [e2]; exact h.pend
        | none =>
          rw [hf] at ha
          have e1 : step s (.begin k) = (⟨upd s.calls k { s.calls k with waiting := true }⟩, .waiting) := by
            simp [step, hw, hwrp, ha]
          have e2 : specStep bare hist pending (.begin k) = (k :: pending, .waiting) := by simp only [specStep, hp, hb, hf, ↓reduceIte, Bool.false_eq_true]
          refine ⟨by rw [e1, e2], ⟨hwr, hav, ?_, ?_⟩⟩
          · rw [e1, e2]
            intro j
            by_cases e : j = k
            · subst e; simp
            · have : (j == k) = false := by simpa using e
              show (upd s.calls k _ j).waiting = _
              rw [upd_other _ _ _ _ e, h.waiting, List.contains_cons, this]; simp
          · rw [e2]
            intro j hj
            by_cases e : j = k
            · subst e; exact hb
            · have : (j == k) = false := by simpa using e
              rw [List.contains_cons, this] at hj
              exact h.pend j (by simpa using hj)
  | ctxDone k =>
    have e2 : specStep bare hist pending (.ctxDone k) = (pending, .none) := rfl
    refine ⟨by rw [e2]; rfl, ⟨hwr, hav, ?_, ?_⟩⟩
    · rw [e2]; intro j
      rw [step_waiting s _ j rfl]; exact h.waiting j
    · rw [e2]; exact h.pend
  | complete k t =>
    have hspec1 : (specStep bare hist pending (.complete k t)).1 = pending := by
      simp only [specStep]; split <;> rfl
    refine ⟨?_, ⟨hwr, hav, ?_, ?_⟩⟩
    · cases hb : bare.contains k with
      | true =>
        have hwrp : (s.calls k).wrapped = false := by rw [h.wrapped, hb]; rfl
        have hb' : k ∈ bare := by simpa using hb
        simp [step, specStep, hwrp, hb']
      | false =>
        have hwrp : (s.calls k).wrapped = true := by rw [h.wrapped, hb]; rfl
        have ha := h.avail k
        rw [hb] at ha
        simp only [Bool.false_eq_true, if_false] at ha
        have hb' : ¬ k ∈ bare := by simpa using hb
        cases hf : firstTrace k hist with
        | some t' => rw [hf] at ha; simp [step, specStep, hwrp, hb', ha, hf]
        | none => rw [hf] at ha; simp [step, specStep, hwrp, hb', ha, hf]
    · rw [hspec1]; intro j
      rw [step_waiting s _ j rfl]; exact h.waiting j
    · rw [hspec1]; exact h.pend
  | grace k =>
    have hw := h.waiting k
    cases hp : pending.contains k with
    | false =>
      rw [hp] at hw
      have e1 : step s (.grace k) = (s, .idle) := by simp [step, hw]
      have e2 : specStep bare hist pending (.grace k) = (pending, .idle) := by simp only [specStep, hp, ↓reduceIte, Bool.false_eq_true]
      refine ⟨by rw [e1, e2], ⟨hwr, hav, ?_, ?_⟩⟩
      · rw [e1, e2]; exact h.waiting
      · rw [e2]; exact h.pend
    | true =>
      rw [hp] at hw
      have hb := h.pend k hp
      have ha := h.avail k
      rw [hb] at ha
      simp only [Bool.false_eq_true, if_false] at ha
      have e2 : (specStep bare hist pending (.grace k)).1 = pending.filter (· != k) := by
        simp only [specStep, hp, ↓reduceIte]
      refine ⟨?_, ⟨hwr, hav, ?_, ?_⟩⟩
      · cases hf : firstTrace k hist with
        | none => rw [hf] at ha; simp only [specStep, hp, hf, ↓reduceIte]; simp [step, hw, ha]
        | some t => rw [hf] at ha; simp only [specStep, hp, hf, ↓reduceIte]; simp [step, hw, ha]
      · rw [e2]; intro j
        rw [contains_filter_ne]
        by_cases e : j = k
        · subst e; simp [step, hw]
        · rw [step_other s _ j (by simpa using fun h' => e h'.symm), h.waiting]
          have : (j != k) = true := by simpa using e
          simp [this]
      · rw [e2]; intro j hj
        rw [contains_filter_ne] at hj
        exact h.pend j (by simp at hj; simpa using hj.1)
  | join k =>
    have hw := h.waiting k
    cases hp : pending.contains k with
    | false =>
      rw [hp] at hw
      have e1 : step s (.join k) = (s, .idle) := by simp [step, hw]
      have e2 : specStep bare hist pending (.join k) = (pending, .idle) := by simp only [specStep, hp, ↓reduceIte, Bool.false_eq_true]
      refine ⟨by rw [e1, e2], ⟨hwr, hav, ?_, ?_⟩⟩
      · rw [e1, e2]; exact h.waiting
      · rw [e2]; exact h.pend
    | true =>
      rw [hp] at hw
      have hb := h.pend k hp
      have ha := h.avail k
      rw [hb] at ha
      simp only [Bool.false_eq_true, if_false] at ha
      cases hf : firstTrace k hist with
      | none =>
        rw [hf] at ha
        have e1 : step s (.join k) = (s, .waiting) := by simp [step, hw, ha]
        have e2 : specStep bare hist pending (.join k) = (pending, .waiting) := by simp only [specStep, hp, hf, ↓reduceIte, Bool.false_eq_true]
        refine ⟨by rw [e1, e2], ⟨hwr, hav, ?_, ?_⟩⟩
        · rw [e1, e2]; exact h.waiting
        · rw [e2]; exact h.pend
      | some t =>
        rw [hf] at ha
        have e2 : specStep bare hist pending (.join k) = (pending.filter (· != k), .trace t) := by
          simp only [specStep, hp, hf, ↓reduceIte]
        refine ⟨?_, ⟨hwr, hav, ?_, ?_⟩⟩
        · rw [e2]; simp [step, hw, ha]
        · rw [e2]; intro j
          rw [contains_filter_ne]
          by_cases e : j = k
          · subst e; simp [step, hw, ha]
          · rw [step_other s _ j (by simpa using fun h' => e h'.symm), h.waiting]
            have : (j != k) = true := by simpa using e
            simp [this]
        · rw [e2]; intro j hj
          rw [contains_filter_ne] at hj
          exact h.pend j (by simp at hj; simpa using hj.1)
  | peek k =>
    have hw := h.waiting k
    cases hp : pending.contains k with
    | false =>
      rw [hp] at hw
      have e1 : step s (.peek k) = (s, .idle) := by simp [step, hw]
      have e2 : specStep bare hist pending (.peek k) = (pending, .idle) := by simp only [specStep, hp, ↓reduceIte, Bool.false_eq_true]
      refine ⟨by rw [e1, e2], ⟨hwr, hav, ?_, ?_⟩⟩
      · rw [e1, e2]; exact h.waiting
      · rw [e2]; exact h.pend
    | true =>
      rw [hp] at hw
      have hb := h.pend k hp
      have ha := h.avail k
      rw [hb] at ha
      simp only [Bool.false_eq_true, if_false] at ha
      cases hf : firstTrace k hist with
      | none =>
        rw [hf] at ha
        have e1 : step s (.peek k) = (s, .waiting) := by simp [step, hw, ha]
        have e2 : specStep bare hist pending (.peek k) = (pending, .waiting) := by simp only [specStep, hp, hf, ↓reduceIte, Bool.false_eq_true]
        refine ⟨by rw [e1, e2], ⟨hwr, hav, ?_, ?_⟩⟩
        · rw [e1, e2]; exact h.waiting
        · rw [e2]; exact h.pend
      | some t =>
        rw [hf] at ha
        have e2 : specStep bare hist pending (.peek k) = (pending.filter (· != k), .trace t) := by
          simp only [specStep, hp, hf, ↓reduceIte]
        refine ⟨?_, ⟨hwr, hav, ?_, ?_⟩⟩
        · rw [e2]; simp [step, hw, ha]
        · rw [e2]; intro j
          rw [contains_filter_ne]
          by_cases e : j = k
          · subst e; simp [step, hw, ha]
          · rw [step_other s _ j (by simpa using fun h' => e h'.symm), h.waiting]
            have : (j != k) = true := by simpa using e
            simp [this]
        · rw [e2]; intro j hj
          rw [contains_filter_ne] at hj
          exact h.pend j (by simp at hj; simpa using hj.1)

theorem exec_spec_go (bare : List Nat) : ∀ (ops : List Op) (s : St) (hist : List Op) (pending : List Nat),
    Rel bare s hist pending → (exec s ops).2 = specGo bare hist pending ops
  | [], _, _, _, _ => rfl
  | o :: os, s, hist, pending, h => by
    obtain ⟨h1, h2⟩ := rel_step bare s hist pending o h
    show (step s o).2 :: (exec (step s o).1 os).2 = (specStep bare hist pending o).2 :: specGo bare (hist ++ [o]) _ os
    rw [h1, exec_spec_go bare os _ _ _ h2]

/-! #### the call's context plays no role -/

/-- equal up to the `ctxDone` flags -/
def SameButCtx (a b : St) : Prop :=
  ∀ k, (a.calls k).wrapped = (b.calls k).wrapped ∧ (a.calls k).avail = (b.calls k).avail ∧
    (a.calls k).waiting = (b.calls k).waiting

theorem sameButCtx_ctx (s : St) (k : Nat) : SameButCtx (step s (.ctxDone k)).1 s := by
  intro j
  by_cases e : j = k
  · subst e; simp [step]
  · rw [step_other s _ j (by simpa using fun h => e h.symm)]; exact ⟨rfl, rfl, rfl⟩

theorem firstTrace_filter_ctx (k : Nat) (ops : List Op) :
    firstTrace k (ops.filter (fun o => !isCtx o)) = firstTrace k ops := by
  induction ops with
  | nil => rfl
  | cons o os ih =>
    rw [List.filter_cons]
    cases ho : isCtx o with
    | true =>
      have hc : completesCall k o = none := by
        cases o <;> simp [isCtx] at ho
        rfl
      simp only [Bool.not_true, Bool.false_eq_true, if_false, ih, firstTrace_cons, hc, Option.none_or]
    | false =>
      simp only [Bool.not_false, if_true, firstTrace_cons, ih]

/-- the specification looks at the history only through `firstTrace` -/
theorem specStep_congr (bare : List Nat) (h1 h2 : List Op) (pending : List Nat) (o : Op)
    (h : ∀ k, firstTrace k h1 = firstTrace k h2) :
    specStep bare h1 pending o = specStep bare h2 pending o := by
  cases o <;> simp only [specStep, h]

/-- the observations at the positions that are not context events -/
def dropCtxObs : List Op → List Obs → List Obs
  | o :: os, ob :: obs => if isCtx o then dropCtxObs os obs else ob :: dropCtxObs os obs
  | _, _ => []

theorem specGo_filter_ctx (bare : List Nat) : ∀ (ops h1 h2 : List Op) (pending : List Nat),
    (∀ k, firstTrace k h1 = firstTrace k h2) →
    dropCtxObs ops (specGo bare h1 pending ops) = specGo bare h2 pending (ops.filter (fun o => !isCtx o))
  | [], _, _, _, _ => rfl
  | o :: os, h1, h2, pending, h => by
    cases ho : isCtx o with
    | true =>
      have hstep : (specStep bare h1 pending o).1 = pending := by
        cases o <;> simp [isCtx] at ho; rfl
      simp only [specGo, dropCtxObs, ho, if_true, List.filter_cons, Bool.not_true, Bool.false_eq_true, if_false]
      rw [hstep]
      apply specGo_filter_ctx bare os
      intro k
      rw [firstTrace_snoc, h k]
      cases o <;> simp [isCtx] at ho
      simp [completesCall]
    | false =>
      simp only [specGo, dropCtxObs, ho, Bool.false_eq_true, if_false, List.filter_cons, Bool.not_false, if_true]
      rw [specStep_congr bare h1 h2 pending o h]
      congr 1
      apply specGo_filter_ctx bare os
      intro k
      rw [firstTrace_snoc, firstTrace_snoc, h k]

end ConfModel.WireHandoff

namespace ConfModel.HandlerTrace
open ConfModel.HandoffGlue

/-! #### trailer maps -/

theorem lookup_filter_ne {α β} [BEq α] [LawfulBEq α] (t : List (α × β)) (n m : α) (h : m ≠ n) :
    (t.filter (fun p => p.1 != n)).lookup m = t.lookup m := by
  induction t with
  | nil => rfl
  | cons p ps ih =>
    obtain ⟨a, b⟩ := p
    by_cases e : a = n
    · subst e
      have hm : (m == a) = false := by simpa using h
      simp [List.filter_cons, List.lookup_cons, hm, ih]
    · have e' : (a != n) = true := by simpa using e
      simp only [List.filter_cons, e', if_true, List.lookup_cons, ih]

theorem lookup_tset (t : Tr) (n m : String) (v : List String) :
    (tset t n v).lookup m = if m = n then some v else t.lookup m := by
  unfold tset
  by_cases e : m = n
  · subst e; simp [List.lookup_cons]
  · have hm : (m == n) = false := by simpa using e
    simp only [List.lookup_cons, hm, e, if_false]
    exact lookup_filter_ne t n m e

theorem tget_tset (t : Tr) (n m : String) (v : List String) :
    tget (tset t n v) m = if m = n then v else tget t m := by
  unfold tget
  rw [lookup_tset]
  by_cases e : m = n <;> simp [e]

theorem lookup_mapval (t : Tr) (f : String → List String) (n : String) :
    (t.map (fun p => (p.1, f p.1))).lookup n = (t.lookup n).map (fun _ => f n) := by
  induction t with
  | nil => rfl
  | cons p ps ih =>
    obtain ⟨a, b⟩ := p
    by_cases e : n = a
    · subst e; simp [List.lookup_cons]
    · have hm : (n == a) = false := by simpa using e
      simp [List.lookup_cons, hm, ih]

/-- the keys of a header map are distinct (it is a Go map) -/
def NodupKeys (h : Hdr) : Prop := (h.map (·.1)).Nodup

theorem lookup_none_of_not_mem (h : Hdr) (k : Key) (hk : k ∉ h.map (·.1)) : h.lookup k = none := by
  induction h with
  | nil => rfl
  | cons p ps ih =>
    obtain ⟨a, b⟩ := p
    simp only [List.map_cons, List.mem_cons, not_or] at hk
    have hm : (k == a) = false := by simpa using hk.1
    simp only [List.lookup_cons, hm]
    exact ih hk.2

theorem nodupKeys_hset (h : Hdr) (k : Key) (v : List String) (hn : NodupKeys h) : NodupKeys (hset h k v) := by
  unfold NodupKeys hset
  rw [List.map_cons, List.nodup_cons]
  constructor
  · intro hmem
    rw [List.mem_map] at hmem
    obtain ⟨p, hp, hpk⟩ := hmem
    rw [List.mem_filter] at hp
    have : p.1 ≠ k := by simpa using hp.2
    exact this hpk
  · exact List.Nodup.sublist (List.Sublist.map _ (List.filter_sublist)) hn

/-- the second loop of `setTrailers` -/
theorem foldl_addPre_lookup : ∀ (h : Hdr) (t0 : Tr) (n : String), NodupKeys h →
    (h.foldl addPre t0).lookup n =
      match h.lookup (.pre n) with
      | some v => some (tget t0 n ++ v)
      | none => t0.lookup n
  | [], t0, n, _ => rfl
  | (k, vals) :: rest, t0, n, hn => by
    have hn' : NodupKeys rest := by
      unfold NodupKeys at hn ⊢
      rw [List.map_cons, List.nodup_cons] at hn
      exact hn.2
    have hnotin : k ∉ rest.map (·.1) := by
      unfold NodupKeys at hn
      rw [List.map_cons, List.nodup_cons] at hn
      exact hn.1
    rw [List.foldl_cons, foldl_addPre_lookup rest _ n hn']
    cases k with
    | plain m =>
      have : (Key.pre n == Key.plain m) = false := by simp
      simp only [addPre, List.lookup_cons, this]
    | pre m =>
      by_cases e : n = m
      · subst e
        have hr : rest.lookup (.pre n) = none := lookup_none_of_not_mem rest _ hnotin
        simp [addPre, List.lookup_cons, hr, lookup_tset]
      · have hk : (Key.pre n == Key.pre m) = false := by simpa using e
        simp only [addPre, List.lookup_cons, hk, lookup_tset, tget_tset, e, if_false]

theorem seed_lookup : ∀ (decl : List String) (acc : Tr) (n : String),
    ((decl.foldl (fun t m => tset t m []) acc).lookup n).isSome = ((acc.lookup n).isSome || decl.contains n)
  | [], acc, n => by simp
  | d :: ds, acc, n => by
    rw [List.foldl_cons, seed_lookup ds, lookup_tset, List.contains_cons]
    by_cases e : n = d
    · subst e; simp
    · have : (n == d) = false := by simpa using e
      simp [e, this]

/-- `setTrailers` computes exactly what belongs to the response as trailers -/
theorem setTrailers_lookup (t : Tr) (h : Hdr) (declared : List String) (n : String) (hn : NodupKeys h)
    (ht : (t.lookup n).isSome = declared.contains n) :
    (setTrailers t h).lookup n = trailerSpec declared h n := by
  unfold setTrailers trailerSpec
  rw [foldl_addPre_lookup h _ n hn]
  unfold tget
  rw [lookup_mapval t (fun m => hget h (.plain m)) n]
  cases hd : declared.contains n with
  | true =>
    rw [hd] at ht
    obtain ⟨v, hv⟩ := Option.isSome_iff_exists.mp ht
    rw [hv]
    simp only [Option.map_some, Option.getD_some, if_true]
    unfold hget
    cases h.lookup (.pre n) <;> simp
  | false =>
    rw [hd] at ht
    have hv : t.lookup n = none := by
      cases hx : t.lookup n with
      | none => rfl
      | some v => rw [hx] at ht; simp at ht
    rw [hv]
    simp only [Option.map_none, Option.getD_none, Bool.false_eq_true, if_false]
    cases h.lookup (.pre n) <;> simp

/-! #### the run of a handler -/

theorem writeHeader_started (st : Nat) (s : St) : (writeHeader st s).started = true := by
  unfold writeHeader; split
  · assumption
  · rfl

theorem writeHeader_delivered (st : Nat) (s : St) : (writeHeader st s).delivered = s.delivered := by
  unfold writeHeader; split <;> rfl

theorem writeHeader_live (st : Nat) (s : St) : (writeHeader st s).live = s.live := by
  unfold writeHeader; split <;> rfl

theorem writeHeader_finished (st : Nat) (s : St) : (writeHeader st s).finished = s.finished := by
  unfold writeHeader; split <;> rfl

theorem writeHeader_of_started (st : Nat) (s : St) (h : s.started = true) : writeHeader st s = s := by
  unfold writeHeader; simp [h]

theorem whileBuilding_live (s : St) : (whileBuilding s).live = s.live := by
  unfold whileBuilding; split <;> rfl
theorem whileBuilding_delivered (s : St) : (whileBuilding s).delivered = s.delivered := by
  unfold whileBuilding; split <;> rfl
theorem whileBuilding_started (s : St) : (whileBuilding s).started = s.started := by
  unfold whileBuilding; split <;> rfl
theorem whileBuilding_finished (s : St) : (whileBuilding s).finished = s.finished := by
  unfold whileBuilding; split <;> rfl
theorem whileBuilding_attached (s : St) : (whileBuilding s).attached = s.attached := by
  unfold whileBuilding; split <;> rfl
theorem whileBuilding_hdr (s : St) : (whileBuilding s).hdr = s.hdr := by
  unfold whileBuilding; split <;> rfl
theorem whileBuilding_of_not_live (s : St) (h : s.live = false) : whileBuilding s = s := by
  unfold whileBuilding; simp [h]

/-- the view of one delivery at the end is its view at completion -/
def Fin (s : St) (d : Delivery) : Prop := viewAtEnd s d = d.snap

/-- a delivered trace either does not point to the middleware's response object, or the builder
has let go of the trace and the response object is what the delivery recorded: nothing the
handed-over trace refers to is written after the hand-off -/
def Inv (s : St) : Prop :=
  (s.attached = true → s.started = true) ∧
  ∀ d ∈ s.delivered, d.att = false ∨ (s.started = true ∧ s.live = false ∧ d.snap.resp = some s.resp)

theorem inv_init : Inv init := ⟨fun h => by simp [init] at h, fun d hd => by simp [init] at hd⟩

theorem inv_fin (s : St) (h : Inv s) : ∀ d ∈ s.delivered, Fin s d := by
  intro d hd
  unfold Fin viewAtEnd
  rcases h.2 d hd with ha | ⟨_, _, hr⟩
  · simp [ha]
  · split
    · rw [← hr]
    · rfl

theorem inv_close (c : Closer) (s : St) (h : Inv s) : Inv (close c s) := by
  unfold close
  split
  · rename_i hl
    refine ⟨h.1, ?_⟩
    intro d hd
    simp only [List.mem_append, List.mem_singleton] at hd
    rcases hd with hd | hd
    · rcases h.2 d hd with ha | ⟨_, hnl, _⟩
      · exact Or.inl ha
      · rw [hl] at hnl; simp at hnl
    · subst hd
      cases ha : s.attached with
      | false => exact Or.inl rfl
      | true => exact Or.inr ⟨h.1 ha, rfl, by simp⟩
  · exact h

theorem inv_writeHeader (st : Nat) (s : St) (h : Inv s) : Inv (writeHeader st s) := by
  by_cases hs : s.started = true
  · rw [writeHeader_of_started st s hs]; exact h
  · refine ⟨fun _ => writeHeader_started st s, ?_⟩
    intro d hd
    rw [writeHeader_delivered] at hd
    rcases h.2 d hd with ha | ⟨hst, _, _⟩
    · exact Or.inl ha
    · exact absurd hst hs

theorem inv_tryFinish (c : Closer) (s : St) (h : Inv s) : Inv (tryFinish c s) := by
  unfold tryFinish
  split
  · exact h
  · apply inv_close
    show Inv (whileBuilding (writeHeader 200 s))
    have h1 := inv_writeHeader 200 s h
    cases hl : (writeHeader 200 s).live with
    | false =>
      rw [whileBuilding_of_not_live _ hl]
      exact h1
    | true =>
      refine ⟨?_, ?_⟩
      · rw [whileBuilding_attached, whileBuilding_started]; exact h1.1
      · intro d hd
        rw [whileBuilding_delivered] at hd
        rcases h1.2 d hd with ha | ⟨_, hnl, _⟩
        · exact Or.inl ha
        · rw [hl] at hnl; simp at hnl

theorem inv_step (s : St) (a : Act) (h : Inv s) : Inv (step s a) := by
  cases a with
  | set k v => exact h
  | add k v => exact h
  | declare names => exact h
  | declareAdd names => exact h
  | writeHeader st => exact inv_writeHeader st s h
  | write ok =>
    simp only [step]
    split
    · exact inv_writeHeader 200 s h
    · exact inv_tryFinish _ _ (inv_writeHeader 200 s h)
  | flush => exact h
  | readEof => exact h
  | readErr =>
    simp only [step]; split
    · exact h
    · exact inv_close _ _ h
  | closeReq =>
    simp only [step]; split
    · exact h
    · exact inv_close _ _ h
  | cancel => exact inv_close _ _ h
  | panic => exact h

theorem inv_runActs : ∀ (acts : List Act) (s : St), Inv s → Inv (runActs s acts).1
  | [], _, h => h
  | .panic :: _, _, h => h
  | .set k v :: as, s, h => inv_runActs as _ (inv_step s _ h)
  | .add k v :: as, s, h => inv_runActs as _ (inv_step s _ h)
  | .declare n :: as, s, h => inv_runActs as _ (inv_step s _ h)
  | .declareAdd n :: as, s, h => inv_runActs as _ (inv_step s _ h)
  | .writeHeader st :: as, s, h => inv_runActs as _ (inv_step s _ h)
  | .write ok :: as, s, h => inv_runActs as _ (inv_step s _ h)
  | .flush :: as, s, h => inv_runActs as _ (inv_step s _ h)
  | .readEof :: as, s, h => inv_runActs as _ (inv_step s _ h)
  | .readErr :: as, s, h => inv_runActs as _ (inv_step s _ h)
  | .closeReq :: as, s, h => inv_runActs as _ (inv_step s _ h)
  | .cancel :: as, s, h => inv_runActs as _ (inv_step s _ h)

theorem inv_run (acts : List Act) : Inv (run acts) := by
  unfold run finish
  exact inv_close _ _ (inv_close _ _ (inv_tryFinish _ _ (inv_runActs acts init inv_init)))

/-! exactly one delivery -/

def Once0 (s : St) : Prop :=
  (s.live = true ∧ s.delivered = []) ∨ (s.live = false ∧ s.delivered.length = 1)

/-- one delivery at most so far, none as long as the builder holds the trace; the response has
not ended while the builder holds the trace -/
def Once (s : St) : Prop := Once0 s ∧ (s.finished = true → s.live = false)

theorem once_init : Once init := ⟨Or.inl ⟨rfl, rfl⟩, fun h => by simp [init] at h⟩

theorem close_closed (c : Closer) (s : St) (h : Once0 s) :
    (close c s).live = false ∧ (close c s).delivered.length = 1 := by
  unfold close
  rcases h with ⟨hl, hd⟩ | ⟨hl, hd⟩
  · simp [hl, hd]
  · simp [hl, hd]

theorem close_finished (c : Closer) (s : St) : (close c s).finished = s.finished := by
  unfold close; split <;> rfl

theorem once_close (c : Closer) (s : St) (h : Once s) : Once (close c s) :=
  ⟨Or.inr (close_closed c s h.1), fun _ => (close_closed c s h.1).1⟩

theorem once_writeHeader (st : Nat) (s : St) (h : Once s) : Once (writeHeader st s) := by
  unfold Once Once0
  rw [writeHeader_live, writeHeader_finished, writeHeader_delivered]; exact h

theorem tryFinish_closed (c : Closer) (s : St) (h : Once s) :
    (tryFinish c s).live = false ∧ (tryFinish c s).delivered.length = 1 := by
  unfold tryFinish
  split
  · rename_i hf
    have hl := h.2 hf
    rcases h.1 with ⟨hl', _⟩ | h'
    · rw [hl] at hl'; simp at hl'
    · exact h'
  · apply close_closed
    have := (once_writeHeader 200 s h).1
    show Once0 (whileBuilding (writeHeader 200 s))
    unfold Once0
    rw [whileBuilding_live, whileBuilding_delivered]
    exact this

theorem once_tryFinish (c : Closer) (s : St) (h : Once s) : Once (tryFinish c s) :=
  ⟨Or.inr (tryFinish_closed c s h), fun _ => (tryFinish_closed c s h).1⟩

theorem once_step (s : St) (a : Act) (h : Once s) : Once (step s a) := by
  cases a with
  | set k v => exact h
  | add k v => exact h
  | declare names => exact h
  | declareAdd names => exact h
  | writeHeader st => exact once_writeHeader st s h
  | write ok =>
    simp only [step]
    split
    · exact once_writeHeader 200 s h
    · exact once_tryFinish _ _ (once_writeHeader 200 s h)
  | flush => exact h
  | readEof => exact h
  | readErr =>
    simp only [step]; split
    · exact h
    · exact once_close _ _ h
  | closeReq =>
    simp only [step]; split
    · exact h
    · exact once_close _ _ h
  | cancel => exact once_close _ _ h
  | panic => exact h

theorem once_runActs : ∀ (acts : List Act) (s : St), Once s → Once (runActs s acts).1
  | [], _, h => h
  | .panic :: _, _, h => h
  | .set k v :: as, s, h => once_runActs as _ (once_step s _ h)
  | .add k v :: as, s, h => once_runActs as _ (once_step s _ h)
  | .declare n :: as, s, h => once_runActs as _ (once_step s _ h)
  | .declareAdd n :: as, s, h => once_runActs as _ (once_step s _ h)
  | .writeHeader st :: as, s, h => once_runActs as _ (once_step s _ h)
  | .write ok :: as, s, h => once_runActs as _ (once_step s _ h)
  | .flush :: as, s, h => once_runActs as _ (once_step s _ h)
  | .readEof :: as, s, h => once_runActs as _ (once_step s _ h)
  | .readErr :: as, s, h => once_runActs as _ (once_step s _ h)
  | .closeReq :: as, s, h => once_runActs as _ (once_step s _ h)
  | .cancel :: as, s, h => once_runActs as _ (once_step s _ h)

theorem close_of_not_live (c : Closer) (s : St) (h : s.live = false) : close c s = s := by
  unfold close; simp [h]

/-- the header map keeps distinct keys -/
theorem nodup_step (s : St) (a : Act) (h : NodupKeys s.hdr) : NodupKeys (step s a).hdr := by
  have hwh : ∀ st (s : St), (writeHeader st s).hdr = s.hdr := by
    intro st s; unfold writeHeader; split <;> rfl
  have hcl : ∀ c (s : St), (close c s).hdr = s.hdr := by
    intro c s; unfold close; split <;> rfl
  have htf : ∀ c (s : St), (tryFinish c s).hdr = s.hdr := by
    intro c s; unfold tryFinish; split
    · rfl
    · rw [hcl]
      show (whileBuilding (writeHeader 200 s)).hdr = s.hdr
      rw [whileBuilding_hdr]; exact hwh 200 s
  cases a with
  | set k v => exact nodupKeys_hset _ _ _ h
  | add k v => exact nodupKeys_hset _ _ _ h
  | declare names => exact h
  | declareAdd names => exact h
  | writeHeader st => show NodupKeys (writeHeader st s).hdr; rw [hwh]; exact h
  | write ok =>
    simp only [step]; split
    · rw [hwh]; exact h
    · rw [htf, hwh]; exact h
  | flush => exact h
  | readEof => exact h
  | readErr => simp only [step]; split
               · exact h
               · rw [hcl]; exact h
  | closeReq => simp only [step]; split
                · exact h
                · rw [hcl]; exact h
  | cancel => show NodupKeys (close .cancel s).hdr; rw [hcl]; exact h
  | panic => exact h

end ConfModel.HandlerTrace
