package main

import (
	"encoding/json"

	cc "connectrpc.com/conformance/internal/app/connectconformance"
	"connectrpc.com/conformance/internal/verifharness/gen"
)

// C11 op "inproc": the real runTestCasesForServer with an in-process server behind the real
// runInProcess/localProcess and the real client runner over the pipes of an in-process scripted
// client (see verif_export_c11inproc.go).
//
//	inproc  <VerifC11InSpec>  ->  <VerifC11InObs>

func init() {
	gen.RegisterOp("c11", "inproc", func(_ *gen.Ctx, raw json.RawMessage) any {
		return cc.VerifC11InProc(gen.Into[cc.VerifC11InSpec](raw))
	})
}

type c11InAct = cc.VerifC11InAct

// c11InHandled: the client reads and answers cases from..to-1, one after the other.
func c11InHandled(from, to int, kind func(i int) string) []c11InAct {
	var out []c11InAct
	for i := from; i < to; i++ {
		out = append(out, c11InAct{K: "req"}, c11InAct{K: "ans", M: i, Kind: kind(i)})
	}
	return out
}

// c11InProcScenarios returns the fast scenarios (no timer involved) and the slow ones (a slow
// client keeps the batch going for longer than the grace period of process.go; a server that ends
// by itself while the client is busy).
func c11InProcScenarios(c *gen.Ctx) (fast, slow []any) {
	nAdded := 0
	add := func(kind string, s cc.VerifC11InSpec) {
		c.E.Count("kind:inproc-" + kind)
		s.TimeoutS = 20
		// the order in which the server answers and reads its request (synchronous pipes): every
		// "complete" scenario in all three orders, one in eight of the others with the server answering first
		nAdded++
		if kind == "complete" {
			for _, o := range []string{"answerFirst", "answerFirstSlow"} {
				t := s
				t.ServerOrder = o
				c.E.Count("kind:inproc-server-" + o)
				fast = append(fast, t)
			}
		} else if nAdded%8 == 0 {
			s.ServerOrder = []string{"answerFirst", "answerFirstSlow"}[(nAdded/8)%2]
			c.E.Count("kind:inproc-server-" + s.ServerOrder)
		}
		fast = append(fast, s)
	}
	addSlow := func(kind string, s cc.VerifC11InSpec) {
		c.E.Count("kind:inproc-" + kind)
		s.TimeoutS = 30
		slow = append(slow, s)
	}
	pass := func(int) string { return "pass" }
	kinds := []string{"pass", "mismatch", "error", "neither"}
	mixed := func(int) string { return gen.Pick(c.R, kinds) }
	maxN := 4
	if c.Thorough() {
		maxN = 5
	}
	exit := func(code int) c11InAct { return c11InAct{K: "exit", Code: code} }

	// 1. nothing goes wrong: every case answered in turn, every answer kind
	for n := 1; n <= maxN; n++ {
		for _, isRef := range []bool{false, true} {
			add("complete", cc.VerifC11InSpec{Names: c11Names(n), IsRef: isRef, Client: c11InHandled(0, n, pass)})
			add("complete", cc.VerifC11InSpec{Names: c11Names(n), IsRef: isRef, Client: c11InHandled(0, n, mixed)})
		}
	}
	// answers that lag behind: the client reads everything first and answers in reverse order
	for n := 2; n <= maxN; n++ {
		var cl []c11InAct
		for i := 0; i < n; i++ {
			cl = append(cl, c11InAct{K: "req"})
		}
		for i := n - 1; i >= 0; i-- {
			cl = append(cl, c11InAct{K: "ans", M: i, Kind: mixed(i)})
		}
		add("complete-lagging", cc.VerifC11InSpec{Names: c11Names(n), IsRef: n%2 == 0, Client: cl})
	}

	// 2. the pipe to the client breaks (the client exits) at every position k of the batch and at
	//    every stage of request k: before a byte of it was read, inside its length prefix, after the
	//    prefix, inside its body, after all of it — and in each partial stage with or without the
	//    client having answered request k already (it then waits until the runner has taken the answer)
	type stage struct {
		name string
		read []c11InAct
	}
	stages := []stage{
		{"unread", nil},
		{"pre1", []c11InAct{{K: "pre", B: 1}}},
		{"pre2", []c11InAct{{K: "pre", B: 2}}},
		{"pre3", []c11InAct{{K: "pre", B: 3}}},
		{"prefix", []c11InAct{{K: "part", B: 0}}},
		{"body1", []c11InAct{{K: "part", B: 1}}},
		{"body7", []c11InAct{{K: "part", B: 7}}},
		{"body-1", []c11InAct{{K: "part", B: 1 << 20}}}, // all but the last byte
	}
	for n := 1; n <= maxN; n++ {
		for k := 0; k < n; k++ {
			for code := 0; code <= 1; code++ {
				isRef := (n+k+code)%2 == 0
				kindOf := pass
				if code == 1 {
					kindOf = mixed
				}
				for _, st := range stages {
					cl := append(c11InHandled(0, k, kindOf), st.read...)
					add("break-"+st.name, cc.VerifC11InSpec{Names: c11Names(n), IsRef: isRef, Client: append(append([]c11InAct{}, cl...), exit(code))})
					if st.read != nil {
						// request k is answered although only a part of it was read; the answer
						// has been taken (callback invoked) before the pipe breaks
						ans := append(append([]c11InAct{}, cl...), c11InAct{K: "ans", M: k, Kind: kindOf(k)}, c11InAct{K: "await", M: k}, exit(code))
						add("break-answered-"+st.name, cc.VerifC11InSpec{Names: c11Names(n), IsRef: isRef, Client: ans})
					}
				}
				// request k read completely: not answered / answered, then the client exits
				cl := append(c11InHandled(0, k, kindOf), c11InAct{K: "req"})
				add("break-after-unanswered", cc.VerifC11InSpec{Names: c11Names(n), IsRef: isRef, Client: append(append([]c11InAct{}, cl...), exit(code))})
				add("break-after-answered", cc.VerifC11InSpec{Names: c11Names(n), IsRef: isRef,
					Client: append(append([]c11InAct{}, cl...), c11InAct{K: "ans", M: k, Kind: kindOf(k)}, exit(code))})
				// an earlier request is still unanswered (in flight) when request k is answered
				// blindly and the pipe breaks
				if k >= 1 {
					lag := append(c11InHandled(0, k-1, kindOf), c11InAct{K: "req"})
					for _, st := range []stage{stages[2], stages[4], stages[6]} {
						l := append(append([]c11InAct{}, lag...), st.read...)
						l = append(l, c11InAct{K: "ans", M: k, Kind: kindOf(k)}, c11InAct{K: "await", M: k}, exit(code))
						add("break-answered-inflight-"+st.name, cc.VerifC11InSpec{Names: c11Names(n), IsRef: isRef, Client: l})
					}
				}
			}
		}
	}

	// 3. the client has taken every request, answers pos of them and then writes garbage
	for n := 1; n <= 3; n++ {
		for pos := 0; pos <= n; pos++ {
			var cl []c11InAct
			for i := 0; i < n; i++ {
				cl = append(cl, c11InAct{K: "req"})
			}
			for i := 0; i < pos; i++ {
				cl = append(cl, c11InAct{K: "ans", M: i, Kind: mixed(i)})
			}
			cl = append(cl, c11InAct{K: "garbage"})
			add("garbage", cc.VerifC11InSpec{Names: c11Names(n), IsRef: pos%2 == 0, Client: cl})
		}
	}

	// 4. random sequential scripts with one break
	nRandom := 150
	if c.Thorough() {
		nRandom = 1500
	}
	for i := 0; i < nRandom; i++ {
		n := c.R.Range(1, maxN)
		k := c.R.Range(0, n)
		var cl []c11InAct
		var pending []int
		for j := 0; j < k; j++ {
			cl = append(cl, c11InAct{K: "req"})
			pending = append(pending, j)
			for len(pending) > 0 && c.R.Chance(2, 3) {
				idx := c.R.Intn(len(pending))
				cl = append(cl, c11InAct{K: "ans", M: pending[idx], Kind: mixed(0)})
				pending = append(pending[:idx], pending[idx+1:]...)
			}
		}
		if k < n && c.R.Chance(3, 4) {
			st := gen.Pick(c.R, stages[1:])
			cl = append(cl, st.read...)
			if c.R.Bool() {
				cl = append(cl, c11InAct{K: "ans", M: k, Kind: mixed(0)}, c11InAct{K: "await", M: k})
			}
		}
		cl = append(cl, exit(c.R.Intn(2)))
		add("random", cc.VerifC11InSpec{Names: c11Names(n), IsRef: c.R.Bool(), Client: cl})
	}

	// 6. feedback of the reference server, printed through the real printer (internal.NewPrinter /
	//    PrefixPrintf, as referenceserver.feedbackPrinter does) with the test-case name as prefix:
	//    names are arbitrary strings — per-cent signs and format verbs, ": " inside, non-ASCII
	namePool := []string{"100% identity/unary", "%", "%s", "%d%%", "Suite/50%off/unary", "%!v(MISSING)", "%v%v%v",
		"Süite/ünï/日本", "Suite/a: b/unary", "Suite/plain/unary", "50%", "%%", "%[1]s", "Suite/%q/%x"}
	fmtPool := []struct {
		f string
		n int
	}{
		{"client sent another request (#%s) for the same test case", 1},
		{"invalid value for %s header: %s", 2},
		{"expected codec %s, got %s", 2},
		{"compression is 100%% wrong", 0},
		{"plain message without arguments", 0},
		{"%s", 1},
		{"a: b: c %s", 1},
	}
	argPool := []string{"json", "X-Expect-Codec", "2", "50%", "%s", "ünï", "a: b"}
	nFeedback := 120
	if c.Thorough() {
		nFeedback = 1500
	}
	for i := 0; i < nFeedback; i++ {
		n := c.R.Range(1, 3)
		perm := make([]int, len(namePool))
		for j := range perm {
			perm[j] = j
		}
		for j := len(perm) - 1; j > 0; j-- {
			k := c.R.Intn(j + 1)
			perm[j], perm[k] = perm[k], perm[j]
		}
		names := make([]string, n)
		for j := range names {
			names[j] = namePool[perm[j]]
		}
		if i < len(namePool) {
			names[0] = namePool[i] // every name of the pool at least once, as the only or first case
			for j := 1; j < n; j++ {
				if names[j] == names[0] {
					names[j] = namePool[(i+j)%len(namePool)]
				}
			}
		}
		var fb []cc.VerifC11InFeedback
		for k := c.R.Range(1, 4); k > 0; k-- {
			f := gen.Pick(c.R, fmtPool)
			args := make([]string, f.n)
			for a := range args {
				args[a] = gen.Pick(c.R, argPool)
			}
			m := c.R.Intn(n)
			if c.R.Chance(1, 6) {
				m = -1 // other output of the server
			}
			fb = append(fb, cc.VerifC11InFeedback{M: m, Fmt: f.f, Args: args})
		}
		add("feedback", cc.VerifC11InSpec{Names: names, IsRef: true, Client: c11InHandled(0, n, mixed), Feedback: fb})
	}

	// 5. a slow client: the batch lasts longer than the grace period (5 s) that
	//    localProcess.result() is willing to wait — the healthy in-process server must neither be
	//    taken for dead nor be told to stop before the last case was answered
	sleep := func(ms int) c11InAct { return c11InAct{K: "sleep", Ms: ms} }
	addSlow("slow-client", cc.VerifC11InSpec{Names: c11Names(3), IsRef: true,
		Client: append(append(c11InHandled(0, 1, pass), sleep(6500)), c11InHandled(1, 3, pass)...)})
	addSlow("slow-client", cc.VerifC11InSpec{Names: c11Names(2), IsRef: false,
		Client: append([]c11InAct{sleep(6500)}, c11InHandled(0, 2, pass)...)})
	if c.Thorough() {
		addSlow("slow-client", cc.VerifC11InSpec{Names: c11Names(4), IsRef: true,
			Client: append(append(append(c11InHandled(0, 1, mixed), sleep(3500)), append(c11InHandled(1, 2, mixed), sleep(3500))...), c11InHandled(2, 4, mixed)...)})
		addSlow("slow-client", cc.VerifC11InSpec{Names: c11Names(2), IsRef: true,
			Client: append(append(c11InHandled(0, 1, pass), sleep(11500)), c11InHandled(1, 2, pass)...)})
	}
	// a server that ends by itself (status 0 / with an error) 1 s after it has answered, while
	// the client is busy with case 1 for 2.5 s: cases 0 and 1 keep their verdicts, case 2 is a
	// set-up error
	for _, withErr := range []bool{false, true} {
		addSlow("server-ends", cc.VerifC11InSpec{Names: c11Names(3), IsRef: withErr, ServerExitMs: 1000, ServerExitErr: withErr,
			Client: append(append(c11InHandled(0, 1, pass), sleep(2500)), c11InHandled(1, 2, pass)...)})
	}
	return fast, slow
}
