import ConfModel.Driver.Common
import ConfModel.Model.ServerTimeout
import ConfModel.Model.ServerChecks
import ConfModel.Spec.ServerChecks
import ConfModel.Model.FeedbackLine
import ConfModel.Model.FeedbackStream
import ConfModel.Model.ServerOverlap
namespace ConfModel.Driver.C12
open Lean ConfModel.Driver ConfModel.ServerChecks ConfModel.ServerChecksSpec
open ConfModel.ServerTimeout (Bytes Proto)

def pairs (j : Json) : Hdrs :=
  (arr j).map (fun p => match strList p with | [k, v] => (k, v) | _ => ("", ""))

def reqOf (j : Json) : Req :=
  { major := nat (field j "major")
    method := str (field j "method")
    headers := pairs (field j "headers")
    query := pairs (field j "query")
    tls := match nat (field j "tls") with
      | 0 => none
      | 1 => some none
      | _ => some (some (str (field j "cn")))
    trailers := nat (field j "trailers")
    bodyEmpty := bool (field j "bodyEmpty") }

def reqJson (r : Req) : Json :=
  Json.mkObj [("major", r.major), ("method", r.method),
    ("headers", toJson (r.headers.map fun kv => [kv.1, kv.2])),
    ("query", toJson (r.query.map fun kv => [kv.1, kv.2])),
    ("tls", toJson (reprStr r.tls)), ("trailers", r.trailers), ("bodyEmpty", r.bodyEmpty)]

/-- stable insertion sort on the key (Go side: keys sorted, values in order) -/
def insertKV (x : String × String) : Hdrs → Hdrs
  | [] => [x]
  | y :: ys => if x.1 < y.1 then x :: y :: ys else y :: insertKV x ys

def sortKV (h : Hdrs) : Hdrs := h.foldl (fun acc x => insertKV x acc) []

def optIntStr (j : Json) : Option Int := if isNull j then none else (str j).toInt?

def fbOfClass (s : String) : Fb :=
  let simple : List Fb := [.repeated, .badExpectedVersion, .version, .protocolUnknown, .protocol, .te,
    .badExpectedCodec, .getContentType, .getBody, .encodingMissing, .codec, .badExpectedCompression,
    .compression, .tlsExpected, .plainExpected, .clientCert, .method, .trailers, .timeoutEmpty,
    .timeoutUnit, .timeoutNumeric, .timeoutDigits]
  match simple.find? (fun f => f.toString == s) with
  | some f => f
  | none =>
    if s.startsWith "dup:" then .dup (s.drop 4).toString
    else if s.startsWith "dupq:" then .dupQuery (s.drop 5).toString
    else if s.startsWith "badvalue:" then .badValue (s.drop 9).toString
    else if s.startsWith "range:" then .outOfRange (s.drop 6).toString
    else .other s

def aspects (j : Json) : Option Aspects :=
  match natList j with
  | [v, m, p, c, z, t, k] =>
    some { version := match v with | 0 => .h1 | 1 => .h2 | _ => .h3
           method := match m with | 0 => .post | _ => .get
           protocol := match p with | 0 => .connect | 1 => .grpc | _ => .grpcWeb
           codec := match c with | 0 => .proto | _ => .json
           compression := match z with
             | 0 => .identity | 1 => .gzip | 2 => .br | 3 => .zstd | 4 => .deflate | _ => .snappy
           tls := t != 0, cert := k != 0 }
  | _ => none

def variant (j : Json) : Variant :=
  match natList j with
  | [s, i, b] => { stream := s != 0, explicitIdentity := i != 0, bareGrpc := b != 0 }
  | _ => { stream := false, explicitIdentity := false, bareGrpc := false }

/-- one line of the server's stderr as written, what the real `runTestCasesForServer` made of it
(`record` | `forward` | `skip` | `hang`) and the test case it recorded it for -/
structure ErrLine where
  raw : String
  kind : String
  to : String

def errLines (j : Json) : List ErrLine :=
  (arr j).map fun l => match strList l with | [r, k, t] => ⟨r, k, t⟩ | _ => ⟨"", "hang", ""⟩

/-- the decoy test case the harness adds to every batch (c12Decoy) -/
def decoy : String := "C12/another case of the batch"

def batchOf (names : List String) : List (List Char) :=
  ((asSet (names.filter (· != ""))) ++ [decoy]).map String.toList

/-- the model of the runner's reader agrees with the real runner on this line -/
def lineAgrees (batch : List (List Char)) (l : ErrLine) : Bool :=
  match ServerRunner.lineAct batch (l.raw.toList ++ ['\n']) with
  | .skip => l.kind == "skip"
  | .record a _ => l.kind == "record" && l.to.toList == a
  | .forward _ => l.kind == "forward"

/-- "feedback naming the test case": every line the request made the server write is recorded by
the runner for that test case - by the real runner, and by the property's own reading
(`FeedbackLine.attributedTo`) of the bytes -/
def linesNamed (batch : List (List Char)) (name : String) (ls : List ErrLine) : Bool :=
  ls.all fun l => l.kind == "record" && l.to == name &&
    FeedbackLine.attributedTo batch name.toList (l.raw.toList ++ ['\n'])

/-- the runner's reading of a stderr line ("trim; split at the first `": "`") gives back this
test case name (`c12Attributable`; the hypotheses of `feedback_line_attributed` on the name) -/
def attributable (n : String) : Bool :=
  ServerRunner.Spec.noSep n.toList && FeedbackLine.startsClean n.toList && FeedbackLine.oneLine n.toList &&
  !n.toList.contains '\r'

/-- for a name the runner's reading cannot carry only the server's side is judged: every line
it writes for the request starts with the name and `": "` -/
def linesStartWith (name : String) (ls : List ErrLine) : Bool :=
  ls.all fun l => l.raw.startsWith (name ++ ": ")

structure Obs where
  lines : List ErrLine := []
  called : Bool
  fb : List String
  named : Bool
  ms : Option Int
  seen : Hdrs
  status : Nat
  error : Bool

def obsOf (j : Json) : Obs :=
  { called := bool (field j "called"), fb := strList (field j "fb"), named := bool (field j "named"),
    ms := optIntStr (field j "ms"), seen := pairs (field j "seen"), status := nat (field j "status"),
    error := bool (field j "error"), lines := errLines (field j "lines") }

def outcomeJson (o : Outcome) : Json :=
  Json.mkObj [("rejected", o.rejected), ("fb", toJson (o.feedback.map Fb.toString)),
    ("ms", match o.timeout with | some d => toJson (toString (ServerTimeout.timeoutMs d)) | none => Json.null),
    ("seen", toJson ((sortKV o.seen).map fun kv => [kv.1, kv.2]))]

def agreeObs (o : Outcome) (i : Obs) : Bool :=
  i.called == !o.rejected && i.fb == o.feedback.map Fb.toString &&
  i.ms == o.timeout.map ServerTimeout.timeoutMs && (o.rejected || i.seen == sortKV o.seen)

/-- the protocol a literally well-formed `X-Expect-Protocol` value announces -/
def specProto (vals : List String) : Proto :=
  match vals with
  | ["1"] => .connect | ["2"] => .grpc | ["3"] => .grpcWeb | _ => .other

def timeoutHeaderOf : Proto → String
  | .connect => "Connect-Timeout-Ms"
  | _ => "Grpc-Timeout"

/-- the property's statements that apply to any request: feedback carries the test name; a
request without test name is rejected outright (and only such a request); a repeated test is
flagged; request trailers are flagged; a timeout header is accepted exactly when grammatical,
echoed as its millisecond floor and removed before the inner handler. -/
def generalHolds (batch : List (List Char)) (earlier : List String) (r : Req) (i : Obs) : Bool × String :=
  let name := testName r
  let fb := i.fb.map fbOfClass
  if !i.named then (false, "a message is not prefixed with the test case name") else
  if !(if attributable name then linesNamed batch name i.lines else linesStartWith name i.lines) then
    (false, s!"a line of the server's stderr is not attributed to test case {name.quote} by the runner: {(i.lines.map (·.raw))}") else
  if name == "" then
    (!i.called && i.fb.isEmpty && i.error, "a request without test name must be rejected outright")
  else if !i.called then (false, "request with a test name was not passed on") else
  if earlier.contains name && !fb.contains .repeated then (false, "repeated request for the same test not flagged") else
  if !earlier.contains name && fb.contains .repeated then (false, "first request for a test flagged as repeated") else
  if (r.trailers > 0) != fb.contains .trailers then (false, "request trailers flagged iff present fails") else
  let p := specProto (values r.headers "X-Expect-Protocol")
  if p == .other then (true, "") else
  let hdr := timeoutHeaderOf p
  match values r.headers hdr with
  | [] => (i.ms.isNone, "a timeout is echoed although no timeout header was sent")
  | v :: _ =>
    let exp := expectedTimeout p (bytesOf v)
    if i.ms != exp.map ServerTimeout.timeoutMs then
      (false, s!"timeout header {v.quote}: the grammar/value demands timeout_ms {exp.map ServerTimeout.timeoutMs}, echoed {i.ms}")
    else if !(values i.seen hdr).isEmpty then (false, "timeout header still visible to the server implementation")
    else (true, "")

def serveHolds (batch : List (List Char)) : List String → List Req → List Obs → Bool × String
  | earlier, r :: rs, i :: is =>
    let (ok, why) := generalHolds batch earlier r i
    if !ok then (false, why) else
    serveHolds batch (if i.called then testName r :: earlier else earlier) rs is
  | _, _, _ => (true, "")

/-! ### the real server (op `real`, c12real.go) -/

structure RealObs where
  fb : List String
  named : Bool
  ms : Option Int
  seenTO : Nat
  status : Nat
  proto : Nat
  ok : Bool
  err : String
  lines : List ErrLine

def realObsOf (j : Json) : RealObs :=
  { fb := strList (field j "fb"), named := bool (field j "named"), ms := optIntStr (field j "ms"),
    seenTO := nat (field j "seenTO"), status := nat (field j "status"), proto := nat (field j "proto"),
    ok := bool (field j "ok"), err := str (field j "err"), lines := errLines (field j "lines") }

/-- feedback that is not about one of the six aspects and is judged by `generalHolds` -/
def notAnAspect : Fb → Bool
  | .repeated | .trailers | .timeoutEmpty | .timeoutUnit | .timeoutNumeric | .timeoutDigits => true
  | _ => false

def asciiString (b : List UInt8) : String := String.ofList (b.map fun x => Char.ofNat x.toNat)

def timeoutHeaders (q : Req) : Nat :=
  (values q.headers "Connect-Timeout-Ms").length + (values q.headers "Grpc-Timeout").length

def agreeReal (batch : List (List Char)) (o : ChainOutcome) (i : RealObs) : Bool :=
  i.err == "" && i.lines.all (lineAgrees batch) && i.fb == o.outcome.feedback.map Fb.toString &&
  i.ms == o.outcome.timeout.map ServerTimeout.timeoutMs &&
  (match o.inner with
   | some q => i.ok && i.seenTO == timeoutHeaders q
   | none => !i.ok)

/-- what the client can tell about the server implementation, in the terms of `generalHolds`:
the inner handler ran iff the RPC succeeded; the timeout headers the implementation saw are the
ones it echoes in the request info -/
def obsOfReal (i : RealObs) : Obs :=
  { called := i.ok, fb := i.fb, named := i.named, ms := i.ms, lines := i.lines,
    seen := if i.seenTO > 0 then [("Connect-Timeout-Ms", "?"), ("Grpc-Timeout", "?")] else [],
    status := i.status, error := !i.ok }

/-! ### overlapping requests (op `overlap`) and whole stderr streams (op `stream`), c12overlap.go -/

/-- run-length coded text: `[[text, repeat], ...]` -/
def unrle (j : Json) : String :=
  String.join ((arr j).map fun seg =>
    match arr seg with
    | [t, n] =>
      let t := str t
      let k := nat n
      if k == 1 then t else
      match t.toList with
      | [c] => String.ofList (List.replicate k c)
      | _ => String.join (List.replicate k t)
    | _ => "")

/-- `c12ApplyPad`: the first entry for `key` gets `pad` appended, or `(key, dflt ++ pad)` is added -/
def padEntry (l : Hdrs) (key dflt pad : String) : Hdrs :=
  if l.any (·.1 == key) then
    (l.foldl (fun (acc : Hdrs × Bool) kv =>
      if !acc.2 && kv.1 == key then (acc.1 ++ [(kv.1, kv.2 ++ pad)], true) else (acc.1 ++ [kv], acc.2)) ([], false)).1
  else l ++ [(key, dflt ++ pad)]

def padReq (r : Req) (kind : String) (n : Nat) : Req :=
  let pad := String.ofList (List.replicate n 'x')
  match kind with
  | "codec" =>
    if r.method == "GET" then { r with query := padEntry r.query "encoding" "proto" pad }
    else { r with headers := padEntry r.headers "Content-Type" "application/proto" pad }
  | "compression" =>
    if r.method == "GET" then { r with query := padEntry r.query "compression" "gzip" pad } else
    let ct := ((r.headers.filter (·.1 == "Content-Type")).getLast?.map (·.2)).getD ""
    if hasPrefix ct "application/grpc" then { r with headers := padEntry r.headers "Grpc-Encoding" "gzip" pad }
    else if hasPrefix ct "application/connect+" then { r with headers := padEntry r.headers "Connect-Content-Encoding" "gzip" pad }
    else { r with headers := padEntry r.headers "Content-Encoding" "gzip" pad }
  | "expect" => { r with headers := padEntry r.headers "X-Expect-Codec" "1" pad }
  | "timeout" =>
    let name := if r.headers.any (fun kv => kv.1 == "X-Expect-Protocol" && kv.2 == "1") then "Connect-Timeout-Ms" else "Grpc-Timeout"
    { r with headers := r.headers ++ [(name, "1" ++ String.ofList (List.replicate n '0'))] }
  | "method" => { r with method := r.method ++ String.ofList (List.replicate n 'X') }
  | _ => r

structure OvReq where
  e : Aspects
  a : Aspects
  name : String
  req : Req
  padded : Bool

/-- `c12OvRender` -/
def ovReqOf (j : Json) : Option OvReq :=
  match aspects (field j "e"), aspects (field j "a") with
  | some e, some a =>
    let name := str (field j "name")
    let r0 := render e name a (variant (field j "v"))
    let r1 : Req := { r0 with headers := if name == "" then r0.headers.drop 1 else r0.headers, trailers := nat (field j "trailers") }
    let pad := field j "pad"
    some { e := e, a := a, name := name, padded := !isNull pad,
           req := if isNull pad then r1 else padReq r1 (str (field pad "kind")) (nat (field pad "n")) }
  | _, _ => none

def allSome {α} : List (Option α) → Option (List α)
  | [] => some []
  | none :: _ => none
  | some a :: rest => (allSome rest).map (a :: ·)

/-- `c12NormSched` -/
def normSched (n : Nat) (sched : List (List Nat)) : List (List Nat) :=
  let step := fun (acc : List Nat × List (List Nat)) (ev : List Nat) =>
    match ev with
    | kind :: ids =>
      if kind > 2 || ids.isEmpty then acc else
      let cand := if kind == 2 then ids else ids.take 1
      let (st, sel) := cand.foldl (fun (p : List Nat × List Nat) i =>
        if i ≥ n then p else
        let cur := p.1.getD i 0
        if kind != 1 && cur == 0 then (p.1.set i 1, p.2 ++ [i])
        else if kind == 1 && cur == 1 then (p.1.set i 2, p.2 ++ [i])
        else p) (acc.1, [])
      if sel.isEmpty then (st, acc.2) else (st, acc.2 ++ [kind :: sel])
    | [] => acc
  let (st, out) := sched.foldl step (List.replicate n 0, [])
  out ++ ((List.range n).filter (fun i => st.getD i 0 == 1)).map (fun i => [1, i])

open ConfModel.ServerOverlap in
def todoOf (s : Srv) (i : Nat) : List Act := ((s.frames.find? (·.id == i)).map (·.todo)).getD []

open ConfModel.ServerOverlap in
/-- request `i` arrives and runs until it is inside the wrapped handler -/
def enterM (reqs : List Req) (s : Srv) (i : Nat) : Srv × List Line :=
  let s1 := (stepSrv reqs s (.arrive i)).1
  run reqs s1 (List.replicate (untilHandler (todoOf s1 i)) (.step i))

open ConfModel.ServerOverlap in
/-- the wrapped handler of request `i` returns and the call runs to its end -/
def leaveM (reqs : List Req) (s : Srv) (i : Nat) : Srv × List Line :=
  run reqs s (List.replicate (todoOf s i).length (.step i))

open ConfModel.ServerOverlap in
def eventM (reqs : List Req) (s : Srv) : List Nat → Srv × List Line
  | 1 :: i :: _ => leaveM reqs s i
  | _ :: ids => ids.foldl (fun (p : Srv × List Line) i => let (s', l) := enterM reqs p.1 i; (s', p.2 ++ l)) (s, [])
  | [] => (s, [])

structure OvStep where
  ev : List Nat
  lines : List (String × String)
  raw : List ErrLine
  stuck : Bool

def ovStepOf (j : Json) : OvStep :=
  { ev := natList (field j "ev"), stuck := bool (field j "stuck"), raw := errLines (field j "raw"),
    lines := (arr (field j "lines")).map fun l => match strList l with | [n, c] => (n, c) | _ => ("", "other:?") }

open ConfModel.ServerOverlap in
def handleOverlap (inp impl : Json) : Verdict :=
  match allSome ((arr (field inp "reqs")).map ovReqOf) with
  | none => bad "overlap: bad tuples"
  | some qs =>
    let reqs := qs.map (·.req)
    let nameOf := fun (i : Nat) => ((reqs[i]?).map testName).getD ""
    let sched := normSched reqs.length ((arr (field inp "sched")).map natList)
    let steps := (arr (field impl "steps")).map ovStepOf
    let robs := (arr (field impl "reqs")).map obsOf
    let batch := batchOf (qs.map (·.name))
    -- the model, event by event
    let (_, mlines) := sched.foldl (fun (p : Srv × List (List Line)) ev =>
      let (s', l) := eventM reqs p.1 ev; (s', p.2 ++ [l])) (({} : Srv), [])
    let stepAgrees := fun (ev : List Nat) (ml : List Line) (st : OvStep) =>
      st.ev == ev && !st.stuck && st.raw.all (lineAgrees batch) &&
      (match ev with
       | 2 :: ids =>
         ids.all (fun i => (st.lines.filter (·.1 == nameOf i)).map (·.2) == ((linesOf i ml).map (·.fb.toString))) &&
         st.lines.all (fun l => ids.any (fun i => nameOf i == l.1))
       | _ => st.lines == ml.map (fun l => (l.name, l.fb.toString)))
    let agree := steps.length == sched.length && mlines.length == sched.length &&
      ((sched.zip (mlines.zip steps)).all fun (ev, ml, st) => stepAgrees ev ml st) &&
      robs.length == reqs.length
    let model := toJson (mlines.map fun ls => ls.map fun l => [toString l.id, l.name, l.fb.toString])
    -- the property, on the implementation's output
    if steps.length != sched.length || robs.length != reqs.length then
      { agree := false, holds := false, model := model, why := "observations missing" } else
    match steps.find? (·.stuck) with
    | some st => { agree := false, holds := false, model := model,
                   why := s!"event {st.ev}: a request neither reached the wrapped handler nor returned" }
    | none =>
    -- (1) every line is printed under the test name of the request that printed it
    let misnamed := (sched.zip steps).filterMap fun (ev, st) =>
      match ev with
      | 2 :: ids =>
        let names := ids.map nameOf
        if st.lines.all (fun l => l.1 != "" && names.contains l.1) &&
           st.raw.all (fun l => l.kind == "record" && names.contains l.to &&
             FeedbackLine.attributedTo batch l.to.toList (l.raw.toList ++ ['\n'])) then none
        else some s!"requests {ids} (test cases {names}) arrived together; feedback printed meanwhile: {st.lines}"
      | k :: i :: _ =>
        if st.lines.all (fun l => l.1 == nameOf i && l.1 != "") && linesNamed batch (nameOf i) st.raw then none
        else some (s!"request {i} (test case {(nameOf i).quote}) " ++ (if k == 1 then "left the wrapped handler" else "arrived") ++
          s!" while {(sched.takeWhile (· != ev)).length} earlier events had other requests under way; feedback printed by it: {st.lines}" ++
          (if st.raw.isEmpty then "" else s!" stderr as attributed by the runner: {st.raw.map fun l => (l.raw, l.kind, l.to)}"))
      | _ => none
    match misnamed with
    | w :: _ => { agree := agree, holds := false, model := model,
                  why := "feedback not attributed to the test case of the request it is about: " ++ w }
    | [] =>
    -- (2) per request: what was reported for it is what the property demands of it alone
    let fbOf := fun (i : Nat) => (sched.zip steps).flatMap fun (ev, st) =>
      match ev with
      | 2 :: ids => if ids.contains i then (st.lines.filter (·.1 == nameOf i)).map (·.2) else []
      | _ :: j :: _ => if j == i then st.lines.map (·.2) else []
      | _ => []
    let arrivedBefore := fun (i : Nat) =>
      ((sched.takeWhile (fun ev => !(ev.head? != some 1 && (ev.drop 1).contains i))).flatMap fun ev =>
        if ev.head? == some 1 then [] else (ev.drop 1).map nameOf).filter (· != "")
    let started := fun (i : Nat) => sched.any (fun ev => ev.head? != some 1 && (ev.drop 1).contains i)
    let perReq := (List.range reqs.length).filterMap fun i =>
      if !started i then none else
      match qs[i]?, robs[i]? with
      | some q, some o =>
        let fb := fbOf i
        let (g, gwhy) := generalHolds batch (arrivedBefore i) q.req { o with fb := fb, named := true, lines := [] }
        if !g then some s!"request {i} (test case {q.name.quote}): {gwhy}; feedback {fb}" else
        let fbs := (fb.map fbOfClass).filter (fun f => !notAnAspect f)
        if q.name != "" && q.a.realisable && !flagsExactly q.e q.a fbs then
          some s!"request {i} (test case {q.name.quote}): feedback {fb} does not name exactly the deviating aspects {reprStr (mismatches q.e q.a)}"
        else none
      | _, _ => some "observation missing"
    match perReq with
    | w :: _ => { agree := agree, holds := false, model := model, why := w }
    | [] =>
      let overlapping := (sched.foldl (fun (p : Nat × Bool) ev =>
        let inside := if ev.head? == some 1 then p.1 - (ev.length - 1) else p.1 + (ev.length - 1)
        (inside, p.2 || (p.1 > 0 && !(ev.head? == some 1 && p.1 == 1)))) (0, false)).2
      { agree := agree, holds := true, nontrivial := overlapping, model := model,
        cls := (if overlapping then "overlapping" else "sequential") ++
          (if steps.any (fun st => !st.lines.isEmpty) then "/feedback" else "/silent") }

open ConfModel.FeedbackStream ConfModel.ServerRunner in
def chunksOf (k : Nat) : Nat → List Char → List (List Char)
  | 0, _ => []
  | fuel + 1, l => if l.isEmpty then [] else l.take k :: chunksOf k fuel (l.drop k)

structure StreamLine where
  text : String
  cls : String

open ConfModel.FeedbackStream ConfModel.ServerRunner in
def handleStream (inp impl : Json) : Verdict :=
  match allSome ((arr (field inp "reqs")).map ovReqOf) with
  | none => bad "stream: bad tuples"
  | some qs =>
    let reqs := qs.map (·.req)
    let outs := serve [] reqs
    let ireqs := arr (field impl "reqs")
    let ilines : List (List StreamLine) := ireqs.map fun r =>
      (arr (field r "lines")).map fun l => { text := unrle (field l "line"), cls := str (field l "cls") }
    let hang := bool (field impl "hang")
    let forwarded := (arr (field impl "forwarded")).map unrle
    let sidebandI : List (String × String) := (arr (field impl "sideband")).map fun p =>
      match arr p with | [n, m] => (str n, unrle m) | _ => ("", "")
    -- the batch as the harness builds it
    let batchS : List String := ((List.range qs.length).zip qs).foldl (fun (acc : List String) (i, q) =>
      acc ++ [if q.name == "" || acc.contains q.name then s!"C12/filler-{i}" else q.name]) [] ++ [decoy]
    let batch := batchS.map String.toList
    -- the model: the checks request by request, the reader on the stream as written
    let stream : List Char := (ilines.flatMap fun ls => ls.flatMap fun l => l.text.toList ++ ['\n'])
    let chunk := if nat (field inp "chunk") == 0 then 4096 else nat (field inp "chunk")
    let (fw, recs) := if stream.length / chunk ≤ 20000 then readStreamChunked batch (chunksOf chunk stream.length stream)
      else FeedbackLine.readStream batch stream
    let agreeChecks := outs.length == ireqs.length &&
      ((outs.zip (ireqs.zip ilines)).all fun (o, r, ls) =>
        bool (field r "served") && bool (field r "called") == !o.rejected &&
        ls.map (·.cls) == o.feedback.map (fun f => match f with | .other _ => "other" | f => f.toString))
    let agreeReader := !hang && forwarded.length == fw.length &&
      batchS.all (fun n => ((sidebandI.find? (·.1 == n)).map (·.2)) == (sideband recs n.toList).map String.ofList) &&
      sidebandI.all (fun p => batchS.contains p.1)
    let model := Json.mkObj [("fb", toJson (outs.map fun o => o.feedback.map Fb.toString)),
      ("recorded", toJson (batchS.filterMap fun n => (sideband recs n.toList).map fun m => [n, toString m.length])),
      ("forwarded", fw.length)]
    -- the property on the implementation's output
    let longest := (ilines.flatMap fun ls => ls.map (·.text.length)).foldl max 0
    let cls := (if bool (field inp "pipe") then "pipe" else "recorded") ++
      (if longest > 65536 then "/line>64KiB" else if longest > 4096 then "/line>4KiB" else "/short-lines")
    if hang then
      { agree := false, holds := false, model := model, cls := cls,
        why := s!"the batch did not end: the reference server is stalled on its stderr (longest feedback line {longest} bytes); requests served {(ireqs.filter fun r => bool (field r "served")).length} of {reqs.length}" } else
    if ireqs.length != reqs.length || ireqs.any (fun r => !bool (field r "served")) then
      { agree := false, holds := false, model := model, cls := cls, why := "a request of the batch was not served" } else
    if !forwarded.isEmpty then
      { agree := agreeChecks && agreeReader, holds := false, model := model, cls := cls,
        why := s!"{forwarded.length} feedback line(s) were not attributed to any test case by the runner (first: {(forwarded.headD "").take 120})" } else
    let named := (qs.zip ilines).filterMap fun (q, ls) =>
      if ls.all (fun l => q.name != "" && l.text.startsWith (q.name ++ ": ")) then none
      else some s!"a feedback line of test case {q.name.quote} is not printed under its name"
    match named with
    | w :: _ => { agree := agreeChecks && agreeReader, holds := false, model := model, cls := cls, why := w }
    | [] =>
    -- every test case that got feedback is flagged by the runner, with the last message printed for it
    let flagged := (asSet (qs.map (·.name))).filterMap fun n =>
      let mine := ((qs.zip ilines).filter (fun p => p.1.name == n)).flatMap (·.2)
      match mine.getLast? with
      | none => if (sidebandI.find? (·.1 == n)).isSome then some s!"test case {n.quote} got no feedback from the server but the runner holds some" else none
      | some l =>
        let expect := String.ofList (trim ((trim l.text.toList).drop (n.length + 2)))
        match sidebandI.find? (·.1 == n) with
        | none => some s!"the server printed {mine.length} feedback line(s) for test case {n.quote} (longest line of the stream: {longest} bytes) but the runner recorded none"
        | some (_, m) => if m == expect then none else
            some s!"the runner holds {(m.take 80).toString.quote} for test case {n.quote}, the last feedback printed for it is {(expect.take 80).toString.quote} (longest line of the stream: {longest} bytes)"
    match flagged with
    | w :: _ => { agree := agreeChecks && agreeReader, holds := false, model := model, cls := cls, why := w }
    | [] => { agree := agreeChecks && agreeReader, holds := true, model := model, cls := cls,
              nontrivial := ilines.any (fun ls => !ls.isEmpty) }

/-! ### the reference client's feedback (op `clientfb`) -/

open ConfModel.FeedbackStream in
def handleClientFb (inp impl : Json) : Verdict :=
  let cases := (arr (field inp "cases")).map fun c =>
    (str (field c "name"), bool (field c "mismatch"), (arr (field c "fb")).map unrle)
  let pairsOf := fun (j : Json) => (arr j).map fun p => match arr p with | [n, m] => (str n, unrle m) | _ => ("", "")
  let sidebandI := pairsOf (field impl "sideband")
  let merged := pairsOf (field impl "merged")
  let hang := bool (field impl "hang")
  let recs := clientRecords (cases.map fun (n, _, fb) => (n.toList, fb.map String.toList))
  let agree := !hang && cases.all (fun (n, _, _) =>
      ((sidebandI.find? (·.1 == n)).map (·.2)) == (sideband recs n.toList).map String.ofList) &&
    sidebandI.all (fun p => cases.any (fun c => c.1 == p.1))
  let model := toJson (cases.filterMap fun (n, _, _) => (sideband recs n.toList).map fun m => [n, toString m.length])
  if hang then { agree := false, holds := false, model := model, why := "the batch did not end" } else
  -- the feedback of a case is attributed to that case and to no other
  let wrong := cases.filterMap fun (n, mismatch, fb) =>
    let held := (sidebandI.find? (·.1 == n)).map (·.2)
    let failure := (merged.find? (·.1 == n)).map (·.2)
    match fb.getLast? with
    | none =>
      if held.isSome then some s!"test case {n.quote}: its response carried no feedback but the runner holds {((held.getD "").take 80).toString.quote} for it"
      else if !mismatch && failure.isSome then some s!"test case {n.quote} passed without feedback but is reported as failed: {((failure.getD "").take 80).toString.quote}"
      else none
    | some last =>
      if held != some last then
        some s!"test case {n.quote}: the last feedback of its response is {(last.take 80).toString.quote} ({last.length} bytes), the runner holds {(held.map fun h => (h.take 80).toString)} for it"
      else match failure with
        | none => some s!"test case {n.quote} got feedback but is not reported as failed"
        | some f =>
          if (!mismatch && f == last) || (mismatch && f.startsWith (last ++ "; ")) then none
          else some s!"test case {n.quote}: its failure after the merge does not carry its feedback: {(f.take 80).toString.quote}"
  match wrong with
  | w :: _ => { agree := agree, holds := false, model := model, why := w }
  | [] => { agree := agree, holds := true, model := model, nontrivial := cases.any (fun c => !c.2.2.isEmpty),
            cls := if cases.any (fun c => c.2.2.any (fun m => m.length > 65536)) then "message>64KiB" else "short" }

def handle : Handler := fun op inp impl =>
  if !(isNull (field impl "panic")) then
    { agree := false, holds := false, why := "panic: " ++ str (field impl "panic") } else
  match op with
  | "timeout" =>
    let pn := int (field inp "proto")
    let p := protoOf pn
    let cv := (strList (field inp "connect")).map unhex
    let gv := (strList (field inp "grpc")).map unhex
    let m := ServerTimeout.extractTimeout p cv gv
    let hdr := timeoutHeaderOf p
    let mFb := m.feedback.map (fun f => (liftT hdr f).toString)
    let iOk := bool (field impl "ok")
    let iNs := (str (field impl "ns")).toInt?.getD 0
    let iMs := optIntStr (field impl "ms")
    let iFb := strList (field impl "fb")
    let cLeft := nat (field impl "connectLeft")
    let gLeft := nat (field impl "grpcLeft")
    let mCLeft := if p == .connect && m.removed then 0 else cv.length
    let mGLeft := if (p == .grpc || p == .grpcWeb) && m.removed then 0 else gv.length
    let agree := iOk == m.timeout.isSome && (if iOk then some iNs else none) == m.timeout && iFb == mFb &&
      cLeft == mCLeft && gLeft == mGLeft && iMs == m.timeout.map ServerTimeout.timeoutMs
    -- the property
    let vals := match p with | .connect => cv | .grpc | .grpcWeb => gv | .other => []
    let left := match p with | .connect => cLeft | _ => gLeft
    let (holds, why) : Bool × String :=
      if !bool (field impl "named") then (false, "feedback not prefixed with the test case name") else
      match vals with
      | [] => (!iOk, "a timeout was accepted without a header")
      | v :: _ =>
        let exp := expectedTimeout p v
        if iOk != exp.isSome then
          (false, s!"header value {hex v}: grammatical={exp.isSome} accepted={iOk}")
        else if iOk && some iNs != exp then (false, s!"duration {iNs} ns, exact value is {exp}")
        else if iOk && iMs != exp.map ServerTimeout.timeoutMs then (false, s!"echoed timeout_ms {iMs}")
        else if left != 0 then (false, "timeout header not removed")
        else (true, "")
    { agree := agree, holds := holds, nontrivial := !vals.isEmpty,
      model := Json.mkObj [("ok", m.timeout.isSome), ("ns", toJson (m.timeout.map toString)), ("fb", toJson mFb),
        ("connectLeft", mCLeft), ("grpcLeft", mGLeft)],
      why := why, cls := if iOk then "accepted" else if vals.isEmpty then "absent" else "rejected" }
  | "checks" =>
    let reqs := (arr (field inp "reqs")).map reqOf
    let obs := (arr impl).map obsOf
    let outs := serve [] reqs
    let batch := batchOf (reqs.map testName)
    let agree := outs.length == obs.length && (outs.zip obs).all (fun (o, i) => agreeObs o i && i.lines.all (lineAgrees batch))
    let (holds, why) := serveHolds batch [] reqs obs
    { agree := agree, holds := holds && obs.length == reqs.length,
      nontrivial := obs.any (fun i => !i.fb.isEmpty) || reqs.length > 1,
      model := toJson (outs.map outcomeJson), why := why }
  | "matrix" =>
    match aspects (field inp "e"), aspects (field inp "a") with
    | some e, some a =>
      let v := variant (field inp "v")
      let name := str (field inp "name")
      let r := render e name a v
      -- the chain as installed: the tracing handler around the checks (traced) or not; the body
      -- of the request as rendered (a GET has none, or an empty one)
      let w : BodyWrapper := if bool (field inp "traced") then tracingRead else noWrapper
      let o := (serverChainW w 0 "" r (if a.method == .get then .eof else .nothing)).outcome
      match (arr impl).map obsOf with
      | [i] =>
        let fb := i.fb.map fbOfClass
        let (g, gwhy) := generalHolds (batchOf [name]) [] r i
        let exact := !a.realisable || flagsExactly e a fb
        { agree := agreeObs o i, holds := g && exact,
          nontrivial := a.realisable, model := outcomeJson o,
          why := if !g then gwhy else if !exact then
            s!"feedback {i.fb} does not name exactly the deviating aspects {reprStr (mismatches e a)}" else "",
          cls := if !a.realisable then "unrealisable" else if aspectsMatch e a then "match" else "deviating" }
      | _ => bad "matrix: expected one observation"
    | _, _ => bad "matrix: bad tuples"
  | "real" =>
    match aspects (field inp "e"), aspects (field inp "a") with
    | some e, some a =>
      let v := variant (field inp "v")
      let name := str (field inp "name")
      let proc := str (field inp "proc")
      let times := nat (field inp "times")
      let path := "/connectrpc.conformance.v1.ConformanceService/" ++ proc
      let r0 := render e name a v
      let toHdr := timeoutHeaderOf (protoOf (a.protocol.num : Nat))
      let timeout := field inp "timeout"
      let r1 : Req := { r0 with
        headers := (if name == "" then r0.headers.drop 1 else r0.headers) ++
          (if isNull timeout then [] else [(toHdr, asciiString (unhex (str timeout)))])
        trailers := nat (field inp "trailers") }
      let pad := field inp "pad"
      let r : Req := if isNull pad then r1 else padReq r1 (str (field pad "kind")) (nat (field pad "n"))
      let reqs := List.replicate times r
      let getBody := nat (field inp "getBody")
      let probe : Probe := if a.method == .get then (if getBody == 1 then .nothing else .eof) else .nothing
      let w : BodyWrapper := if bool (field inp "traced") then tracingRead else noWrapper
      let outs := serveChainW w path [] (reqs.map fun q => (q, probe))
      -- a GET that carries a body is refused by connect-go (415) after the checks have run: whether
      -- the RPC then succeeds says nothing about the checks
      let obs := (arr impl).map fun j => let o := realObsOf j; if getBody == 1 && o.err == "" then { o with ok := true } else o
      let batch := batchOf [name]
      let agree := outs.length == obs.length && (outs.zip obs).all (fun (o, i) => agreeReal batch o i)
      let model := toJson (outs.map fun o => outcomeJson o.outcome)
      match obs.find? (fun i => i.err != "") with
      | some i => { agree := false, holds := false, model := model,
                    why := "the exchange with the real reference server failed: " ++ i.err }
      | none =>
      if obs.length != times then { agree := false, holds := false, model := model, why := "observations missing" } else
      if obs.any (fun i => i.proto != a.version.num) then
        bad s!"real: the exchange did not use HTTP/{a.version.num}" else
      let (g, gwhy) := serveHolds batch [] reqs (obs.map obsOfReal)
      -- (an expectation header made malformed on purpose is no expectation: judged by agree and by
      -- the general statements only)
      -- a GET that does carry a body is not the request of a conformant client: whether that body
      -- is reported is left to agree (the model reports it); everything else must still be exact
      let exact := (!isNull pad && str (field pad "kind") == "expect") ||
        obs.all fun i => flagsExactly e a ((i.fb.map fbOfClass).filter (fun f => !notAnAspect f && !(getBody == 1 && f == .getBody)))
      let dev := mismatches e a
      { agree := agree, holds := g && exact, nontrivial := true, model := model,
        why := if !g then s!"{proc} over HTTP/{a.version.num}: " ++ gwhy else if !exact then
          s!"{proc} over HTTP/{a.version.num}: feedback {obs.map (·.fb)} does not name exactly the deviating aspects {reprStr dev}" else "",
        cls := s!"{proc}/http{a.version.num}/" ++ (if bool (field inp "traced") then "traced/" else "") ++ (if name == "" then "no-name" else if name.startsWith "Real/get-body" then s!"get-body-{getBody}" else if !isNull pad then "long-feedback" else if !name.startsWith "Real/" then "odd-name" else if !isNull timeout then "timeout"
          else if times > 1 then "repeat" else if nat (field inp "trailers") > 0 then "trailers"
          else if dev.isEmpty then "match" else "deviating") }
    | _, _ => bad "real: bad tuples"
  | "overlap" => handleOverlap inp impl
  | "realoverlap" => handleOverlap inp impl
  | "stream" => handleStream inp impl
  | "clientfb" => handleClientFb inp impl
  | "render" =>
    match aspects (field inp "e"), aspects (field inp "a") with
    | some e, some a =>
      let r := render e (str (field inp "name")) a (variant (field inp "v"))
      let i := reqOf impl
      { agree := r == i, holds := true, nontrivial := true, model := reqJson r }
    | _, _ => bad "render: bad tuples"
  | _ => bad ("C12: unknown op " ++ op)

end ConfModel.Driver.C12
