/-
Helper lemmas for `Props/C17.lean`.
-/
import ConfModel.Model.RawBody
import ConfModel.Spec.RawBody
namespace ConfModel.RawBody
open ConfModel.RawBodySpec

theorem writeMessage_eq (compress : Compress) (p : Option Contents) :
    writeMessage compress p = payloadOf compress p := by
  cases p with
  | none => rfl
  | some c => rfl

theorem be32val_be32 (n : Nat) (h : n < 4294967296) :
    be32val (UInt8.ofNat (n / 16777216 % 256)) (UInt8.ofNat (n / 65536 % 256)) (UInt8.ofNat (n / 256 % 256)) (UInt8.ofNat (n % 256)) = n := by
  simp only [be32val, UInt8.toNat_ofNat']
  omega

theorem toNat_ofNat_small (n : Nat) (h : n ≤ 255) : (UInt8.ofNat n).toNat = n := by
  simp only [UInt8.toNat_ofNat']
  omega

theorem writeStream_cons_ok (compress : Compress) (it : Item) (rest : List Item)
    (h : itemOk compress it = true) :
    writeStream compress (it :: rest) =
      ⟨itemBytes compress it ++ (writeStream compress rest).bytes, (writeStream compress rest).failed⟩ := by
  simp only [itemOk, Bool.and_eq_true, decide_eq_true_eq] at h
  obtain ⟨hf, hp⟩ := h
  have hf' : ¬ it.flags > 255 := by omega
  obtain ⟨p, hp'⟩ := Option.isSome_iff_exists.mp hp
  cases hl : it.length with
  | some n => simp [writeStream, hf', hl, writeMessage_eq, hp', itemBytes]
  | none => simp [writeStream, hf', hl, writeMessage_eq, hp', itemBytes]

theorem writeStream_all_ok (compress : Compress) (items : List Item)
    (h : items.all (itemOk compress) = true) :
    writeStream compress items = ⟨streamBytes compress items, false⟩ := by
  induction items with
  | nil => rfl
  | cons it rest ih =>
    simp only [List.all_cons, Bool.and_eq_true] at h
    rw [writeStream_cons_ok compress it rest h.1, ih h.2]
    simp [streamBytes]

theorem writeStream_cons_bad (compress : Compress) (it : Item) (rest : List Item)
    (h : itemOk compress it = false) : (writeStream compress (it :: rest)).failed = true := by
  simp only [itemOk, Bool.and_eq_false_iff, decide_eq_false_iff_not] at h
  by_cases hf : it.flags > 255
  · simp [writeStream, hf]
  · have hp : (payloadOf compress it.payload).isSome = false := by
      rcases h with h | h
      · omega
      · exact h
    have hn : payloadOf compress it.payload = none := by
      cases hx : payloadOf compress it.payload with
      | none => rfl
      | some v => rw [hx] at hp; cases hp
    cases hl : it.length <;> simp [writeStream, hf, hl, writeMessage_eq, hn]

theorem writeStream_failed_iff (compress : Compress) (items : List Item) :
    (writeStream compress items).failed = !(items.all (itemOk compress)) := by
  induction items with
  | nil => rfl
  | cons it rest ih =>
    cases h : itemOk compress it with
    | true => rw [writeStream_cons_ok compress it rest h]; simp [h, ih]
    | false => rw [writeStream_cons_bad compress it rest h]; simp [h]

theorem writeStream_prefix (compress : Compress) (items : List Item) :
    streamBytes compress (goodPrefix compress items) <+: (writeStream compress items).bytes := by
  induction items with
  | nil => simp [goodPrefix, streamBytes, writeStream]
  | cons it rest ih =>
    cases h : itemOk compress it with
    | true =>
      rw [writeStream_cons_ok compress it rest h]
      simp only [goodPrefix, List.takeWhile_cons, h, if_true, streamBytes, List.flatMap_cons]
      exact (List.prefix_append_right_inj _).mpr ih
    | false =>
      simp [goodPrefix, List.takeWhile_cons, h, streamBytes]

/-- decoding the encoding of well-formed items with honest lengths, with any fuel that
covers the number of items -/
theorem decodeF_stream (compress : Compress) (items : List Item) (f : Nat) (hf : items.length ≤ f)
    (hok : items.all (itemOk compress) = true) (hl : lengthsHonest compress items = true) :
    decodeStreamF f (streamBytes compress items) = some (framesOf compress items) := by
  induction items generalizing f with
  | nil => cases f <;> simp [streamBytes, decodeStreamF, framesOf]
  | cons it rest ih =>
    cases f with
    | zero => simp at hf
    | succ f =>
      simp only [List.all_cons, Bool.and_eq_true] at hok
      simp only [lengthsHonest, List.all_cons, Bool.and_eq_true, decide_eq_true_eq] at hl
      obtain ⟨⟨hlt, hlen⟩, hlrest⟩ := hl
      have hflags : it.flags ≤ 255 := by
        have := hok.1
        simp only [itemOk, Bool.and_eq_true, decide_eq_true_eq] at this
        exact this.1
      have hn : it.length.getD ((payloadOf compress it.payload).getD []).length = ((payloadOf compress it.payload).getD []).length := by
        cases hx : it.length with
        | none => rfl
        | some n => rw [hx] at hlen; simpa using hlen
      have ih' := ih f (by simpa using hf) hok.2 (by simpa [lengthsHonest] using hlrest)
      simp only [streamBytes, List.flatMap_cons] at ih' ⊢
      simp only [itemBytes, hn, be32, List.cons_append, List.nil_append, decodeStreamF]
      rw [be32val_be32 _ hlt]
      simp [ih', framesOf, hn, toNat_ofNat_small _ hflags]

theorem length_streamBytes (compress : Compress) (items : List Item) :
    items.length ≤ (streamBytes compress items).length := by
  induction items with
  | nil => simp
  | cons it rest ih =>
    simp only [streamBytes, List.flatMap_cons, List.length_append, List.length_cons] at ih ⊢
    simp only [itemBytes, be32, List.length_cons, List.length_append]
    omega

/-! ### arbitration -/

theorem run_started (s : St) (hs : s.started = true) (hr : s.raw = none) (ops : List Op) :
    (run s ops).1 = { started := true, raw := none, wire := s.wire ++ handlerEvents ops } ∧
    (run s ops).2 = ops.map (fun x => if isHandler x then Res.passed else Res.refused) := by
  induction ops generalizing s with
  | nil =>
    cases s; simp_all [run, handlerEvents]
  | cons o t ih =>
    cases s with
    | mk st rw wr =>
      simp only at hs hr
      subst hs; subst hr
      cases o with
      | write b =>
        have := ih { started := true, raw := none, wire := wr ++ [Ev.body b] } rfl rfl
        simp [run, step, emit, canSend, this, handlerEvents, evOf, isHandler]
      | writeHeader c =>
        have := ih { started := true, raw := none, wire := wr ++ [Ev.header c] } rfl rfl
        simp [run, step, emit, canSend, this, handlerEvents, evOf, isHandler]
      | flush =>
        have := ih { started := true, raw := none, wire := wr ++ [Ev.flush] } rfl rfl
        simp [run, step, emit, canSend, this, handlerEvents, evOf, isHandler]
      | setRaw r =>
        have := ih { started := true, raw := none, wire := wr } rfl rfl
        simp [run, step, this, handlerEvents, evOf, isHandler, List.filterMap_cons]

theorem run_raw (s : St) (hs : s.started = false) (r : Raw) (hr : s.raw = some r) (ops : List Op) :
    (run s ops).1 = { started := false, raw := some ((lastRaw ops).getD r), wire := s.wire } ∧
    (run s ops).2 = ops.map (fun x => if isHandler x then Res.swallowed else Res.accepted) := by
  induction ops generalizing s r with
  | nil =>
    cases s; simp_all [run, lastRaw]
  | cons o t ih =>
    cases s with
    | mk st rw wr =>
      simp only at hs hr
      subst hs; subst hr
      cases o with
      | write b =>
        have := ih { started := false, raw := some r, wire := wr } rfl r rfl
        simp [run, step, emit, canSend, this, lastRaw, evOf, isHandler]
      | writeHeader c =>
        have := ih { started := false, raw := some r, wire := wr } rfl r rfl
        simp [run, step, emit, canSend, this, lastRaw, evOf, isHandler]
      | flush =>
        have := ih { started := false, raw := some r, wire := wr } rfl r rfl
        simp [run, step, emit, canSend, this, lastRaw, evOf, isHandler]
      | setRaw r' =>
        have := ih { started := false, raw := some r', wire := wr } rfl r' rfl
        simp only [run, step, Bool.false_eq_true, if_false, this, lastRaw, evOf, isHandler]
        cases lastRaw t <;> simp

end ConfModel.RawBody
