package main

import (
	"bytes"
	"context"
	"encoding/json"
	"fmt"
	"io"
	"sort"
	"time"

	"connectrpc.com/conformance/internal"
	"connectrpc.com/conformance/internal/app/referenceclient"
	conformancev1 "connectrpc.com/conformance/internal/gen/proto/go/connectrpc/conformance/v1"
	"connectrpc.com/conformance/internal/verifharness/gen"
	"google.golang.org/protobuf/types/known/anypb"
)

// Op "peer": the framing as a peer really uses it. A sequence of n requests is written to the
// stdin of the real reference client (binary or -json wire variant) in reads of at most `chunk`
// bytes; the client must see all n requests — observed as one response per request name. (The
// requests point at a closed port, so each RPC fails at once; what is checked is the framing.)
func init() {
	gen.RegisterOp("c09", "peer", func(_ *gen.Ctx, raw json.RawMessage) any {
		return c09Peer(gen.Into[c09PeerIn](raw))
	})
}

type c09PeerIn struct {
	JSON  bool `json:"json"`
	N     int  `json:"n"`
	Chunk int  `json:"chunk"` // 0: unlimited
	Pad   int  `json:"pad"`   // bytes of request data per request
}

type c09ChunkReader struct {
	r     io.Reader
	chunk int
}

func (c *c09ChunkReader) Read(p []byte) (int, error) {
	if c.chunk > 0 && len(p) > c.chunk {
		p = p[:c.chunk]
	}
	return c.r.Read(p)
}
func (c *c09ChunkReader) Close() error { return nil }

type c09Sink struct{ bytes.Buffer }

func (s *c09Sink) Close() error { return nil }

func c09Peer(in c09PeerIn) map[string]any {
	codec := internal.NewCodec(in.JSON)
	var stdin bytes.Buffer
	enc := codec.NewEncoder(&stdin)
	var want []string
	for i := 0; i < in.N; i++ {
		msg, _ := anypb.New(&conformancev1.UnaryRequest{RequestData: bytes.Repeat([]byte{byte('a' + i%26)}, in.Pad)})
		name := fmt.Sprintf("req-%d", i)
		want = append(want, name)
		req := &conformancev1.ClientCompatRequest{
			TestName: name, HttpVersion: conformancev1.HTTPVersion_HTTP_VERSION_1, Protocol: conformancev1.Protocol_PROTOCOL_CONNECT,
			Codec: conformancev1.Codec_CODEC_PROTO, Compression: conformancev1.Compression_COMPRESSION_IDENTITY,
			Host: "127.0.0.1", Port: 1, StreamType: conformancev1.StreamType_STREAM_TYPE_UNARY,
			Service: strPtr("connectrpc.conformance.v1.ConformanceService"), Method: strPtr("Unary"),
			RequestMessages: []*anypb.Any{msg}, TimeoutMs: u32Ptr(2000),
		}
		if err := enc.Encode(req); err != nil {
			return map[string]any{"err": "encode: " + err.Error()}
		}
	}
	var out, errOut c09Sink
	args := []string{"referenceclient"}
	if in.JSON {
		args = append(args, "-json")
	}
	ctx, cancel := context.WithTimeout(context.Background(), 20*time.Second)
	defer cancel()
	runErr := referenceclient.Run(ctx, args, &c09ChunkReader{r: &stdin, chunk: in.Chunk}, &out, &errOut)
	dec := codec.NewDecoder(&out.Buffer)
	got := []string{}
	for {
		var resp conformancev1.ClientCompatResponse
		if err := dec.DecodeNext(&resp); err != nil {
			break
		}
		got = append(got, resp.TestName)
	}
	sort.Strings(got)
	sort.Strings(want)
	res := map[string]any{"got": got, "want": want}
	if runErr != nil {
		res["runErr"] = runErr.Error()
	}
	return res
}

func strPtr(s string) *string { return &s }
func u32Ptr(v uint32) *uint32 { return &v }

func c09PeerGen(c *gen.Ctx) {
	chunks := []int{0, 1, 3, 7, 64, 100, 4096}
	var ins []any
	for _, js := range []bool{false, true} {
		for _, ch := range chunks {
			ins = append(ins, c09PeerIn{JSON: js, N: 5, Chunk: ch, Pad: c.R.Intn(40)})
		}
	}
	if c.Thorough() {
		for i := 0; i < 60; i++ {
			ins = append(ins, c09PeerIn{JSON: c.R.Bool(), N: c.R.Range(1, 9), Chunk: c.R.Intn(300), Pad: c.R.Intn(3000)})
		}
	}
	c.DoParallel("peer", ins, 8)
}
