/-
C15 — HTTP/2 connection tracing is transparent and attributes frames to the right call.
Property theorems only; helper lemmas live in `ConfModel.Lemmas.H2*`.
-/
import ConfModel.Generated.C15Facts
import ConfModel.Lemmas.H2Frame
import ConfModel.Spec.H2
namespace ConfModel.Props.C15
open ConfModel.H2 ConfModel.H2.Machine

/-! ### facts regenerated from the tree -/

theorem preface_fact : ConfModel.Generated.C15Facts.clientPreface = clientPreface := by decide
theorem header_len_fact : ConfModel.Generated.C15Facts.frameHeaderLen = frameHeaderLen := by decide
/-- a refused attempt that is not retried is still delivered within the time a consumer waits -/
theorem retry_wait_lt_trace_timeout :
    ConfModel.Generated.C15Facts.retryWaitMs < ConfModel.Generated.C15Facts.traceTimeoutMs := by decide

/-! ### layer 1: frame reassembly -/

variable {σ : Type}

/-- **Chunk independence.**  For every decoder, every reachable tracer state and every way
of cutting a direction's bytes into `Read`/`Write` calls, the frames handed to `handleFrame`
and the final state (in particular whether and where the tracer gave up, `broken`) are those
of the single call on the concatenation. -/
theorem reassembly_chunk_independent (dec : Bytes → σ → Option (Frame × σ)) (s : FSt σ) (hs : FInv s)
    (chunks : List Bytes) :
    (frameMachine dec).runChunks s chunks = frameTrace dec s chunks.flatten :=
  runChunks_eq_run (frame_lawful dec) chunks s hs

/-- two-call form -/
theorem reassembly_split (dec : Bytes → σ → Option (Frame × σ)) (s : FSt σ) (hs : FInv s) (a b : Bytes) :
    frameTrace dec s (a ++ b) = comb (frameTrace dec s a) (fun s' => frameTrace dec s' b) :=
  run_append (frame_lawful dec) s a b hs

/-- the invariant holds initially and is kept by every call, so the two theorems above apply
to every state a connection's tracer can be in -/
theorem reassembly_inv_init (isReq : Bool) (hp : σ) : FInv (FSt.init isReq hp) := FInv_init isReq hp
theorem reassembly_inv_step (dec : Bytes → σ → Option (Frame × σ)) (s : FSt σ) (hs : FInv s) (d : Bytes) :
    FInv (frameTrace dec s d).1 :=
  inv_run' (frame_lawful dec) s d hs

/-- non-vacuity: a SETTINGS frame after the preface, cut in the middle of the preface and of
the frame header, is decoded once (decoder: every unit is `other`) -/
example :
    ((frameMachine (fun _ (n : Nat) => some (Frame.other, n + 1))).runChunks (FSt.init true 0)
      [clientPreface.take 10, clientPreface.drop 10 ++ [0, 0, 0, 4], [0, 0, 0, 0, 0]]).2 = [Frame.other] := by
  decide

/-! ### transparency -/

/-- `Read`/`Write`/`Close` hand the inner connection's result (count, error, bytes) to the
caller unchanged; every model step is a total function (no crash) on any byte string. -/
theorem transparent (inner : Nat × IOErr × Bytes) : Conn.result inner = inner := rfl

end ConfModel.Props.C15
