/-
Helper lemmas for `Props/C20.lean`.
-/
import ConfModel.Model.Compression
import ConfModel.Spec.Compression
namespace ConfModel.Compression

theorem readAll_ne_panic (rd : Rd) : (rd.readAll).1 ≠ .panic := by
  cases rd with
  | fresh r => cases r <;> simp [Rd.readAll]
  | drained => simp [Rd.readAll]
  | failed => simp [Rd.readAll]

theorem okIf_ne_panic (b : Bool) : okIf b ≠ .panic := by cases b <;> simp [okIf]

theorem step_safe (l : Lib) (s : St) (hs : safe s = true) (op : Op) :
    (step l s op).2 ≠ .panic ∧ safe (step l s op).1 = true := by
  cases s with
  | noop r =>
    cases r with
    | none => simp [safe] at hs
    | some rd => cases op <;> simp [step, safe, readOpt, readAll_ne_panic]
  | gzip f r =>
    cases r with
    | none => simp [safe] at hs
    | some rd =>
      have hf : f = true := by simpa [safe] using hs
      subst hf
      cases op <;> simp [step, safe, readOpt, readAll_ne_panic, Rd.reset, okIf_ne_panic]
  | brotli r =>
    cases r with
    | none => simp [safe] at hs
    | some rd => cases op <;> simp [step, safe, readOpt, readAll_ne_panic, Rd.reset, okIf_ne_panic]
  | snappy r =>
    cases r with
    | none => simp [safe] at hs
    | some rd => cases op <;> simp [step, safe, readOpt, readAll_ne_panic, Rd.reset]
  | zstd d =>
    cases op with
    | reset src => simp [step, safe, Rd.reset, okIf_ne_panic]
    | readAll => cases d <;> simp [step, safe, readAll_ne_panic]
    | close => simp [step, safe]
  | deflate r =>
    cases op with
    | reset src =>
      simp only [step, Rd.reset]
      by_cases h : (l.look src).resetOk = true <;> simp [h, safe]
    | readAll =>
      cases r with
      | none => simp [step, safe]
      | some o => cases o <;> simp [step, safe, readAll_ne_panic]
    | close =>
      cases r with
      | none => simp [step, safe]
      | some o => cases o <;> simp [step, safe, okIf_ne_panic]

theorem reset_valid_safe (l : Lib) (hl : l.Lawful) (s : St) (b : Bytes) :
    safe (step l s (.reset (l.enc b))).1 = true := by
  cases s <;> simp [step, safe, Rd.reset, hl b]

/-- `Reset` on a valid encoding succeeds and leaves a reader that yields the message. -/
theorem cycle_valid_aux (l : Lib) (hl : l.Lawful) (s : St) (b : Bytes) :
    (cycle l s (l.enc b)).2 = .data b := by
  cases s <;> simp [cycle, step, Rd.reset, hl b, okIf, readOpt, Rd.readAll]

theorem runH_valid (l : Lib) (hl : l.Lawful) (s : St) (h : List HStep) (i : Nat) (b : Bytes)
    (hi : h[i]? = some (.msg (l.enc b))) : (runH l s h).2[i]? = some (.data b) := by
  induction h generalizing s i with
  | nil => simp at hi
  | cons x t ih =>
    cases i with
    | zero =>
      simp only [List.getElem?_cons_zero, Option.some.injEq] at hi
      subst hi
      simp [runH, hstep, cycle_valid_aux l hl s b]
    | succ j =>
      simp only [List.getElem?_cons_succ] at hi
      simp only [runH, List.getElem?_cons_succ]
      exact ih _ j hi

theorem compressAll_sinks (l : Lib) (s : CState) (ms : List Bytes) (hp : s.pending = []) :
    (compressAll l s ms).done ++ (compressAll l s ms).dst.toList =
      s.done ++ s.dst.toList ++ ms.map l.enc := by
  induction ms generalizing s with
  | nil => simp [compressAll]
  | cons m t ih =>
    simp only [compressAll]
    rw [ih]
    · cases hd : s.dst <;> simp [cstep, hd]
    · simp [cstep]

theorem writeChunks_eq (l : Lib) (s : CState) (cs : List Bytes) :
    writeChunks l s cs = { s with pending := s.pending ++ cs.flatten } := by
  induction cs generalizing s with
  | nil => simp [writeChunks]
  | cons c t ih =>
    have : writeChunks l s (c :: t) = writeChunks l (cstep l s (.write c)) t := rfl
    rw [this, ih]
    simp [cstep, List.append_assoc]

theorem compressVia_eq_compressAll (l : Lib) (s : CState) (css : List (List Bytes)) :
    compressVia l s css = compressAll l s (css.map List.flatten) := by
  induction css generalizing s with
  | nil => rfl
  | cons cs t ih =>
    simp only [compressVia, compressAll, List.map_cons]
    rw [ih, writeChunks_eq]
    simp [cstep]

end ConfModel.Compression
