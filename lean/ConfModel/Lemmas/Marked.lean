/-
Helper lemmas for `ConfModel.Model.Marked` (C08): the known-failing / known-flaky flags stored in
the outcome map are, at every moment and for every name, the tries' verdicts on that name.
-/
import ConfModel.Model.Marked
import ConfModel.Lemmas.Report
namespace ConfModel.Marked
open ConfModel.Report ConfModel.Trie

/-- every stored outcome carries the marks of its own name -/
def Faithful (mk : Marks) (os : Outcomes) : Prop :=
  ∀ n o, (n, o) ∈ os → o.knownFailing = mk.failing n ∧ o.knownFlaky = mk.flaky n

theorem faithful_nil (mk : Marks) : Faithful mk [] := by
  intro n o h; cases h

theorem faithful_setOutcome (mk : Marks) (os : Outcomes) (n : String) (s : Bool) (f : Fail)
    (h : Faithful mk os) : Faithful mk (setOutcome mk os n s f) := by
  intro m o hm
  rcases mem_of_mem_put os n m _ o hm with ⟨rfl, rfl⟩ | hin
  · exact ⟨rfl, rfl⟩
  · exact h m o hin

theorem faithful_failedToStart (mk : Marks) (ns : List String) (f : Fail) :
    ∀ os, Faithful mk os → Faithful mk (failedToStart mk os ns f) := by
  induction ns with
  | nil => intro os h; exact h
  | cons n t ih =>
    intro os h
    simp only [failedToStart, List.foldl_cons]
    exact ih _ (faithful_setOutcome mk os n true f h)

theorem faithful_failRemaining (mk : Marks) (ns : List String) (f : Fail) :
    ∀ os, Faithful mk os → Faithful mk (failRemaining mk os ns f) := by
  induction ns with
  | nil => intro os h; exact h
  | cons n t ih =>
    intro os h
    simp only [failRemaining, List.foldl_cons]
    cases hg : get? os n with
    | some o => exact ih _ h
    | none => exact ih _ (faithful_setOutcome mk os n true f h)

theorem faithful_mergeOne (mk : Marks) (os : Outcomes) (n : String) (h : Faithful mk os) :
    Faithful mk (mergeOne mk os n) := by
  unfold mergeOne
  cases hg : get? os n with
  | none => exact faithful_setOutcome mk os n false .feedback h
  | some o =>
    intro m o' hm
    have ho := h n o (get?_some_mem os n o hg)
    rcases mem_of_mem_put os n m _ o' hm with ⟨rfl, rfl⟩ | hin
    · exact ho
    · exact h m o' hin

theorem faithful_processSideband (mk : Marks) (sb : Sideband) :
    ∀ os, Faithful mk os → Faithful mk (processSideband mk os sb) := by
  induction sb with
  | nil => intro os h; exact h
  | cons e t ih =>
    intro os h
    simp only [processSideband, List.foldl_cons]
    exact ih _ (faithful_mergeOne mk os e.1 h)

theorem faithful_step (mk : Marks) (st : Outcomes × Sideband) (op : Op) (h : Faithful mk st.1) :
    Faithful mk (step mk st op).1 := by
  cases op with
  | outcome n s f => exact faithful_setOutcome mk st.1 n s f h
  | start ns => exact faithful_failedToStart mk ns .other st.1 h
  | remaining ns => exact faithful_failRemaining mk ns .other st.1 h
  | sideband n msg => exact h

theorem faithful_foldl (mk : Marks) (ops : List Op) :
    ∀ st : Outcomes × Sideband, Faithful mk st.1 → Faithful mk (ops.foldl (step mk) st).1 := by
  induction ops with
  | nil => intro st h; exact h
  | cons op t ih =>
    intro st h
    simp only [List.foldl_cons]
    exact ih _ (faithful_step mk st op h)

theorem faithful_runOps (mk : Marks) (ops : List Op) : Faithful mk (runOps mk ops).1 :=
  faithful_foldl mk ops ([], []) (faithful_nil mk)

theorem faithful_final (failing flaky : Node) (ops : List Op) :
    Faithful (marks failing flaky) (finalOutcomes failing flaky ops) :=
  faithful_processSideband _ _ _ (faithful_runOps _ ops)

/-- the class `report` puts an outcome in, spelled out -/
theorem classify_info_iff (o : Outcome) :
    isInfoClass (classify o) = true ↔
      o.setupError = false ∧ o.failure ≠ .none ∧ o.failure ≠ .couldNotRun ∧
        (o.knownFailing = true ∨ o.knownFlaky = true) := by
  obtain ⟨f, s, a, b⟩ := o
  cases f <;> cases s <;> cases a <;> cases b <;> decide

theorem classify_failed_iff (o : Outcome) :
    isFailedClass (classify o) = true ↔
      o.failure ≠ .couldNotRun ∧
        ((o.failure ≠ .none ∧ (o.setupError = true ∨ (o.knownFailing = false ∧ o.knownFlaky = false))) ∨
         (o.failure = .none ∧ o.setupError = false ∧ o.knownFailing = true)) := by
  obtain ⟨f, s, a, b⟩ := o
  cases f <;> cases s <;> cases a <;> cases b <;> decide

end ConfModel.Marked
