/-
C02 — Derived expectations agree with the reference peers on any well-formed test case.

`expected` is the model of the runner's generator, `actual` the model of the reference peers'
handlers composed with the clients' observers, over a transport `Wire`.  The theorem is relative
to `WireLaw`: what the protocol stacks (connect-go, grpc-go, net/http — outside any model) are
assumed to do to metadata; the end-to-end half of the correspondence checks that on every run.
-/
import ConfModel.Lemmas.Echo
namespace ConfModel.Props.C02
open ConfModel.Echo

/-- What the transport is assumed to preserve for this test case: every request header the
test sets reaches the server (`seen`), every response header / trailer the definition sets
reaches the client — each possibly under another letter case, joined with commas, or among
extra entries (`subsumed`), and on a unary / client-stream error possibly as one bag. -/
def WireLaw (tc : TC) (w : Wire) : Bool :=
  subsumed tc.reqHdrs w.seen &&
  (match tc.udef with
   | some d => subsumed d.hdrs (w.hdrs d.hdrs) && subsumed d.trls (w.trls d.trls) &&
               subsumed (mergeHeaders d.hdrs d.trls) (w.merged d.hdrs d.trls)
   | none => true) &&
  (match tc.sdef with
   | some d => subsumed d.hdrs (w.hdrs d.hdrs) && subsumed d.trls (w.trls d.trls)
   | none => true)

/-- error details given in a definition are arbitrary registered messages other than
`RequestInfo` (a `RequestInfo` detail is what the peers append themselves) -/
def DetailsOpaque (tc : TC) : Bool :=
  (match tc.udef with
   | some d => (match d.resp with | .error e => opaqueOnly e.details | _ => true)
   | none => true) &&
  (match tc.sdef with
   | some d => (match d.err with | some e => opaqueOnly e.details | none => true)
   | none => true)

/-- unary and client-stream: any number of requests (client stream: including none), data or
error or nothing, whichever way error metadata is delivered -/
theorem unary_agrees (tc : TC) (w : Wire) (m : Bool) (hst : tc.st = .unary ∨ tc.st = .clientStream)
    (hw : WireLaw tc w = true) (hd : DetailsOpaque tc = true) :
    agree tc.st (expected tc) (actual tc w m) = true := by
  have hexp : expected tc = expectedUnary tc := by rcases hst with h | h <;> simp [expected, h]
  have hact : actual tc w m = actualUnary tc w m := by rcases hst with h | h <;> simp [actual, h]
  have hstb : (tc.st == ST.unary || tc.st == ST.clientStream) = true := by rcases hst with h | h <;> simp [h]
  rw [hexp, hact]
  simp only [WireLaw, Bool.and_eq_true] at hw
  obtain ⟨⟨hseen, hu⟩, _⟩ := hw
  cases hdef : (if tc.reqs.isEmpty then none else tc.udef) with
  | none =>
    simp only [expectedUnary, actualUnary, hdef]
    simp [agree, errAgree, payloadsAgreeFrom, infoAgree, hseen, subsumed_nil]
  | some d =>
    have hud : tc.udef = some d := by
      by_cases he : tc.reqs.isEmpty = true <;> simp [he] at hdef; exact hdef
    simp only [hud, Bool.and_eq_true] at hu
    obtain ⟨⟨hh, ht⟩, hm⟩ := hu
    cases hr : d.resp with
    | none =>
      simp only [expectedUnary, actualUnary, hdef, hr]
      simp [agree, errAgree, payloadsAgreeFrom, infoAgree, hseen, hh, ht]
    | data b =>
      simp only [expectedUnary, actualUnary, hdef, hr]
      simp [agree, errAgree, payloadsAgreeFrom, infoAgree, hseen, hh, ht]
    | error e =>
      have hop : opaqueOnly e.details = true := by
        simp only [DetailsOpaque, hud, hr, Bool.and_eq_true] at hd; exact hd.1
      have he := errAgree_addInfo e hop tc.reqHdrs w.seen tc.reqs hseen
      simp only [expectedUnary, actualUnary, hdef, hr]
      cases m
      · simp [agree, he, payloadsAgreeFrom, hstb, hh, ht]
      · simp [agree, he, payloadsAgreeFrom, hstb, hm]

/-- server stream, half-duplex and full-duplex bidi: any number `N` of requests and `M` of
responses in any order relation (`M < N`, `M = N`, `M > N`), with or without a final error -/
theorem stream_agrees (tc : TC) (w : Wire) (m : Bool)
    (hst : tc.st = .serverStream ∨ tc.st = .halfDuplex ∨ tc.st = .fullDuplex)
    (hwf : WellFormed tc = true) (hw : WireLaw tc w = true) (hd : DetailsOpaque tc = true)
    (hf : isF07 tc = false) :
    agree tc.st (expected tc) (actual tc w m) = true := by
  have hexp : expected tc = expectedStream tc := by rcases hst with h | h | h <;> simp [expected, h]
  have hact : actual tc w m = actualStream tc w := by rcases hst with h | h | h <;> simp [actual, h]
  have hstb : (tc.st == ST.unary || tc.st == ST.clientStream) = false := by rcases hst with h | h | h <;> simp [h]
  rw [hexp, hact]
  simp only [WireLaw, Bool.and_eq_true] at hw
  obtain ⟨⟨hseen, _⟩, hs⟩ := hw
  have hfd : tc.fdFlag = (tc.st == .fullDuplex) := by
    simp only [WellFormed, Bool.and_eq_true, beq_iff_eq] at hwf; exact hwf.2
  unfold expectedStream actualStream
  cases hdef : (if tc.reqs.isEmpty then none else tc.sdef) with
  | none => simp [agree, errAgree, payloadsAgreeFrom, subsumed_nil]
  | some d =>
    have hsd : tc.sdef = some d := by
      by_cases he : tc.reqs.isEmpty = true <;> simp [he] at hdef; exact hdef
    simp only [hsd, Bool.and_eq_true] at hs
    obtain ⟨hh, ht⟩ := hs
    have hop : ∀ x, d.err = some x → opaqueOnly x.details = true := by
      intro x hx
      simp only [DetailsOpaque, hsd, hx, Bool.and_eq_true] at hd; exact hd.2
    by_cases hfull : tc.st = .fullDuplex
    · -- full duplex
      have hflag : tc.fdFlag = true := by rw [hfd]; simp [hfull]
      have hp := payloads_pingPong tc hfull w.seen hseen d.data 0 tc.reqs (by simp)
      simp only [hflag, if_true, hfull]
      have herr : errAgree
          (if d.data.isEmpty then d.err.map (·.addDetail (.info ⟨tc.reqHdrs, tc.reqs⟩)) else d.err)
          (if d.data.isEmpty then d.err.map (·.addDetail (.info ⟨w.seen, tc.reqs.take 1⟩)) else d.err) = true := by
        by_cases hde : d.data.isEmpty = true
        · simp only [hde, if_true]
          cases hx : d.err with
          | none => rfl
          | some x =>
            -- outside the F07 shape there is at most one request, so `take 1` is everything
            have hlen : tc.reqs.length < 2 := by
              simp only [isF07, hfull, hsd, hde, hx, beq_self_eq_true, Bool.true_and, Option.isSome_some,
                Bool.and_true, decide_eq_false_iff_not] at hf
              omega
            have htake : tc.reqs.take 1 = tc.reqs := List.take_of_length_le (by omega)
            rw [htake]
            exact errAgree_addInfo x (hop x hx) _ _ _ hseen
        · simp only [hde]; exact errAgree_refl _ hop
      simp only [agree, herr, hp, Bool.true_and]
      simp [hh, ht]
    · -- server stream / half duplex
      have hflag : tc.fdFlag = false := by rw [hfd]; simp [hfull]
      have hp := payloads_flush tc hfull w.seen hseen d.data 0
      simp only [hflag, Bool.false_eq_true, if_false, hfull]
      have herr : errAgree
          (if d.data.isEmpty then d.err.map (·.addDetail (.info ⟨tc.reqHdrs, tc.reqs⟩)) else d.err)
          (if d.data.isEmpty then d.err.map (·.addDetail (.info ⟨w.seen, tc.reqs⟩)) else d.err) = true := by
        by_cases hde : d.data.isEmpty = true
        · simp only [hde, if_true]
          cases hx : d.err with
          | none => rfl
          | some x => exact errAgree_addInfo x (hop x hx) _ _ _ hseen
        · simp only [hde]; exact errAgree_refl _ hop
      simp only [agree, herr, hp, Bool.true_and]
      have : (tc.st == ST.unary || tc.st == ST.clientStream) = false := hstb
      simp [hh, ht, this]

/-- Headline.  FULL STATEMENT (what C02 asks): for every well-formed test case of the fragment and
every transport obeying `WireLaw`, `agree tc.st (expected tc) (actual tc w m) = true`.  It is FALSE
of the code as it stands (`f07_witness` below): for a full-duplex stream with no responses, an
error and two or more requests the generator lists every request in the error's request info
while both reference servers have read exactly one (known finding F07; the repository's own unit
test pins the generator's behaviour, so it is recorded, not repaired).  Proved: the statement for
every case outside that shape (`isF07 tc = false`). -/
theorem expected_agrees_partial (tc : TC) (w : Wire) (m : Bool)
    (hwf : WellFormed tc = true) (hw : WireLaw tc w = true) (hd : DetailsOpaque tc = true)
    (hf : isF07 tc = false) :
    agree tc.st (expected tc) (actual tc w m) = true := by
  cases hst : tc.st with
  | unary => rw [← hst]; exact unary_agrees tc w m (Or.inl hst) hw hd
  | clientStream => rw [← hst]; exact unary_agrees tc w m (Or.inr hst) hw hd
  | serverStream => rw [← hst]; exact stream_agrees tc w m (Or.inl hst) hwf hw hd hf
  | halfDuplex => rw [← hst]; exact stream_agrees tc w m (Or.inr (Or.inl hst)) hwf hw hd hf
  | fullDuplex => rw [← hst]; exact stream_agrees tc w m (Or.inr (Or.inr hst)) hwf hw hd hf

/-- The number of expected payloads is the number of responses defined — the derivation never
drops or invents a response, whatever the number of requests (the unrepaired generator indexed
the request list out of range here, F06). -/
theorem expected_payload_count (tc : TC) (d : StreamDef) (idx : Nat) :
    (expectedStreamPayloads tc idx d.data).length = d.data.length := by
  generalize d.data = l
  induction l generalizing idx with
  | nil => rfl
  | cons b bs ih => simp [expectedStreamPayloads, ih]

/-- the identity transport obeys `WireLaw` whenever header names are distinct up to case in each
list (so the law is satisfiable: non-vacuity of `expected_agrees`) -/
def idWire (tc : TC) : Wire := ⟨tc.reqHdrs, id, id, fun h t => mergeHeaders h t⟩

/-! Non-vacuity: concrete well-formed cases meeting every hypothesis. -/
private def ex1 : TC :=
  { st := .fullDuplex, reqHdrs := [⟨"X-A", ["1", "2"]⟩], reqs := [7, 8], fdFlag := true, udef := none,
    sdef := some ⟨[⟨"x-h", ["v"]⟩], [⟨"x-t", ["w"]⟩], ["aa", "bb", "cc"], some ⟨13, some "boom", [.other 3]⟩⟩ }
example : WellFormed ex1 = true ∧ WireLaw ex1 (idWire ex1) = true ∧ DetailsOpaque ex1 = true ∧ isF07 ex1 = false := by decide
example : (expected ex1).payloads = [⟨"aa", some ⟨[⟨"X-A", ["1", "2"]⟩], [7]⟩⟩, ⟨"bb", some ⟨[], [8]⟩⟩, ⟨"cc", none⟩] := by decide
def ex2 : TC :=
  { st := .fullDuplex, reqHdrs := [], reqs := [1, 2, 3], fdFlag := true, udef := none,
    sdef := some ⟨[], [], [], some ⟨5, none, []⟩⟩ }
/-- F07: a well-formed case obeying every hypothesis of the headline on which expectation and
peers disagree (the negation of the full statement, on a concrete witness). -/
theorem f07_witness :
    WellFormed ex2 = true ∧ WireLaw ex2 (idWire ex2) = true ∧ DetailsOpaque ex2 = true ∧ isF07 ex2 = true ∧
    agree ex2.st (expected ex2) (actual ex2 (idWire ex2) false) = false := by decide
private def ex3 : TC :=
  { st := .unary, reqHdrs := [⟨"k", ["a, b"]⟩], reqs := [1], fdFlag := false, sdef := none,
    udef := some ⟨[⟨"H", ["1"]⟩], [⟨"T", ["2"]⟩], .error ⟨3, some "m", []⟩⟩ }
example : WellFormed ex3 = true ∧ WireLaw ex3 (idWire ex3) = true ∧ agree .unary (expected ex3) (actual ex3 (idWire ex3) true) = true := by decide

end ConfModel.Props.C02
