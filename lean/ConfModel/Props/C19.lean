/-
C19 — Size-limit requests are padded to exactly limit+delta (or rejected with an error).
Property theorems only; helper lemmas live in `ConfModel.Lemmas.Expand`.

`R` = serialized size of the request without `request_data`, `L₀` = current length of
`request_data`, `limit` = `serverReceiveLimit`, `off` = `size_relative_to_limit`.  All
statements are for every `R`, `L₀`, `limit` and every offset (no bounds).
The model is that of the code *after* the `fix:` commit for finding F05; `expandOld` is the
loop as it was before.
-/
import ConfModel.Lemmas.Expand
namespace ConfModel.Props.C19
open ConfModel.Expand ConfModel.Padding

/-- **Exactness**: when a directive is accepted the request has exactly `limit + off` bytes.
(The model's only output is the new padding length: nothing else changes.) -/
theorem expand_exact (limit R L₀ : Nat) (off : Int) (L : Nat)
    (h : expand limit R L₀ off = .ok L) : (size R L : Int) = (limit : Int) + off := by
  unfold expand at h
  simp only at h
  split at h
  · cases h
  · rename_i hr
    have := adjust_exact R _ 3 0 L₀ L h
    omega

example : expand 204800 30 0 0 = .ok 204766 ∧ size 30 204766 = 204800 := by decide

/-- **Totality**: every directive ends in `ok` or in one of the three errors; the re-slice on a
negative delta is either within bounds or refused - there is no panic. -/
theorem expand_total (limit R L₀ : Nat) (off : Int) : expand limit R L₀ off ≠ .panic := by
  unfold expand
  simp only
  split
  · simp
  · exact adjust_ne_panic R _ 3 0 L₀

/-- the unrepaired loop agrees with the repaired one except that it panics where the
repaired one returns the error -/
theorem expandOld_eq (limit R L₀ : Nat) (off : Int) :
    expandOld limit R L₀ off =
      match expand limit R L₀ off with
      | .negLen => .panic
      | o => o := by
  unfold expandOld expand expandTo
  simp only
  split
  · rfl
  · exact adjustOld_eq R _ 3 0 L₀

/-- F05 witness: a target below the unpadded size made the unrepaired code panic
(`slice bounds out of range [:-20]`); so did the unreachable size `R + 1`. -/
theorem f05_witness :
    expandOld 204800 30 0 (-204790) = .panic ∧ expand 204800 30 0 (-204790) = .negLen ∧
    expandOld 204800 30 0 (-204769) = .panic ∧ expand 204800 30 0 (-204769) = .negLen := by
  decide

/-- **Unreachable sizes are rejected**: if no padding length gives `limit + off` bytes, the
directive is not accepted. -/
theorem unreachable_is_error (limit R L₀ : Nat) (off : Int)
    (h : ∀ L, (size R L : Int) ≠ (limit : Int) + off) : (expand limit R L₀ off).isOk = false := by
  cases hx : expand limit R L₀ off with
  | ok L => exact absurd (expand_exact limit R L₀ off L hx) (h L)
  | _ => rfl

example : ∀ L, (size 30 L : Int) ≠ (204800 : Int) + (-204769) := by
  intro L; unfold size fieldSize
  have := varintLen_pos L
  split <;> omega

/-- which sizes are reachable at all: closed form = existence of a padding length -/
theorem reachable_iff (R T : Nat) : reachable R T = true ↔ ∃ L, size R L = T := by
  unfold reachable
  constructor
  · intro h
    simp only [Bool.or_eq_true, beq_iff_eq, List.any_eq_true, List.mem_range, Bool.and_eq_true,
      decide_eq_true_eq] at h
    rcases h with h | ⟨k, _, _, h⟩
    · exact ⟨0, by simp [size, fieldSize, h]⟩
    · exact ⟨_, h⟩
  · rintro ⟨L, h⟩
    by_cases hL : L = 0
    · subst hL; simp [size, fieldSize] at h; simp [h]
    · have hp := varintLen_pos L
      have hl := varintLen_le L
      have hs : size R L = R + (1 + varintLen L + L) := by
        unfold size; rw [fieldSize_pos L (by omega)]
      simp only [Bool.or_eq_true, beq_iff_eq, List.any_eq_true, List.mem_range, Bool.and_eq_true,
        decide_eq_true_eq]
      refine Or.inr ⟨varintLen L - 1, by omega, by omega, ?_⟩
      have : T - R - 2 - (varintLen L - 1) = L := by omega
      rw [this]; exact h

/-- The unreachable sizes are: anything below `R`, the gaps `R+1`, `R+2`, and one value at
each varint boundary of the padding length (`R+130`, `R+16387`, `R+2097156`, `R+268435461`
below 2^32). -/
theorem reachable_closed_form (R x : Nat) (hx : x < 4294967296) :
    reachable R (R + x) = true ↔
      (x = 0 ∨ (3 ≤ x ∧ x ≠ 130 ∧ x ≠ 16387 ∧ x ≠ 2097156 ∧ x ≠ 268435461)) := by
  rw [reachable_iff]
  constructor
  · rintro ⟨L, h⟩
    by_cases hL : L = 0
    · subst hL; simp [size, fieldSize] at h; omega
    · have hs : size R L = R + (1 + varintLen L + L) := by
        unfold size; rw [fieldSize_pos L (by omega)]
      rw [hs] at h
      right
      unfold varintLen at h
      repeat' split at h
      all_goals omega
  · rintro (h | h)
    · exact ⟨0, by simp [size, fieldSize, h]⟩
    · -- the witness: x minus the overhead of its width class
      have key : ∀ L w, 0 < L → varintLen L = w → 1 + w + L = x → ∃ L, size R L = R + x := by
        intro L w hL hw he
        exact ⟨L, by unfold size; rw [fieldSize_pos L hL, hw]; omega⟩
      by_cases h1 : x ≤ 129
      · exact key (x - 2) 1 (by omega) (by unfold varintLen; rw [if_pos (by omega)]) (by omega)
      · by_cases h2 : x ≤ 16386
        · exact key (x - 3) 2 (by omega)
            (by unfold varintLen; rw [if_neg (by omega), if_pos (by omega)]) (by omega)
        · by_cases h3 : x ≤ 2097155
          · exact key (x - 4) 3 (by omega)
              (by unfold varintLen; rw [if_neg (by omega), if_neg (by omega), if_pos (by omega)]) (by omega)
          · by_cases h4 : x ≤ 268435460
            · exact key (x - 5) 4 (by omega)
                (by unfold varintLen; rw [if_neg (by omega), if_neg (by omega), if_neg (by omega),
                  if_pos (by omega)]) (by omega)
            · exact key (x - 6) 5 (by omega)
                (by unfold varintLen; rw [if_neg (by omega), if_neg (by omega), if_neg (by omega),
                  if_neg (by omega), if_pos (by omega)]) (by omega)

theorem below_unpadded_is_error (limit R L₀ : Nat) (off : Int) (h : (limit : Int) + off < R) :
    (expand limit R L₀ off).isOk = false := by
  apply unreachable_is_error
  intro L
  have := size_ge R L
  omega

/-- **One adjustment suffices inside a width class**: when the data already has the varint
width of the padding needed, the first adjustment lands exactly. -/
theorem expand_same_width (R L₀ L : Nat) (h0 : 0 < L₀) (hL : 0 < L)
    (hw : varintLen L = varintLen L₀) : expandTo R L₀ (size R L) = .ok L := by
  have s0 : size R L₀ = R + (1 + varintLen L₀ + L₀) := by
    unfold size; rw [fieldSize_pos L₀ h0]
  have s1 : size R L = R + (1 + varintLen L₀ + L) := by
    unfold size; rw [fieldSize_pos L hL, hw]
  unfold expandTo
  rw [adjust_succ]
  by_cases he : L = L₀
  · subst he; simp
  · rw [if_neg (by omega), if_neg (by omega)]
    by_cases hgt : (size R L : Int) - (size R L₀ : Int) > 0
    · rw [if_pos hgt]
      have : L₀ + ((size R L : Int) - (size R L₀ : Int)).toNat = L := by omega
      rw [this, adjust_succ]; simp
    · rw [if_neg hgt, if_neg (by omega)]
      have : ((L₀ : Int) + ((size R L : Int) - (size R L₀ : Int))).toNat = L := by omega
      rw [this, adjust_succ]; simp

example : expandTo 30 200 (size 30 204766) = .ok 204766 := by decide

/-- **Closed form from an empty data field** (the shape of all shipped size suites):
padding a request of `R` bytes to `R + x`, `x ≥ 3`, grows the field to `x`, shrinks it by the
overhead `1 + w(x)`, and succeeds iff that did not change the varint width - otherwise the
"can't pad" error is returned even where the size is reachable (finding F20, observation
only: e.g. `x = 16386`). -/
theorem expand_from_empty (R x : Nat) (hx : 3 ≤ x) :
    expandTo R 0 (R + x) =
      if varintLen (x - 1 - varintLen x) = varintLen x then .ok (x - 1 - varintLen x)
      else .cantPad (size R (x - 1 - varintLen x)) := by
  have hv := varintLen_pos x
  have hv10 : varintLen x ≤ 10 := varintLen_le x
  have hvx : 1 + varintLen x ≤ x - 1 := by
    unfold varintLen at *; repeat' split
    all_goals omega
  have s0 : size R 0 = R := by simp [size, fieldSize]
  have s1 : size R x = R + (1 + varintLen x + x) := by
    unfold size; rw [fieldSize_pos x (by omega)]
  have hL2 : 0 < x - 1 - varintLen x := by omega
  have s2 : size R (x - 1 - varintLen x) =
      R + (1 + varintLen (x - 1 - varintLen x) + (x - 1 - varintLen x)) := by
    unfold size; rw [fieldSize_pos _ hL2]
  unfold expandTo
  rw [adjust_succ, s0, if_neg (by omega), if_neg (by omega), if_pos (by omega)]
  have e1 : 0 + ((↑(R + x) : Int) - (R : Int)).toNat = x := by omega
  rw [e1, adjust_succ, s1, if_neg (by omega), if_neg (by omega), if_neg (by omega), if_neg (by omega)]
  have e2 : ((x : Int) + ((↑(R + x) : Int) - (↑(R + (1 + varintLen x + x)) : Int))).toNat
      = x - 1 - varintLen x := by omega
  rw [e2, adjust_succ, s2]
  by_cases hw : varintLen (x - 1 - varintLen x) = varintLen x
  · rw [if_pos hw, if_pos (by omega)]
  · rw [if_neg hw, if_neg (by omega), if_pos (by omega)]

/-- F20 witness (observation): `R + 16386` is reachable but rejected from an empty field. -/
theorem f20_witness :
    reachable 30 (30 + 16386) = true ∧ expandTo 30 0 (30 + 16386) = .cantPad (30 + 16385) := by
  decide

/-- the two gap sizes just above `R`: `R+1` is refused (`negLen`), `R+2` ends in "can't pad" -/
theorem expand_gap (R : Nat) :
    expandTo R 0 (R + 1) = .negLen ∧ expandTo R 0 (R + 2) = .cantPad R := by
  have s0 : size R 0 = R := by simp [size, fieldSize]
  have s1 : size R 1 = R + 3 := by simp [size, fieldSize, varintLen]
  have s2 : size R 2 = R + 4 := by simp [size, fieldSize, varintLen]
  constructor
  · unfold expandTo
    rw [adjust_succ, s0, if_neg (by omega), if_neg (by omega), if_pos (by omega)]
    have : 0 + ((↑(R + 1) : Int) - (R : Int)).toNat = 1 := by omega
    rw [this, adjust_succ, s1, if_neg (by omega), if_neg (by omega), if_neg (by omega), if_pos (by omega)]
  · unfold expandTo
    rw [adjust_succ, s0, if_neg (by omega), if_neg (by omega), if_pos (by omega)]
    have : 0 + ((↑(R + 2) : Int) - (R : Int)).toNat = 2 := by omega
    rw [this, adjust_succ, s2, if_neg (by omega), if_neg (by omega), if_neg (by omega), if_neg (by omega)]
    have : ((2 : Nat) + ((↑(R + 2) : Int) - (↑(R + 4) : Int))).toNat = 0 := by omega
    rw [this, adjust_succ, s0, if_neg (by omega), if_pos (by omega)]

/-- The limit of the second sentence of the property is sharp *as specified*: `limit` bytes
pass, `limit + 1` do not.  (That the reference server and client behave like `accepts` is
connect-go's `WithReadMaxBytes`; it is observed end to end by the `sharp` operation of the
correspondence run - implementation half only, no model of connect-go.) -/
theorem accepts_sharp (limit : Nat) : accepts limit limit = true ∧ accepts limit (limit + 1) = false := by
  simp [accepts]

/-- the predicate the check evaluates on every end-to-end call (`sharp`), at the boundary:
a message of exactly the limit may only be observed as accepted and delivered intact, one
byte more only as resource-exhausted — whatever else is observed -/
theorem holdsSharp_boundary (limit : Nat) (ok exhausted : Bool) (want got echo : Nat) :
    (holdsSharp limit limit ok exhausted want got echo = true ↔
      (ok = true ∧ got = want ∧ echo = limit)) ∧
    (holdsSharp limit (limit + 1) ok exhausted want got echo = true ↔
      (exhausted = true ∧ ok = false)) := by
  constructor
  · simp [holdsSharp, accepts, and_assoc]
  · have h : ¬ (limit + 1 ≤ limit) := by omega
    simp [holdsSharp, accepts, h]

/-! ## the limit a server process is configured with is the limit the padding is relative to -/

/-- **The configured limit is the padding limit**: for every server instance (protocol, HTTP
version, TLS, reference server or not), a request whose directive with offset `off` was
accepted is beyond the limit the runner configures the server process with exactly when
`off > 0`. -/
theorem configured_limit_is_padding_limit (limit R L₀ : Nat) (off : Int) (L : Nat) (inst : Instance)
    (h : expand limit R L₀ off = .ok L) :
    holdsConfigured (limitSent limit inst) (size R L) off = true := by
  have hx := expand_exact limit R L₀ off L h
  unfold holdsConfigured accepts limitSent
  by_cases hd : off ≤ 0
  · have : size R L ≤ limit := by omega
    simp [hd, this]
  · have : ¬ size R L ≤ limit := by omega
    simp [hd, this]

example : expand 204800 30 0 1 = .ok 204767 ∧
    holdsConfigured (limitSent 204800 ⟨2, 2, false, false, true⟩) (size 30 204767) 1 = true := by decide

/-- … and what the end-to-end runs (`sharp`) may then observe for such a request against a
server configured by the runner: accepted and delivered intact for `off ≤ 0`, only
resource-exhausted for `off > 0` -/
theorem sharp_after_expand (limit R L₀ : Nat) (off : Int) (L : Nat) (inst : Instance)
    (ok exhausted : Bool) (want got echo : Nat) (h : expand limit R L₀ off = .ok L) :
    holdsSharp (limitSent limit inst) (size R L) ok exhausted want got echo = true ↔
      if off ≤ 0 then (ok = true ∧ got = want ∧ echo = size R L) else (exhausted = true ∧ ok = false) := by
  have hx := expand_exact limit R L₀ off L h
  unfold holdsSharp accepts limitSent
  by_cases hd : off ≤ 0
  · have : size R L ≤ limit := by omega
    simp [hd, this, and_assoc]
  · have : ¬ size R L ≤ limit := by omega
    simp [hd, this]

example : expand 204800 30 0 5 = .ok 204771 ∧
    holdsSharp (limitSent 204800 ⟨2, 2, false, false, true⟩) (size 30 204771) true false 1 1 204805 = false := by decide

/-- **Sharpness w.r.t. the padding pins the configured limit down**: the requests padded to
`limit + d` are beyond the configured limit `cfg` exactly for `d > 0`, for every offset, iff
`cfg` IS the padding limit. -/
theorem configured_sharp_iff (cfg limit : Nat) :
    (∀ d : Int, 0 ≤ (limit : Int) + d → holdsConfigured cfg ((limit : Int) + d).toNat d = true) ↔
      cfg = limit := by
  constructor
  · intro h
    have h0 := h 0 (by omega)
    have h1 := h 1 (by omega)
    have e0 : ((limit : Int) + 0).toNat = limit := by omega
    have e1 : ((limit : Int) + 1).toNat = limit + 1 := by omega
    rw [e0] at h0; rw [e1] at h1
    simp [holdsConfigured, accepts] at h0 h1
    omega
  · rintro rfl d hd
    unfold holdsConfigured accepts
    by_cases hd0 : d ≤ 0
    · have : ((cfg : Int) + d).toNat ≤ cfg := by omega
      simp [hd0, this]
    · have : ¬ ((cfg : Int) + d).toNat ≤ cfg := by omega
      simp [hd0, this]

/-- witness: a configured limit with "room for the 5-byte envelope prefix" is not sharp — the
requests padded to `limit + 1 … limit + 5` pass — while every other offset (in particular `0`
and `+10`, the only ones in the shipped suites) behaves as with the right limit -/
theorem prefix_room_breaks_sharpness (limit : Nat) (d : Int) (hd : 0 ≤ (limit : Int) + d) :
    holdsConfigured (limit + 5) ((limit : Int) + d).toNat d = decide (d ≤ 0 ∨ 6 ≤ d) := by
  unfold holdsConfigured accepts
  by_cases h0 : d ≤ 0
  · have : ((limit : Int) + d).toNat ≤ limit + 5 := by omega
    simp [h0, this]
  · by_cases h6 : 6 ≤ d
    · have : ¬ ((limit : Int) + d).toNat ≤ limit + 5 := by omega
      simp [h0, h6, this]
    · have : ((limit : Int) + d).toNat ≤ limit + 5 := by omega
      simp [h0, h6, this]

example : holdsConfigured (204800 + 5) ((204800 : Int) + 3).toNat 3 = false := by decide

/-! ## whole suites: the directives are honoured in every suite the loader accepts -/

/-- the messages of one accepted test case -/
theorem expandMsgs_padded (limit : Nat) (ds : List Directive) (ls : List Nat)
    (h : expandMsgs limit ds = some ls) :
    ds.length = ls.length ∧ (ds.zip ls).all (fun q => directivePadded limit q.1 q.2) = true := by
  induction ds generalizing ls with
  | nil => simp [expandMsgs] at h; subst h; simp
  | cons d ds ih =>
    unfold expandMsgs at h
    cases hoff : d.off with
    | none =>
      rw [hoff] at h
      simp only [Option.map_eq_some_iff] at h
      obtain ⟨t, ht, rfl⟩ := h
      obtain ⟨hl, ha⟩ := ih t ht
      refine ⟨by simp [hl], ?_⟩
      rw [List.zip_cons_cons, List.all_cons, ha, Bool.and_true]
      simp [directivePadded, msgPadded, hoff]
    | some off =>
      rw [hoff] at h
      simp only at h
      cases hx : expand limit d.r d.l0 off with
      | ok L =>
        rw [hx] at h
        simp only [Option.map_eq_some_iff] at h
        obtain ⟨t, ht, rfl⟩ := h
        obtain ⟨hl, ha⟩ := ih t ht
        have hex := expand_exact limit d.r d.l0 off L hx
        refine ⟨by simp [hl], ?_⟩
        rw [List.zip_cons_cons, List.all_cons, ha, Bool.and_true]
        simp [directivePadded, msgPadded, hoff, holdsExpand, hex]
      | range => rw [hx] at h; cases h
      | negLen => rw [hx] at h; cases h
      | cantPad c => rw [hx] at h; cases h
      | panic => rw [hx] at h; cases h

/-- **Exactness for suites**: whenever `parseTestSuites` accepts a suite — whatever its
attributes, in particular with or without `reliesOnMessageReceiveLimit` — every request with a
directive has exactly `limit + off` bytes and every other request is untouched. -/
theorem suite_expand_exact (limit : Nat) (protoOnly relies : Bool) (cases : List SuiteCase)
    (out : List (List Nat)) (h : parseSuite limit protoOnly relies cases = some out) :
    suitePadded limit cases out = true := by
  induction cases generalizing out with
  | nil => simp [parseSuite] at h; subst h; simp [suitePadded]
  | cons c cs ih =>
    unfold parseSuite at h
    split at h
    · cases h
    · cases hc : expandCase limit c with
      | none => rw [hc] at h; cases h
      | some ls =>
        rw [hc] at h
        simp only [Option.map_eq_some_iff] at h
        obtain ⟨t, ht, rfl⟩ := h
        have hrec := ih t ht
        unfold expandCase at hc
        split at hc
        · cases hc
        · obtain ⟨hl, ha⟩ := expandMsgs_padded limit c.msgs ls hc
          unfold suitePadded at hrec ⊢
          simp only [Bool.and_eq_true, beq_iff_eq] at hrec
          simp [List.zip_cons_cons, List.all_cons, hl, ha, hrec.1, hrec.2]

/-- no suite attribute switches the directives off: the loader's treatment of the directives
does not depend on `reliesOnMessageReceiveLimit` -/
theorem suite_flag_irrelevant (limit : Nat) (protoOnly : Bool) (cases : List SuiteCase) :
    parseSuite limit protoOnly false cases = parseSuite limit protoOnly true cases := by
  induction cases with
  | nil => rfl
  | cons c cs ih => unfold parseSuite; rw [ih]

/-- **Unreachable sizes reject the suite**: a single directive, anywhere in the suite, whose
target no padding length gives makes `parseTestSuites` fail — in every suite. -/
theorem suite_unreachable_rejected (limit : Nat) (protoOnly relies : Bool) (cases : List SuiteCase)
    (c : SuiteCase) (hc : c ∈ cases) (d : Directive) (hd : d ∈ c.msgs) (off : Int) (ho : d.off = some off)
    (hun : ∀ L, (size d.r L : Int) ≠ (limit : Int) + off) :
    parseSuite limit protoOnly relies cases = none := by
  cases hp : parseSuite limit protoOnly relies cases with
  | none => rfl
  | some out =>
    exfalso
    have hs := suite_expand_exact limit protoOnly relies cases out hp
    unfold suitePadded at hs
    simp only [Bool.and_eq_true, beq_iff_eq, List.all_eq_true] at hs
    obtain ⟨hlen, hall⟩ := hs
    obtain ⟨i, hi, rfl⟩ := List.getElem_of_mem hc
    have hi' : i < out.length := hlen ▸ hi
    have hmem : (cases[i], out[i]) ∈ cases.zip out := by
      rw [List.mem_iff_getElem]
      exact ⟨i, by rw [List.length_zip]; omega, by simp⟩
    obtain ⟨hl2, hall2⟩ := hall _ hmem
    obtain ⟨j, hj, rfl⟩ := List.getElem_of_mem hd
    have hj' : j < out[i].length := hl2 ▸ hj
    have hmem2 : ((cases[i]).msgs[j], out[i][j]) ∈ (cases[i]).msgs.zip out[i] := by
      rw [List.mem_iff_getElem]
      exact ⟨j, by rw [List.length_zip]; omega, by simp⟩
    have := hall2 _ hmem2
    simp [directivePadded, msgPadded, ho, holdsExpand] at this
    exact hun _ this

/-- non-vacuity: a suite WITHOUT `reliesOnMessageReceiveLimit` whose directive asks for exactly
the limit is padded to 204800 bytes; the size skipped at the 2→3 byte boundary of the length
prefix rejects it -/
example : parseSuite 204800 true false [⟨1, [⟨30, 0, some 0⟩, ⟨30, 5, none⟩]⟩] = some [[204766, 5]] := by decide
example : parseSuite 204800 true false [⟨1, [⟨17, 0, some (16404 - 204800)⟩]⟩] = none := by decide

end ConfModel.Props.C19
