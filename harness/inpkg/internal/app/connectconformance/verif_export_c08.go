//go:build verif

package connectconformance

import (
	"errors"
	"fmt"
	"os"
	"path/filepath"
	"sort"
	"strings"

	"google.golang.org/protobuf/encoding/protojson"

	"connectrpc.com/conformance/internal"
	conformancev1 "connectrpc.com/conformance/internal/gen/proto/go/connectrpc/conformance/v1"
)

// VerifTrie wraps testTrie (nil when no patterns were given, as in Run).
type VerifTrie struct{ t *testTrie }

func VerifNewTrie(patterns []string) *VerifTrie {
	t := parsePatterns(patterns)
	if t == nil {
		t = &testTrie{} // as Run does for the known-failing / known-flaky lists
	}
	return &VerifTrie{t: t}
}

func (v *VerifTrie) Match(name string) bool { return v.t.matchPattern(name) }

func (v *VerifTrie) Unmatched() []string {
	m := v.t.allUnmatched()
	out := make([]string, 0, len(m))
	for k := range m {
		out = append(out, k)
	}
	sort.Strings(out)
	return out
}

func (v *VerifTrie) Len() int { return v.t.length() }

// VerifAccept is newFilter(run, skip).accept on a test case with the given name.
func VerifAccept(run, skip []string, names []string) []bool {
	f := newFilter(parsePatterns(run), parsePatterns(skip))
	out := make([]bool, len(names))
	for i, n := range names {
		out[i] = f.accept(&conformancev1.TestCase{Request: &conformancev1.ClientCompatRequest{TestName: n}})
	}
	return out
}

type verifNopPrinter struct{}

func (verifNopPrinter) Printf(string, ...any)               {}
func (verifNopPrinter) PrefixPrintf(string, string, ...any) {}

var _ internal.Printer = verifNopPrinter{}

// VerifSimpleSuites builds one valid unary test case per name, grouped in suites.
func VerifSimpleSuites(suites map[string][]string) map[string]*conformancev1.TestSuite {
	out := map[string]*conformancev1.TestSuite{}
	for suiteName, tests := range suites {
		s := &conformancev1.TestSuite{Name: suiteName}
		for _, t := range tests {
			s.TestCases = append(s.TestCases, &conformancev1.TestCase{
				Request: &conformancev1.ClientCompatRequest{
					TestName:   t,
					StreamType: conformancev1.StreamType_STREAM_TYPE_UNARY,
				},
			})
		}
		out[suiteName+".yaml"] = s
	}
	return out
}

// VerifValidate runs the real run() up to (and including) pattern validation. The client
// command does not exist, so a run that passes validation stops at "error starting client".
func VerifValidate(suites map[string]*conformancev1.TestSuite, cfgYAML string, failing, flaky, run, skip []string) (names []string, class string, list []string, rawErr string) {
	cases, err := parseConfig("cfg.yaml", []byte(cfgYAML))
	if err != nil {
		return nil, "config-error", nil, err.Error()
	}
	flags := &Flags{ClientCommand: []string{"/nonexistent/verif-client"}, MaxServers: 1, Parallelism: 1}
	lib, err := newTestCaseLibrary(suites, cases, conformancev1.TestSuite_TEST_MODE_CLIENT)
	if err != nil {
		return nil, "library-error", nil, err.Error()
	}
	for _, tc := range lib.allPermutations(false, true) {
		names = append(names, tc.Request.TestName)
	}
	sort.Strings(names)
	kf := parsePatterns(failing)
	if kf == nil {
		kf = &testTrie{}
	}
	kl := parsePatterns(flaky)
	if kl == nil {
		kl = &testTrie{}
	}
	_, err = runForVerif(cases, kf, kl, parsePatterns(run), parsePatterns(skip), suites, flags)
	if err == nil {
		return names, "ran", nil, ""
	}
	class, list = verifC08Classify(err.Error())
	return names, class, list, err.Error()
}

type verifC08CapturePrinter struct{ lines []string }

func (p *verifC08CapturePrinter) Printf(f string, a ...any) {
	p.lines = append(p.lines, fmt.Sprintf(f, a...))
}
func (p *verifC08CapturePrinter) PrefixPrintf(_ string, f string, a ...any) {
	p.lines = append(p.lines, fmt.Sprintf(f, a...))
}

// VerifValidateRun does what VerifValidate does, but through the exported Run: the four pattern
// lists travel in Flags exactly as the command hands them over (config and suites are files in dir),
// so the glue between the lists and the tries that run() validates is part of the observation.
func VerifValidateRun(dir string, suites map[string]*conformancev1.TestSuite, cfgYAML string, failing, flaky, run, skip []string) (class string, list []string, rawErr string) {
	cfgPath := filepath.Join(dir, "cfg.yaml")
	if err := os.WriteFile(cfgPath, []byte(cfgYAML), 0o600); err != nil {
		return "harness-error", nil, err.Error()
	}
	var paths []string
	var fileNames []string
	for name := range suites {
		fileNames = append(fileNames, name)
	}
	sort.Strings(fileNames)
	for _, name := range fileNames {
		b, err := protojson.Marshal(suites[name])
		if err != nil {
			return "harness-error", nil, err.Error()
		}
		p := filepath.Join(dir, name)
		if err := os.WriteFile(p, b, 0o600); err != nil {
			return "harness-error", nil, err.Error()
		}
		paths = append(paths, p)
	}
	flags := &Flags{
		ConfigFile: cfgPath, TestFiles: paths,
		ClientCommand: []string{"/nonexistent/verif-client"}, MaxServers: 1, Parallelism: 1,
		KnownFailingPatterns: failing, KnownFlakyPatterns: flaky, RunPatterns: run, SkipPatterns: skip,
	}
	logP, errP := &verifC08CapturePrinter{}, &verifC08CapturePrinter{}
	ok, err := Run(flags, logP, errP)
	msg := strings.Join(errP.lines, "\n")
	if err != nil {
		msg = err.Error()
	}
	if ok && err == nil && msg == "" {
		return "ran", nil, ""
	}
	class, list = verifC08Classify(msg)
	return class, list, msg
}

func verifC08Classify(msg string) (class string, list []string) {
	listOf := func(after string) []string {
		i := strings.Index(msg, after)
		if i < 0 {
			return nil
		}
		var out []string
		for _, l := range strings.Split(msg[i+len(after):], "\n") {
			if l != "" {
				out = append(out, l)
			}
		}
		return out
	}
	switch {
	case strings.Contains(msg, "unmatched and possibly invalid patterns:"):
		what := msg[:strings.Index(msg, ":")]
		return "unmatched:" + what, listOf("patterns:\n")
	case strings.Contains(msg, "ambiguous"):
		return "ambiguous", listOf("both\n:")
	case strings.Contains(msg, "error starting client"):
		return "ok", nil
	}
	return "other", nil
}

func runForVerif(cases []configCase, kf, kl, run, skip *testTrie, suites map[string]*conformancev1.TestSuite, flags *Flags) (*testResults, error) {
	return runFn(cases, kf, kl, run, skip, suites, verifNopPrinter{}, verifNopPrinter{}, flags)
}

var runFn = run

// VerifC08Op is one call of the testResults API: K = pass | assert (assert with a matching /
// deviating result) | clienterr (failed) | neither (setOutcome(n, false, err)) | setup
// (setOutcome(n, true, err)) | cnr (setOutcome(n, true, couldNotRunError)) | start (failedToStart)
// | remaining (failRemaining) | sideband (recordSideband); Ns = the test names it is about.
type VerifC08Op struct {
	K  string
	Ns []string
}

// VerifC08Marked builds testResults with tries made from the given --known-failing / --known-flaky
// PATTERN lists (as Run does), issues the calls in order and returns report()'s verdict and
// everything it printed: whether a name is treated as known-failing / known-flaky, observed where the
// user sees it.
func VerifC08Marked(failing, flaky []string, total int, ops []VerifC08Op) (bool, []string) {
	kf := parsePatterns(failing)
	if kf == nil {
		kf = &testTrie{} // as Run does
	}
	kl := parsePatterns(flaky)
	if kl == nil {
		kl = &testTrie{}
	}
	res := newResults(total, kf, kl, nil)
	def := func(name string) *conformancev1.TestCase {
		return &conformancev1.TestCase{
			Request: &conformancev1.ClientCompatRequest{TestName: name, StreamType: conformancev1.StreamType_STREAM_TYPE_UNARY},
			ExpectedResponse: &conformancev1.ClientResponseResult{
				Payloads: []*conformancev1.ConformancePayload{{Data: []byte("data")}},
			},
		}
	}
	defs := func(names []string) []*conformancev1.TestCase {
		out := make([]*conformancev1.TestCase, len(names))
		for i, n := range names {
			out[i] = def(n)
		}
		return out
	}
	for _, op := range ops {
		switch op.K {
		case "start":
			res.failedToStart(defs(op.Ns), errors.New("error starting server: boom"))
			continue
		case "remaining":
			res.failRemaining(defs(op.Ns), &failedToGetResultError{errNoOutcome})
			continue
		}
		for _, n := range op.Ns {
			switch op.K {
			case "pass":
				res.assert(n, def(n), &conformancev1.ClientResponseResult{
					Payloads: []*conformancev1.ConformancePayload{{Data: []byte("data")}},
				})
			case "assert":
				res.assert(n, def(n), &conformancev1.ClientResponseResult{
					Payloads: []*conformancev1.ConformancePayload{{Data: []byte("other")}},
				})
			case "clienterr":
				res.failed(n, &conformancev1.ClientErrorResult{Message: "client could not do it"})
			case "neither":
				res.setOutcome(n, false, errors.New("client returned a response with neither an error nor result"))
			case "setup":
				res.setOutcome(n, true, errors.New("server process terminated unexpectedly"))
			case "cnr":
				res.setOutcome(n, true, &couldNotRunError{errClosed})
			case "sideband":
				res.recordSideband(n, "peer feedback")
			default:
				panic("VerifC08Marked: unknown op " + op.K)
			}
		}
	}
	printer := &internal.SimplePrinter{}
	ok := res.report(printer)
	return ok, printer.Messages
}
