package main

// C18, the reference server's own Connect-error -> gRPC-status conversion
// (internal/app/referenceserver/impl.go: grpcStatusTrailers / grpcWebStatusEndStream, used by the
// hand-built raw gRPC / gRPC-Web responses of reference mode), parsed back the way a gRPC peer
// does; and the real reference server end to end with a connect-go client.

import (
	"context"
	"crypto/tls"
	"encoding/base64"
	"encoding/hex"
	"encoding/json"
	"errors"
	"fmt"
	"io"
	"net"
	"net/http"
	"strings"
	"sync"
	"time"

	"connectrpc.com/conformance/internal"
	"connectrpc.com/conformance/internal/app/referenceserver"
	conformancev1 "connectrpc.com/conformance/internal/gen/proto/go/connectrpc/conformance/v1"
	"connectrpc.com/conformance/internal/gen/proto/go/connectrpc/conformance/v1/conformancev1connect"
	"connectrpc.com/conformance/internal/verifharness/gen"
	"connectrpc.com/connect"
	"golang.org/x/net/http2"
	statuspb "google.golang.org/genproto/googleapis/rpc/status"
	"google.golang.org/protobuf/proto"
	"google.golang.org/protobuf/types/known/anypb"
)

func init() {
	gen.RegisterOp("c18", "srvtrailers", func(_ *gen.Ctx, raw json.RawMessage) any { return c18SrvTrailers(gen.Into[c18SrvIn](raw)) })
	gen.RegisterOp("c18", "srve2e", func(c *gen.Ctx, raw json.RawMessage) any {
		in := gen.Into[c18E2EIn](raw)
		out := c18E2E(in)
		if out.Fail != "" {
			c.E.Count("srve2e:harness-failure")
		}
		return out
	})
}

type c18SrvDetail struct {
	Type string `json:"type"` // message name (the type URL is DefaultAnyResolverPrefix + name)
	Val  string `json:"val"`  // hex
}
type c18SrvIn struct {
	Code     int32          `json:"code"`
	Msg      string         `json:"msg"` // hex of a valid UTF-8 string
	Details  []c18SrvDetail `json:"details"`
	Web      bool           `json:"web"`      // through grpcWebStatusEndStream (the end-of-stream block), else grpcStatusTrailers
	Trailers []c18H         `json:"trailers"` // custom trailers (web)
}
type c18SrvStatus struct {
	Code    int64       `json:"code"`
	Msg     string      `json:"msg"` // hex
	Details []c18Detail `json:"details"`
}
type c18SrvOut struct {
	Status  []string      `json:"status"`  // values of grpc-status (hex), in order of appearance
	Message []string      `json:"message"` // values of grpc-message (hex, still percent-encoded)
	Bins    int           `json:"bins"`    // number of grpc-status-details-bin values
	Bin     *c18SrvStatus `json:"bin"`     // the first one, base64- and protobuf-decoded (null: absent or undecodable)
	Other   []c18H        `json:"other"`   // every other trailer line, in order
}

func c18SrvDetails(ds []c18SrvDetail) []referenceserver.VerifC13Detail {
	var out []referenceserver.VerifC13Detail
	for _, d := range ds {
		v, _ := hex.DecodeString(d.Val)
		out = append(out, referenceserver.VerifC13Detail{Type: d.Type, Value: v})
	}
	return out
}

// c18DecodeBin: base64 (unpadded or padded, applied ONCE) then google.rpc.Status.
func c18DecodeBin(v string) *c18SrvStatus {
	data, err := base64.RawStdEncoding.DecodeString(strings.TrimRight(v, "="))
	if err != nil {
		return nil
	}
	var st statuspb.Status
	if err := proto.Unmarshal(data, &st); err != nil {
		return nil
	}
	out := &c18SrvStatus{Code: int64(st.Code), Msg: gen.Hex([]byte(st.Message)), Details: []c18Detail{}}
	for _, d := range st.Details {
		out.Details = append(out.Details, c18Detail{URL: d.GetTypeUrl(), Val: gen.Hex(d.GetValue())})
	}
	return out
}

func c18SrvTrailers(in c18SrvIn) c18SrvOut {
	msg, _ := hex.DecodeString(in.Msg)
	var lines [][2]string // (lower-cased name, value)
	if in.Web {
		block := referenceserver.VerifC13GrpcWebEndStream(in.Code, string(msg), c18SrvDetails(in.Details), c18Headers(in.Trailers))
		for _, ln := range strings.Split(block, "\r\n") {
			if ln == "" {
				continue
			}
			name, val, _ := strings.Cut(ln, ": ")
			lines = append(lines, [2]string{name, val})
		}
	} else {
		for _, h := range referenceserver.VerifC13GrpcStatusTrailers(in.Code, string(msg), c18SrvDetails(in.Details)) {
			for _, v := range h.Value {
				lines = append(lines, [2]string{strings.ToLower(h.Name), v})
			}
		}
	}
	out := c18SrvOut{Status: []string{}, Message: []string{}, Other: []c18H{}}
	for _, ln := range lines {
		switch ln[0] {
		case "grpc-status":
			out.Status = append(out.Status, gen.Hex([]byte(ln[1])))
		case "grpc-message":
			out.Message = append(out.Message, gen.Hex([]byte(ln[1])))
		case "grpc-status-details-bin":
			if out.Bins == 0 {
				out.Bin = c18DecodeBin(ln[1])
			}
			out.Bins++
		default:
			out.Other = append(out.Other, c18H{N: ln[0], V: []string{gen.Hex([]byte(ln[1]))}})
		}
	}
	return out
}

// ---------------------------------------------------------------- the real reference server

type c18E2EIn struct {
	Proto    string         `json:"proto"` // grpc | grpcweb | connect
	Code     int32          `json:"code"`
	Msg      string         `json:"msg"` // hex of a valid UTF-8 string
	Details  []c18SrvDetail `json:"details"`
	Headers  bool           `json:"headers"`  // the response definition carries custom response headers
	Trailers bool           `json:"trailers"` // … and custom response trailers
}
type c18E2EOut struct {
	Fail    string         `json:"fail,omitempty"` // the harness could not run the call
	IsErr   bool           `json:"isErr"`
	Code    int32          `json:"code"`
	Msg     string         `json:"msg"` // hex
	Details []c18SrvDetail `json:"details"`
	Header  []string       `json:"header"`  // values of the custom response header the client saw (headers or error metadata)
	Trailer []string       `json:"trailer"` // values of the custom response trailer the client saw
	// ReqInfo: the last detail unpacks (anypb: UnmarshalTo, as the result assertion does) into the
	// RequestInfo the server packed (anypb.New), and it names the request: the test-case header sent
	ReqInfo     bool   `json:"reqInfo"`
	ReqInfoName string `json:"reqInfoName"`
}

var (
	c18SrvOnce sync.Once
	c18SrvURL  string
	c18SrvErr  error
	c18SrvHTTP *http.Client
)

type c18NopCloser struct{ io.Writer }

func (c18NopCloser) Close() error { return nil }

func c18StartServer() {
	ctx := context.Background()
	sin, sinW := io.Pipe()
	soutR, sout := io.Pipe()
	go func() {
		err := referenceserver.RunInReferenceMode(ctx, []string{"referenceserver", "-port", "0", "-bind", "127.0.0.1"}, sin, sout, c18NopCloser{io.Discard}, nil)
		sout.CloseWithError(fmt.Errorf("reference server ended: %v", err))
	}()
	go func() {
		_ = internal.WriteDelimitedMessage(sinW, &conformancev1.ServerCompatRequest{
			Protocol:    conformancev1.Protocol_PROTOCOL_GRPC,
			HttpVersion: conformancev1.HTTPVersion_HTTP_VERSION_2,
		})
		sinW.Close()
	}()
	var resp conformancev1.ServerCompatResponse
	if err := internal.ReadDelimitedMessage(soutR, &resp, "reference server", 30*time.Second, 1<<20); err != nil {
		c18SrvErr = err
		return
	}
	c18SrvURL = "http://" + net.JoinHostPort(resp.Host, fmt.Sprint(resp.Port))
	c18SrvHTTP = &http.Client{Transport: &http2.Transport{
		AllowHTTP: true,
		DialTLSContext: func(ctx context.Context, network, addr string, _ *tls.Config) (net.Conn, error) {
			return (&net.Dialer{}).DialContext(ctx, network, addr)
		},
	}}
}

const (
	c18E2EHeader  = "x-verif-header"
	c18E2ETrailer = "x-verif-trailer"
)

func c18E2E(in c18E2EIn) c18E2EOut {
	c18SrvOnce.Do(c18StartServer)
	if c18SrvErr != nil {
		return c18E2EOut{Fail: "server: " + c18SrvErr.Error()}
	}
	msg, _ := hex.DecodeString(in.Msg)
	smsg := string(msg)
	perr := &conformancev1.Error{Code: conformancev1.Code(in.Code), Message: &smsg}
	for _, d := range in.Details {
		v, _ := hex.DecodeString(d.Val)
		perr.Details = append(perr.Details, &anypb.Any{TypeUrl: internal.DefaultAnyResolverPrefix + d.Type, Value: v})
	}
	def := &conformancev1.UnaryResponseDefinition{Response: &conformancev1.UnaryResponseDefinition_Error{Error: perr}}
	if in.Headers {
		def.ResponseHeaders = []*conformancev1.Header{{Name: c18E2EHeader, Value: []string{"h1", "h2"}}}
	}
	if in.Trailers {
		def.ResponseTrailers = []*conformancev1.Header{{Name: c18E2ETrailer, Value: []string{"t1"}}}
	}
	var opts []connect.ClientOption
	protoEnum := conformancev1.Protocol_PROTOCOL_CONNECT
	switch in.Proto {
	case "grpc":
		opts = append(opts, connect.WithGRPC())
		protoEnum = conformancev1.Protocol_PROTOCOL_GRPC
	case "grpcweb":
		opts = append(opts, connect.WithGRPCWeb())
		protoEnum = conformancev1.Protocol_PROTOCOL_GRPC_WEB
	}
	client := conformancev1connect.NewConformanceServiceClient(c18SrvHTTP, c18SrvURL, opts...)
	req := connect.NewRequest(&conformancev1.UnaryRequest{ResponseDefinition: def})
	// what the runner makes a client under test send (the reference server's request checks)
	req.Header().Set("X-Test-Case-Name", "verif/c18/srve2e")
	req.Header().Set("X-Expect-Http-Version", fmt.Sprint(int32(conformancev1.HTTPVersion_HTTP_VERSION_2)))
	req.Header().Set("X-Expect-Protocol", fmt.Sprint(int32(protoEnum)))
	req.Header().Set("X-Expect-Codec", fmt.Sprint(int32(conformancev1.Codec_CODEC_PROTO)))
	req.Header().Set("X-Expect-Compression", fmt.Sprint(int32(conformancev1.Compression_COMPRESSION_IDENTITY)))
	req.Header().Set("X-Expect-Http-Method", http.MethodPost)
	ctx, cancel := context.WithTimeout(context.Background(), 60*time.Second)
	defer cancel()
	_, err := client.Unary(ctx, req)
	out := c18E2EOut{Details: []c18SrvDetail{}, Header: []string{}, Trailer: []string{}}
	if err == nil {
		return out
	}
	out.IsErr = true
	var ce *connect.Error
	if !errors.As(err, &ce) {
		out.Fail = "not a connect error: " + err.Error()
		return out
	}
	out.Code = int32(ce.Code())
	out.Msg = gen.Hex([]byte(ce.Message()))
	for _, d := range ce.Details() {
		out.Details = append(out.Details, c18SrvDetail{Type: d.Type(), Val: gen.Hex(d.Bytes())})
	}
	if pe := internal.ConvertConnectToProtoError(ce); len(pe.GetDetails()) > 0 {
		info := &conformancev1.ConformancePayload_RequestInfo{}
		if pe.Details[len(pe.Details)-1].UnmarshalTo(info) == nil {
			out.ReqInfo = true
			for _, h := range info.RequestHeaders {
				if strings.EqualFold(h.Name, "X-Test-Case-Name") && len(h.Value) > 0 {
					out.ReqInfoName = h.Value[0]
				}
			}
		}
	}
	// unary errors: connect-go hands headers and trailers to the caller merged in Meta()
	out.Header = append(out.Header, ce.Meta().Values(c18E2EHeader)...)
	out.Trailer = append(out.Trailer, ce.Meta().Values(c18E2ETrailer)...)
	out.Trailer = append(out.Trailer, ce.Meta().Values("trailer-"+c18E2ETrailer)...)
	return out
}

// ---------------------------------------------------------------- generator

var c18SrvTypes = []string{"connectrpc.conformance.v1.Header", "google.rpc.RetryInfo", "a.B", "x", "connectrpc.conformance.v1.ConformancePayload.RequestInfo", "é.T"}

func c18SrvMsgs() []string {
	return []string{"", "plain message", "100%", "%", "%25", "%41", "a%zz", "café is 100% closed\n", "tab\there", "\x00", "\x01\x1f\x7f", "日本語 😀",
		" leading and trailing ", "a+b c/d?e=f&g", "~!@#$^*()_", "\r\n", "é", "%C3%A9", "x\u0080y߿z￿"}
}

func c18SrvGen(c *gen.Ctx) {
	r := c.R
	th := c.Thorough()
	detailSets := [][]c18SrvDetail{
		{},
		{{Type: c18SrvTypes[0], Val: "0a01780a0179"}},
		{{Type: c18SrvTypes[1], Val: ""}, {Type: c18SrvTypes[2], Val: "ff00"}},
		{{Type: c18SrvTypes[0], Val: "0a0178"}, {Type: c18SrvTypes[0], Val: "0a0178"}, {Type: c18SrvTypes[3], Val: "00"}},
	}
	trailerSets := [][]c18H{{}, {{N: "X-Custom", V: []string{gen.Hex([]byte("v1")), gen.Hex([]byte("v2"))}}, {N: "y-bin", V: []string{gen.Hex([]byte("AAEC"))}}}}
	// every code 1..16 x message shapes x 0-3 details x {trailers, end-of-stream block}
	n := 0
	for code := int32(1); code <= 16; code++ {
		for mi, m := range c18SrvMsgs() {
			for di, ds := range detailSets {
				if !th && (int(code)+mi+di)%3 != 0 && code != 5 {
					continue
				}
				c.Do("srvtrailers", c18SrvIn{Code: code, Msg: gen.Hex([]byte(m)), Details: ds, Trailers: []c18H{}})
				c.Do("srvtrailers", c18SrvIn{Code: code, Msg: gen.Hex([]byte(m)), Details: ds, Web: true, Trailers: trailerSets[(mi+di)%2]})
				n += 2
			}
		}
	}
	c.E.Add("srvtrailers-exhaustive", n)
	nRand := 1500
	if th {
		nRand = 20000
	}
	for i := 0; i < nRand; i++ {
		var m string
		switch r.Intn(4) {
		case 0:
			m = c18RandText(r, 30)
		case 1:
			m = gen.Pick(r, c18SrvMsgs()) + c18RandText(r, 6)
		case 2:
			// every escapable / unescapable ASCII byte, a few multi-byte runes
			var sb strings.Builder
			for k := r.Intn(20); k > 0; k-- {
				if r.Chance(1, 5) {
					sb.WriteRune(gen.Pick(r, []rune("é€日😀\u0080ÿ")))
				} else {
					sb.WriteByte(byte(r.Intn(128)))
				}
			}
			m = sb.String()
		default:
			m = strings.Repeat(gen.Pick(r, []string{"%", "é", "ab ", "\n"}), r.Intn(40))
		}
		ds := []c18SrvDetail{}
		for k := r.Intn(4); k > 0; k-- {
			ds = append(ds, c18SrvDetail{Type: gen.Pick(r, c18SrvTypes), Val: gen.Hex(r.Bytes(r.Intn(24)))})
		}
		web := r.Bool()
		tr := []c18H{}
		if web && r.Bool() {
			tr = trailerSets[1]
		}
		c.Do("srvtrailers", c18SrvIn{Code: int32(r.Range(1, 16)), Msg: gen.Hex([]byte(m)), Details: ds, Web: web, Trailers: tr})
	}
	// the real reference server (reference mode), connect-go client: unary errors with and without
	// custom response headers / trailers over gRPC, gRPC-Web and Connect
	e2eMsgs := []string{"plain", "café is 100% closed\n", "%41 \x01 日本"}
	k := 0
	for _, proto := range []string{"grpc", "grpcweb", "connect"} {
		for mi, m := range e2eMsgs {
			for _, hdrs := range []bool{true, false} {
				if proto == "connect" && (mi != 1 || !hdrs) && !th {
					continue
				}
				k++
				code := int32(1 + (k*5)%16)
				c.Do("srve2e", c18E2EIn{Proto: proto, Code: code, Msg: gen.Hex([]byte(m)), Details: detailSets[k%len(detailSets)], Headers: hdrs, Trailers: k%2 == 0})
			}
		}
	}
	nE2E := 12
	if th {
		nE2E = 300
	}
	for i := 0; i < nE2E; i++ {
		ds := []c18SrvDetail{}
		for k := r.Intn(4); k > 0; k-- {
			ds = append(ds, c18SrvDetail{Type: gen.Pick(r, c18SrvTypes), Val: gen.Hex(r.Bytes(r.Intn(24)))})
		}
		m := gen.Pick(r, c18SrvMsgs()) + c18RandText(r, 10)
		c.Do("srve2e", c18E2EIn{Proto: gen.Pick(r, []string{"grpc", "grpcweb", "grpc", "grpcweb", "connect"}), Code: int32(r.Range(1, 16)), Msg: gen.Hex([]byte(m)), Details: ds, Headers: r.Chance(3, 4), Trailers: r.Bool()})
	}
}
