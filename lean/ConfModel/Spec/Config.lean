/-
Declarative specification of config expansion (property C06), written without the loops of
config.go: which cases a resolved feature set implies, which cases an include/exclude entry
matches, which cases are internally possible, what the documented defaults are and which
configurations are contradictory.  Every predicate is decidable (the driver evaluates them
on the implementation's output).
-/
import ConfModel.Model.Config
namespace ConfModel.Config

/-- "Every resulting case is internally possible": gRPC only over HTTP/2, HTTP/3 only with TLS,
cleartext HTTP/2 only with H2C support, client certificates only with TLS, no full-duplex over
HTTP/1.1, half-duplex over HTTP/1.1 only if declared, GET only with Connect (and only if
supported), never the deprecated text codec. -/
def Possible (f : Sup) (k : Case) : Prop :=
  (k.p = .grpc → k.v = .v2) ∧
  (k.v = .v3 → k.tls = true) ∧
  (k.v = .v2 → k.tls = false → f.h2c = true) ∧
  (k.certs = true → k.tls = true) ∧
  (k.s = .full → k.v ≠ .v1) ∧
  (k.s = .half → k.v = .v1 → f.halfH1 = true) ∧
  (k.get = true → k.p = .connect ∧ f.get = true) ∧
  k.c ≠ .text

instance (f : Sup) (k : Case) : Decidable (Possible f k) := by unfold Possible; infer_instance

/-- the values a Boolean axis may take given whether the feature is supported -/
def FlagAllowed (sup : Bool) (b : Bool) : Prop := b = true → sup = true

instance (s b : Bool) : Decidable (FlagAllowed s b) := by unfold FlagAllowed; infer_instance

/-- an omitted enum field ranges over the supported list, a given one pins the value -/
def AxisOk {α} [DecidableEq α] (zero : α) (supported : List α) (given : α) (x : α) : Prop :=
  if given = zero then x ∈ supported else x = given

instance {α} [DecidableEq α] (zero : α) (l : List α) (g x : α) : Decidable (AxisOk zero l g x) := by
  unfold AxisOk; infer_instance

/-- an omitted Boolean field ranges over {false} ∪ {true | supported}, a given one pins it -/
def FlagOk (sup : Bool) (given : Option Bool) (b : Bool) : Prop :=
  match given with
  | some g => b = g
  | none => FlagAllowed sup b

instance (s : Bool) (g : Option Bool) (b : Bool) : Decidable (FlagOk s g b) := by
  unfold FlagOk; cases g <;> infer_instance

/-- the cases implied by the (resolved) features -/
def InFeatures (f : Sup) (k : Case) : Prop :=
  k.v ∈ f.versions ∧ k.p ∈ f.protocols ∧ k.c ∈ f.codecs ∧ k.z ∈ f.comps ∧ k.s ∈ f.sts ∧
  FlagAllowed f.tls k.tls ∧ FlagAllowed f.certs k.certs ∧ FlagAllowed f.limit k.limit ∧
  k.cvm = .unspec ∧ Possible f k

instance (f : Sup) (k : Case) : Decidable (InFeatures f k) := by unfold InFeatures; infer_instance

/-- the cases matching an include/exclude entry: each specified field equals the case's, each
omitted field ranges over what the features support, and the case is possible -/
def Matches (f : Sup) (e : Entry) (k : Case) : Prop :=
  AxisOk .unspec f.versions e.v k.v ∧ AxisOk .unspec f.protocols e.p k.p ∧
  AxisOk .unspec f.codecs e.c k.c ∧ AxisOk .unspec f.comps e.z k.z ∧
  AxisOk .unspec f.sts e.s k.s ∧
  FlagOk f.tls e.tls k.tls ∧ FlagOk f.certs e.certs k.certs ∧ FlagOk f.limit e.limit k.limit ∧
  k.cvm = .unspec ∧ Possible f k

instance (f : Sup) (e : Entry) (k : Case) : Decidable (Matches f e k) := by
  unfold Matches; infer_instance

/-- the entry with every field omitted -/
def Entry.wildcard : Entry := ⟨.unspec, .unspec, .unspec, .unspec, .unspec, none, none, none⟩

/-- the specified set: features ∪ includes ∖ excludes -/
def Specified (f : Sup) (inc exc : List Entry) (k : Case) : Prop :=
  (InFeatures f k ∨ ∃ e ∈ inc, Matches f e k) ∧ ¬ ∃ e ∈ exc, Matches f e k

instance (f : Sup) (inc exc : List Entry) (k : Case) : Decidable (Specified f inc exc k) := by
  unfold Specified; infer_instance

/-- The documented defaults (docs/configuring_and_running_tests.md, "Features"): flags default
to supported except client certificates and half-duplex over HTTP/1.1; omitted lists default to
HTTP/1.1 (+ HTTP/2 when usable), Connect + gRPC-Web (+ gRPC when usable), proto + json, identity +
gzip, and the stream types the versions can carry. Given lists and flags are kept as they are. -/
def Defaulted (fs : Features) (f : Sup) : Prop :=
  f.h2c = fs.h2c.getD true ∧ f.tls = fs.tls.getD true ∧ f.certs = fs.certs.getD false ∧
  f.trailers = fs.trailers.getD true ∧ f.halfH1 = fs.halfH1.getD false ∧
  f.get = fs.get.getD true ∧ f.limit = fs.limit.getD true ∧
  (fs.versions ≠ [] → f.versions = fs.versions) ∧
  (fs.versions = [] → f.versions = if f.tls = true ∨ f.h2c = true then [.v1, .v2] else [.v1]) ∧
  (fs.protocols ≠ [] → f.protocols = fs.protocols) ∧
  (fs.protocols = [] → f.protocols =
      if f.trailers = true ∧ .v2 ∈ f.versions then [.connect, .grpc, .grpcWeb] else [.connect, .grpcWeb]) ∧
  (fs.codecs ≠ [] → f.codecs = fs.codecs) ∧ (fs.codecs = [] → f.codecs = [.proto, .json]) ∧
  (fs.comps ≠ [] → f.comps = fs.comps) ∧ (fs.comps = [] → f.comps = [.identity, .gzip]) ∧
  (fs.sts ≠ [] → f.sts = fs.sts) ∧
  (fs.sts = [] → f.sts =
      if .v2 ∈ f.versions ∨ .v3 ∈ f.versions then [.unary, .client, .server, .half, .full]
      else if f.halfH1 = true then [.unary, .client, .server, .half]
      else [.unary, .client, .server])

/-- The documented impossibilities of a feature set, stated on the *defaulted* values `f`:
client certificates without TLS; H2C declared but HTTP/2 not among the given versions; HTTP/3
without TLS; HTTP/2 with neither H2C nor TLS; gRPC without trailers or without HTTP/2;
full-duplex with neither HTTP/2 nor HTTP/3; half-duplex likewise unless declared for HTTP/1.1. -/
def Contradictory (fs : Features) (f : Sup) : Prop :=
  (f.certs = true ∧ f.tls = false) ∨
  (fs.versions ≠ [] ∧ fs.h2c = some true ∧ .v2 ∉ fs.versions) ∨
  (.v3 ∈ f.versions ∧ f.tls = false) ∨
  (.v2 ∈ f.versions ∧ f.h2c = false ∧ f.tls = false) ∨
  (.grpc ∈ fs.protocols ∧ f.trailers = false) ∨
  (.grpc ∈ fs.protocols ∧ .v2 ∉ f.versions) ∨
  (.full ∈ fs.sts ∧ .v2 ∉ f.versions ∧ .v3 ∉ f.versions) ∨
  (.half ∈ fs.sts ∧ .v2 ∉ f.versions ∧ .v3 ∉ f.versions ∧ f.halfH1 = false)

instance (fs : Features) (f : Sup) : Decidable (Contradictory fs f) := by
  unfold Contradictory; infer_instance

/-- whether the entry runs with TLS: given, or (omitted and) supported -/
def EntryTls (f : Sup) (e : Entry) : Prop := e.tls = some true ∨ (e.tls = none ∧ f.tls = true)

instance (f : Sup) (e : Entry) : Decidable (EntryTls f e) := by unfold EntryTls; infer_instance

/-- the versions an entry can range over -/
def entryVersions (f : Sup) (e : Entry) : List Ver := if e.v = .unspec then f.versions else [e.v]

/-- The documented impossibilities of an include/exclude entry relative to the features: HTTP/2
without TLS and without H2C; HTTP/3 without TLS; gRPC with no HTTP/2 to run on; half or full duplex
when only HTTP/1.1 is available (half: unless declared); client certificates *in use* with TLS
explicitly off or unsupported. -/
def EntryContradictory (f : Sup) (e : Entry) : Prop :=
  (e.v = .v2 ∧ ¬ EntryTls f e ∧ f.h2c = false) ∨
  (e.v = .v3 ∧ ¬ EntryTls f e) ∨
  (e.p = .grpc ∧ .v2 ∉ entryVersions f e) ∨
  (e.s = .half ∧ f.halfH1 = false ∧ entryVersions f e ≠ [] ∧ ∀ v ∈ entryVersions f e, v = .v1) ∨
  (e.s = .full ∧ entryVersions f e ≠ [] ∧ ∀ v ∈ entryVersions f e, v = .v1) ∨
  (e.certs = some true ∧ e.tls = some false) ∨
  (e.certs = some true ∧ e.tls = none ∧ f.tls = false)

instance (f : Sup) (e : Entry) : Decidable (EntryContradictory f e) := by
  unfold EntryContradictory; infer_instance

/-- The documented defaults as a function (docs/configuring_and_running_tests.md, "Features"),
written from the documentation, not from the code: see `Defaulted` for the relational form. -/
def defaults (fs : Features) : Sup :=
  let h2c := fs.h2c.getD true
  let tls := fs.tls.getD true
  let trailers := fs.trailers.getD true
  let halfH1 := fs.halfH1.getD false
  let versions := if fs.versions = [] then (if tls = true ∨ h2c = true then [.v1, .v2] else [.v1]) else fs.versions
  { versions := versions,
    protocols := if fs.protocols = [] then
        (if trailers = true ∧ .v2 ∈ versions then [.connect, .grpc, .grpcWeb] else [.connect, .grpcWeb])
      else fs.protocols,
    codecs := if fs.codecs = [] then [.proto, .json] else fs.codecs,
    comps := if fs.comps = [] then [.identity, .gzip] else fs.comps,
    sts := if fs.sts = [] then
        (if .v2 ∈ versions ∨ .v3 ∈ versions then [.unary, .client, .server, .half, .full]
         else if halfH1 = true then [.unary, .client, .server, .half] else [.unary, .client, .server])
      else fs.sts,
    h2c := h2c, tls := tls, certs := fs.certs.getD false, trailers := trailers, halfH1 := halfH1,
    get := fs.get.getD true, limit := fs.limit.getD true }

/-- Candidate universe for the brute-force evaluation of `Specified`: every case whose axis
values occur in the features' lists or are pinned by an include entry (all four Boolean axes
free). Enumerated in the order of `Case.code`. `specified_mem_candidates` shows that nothing
outside this universe can be specified. -/
def candidates (f : Sup) (inc : List Entry) : List Case :=
  (allVer.filter fun v => v ∈ f.versions ∨ ∃ e ∈ inc, e.v = v).flatMap fun v =>
  (allProto.filter fun p => p ∈ f.protocols ∨ ∃ e ∈ inc, e.p = p).flatMap fun p =>
  (allCodec.filter fun c => c ∈ f.codecs ∨ ∃ e ∈ inc, e.c = c).flatMap fun c =>
  (allComp.filter fun z => z ∈ f.comps ∨ ∃ e ∈ inc, e.z = z).flatMap fun z =>
  (allST.filter fun s => s ∈ f.sts ∨ ∃ e ∈ inc, e.s = s).flatMap fun s =>
  [false, true].flatMap fun t => [false, true].flatMap fun cc => [false, true].flatMap fun g =>
  [false, true].map fun l => (⟨v, p, c, z, s, t, cc, g, l, .unspec⟩ : Case)

/-- the specified set as a list (in `Case.code` order, without repetition) -/
def specSet (f : Sup) (inc exc : List Entry) : List Case :=
  (candidates f inc).filter fun k => decide (Specified f inc exc k)

/-- What the property demands of `parseConfig` on a configuration: an error when the features
or an entry are contradictory or the specified set is empty, otherwise exactly the specified set. -/
def Rejected (cfg : Config) : Prop :=
  Contradictory cfg.features (defaults cfg.features) ∨
  (∃ e ∈ cfg.includes ++ cfg.excludes, EntryContradictory (defaults cfg.features) e) ∨
  specSet (defaults cfg.features) cfg.includes cfg.excludes = []

instance (cfg : Config) : Decidable (Rejected cfg) := by unfold Rejected; infer_instance

end ConfModel.Config
