/-
Declarative side of C09: what a length-prefixed byte stream *means*, with no reader, no
caps and no loop over `Read` calls.  `frames` cuts a byte string into messages; `expected`
says what a peer reading that byte string must report, given how the stream ends.
-/
import ConfModel.Model.Delimited
namespace ConfModel.Framing
open ConfModel.Delimited

/-- how a byte string stops being a sequence of complete frames -/
inductive Tail
  | clean                       -- it ends between two messages
  | inPrefix (k : Nat)          -- it ends after `0 < k < 4` bytes of a length prefix
  | inBody (k size : Nat)       -- it ends after a prefix and `k < size` bytes of the message
  | tooLarge (size : Nat)       -- the next prefix announces more than the limit
  | more                        -- asked for no more messages
deriving DecidableEq, Repr

/-- cut `d` into at most `count` messages of at most `max` bytes each -/
def frames (max : Nat) : Nat → Bytes → List Bytes × Tail
  | 0, _ => ([], .more)
  | k+1, d =>
    if d.length = 0 then ([], .clean)
    else if d.length < 4 then ([], .inPrefix d.length)
    else
      let sz := be32 (d.take 4)
      if sz > max then ([], .tooLarge sz)
      else if d.length - 4 < sz then ([], .inBody (d.length - 4) sz)
      else
        let t := frames max k (d.drop (4 + sz))
        ((d.drop 4).take sz :: t.1, t.2)

/-- what a reader reports when the stream gives out `k` bytes into a unit of `expecting`
bytes (`prefixDone` = the unit is a message body, not a length prefix): a clean end only at
the very start of a prefix; a stalled peer yields the time-out with exactly this progress. -/
def endRes (e : Ending) (prefixDone : Bool) (k expecting : Nat) : Res :=
  match e with
  | .eofSeparate => if !prefixDone && k == 0 then .eof else .unexpectedEOF
  | .eofWithLastData => if !prefixDone && k == 0 then .eof else .unexpectedEOF
  | .fail => .fail
  | .stall => .timeout prefixDone k expecting

/-- what must be reported after the complete messages -/
def tailRes (e : Ending) : Tail → List Res
  | .more => []
  | .tooLarge sz => [.tooLarge sz]
  | .clean => [endRes e false 0 4]
  | .inPrefix k => [endRes e false k 4]
  | .inBody k sz => [endRes e true k sz]

/-- the sequence of results a reader of byte string `d` must produce (at most `count`
messages are asked for; reading stops at the first non-message) -/
def expected (max count : Nat) (d : Bytes) (e : Ending) : List Res :=
  let f := frames max count d
  f.1.map Res.msg ++ tailRes e f.2

/-- bytes taken from the stream by the time the last result is returned -/
def consumed (max : Nat) : Nat → Bytes → Nat
  | 0, _ => 0
  | k+1, d =>
    if d.length < 4 then d.length
    else
      let sz := be32 (d.take 4)
      if sz > max then 4
      else if d.length - 4 < sz then d.length
      else 4 + sz + consumed max k (d.drop (4 + sz))

/-- all messages fit the limit and a 32-bit prefix -/
def Fits (max : Nat) (msgs : List Bytes) : Prop :=
  ∀ m ∈ msgs, m.length ≤ max ∧ m.length < 4294967296

/-- an ending at which the peer's stream is closed (one of the two ways Go readers report it) -/
def Closes (e : Ending) : Prop := e = .eofSeparate ∨ e = .eofWithLastData

end ConfModel.Framing
