/-
Declarative side of C17: what "exactly the given body" is for a message and for a stream of
enveloped items, the inverse (`decodeStream`), and what "raw xor normal" means for a
sequence of handler operations.
-/
import ConfModel.Model.RawBody
namespace ConfModel.RawBodySpec
open ConfModel.RawBody

/-- the encoded payload of a definition: nothing when absent, else the data under the
requested compression (`none`: that compression does not exist) -/
def payloadOf (compress : Compress) (p : Option Contents) : Option Bytes :=
  match p with
  | none => some []
  | some c => match c.data with
    | none => some []
    | some d => compress c.compression d

/-- an item is well-formed when its flags fit a byte and its payload can be encoded -/
def itemOk (compress : Compress) (it : Item) : Bool :=
  it.flags ≤ 255 && (payloadOf compress it.payload).isSome

/-- the five prefix bytes — the given flags, the explicit length as given else the encoded
payload's length — followed by the encoded payload -/
def itemBytes (compress : Compress) (it : Item) : Bytes :=
  let p := (payloadOf compress it.payload).getD []
  UInt8.ofNat it.flags :: be32 (it.length.getD p.length) ++ p

/-- "exactly the given body" of a stream definition -/
def streamBytes (compress : Compress) (items : List Item) : Bytes := items.flatMap (itemBytes compress)

/-- the well-formed items in front of the first malformed one -/
def goodPrefix (compress : Compress) (items : List Item) : List Item := items.takeWhile (itemOk compress)

structure Frame where
  flags : Nat
  length : Nat
  payload : Bytes
deriving DecidableEq, Repr

def be32val (a b c d : UInt8) : Nat := a.toNat * 16777216 + b.toNat * 65536 + c.toNat * 256 + d.toNat

/-- envelope parser (5-byte prefix, then `length` bytes); `none` on a truncated stream.  The
fuel bounds the number of frames. -/
def decodeStreamF : Nat → Bytes → Option (List Frame)
  | _, [] => some []
  | 0, _ :: _ => none
  | f + 1, fl :: a :: b :: c :: d :: rest =>
    let n := be32val a b c d
    if rest.length < n then none
    else (decodeStreamF f (rest.drop n)).map (⟨fl.toNat, n, rest.take n⟩ :: ·)
  | _ + 1, _ => none

def decodeStream (bs : Bytes) : Option (List Frame) := decodeStreamF bs.length bs

/-- the frames a definition specifies -/
def framesOf (compress : Compress) (items : List Item) : List Frame :=
  items.map fun it =>
    let p := (payloadOf compress it.payload).getD []
    ⟨it.flags, it.length.getD p.length, p⟩

/-- explicit lengths, where given, are the true lengths; lengths fit a `uint32` -/
def lengthsHonest (compress : Compress) (items : List Item) : Bool :=
  items.all fun it =>
    let p := (payloadOf compress it.payload).getD []
    p.length < 4294967296 && (match it.length with | some n => n == p.length | none => true)

/-! ### arbitration -/

def evOf : Op → Option Ev
  | .write b => some (.body b)
  | .writeHeader c => some (.header c)
  | .flush => some .flush
  | .setRaw _ => none

def isHandler (o : Op) : Bool := (evOf o).isSome

def handlerEvents (ops : List Op) : List Ev := ops.filterMap evOf

def lastRaw : List Op → Option Raw
  | [] => none
  | .setRaw r :: t => (lastRaw t).or (some r)
  | _ :: t => lastRaw t

def rawEvents (r : Raw) : List Ev := [.header (if r.status == 0 then 200 else r.status), .body r.body]

/-- The wire is either exactly the handler's output or exactly the raw response: whichever
kind of operation comes first decides. -/
def wireSpec (ops : List Op) : List Ev :=
  match ops with
  | [] => []
  | o :: _ => if isHandler o then handlerEvents ops else (match lastRaw ops with | some r => rawEvents r | none => [])

def resultsSpec (ops : List Op) : List Res :=
  match ops with
  | [] => []
  | o :: _ =>
    if isHandler o then ops.map (fun x => if isHandler x then .passed else .refused)
    else ops.map (fun x => if isHandler x then .swallowed else .accepted)

/-! ### a given header whose name the stack in front of the raw responder uses as well -/

/-- "every given header with its values in order": the given values occur on the wire in the given
order (leftmost embedding); the result is what else the wire carries under that name -/
def residual : List String → List String → Option (List String)
  | w, [] => some w
  | [], _ :: _ => none
  | x :: w, g :: gs => if x == g then residual w gs else (residual w (g :: gs)).map (x :: ·)

/-- the wire carries the given values in order, and whatever else it carries under that name is
what the stack sends on its own (`base`: same exchange, definition without headers) - never
something else, never less than given -/
def givenHonoured (wire given base : List String) : Bool :=
  match residual wire given with
  | some rest => rest.all base.contains
  | none => false

end ConfModel.RawBodySpec
