import ConfModel.Driver.Common
namespace ConfModel.Driver.C01
open Lean ConfModel.Driver

def handle : Handler := fun op _inp _impl => bad ("C01: unknown op " ++ op)

end ConfModel.Driver.C01
