import ConfModel.Driver.Common
namespace ConfModel.Driver.C10
open Lean ConfModel.Driver

def handle : Handler := fun op _inp _impl => bad ("C10: unknown op " ++ op)

end ConfModel.Driver.C10
