/-
C15 layer 1 with the counters at their Go widths.

`Model/H2Frame.lean` counts in `Nat`.  `http2FrameTracer` (internal/tracer/http2.go) counts in

    expecting uint32   // h.expecting = h.header.Length (http2.FrameHeader.Length is a uint32
                       // filled from the 3 length bytes of the 9-byte frame header: < 2^24)
    actual    uint64   // payload bytes of the current frame seen so far

and computes `need := int(h.expecting - uint32(h.actual))`, `h.actual += uint64(len(data))`.
`FStW` / `fNeedW` / `fAbsorbW` / `fCompleteW` are the same machine, branch by branch, over
`UInt32` / `UInt64` with Go's wrapping `-`, `+` and conversions.  The frame length on the wire has
24 bits: a peer that raised SETTINGS_MAX_FRAME_SIZE may send frames of up to 2^24 - 1 bytes.
`Props.C15.frame_widths_simulate` shows that from the initial state, over any bytes cut in any way,
this machine and the `Nat` machine are in corresponding states and emit the same frames (no
counter wraps for any of the 2^24 lengths, `Props.C15.frame_need_no_wrap`); the widths are tied
to the source on every run (`Generated/C15Facts.lean`, reflection over the compiled struct types,
`Props.C15.frame_width_facts`).  Core Lean only.
-/
import ConfModel.Model.H2Frame
namespace ConfModel.H2

/-- bit widths the W-model is written for (compared with the regenerated facts) -/
def ftExpectingBits : Nat := 32
def ftActualBits : Nat := 64
/-- `http2.FrameHeader.Length` -/
def frameLengthBits : Nat := 32
/-- length bytes of a frame header on the wire (RFC 9113 §4.1) -/
def wireLengthBytes : Nat := 3

/-- state of one `http2FrameTracer`, counters at their widths -/
structure FStW (σ : Type) where
  isReq : Bool
  preface : Bytes
  broken : Bool
  pfx : Bytes
  typ : Nat
  flags : Nat
  buf : Bytes
  expecting : UInt32
  actual : UInt64
  hp : σ

def FStW.init {σ : Type} (isReq : Bool) (hp : σ) : FStW σ :=
  { isReq := isReq, preface := [], broken := false, pfx := [], typ := 0, flags := 0, buf := [],
    expecting := 0, actual := 0, hp := hp }

/-- the `Nat` state a width state stands for -/
def FStW.abs {σ : Type} (s : FStW σ) : FSt σ :=
  { isReq := s.isReq, preface := s.preface, broken := s.broken, pfx := s.pfx, typ := s.typ, flags := s.flags,
    buf := s.buf, expecting := s.expecting.toNat, actual := s.actual.toNat, hp := s.hp }

/-- `int(h.expecting - uint32(h.actual))` (`int` has 64 bits: the last conversion is exact) -/
def needPayloadW (expecting : UInt32) (actual : UInt64) : Nat := (expecting - actual.toUInt32).toNat

/-- `emitFrame` -/
def emitW {σ : Type} (dec : Bytes → σ → Option (Frame × σ)) (s : FStW σ) : FStW σ × List Frame :=
  if holdBlock s.typ s.flags then (s, [])
  else match dec s.buf s.hp with
    | none => ({ s with broken := true, buf := [] }, [])
    | some (f, hp') => ({ s with buf := [], hp := hp' }, [f])

abbrev InPrefaceW {σ : Type} (s : FStW σ) : Prop := s.isReq = true ∧ s.preface.length < prefaceLen

def fNeedW {σ : Type} (s : FStW σ) : Nat :=
  if InPrefaceW s then prefaceLen - s.preface.length
  else if s.expecting = 0 then frameHeaderLen - s.pfx.length
  else needPayloadW s.expecting s.actual

def fAbsorbW {σ : Type} (s : FStW σ) (d : Bytes) : FStW σ :=
  if InPrefaceW s then { s with preface := s.preface ++ d }
  else if s.expecting = 0 then { s with pfx := s.pfx ++ d }
  else { s with actual := s.actual + UInt64.ofNat d.length, buf := s.buf ++ d }

def fCompleteW {σ : Type} (dec : Bytes → σ → Option (Frame × σ)) (s : FStW σ) (d : Bytes) : FStW σ × List Frame :=
  if InPrefaceW s then
    if s.preface ++ d = clientPreface then ({ s with preface := s.preface ++ d }, [])
    else ({ s with preface := s.preface ++ d, broken := true }, [])
  else if s.expecting = 0 then
    -- traceHeaderLocked: `h.expecting = h.header.Length`; `if h.expecting == 0`
    let h := s.pfx ++ d
    let s1 : FStW σ := { s with pfx := [], typ := hdrTyp h, flags := hdrFlags h, buf := s.buf ++ h,
                                expecting := UInt32.ofNat (hdrLen h) }
    if s1.expecting = 0 then emitW dec s1 else (s1, [])
  else
    -- traceFrameLocked: `h.expecting = 0; h.actual = 0`
    emitW dec { s with buf := s.buf ++ d, expecting := 0, actual := 0 }

def frameMachineW {σ : Type} (dec : Bytes → σ → Option (Frame × σ)) : Machine (FStW σ) Frame :=
  { stopped := fun s => s.broken, need := fNeedW, absorb := fAbsorbW, complete := fCompleteW dec }

/-- one `trace(data)` call with the code's own arithmetic -/
def frameTraceW {σ : Type} (dec : Bytes → σ → Option (Frame × σ)) (s : FStW σ) (data : Bytes) : FStW σ × List Frame :=
  (frameMachineW dec).run s data

/-- the same machine if `expecting` had only 16 bits (what a narrowing of the field would do):
used for the witness `Props.C15.frame_narrow_expecting_wraps` only -/
def needPayload16 (len : Nat) (actual : UInt64) : Nat := (UInt16.ofNat len - actual.toUInt16).toNat

end ConfModel.H2
