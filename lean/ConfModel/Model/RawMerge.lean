/-
C17 — the two places where a raw definition is merged into something that already exists:

* `rawRequestSender.RoundTrip` (internal/app/referenceclient/raw_request.go): the request target.
  Without `raw_query_params` / `encoded_query_params` the given `uri` is used **verbatim**; with
  them the URI is parsed, the parameters are appended to the ones the URI carries
  (`vals[name] = append(vals[name], …)`), and the query is re-encoded with `url.Values.Encode`
  (keys sorted, values in order, `url.QueryEscape`).
* `rawResponseWriter.finish` (internal/app/referenceserver/raw_response.go): the response headers.
  Everything in the header map (whatever the handler set) is deleted, the snapshot taken before the
  handler ran (headers of earlier middleware, e.g. CORS) is restored, the given headers are *added*
  (`http.Header.Add`, canonical key), `Date` is suppressed and the trailer names are declared.

A Go `map[string][]T` (`url.Values`, `http.Header`) is an association list with distinct keys.
`url.Parse`/`URL.Query` and `textproto.CanonicalMIMEHeaderKey` are parameters.  Core Lean only.
-/
namespace ConfModel.RawMerge

abbrev Values (α : Type) := List (String × List α)

/-- `m[k]` (nil when absent) -/
def get {α : Type} : Values α → String → List α
  | [], _ => []
  | p :: rest, k => if p.1 == k then p.2 else get rest k

/-- `m[k] = append(m[k], vs...)` -/
def add {α : Type} : Values α → String → List α → Values α
  | [], k, vs => [(k, vs)]
  | p :: rest, k, vs => if p.1 == k then (p.1, p.2 ++ vs) :: rest else p :: add rest k vs

/-- `m[k] = vs` -/
def set {α : Type} : Values α → String → List α → Values α
  | [], k, vs => [(k, vs)]
  | p :: rest, k, vs => if p.1 == k then (p.1, vs) :: rest else p :: set rest k vs

def hasKey {α : Type} (m : Values α) (k : String) : Bool := m.any (·.1 == k)

/-- the keys of a Go map are distinct -/
def keysDistinct {α : Type} : Values α → Bool
  | [] => true
  | p :: rest => !hasKey rest p.1 && keysDistinct rest

/-- a list of (name, values) appended one after the other -/
def addAll {α : Type} (m : Values α) (ps : List (String × List α)) : Values α :=
  ps.foldl (fun m p => add m p.1 p.2) m

/-- all values listed for `k`, in order -/
def listed {α : Type} (ps : List (String × List α)) (k : String) : List α :=
  (ps.filter (·.1 == k)).flatMap (·.2)

/-! ### the request target -/

abbrev Bytes := List UInt8

def single (ps : List (String × Bytes)) : List (String × List Bytes) := ps.map fun p => (p.1, [p.2])

/-- `reqURL.Query()` (one `append` per pair of the URI's own query), then the raw parameters,
then the encoded ones -/
def mergeQuery (inline : List (String × Bytes)) (raw : List (String × List Bytes)) (enc : List (String × Bytes)) :
    Values Bytes :=
  addAll (addAll (addAll [] (single inline)) raw) (single enc)

def hexDigit (n : Nat) : Char := if n < 10 then Char.ofNat (48 + n) else Char.ofNat (55 + n)

/-- `url.QueryEscape`, byte by byte -/
def escByte (b : UInt8) : List Char :=
  let n := b.toNat
  if (48 ≤ n && n ≤ 57) || (65 ≤ n && n ≤ 90) || (97 ≤ n && n ≤ 122) || n == 45 || n == 95 || n == 46 || n == 126 then
    [Char.ofNat n]
  else if n == 32 then ['+']
  else ['%', hexDigit (n / 16), hexDigit (n % 16)]

def queryEscape (bs : Bytes) : String := String.ofList (bs.flatMap escByte)

def insertKey (k : String) : List String → List String
  | [] => [k]
  | x :: xs => if k < x then k :: x :: xs else x :: insertKey k xs

def sortedKeys {α : Type} (m : Values α) : List String := m.foldl (fun acc p => insertKey p.1 acc) []

/-- `url.Values.Encode` -/
def encode (m : Values Bytes) : String :=
  "&".intercalate ((sortedKeys m).flatMap fun k =>
    (get m k).map fun v => queryEscape k.toUTF8.toList ++ "=" ++ queryEscape v)

/-- the request target `RoundTrip` asks the transport for.  `parse uri` is (`URL` without its
query rendered again, the pairs of `URL.Query()`). -/
def requestTarget (parse : String → String × List (String × Bytes)) (uri : String)
    (raw : List (String × List Bytes)) (enc : List (String × Bytes)) : String :=
  if raw.isEmpty && enc.isEmpty then uri
  else
    let (base, inline) := parse uri
    let q := encode (mergeQuery inline raw enc)
    if q == "" then base else base ++ "?" ++ q

/-! ### the response headers -/

/-- `for k := range h { delete(h, k) }` -/
def clear {α : Type} (_ : Values α) : Values α := []

/-- `for k, v := range snapshot { h[k] = v }` -/
def restore {α : Type} (m snap : Values α) : Values α := snap.foldl (fun m p => set m p.1 p.2) m

/-- `finish`, header part: `cur` is the header map when the handler has returned, `snap` the
snapshot taken before it ran. -/
def finishHeaders (canon : String → String) (cur snap : Values String)
    (given trailers : List (String × List String)) : Values String :=
  let h := restore (clear cur) snap
  let h := addAll h (given.map fun p => (canon p.1, p.2))
  let h := set h "Date" []
  addAll h (trailers.map fun t => ("Trailer", [t.1]))

end ConfModel.RawMerge
