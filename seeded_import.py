#!/usr/bin/env python3
"""Imports a seeded regression produced by an independent sub-agent: verifies in a scratch worktree
of /repo that (a) the patch applies, compiles and the full unit-test suite passes with it, (b) the
demonstration fails with it and passes without it; then stores patch.diff, the demonstration and
meta.json under seeded/<id>/.  Usage: seeded_import.py <out-dir> <seed-id>"""
import sys, os, json, subprocess, shutil
VERIF = os.path.dirname(os.path.abspath(__file__))
ENV = dict(os.environ, GOFLAGS="-mod=mod", GOPROXY="off", GOSUMDB="off", GOTOOLCHAIN="local")
def sh(cmd, cwd):
    p = subprocess.run(cmd, shell=True, cwd=cwd, env=ENV, capture_output=True, text=True, errors="replace", timeout=1800)
    return p.returncode, (p.stdout + p.stderr)[-1500:]
def main():
    src, sid = sys.argv[1], sys.argv[2]
    meta = json.load(open(os.path.join(src, "meta.json")))
    wt = f"/tmp/mutverify-{sid}"
    subprocess.run(["git", "-C", "/repo", "worktree", "remove", "--force", wt], capture_output=True)
    subprocess.run(["git", "-C", "/repo", "worktree", "add", "-q", "--detach", wt, "HEAD"], check=True)
    try:
        demo_files = [f for f in os.listdir(src) if f not in ("patch.diff", "meta.json")]
        demo_path = meta.get("demo_path")
        def place():
            for f in demo_files:
                dst = os.path.join(wt, demo_path if (demo_path and len(demo_files) == 1) else os.path.join(os.path.dirname(demo_path or ""), f))
                os.makedirs(os.path.dirname(dst), exist_ok=True)
                shutil.copy(os.path.join(src, f), dst)
        v = {}
        rc, out = sh(f"git apply {os.path.join(src, 'patch.diff')}", wt); v["applies"] = rc == 0
        rc, out = sh("go build ./... && go test -vet=off -count=1 ./...", wt); v["suite_passes_with_change"] = rc == 0; v["suite_tail"] = out[-300:]
        place()
        rc, out = sh(meta["demo_cmd"], wt); v["demo_fails_with_change"] = rc != 0; v["demo_with_tail"] = out[-400:]
        sh("git checkout -- . ", wt)
        place()
        rc, out = sh(meta["demo_cmd"], wt); v["demo_passes_without_change"] = rc == 0; v["demo_without_tail"] = out[-300:]
        ok = all(v[k] for k in ("applies", "suite_passes_with_change", "demo_fails_with_change", "demo_passes_without_change"))
        print(json.dumps({k: v[k] for k in v if not k.endswith("tail")}), "OK" if ok else "REJECTED")
        if not ok:
            print(json.dumps(v, indent=1)); return 1
        dst = os.path.join(VERIF, "seeded", sid)
        os.makedirs(dst, exist_ok=True)
        for f in os.listdir(src):
            shutil.copy(os.path.join(src, f), os.path.join(dst, f))
        meta["verified"] = {k: v[k] for k in v if not k.endswith("tail")}
        meta["verified"]["commands"] = ["git apply patch.diff", "go build ./... && go test -vet=off -count=1 ./...", meta["demo_cmd"] + " (with the change: fails; without: passes)"]
        meta["base_commit"] = subprocess.run(["git", "-C", "/repo", "rev-parse", "--short", "HEAD"], capture_output=True, text=True).stdout.strip()
        json.dump(meta, open(os.path.join(dst, "meta.json"), "w"), indent=1)
        return 0
    finally:
        subprocess.run(["git", "-C", "/repo", "worktree", "remove", "--force", wt], capture_output=True)
if __name__ == "__main__":
    sys.exit(main())
