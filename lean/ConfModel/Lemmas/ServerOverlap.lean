import ConfModel.Model.ServerOverlap
namespace ConfModel.ServerOverlap
open ConfModel.ServerChecks

theorem prints_map_print (l : List Fb) : prints (l.map .print) = l := by
  induction l with
  | nil => rfl
  | cons a t ih => simp [prints, ih]

theorem prints_append (a b : List Act) : prints (a ++ b) = prints a ++ prints b := by
  induction a with
  | nil => rfl
  | cons x t ih => cases x <;> simp [prints, ih]

theorem prints_program (count : Nat) (r : Req) : prints (program count r) = preFb count r ++ postFb r := by
  simp [program, prints_append, prints, prints_map_print]

theorem checks_feedback_split (count : Nat) (r : Req) (hn : testName r ≠ "") :
    (checks count r).feedback = preFb count r ++ postFb r := by
  simp [checks, hn, preFb, postFb, List.append_assoc]

theorem run_append (reqs : List Req) (s : Srv) (a b : List Ev) :
    run reqs s (a ++ b) = ((run reqs (run reqs s a).1 b).1, (run reqs s a).2 ++ (run reqs (run reqs s a).1 b).2) := by
  induction a generalizing s with
  | nil => simp [run]
  | cons e es ih =>
    simp only [List.cons_append, run]
    rw [ih]
    simp [List.append_assoc]

/-! ### frames keep the name of their own request -/

def FramesOK (reqs : List Req) (s : Srv) : Prop :=
  ∀ f ∈ s.frames, ∃ r, reqs[f.id]? = some r ∧ f.name = testName r

theorem mem_advance {i : Nat} {fs : List Frame} {g : Frame} (h : g ∈ advance i fs) :
    ∃ f ∈ fs, g.id = f.id ∧ g.name = f.name := by
  induction fs with
  | nil => simp [advance] at h
  | cons f t ih =>
    simp only [advance, List.mem_cons] at h
    rcases h with rfl | h
    · refine ⟨f, List.mem_cons_self, ?_⟩
      by_cases hi : (f.id == i) = true <;> simp [hi]
    · obtain ⟨f', hf', h1, h2⟩ := ih h
      exact ⟨f', List.mem_cons_of_mem _ hf', h1, h2⟩

theorem framesOK_advance (reqs : List Req) (s : Srv) (i : Nat) (h : FramesOK reqs s) :
    FramesOK reqs { s with frames := advance i s.frames } := by
  intro g hg
  obtain ⟨f, hf, h1, h2⟩ := mem_advance hg
  obtain ⟨r, hr, hn⟩ := h f hf
  exact ⟨r, by rw [h1]; exact hr, by rw [h2]; exact hn⟩

theorem find_id {fs : List Frame} {i : Nat} {f : Frame} (h : fs.find? (·.id == i) = some f) : f.id = i := by
  have := List.find?_some h
  simpa using this

theorem stepSrv_ok (reqs : List Req) (s : Srv) (e : Ev) (h : FramesOK reqs s) :
    FramesOK reqs (stepSrv reqs s e).1 ∧
    ∀ l ∈ (stepSrv reqs s e).2, ∃ r, reqs[l.id]? = some r ∧ l.name = testName r := by
  cases e with
  | arrive i =>
    simp only [stepSrv]
    cases hr : reqs[i]? with
    | none => exact ⟨h, by simp⟩
    | some r =>
      simp only
      by_cases hf : hasFrame s i = true
      · simp only [hf, if_true]; exact ⟨h, by simp⟩
      · simp only [hf, Bool.false_eq_true, if_false]
        by_cases hn : (testName r == "") = true
        · simp only [hn, if_true]; exact ⟨h, by simp⟩
        · simp only [hn, Bool.false_eq_true, if_false]
          refine ⟨?_, by simp⟩
          intro f hfm
          simp only [List.mem_cons] at hfm
          rcases hfm with rfl | hfm
          · exact ⟨r, hr, rfl⟩
          · exact h f hfm
  | step i =>
    simp only [stepSrv]
    cases hf : s.frames.find? (·.id == i) with
    | none => exact ⟨h, by simp⟩
    | some f =>
      simp only
      have hid := find_id hf
      have hmem : f ∈ s.frames := List.mem_of_find?_eq_some hf
      cases ht : f.todo with
      | nil => exact ⟨h, by simp⟩
      | cons a rest =>
        cases a with
        | handler => exact ⟨framesOK_advance reqs s i h, by simp⟩
        | print fb =>
          refine ⟨framesOK_advance reqs s i h, ?_⟩
          intro l hl
          simp only [List.mem_singleton] at hl
          subst hl
          obtain ⟨r, hr, hn⟩ := h f hmem
          exact ⟨r, by simpa [hid] using hr, hn⟩

theorem run_ok (reqs : List Req) (s : Srv) (es : List Ev) (h : FramesOK reqs s) :
    ∀ l ∈ (run reqs s es).2, ∃ r, reqs[l.id]? = some r ∧ l.name = testName r := by
  induction es generalizing s with
  | nil => simp [run]
  | cons e es ih =>
    intro l hl
    simp only [run, List.mem_append] at hl
    obtain ⟨h1, h2⟩ := stepSrv_ok reqs s e h
    rcases hl with hl | hl
    · exact h2 l hl
    · exact ih _ h1 l hl

/-! ### the lines of one request -/

theorem find_advance_ne {i j : Nat} (hij : j ≠ i) (fs : List Frame) :
    (advance j fs).find? (·.id == i) = fs.find? (·.id == i) := by
  induction fs with
  | nil => rfl
  | cons f t ih =>
    simp only [advance, List.find?_cons]
    by_cases hj : (f.id == j) = true
    · have hne : (f.id == i) = false := by
        have : f.id = j := by simpa using hj
        simp [this, hij]
      simp only [hj, if_true, hne, ih]
    · by_cases hi : (f.id == i) = true
      · simp only [hj, Bool.false_eq_true, if_false, hi]
      · simp only [hj, Bool.false_eq_true, if_false, hi, ih]

theorem find_advance_eq {i : Nat} (fs : List Frame) :
    (advance i fs).find? (·.id == i) = (fs.find? (·.id == i)).map (fun f => { f with todo := f.todo.tail }) := by
  induction fs with
  | nil => rfl
  | cons f t ih =>
    simp only [advance, List.find?_cons]
    by_cases hi : (f.id == i) = true
    · simp only [hi, if_true, Option.map_some]
    · simp only [hi, Bool.false_eq_true, if_false, ih]

theorem hasFrame_iff (s : Srv) (i : Nat) : hasFrame s i = (s.frames.find? (·.id == i)).isSome := by
  unfold hasFrame
  induction s.frames with
  | nil => rfl
  | cons a t ih =>
    simp only [List.any_cons, List.find?_cons]
    cases (a.id == i) <;> simp [ih]

/-- a request that has not arrived prints nothing, whatever the others do -/
theorem run_noframe (reqs : List Req) (i : Nat) (es : List Ev) (s : Srv)
    (hf : s.frames.find? (·.id == i) = none) (ha : Ev.arrive i ∉ es) :
    linesOf i (run reqs s es).2 = [] ∧ (run reqs s es).1.frames.find? (·.id == i) = none ∧
    ((run reqs s es).1.frames = [] → s.frames = []) := by
  induction es generalizing s with
  | nil => simp [run, linesOf, hf]
  | cons e es ih =>
    simp only [List.mem_cons, not_or] at ha
    obtain ⟨hne, ha⟩ := ha
    simp only [run]
    have key : linesOf i (stepSrv reqs s e).2 = [] ∧ (stepSrv reqs s e).1.frames.find? (·.id == i) = none ∧
        ((stepSrv reqs s e).1.frames = [] → s.frames = []) := by
      cases e with
      | arrive j =>
        have hji : j ≠ i := fun h => hne (by rw [h])
        simp only [stepSrv]
        cases hr : reqs[j]? with
        | none => simp [linesOf, hf]
        | some r =>
          simp only
          by_cases h1 : hasFrame s j = true
          · simp [h1, linesOf, hf]
          · simp only [h1, Bool.false_eq_true, if_false]
            by_cases hn : (testName r == "") = true
            · simp [hn, linesOf, hf]
            · simp only [hn, Bool.false_eq_true, if_false]
              refine ⟨by simp [linesOf], ?_, by simp⟩
              simp [List.find?_cons, hji, hf]
      | step j =>
        simp only [stepSrv]
        cases hfj : s.frames.find? (·.id == j) with
        | none => simp [linesOf, hf]
        | some f =>
          have hji : j ≠ i := by
            intro h; subst h; rw [hf] at hfj; cases hfj
          have hadv : (advance j s.frames).find? (·.id == i) = none := by
            rw [find_advance_ne hji]; exact hf
          have hnil : advance j s.frames = [] → s.frames = [] := by
            intro h
            cases hfs : s.frames with
            | nil => rfl
            | cons a t => rw [hfs] at h; simp [advance] at h
          simp only
          cases ht : f.todo with
          | nil => simp [linesOf, hf]
          | cons a rest =>
            cases a with
            | handler => exact ⟨by simp [linesOf], hadv, hnil⟩
            | print fb => exact ⟨by simp [linesOf, hji], hadv, hnil⟩
    obtain ⟨k1, k2, k3⟩ := key
    obtain ⟨i1, i2, i3⟩ := ih (stepSrv reqs s e).1 k2 ha
    refine ⟨?_, i2, fun h => k3 (i3 h)⟩
    simp only [linesOf, List.filter_append] at k1 i1 ⊢
    rw [k1, i1]; rfl

theorem prints_take_succ_print (fb : Fb) (rest : List Act) (k : Nat) :
    prints ((Act.print fb :: rest).take (k + 1)) = fb :: prints (rest.take k) := by
  simp [prints]

theorem prints_take_succ_handler (rest : List Act) (k : Nat) :
    prints ((Act.handler :: rest).take (k + 1)) = prints (rest.take k) := by
  simp [prints]

/-- an arrived request prints its own program, as far as it has been scheduled, under its own
name - whatever the other requests do in between -/
theorem run_frame (reqs : List Req) (i : Nat) (es : List Ev) (s : Srv) (f : Frame)
    (hf : s.frames.find? (·.id == i) = some f) :
    linesOf i (run reqs s es).2 = (prints (f.todo.take (stepsOf i es))).map (fun fb => { id := i, name := f.name, fb := fb }) ∧
    (run reqs s es).1.frames.find? (·.id == i) = some { f with todo := f.todo.drop (stepsOf i es) } := by
  induction es generalizing s f with
  | nil => simp [run, linesOf, stepsOf, prints, hf]
  | cons e es ih =>
    simp only [run]
    cases e with
    | arrive j =>
      have hsteps : stepsOf i (Ev.arrive j :: es) = stepsOf i es := by simp [stepsOf]
      rw [hsteps]
      have key : linesOf i (stepSrv reqs s (.arrive j)).2 = [] ∧
          (stepSrv reqs s (.arrive j)).1.frames.find? (·.id == i) = some f := by
        simp only [stepSrv]
        cases hr : reqs[j]? with
        | none => simp [linesOf, hf]
        | some r =>
          simp only
          by_cases h1 : hasFrame s j = true
          · simp [h1, linesOf, hf]
          · simp only [h1, Bool.false_eq_true, if_false]
            by_cases hn : (testName r == "") = true
            · simp [hn, linesOf, hf]
            · simp only [hn, Bool.false_eq_true, if_false]
              have hji : j ≠ i := by
                intro h; subst h
                rw [hasFrame_iff, hf] at h1; simp at h1
              refine ⟨by simp [linesOf], ?_⟩
              simp [List.find?_cons, hji, hf]
      obtain ⟨k1, k2⟩ := key
      obtain ⟨i1, i2⟩ := ih _ f k2
      refine ⟨?_, i2⟩
      simp only [linesOf, List.filter_append] at k1 i1 ⊢
      rw [k1, i1]; rfl
    | step j =>
      by_cases hji : j = i
      · subst hji
        have hsteps : stepsOf j (Ev.step j :: es) = stepsOf j es + 1 := by simp [stepsOf]
        rw [hsteps]
        simp only [stepSrv, hf]
        cases ht : f.todo with
        | nil =>
          simp only
          obtain ⟨i1, i2⟩ := ih s f hf
          rw [ht] at i1 i2
          simp only [List.nil_append]
          refine ⟨by simpa [prints] using i1, by simpa using i2⟩
        | cons a rest =>
          have hadv : (advance j s.frames).find? (·.id == j) = some { f with todo := rest } := by
            rw [find_advance_eq, hf]; simp [ht]
          cases a with
          | handler =>
            simp only
            obtain ⟨i1, i2⟩ := ih { s with frames := advance j s.frames } _ hadv
            simp only [List.nil_append]
            refine ⟨?_, ?_⟩
            · rw [i1, prints_take_succ_handler]
            · rw [i2]; simp
          | print fb =>
            simp only
            obtain ⟨i1, i2⟩ := ih { s with frames := advance j s.frames } _ hadv
            refine ⟨?_, ?_⟩
            · simp only [linesOf, List.filter_append] at i1 ⊢
              rw [i1, prints_take_succ_print]
              simp
            · rw [i2]; simp
      · have hsteps : stepsOf i (Ev.step j :: es) = stepsOf i es := by
          have : (Ev.step j == Ev.step i) = false := by simp [hji]
          simp [stepsOf, List.filter_cons, this]
        rw [hsteps]
        have key : linesOf i (stepSrv reqs s (.step j)).2 = [] ∧
            (stepSrv reqs s (.step j)).1.frames.find? (·.id == i) = some f := by
          simp only [stepSrv]
          cases hfj : s.frames.find? (·.id == j) with
          | none => simp [linesOf, hf]
          | some g =>
            have hadv : (advance j s.frames).find? (·.id == i) = some f := by
              rw [find_advance_ne hji]; exact hf
            simp only
            cases ht : g.todo with
            | nil => simp [linesOf, hf]
            | cons a rest =>
              cases a with
              | handler => exact ⟨by simp [linesOf], hadv⟩
              | print fb => exact ⟨by simp [linesOf, hji], hadv⟩
        obtain ⟨k1, k2⟩ := key
        obtain ⟨i1, i2⟩ := ih _ f k2
        refine ⟨?_, i2⟩
        simp only [linesOf, List.filter_append] at k1 i1 ⊢
        rw [k1, i1]; rfl

/-- the counter: every accepted arrival is counted once -/
theorem run_calls_noarrive (reqs : List Req) (es : List Ev) (s : Srv) (h : ∀ j, Ev.arrive j ∉ es) :
    (run reqs s es).1.calls = s.calls := by
  induction es generalizing s with
  | nil => rfl
  | cons e es ih =>
    simp only [run]
    have hes : ∀ j, Ev.arrive j ∉ es := fun j hj => h j (List.mem_cons_of_mem _ hj)
    rw [ih _ hes]
    cases e with
    | arrive j => exact absurd (List.mem_cons_self) (h j)
    | step j =>
      simp only [stepSrv]
      cases s.frames.find? (·.id == j) with
      | none => rfl
      | some f =>
        simp only
        cases f.todo with
        | nil => rfl
        | cons a rest => cases a <;> rfl

theorem mem_advance_id {i : Nat} {fs : List Frame} {g : Frame} (h : g ∈ advance i fs) : ∃ f ∈ fs, g.id = f.id := by
  obtain ⟨f, hf, h1, _⟩ := mem_advance h
  exact ⟨f, hf, h1⟩

/-- the counter holds exactly the requests let in so far, each once -/
theorem run_calls (reqs : List Req) (es : List Ev) (s : Srv)
    (hfr : ∀ f ∈ s.frames, Ev.arrive f.id ∉ es) (hon : arrivesOnce es = true) :
    (run reqs s es).1.calls = (arrivalNames reqs es).reverse ++ s.calls := by
  induction es generalizing s with
  | nil => simp [run, arrivalNames]
  | cons e es ih =>
    simp only [run]
    cases e with
    | arrive j =>
      simp only [arrivesOnce, Bool.and_eq_true, Bool.not_eq_true', List.contains_eq_mem,
        decide_eq_false_iff_not] at hon
      obtain ⟨hj, hon⟩ := hon
      have hfr' : ∀ f ∈ s.frames, Ev.arrive f.id ∉ es := fun f hf h => hfr f hf (List.mem_cons_of_mem _ h)
      have hno : hasFrame s j = false := by
        simp only [hasFrame, List.any_eq_false, beq_iff_eq]
        intro f hf hid
        exact hfr f hf (by rw [hid]; exact List.mem_cons_self)
      simp only [stepSrv, arrivalNames]
      cases hr : reqs[j]? with
      | none => simp only; exact ih s hfr' hon
      | some q =>
        simp only [hno, Bool.false_eq_true, if_false]
        by_cases hn : (testName q == "") = true
        · simp only [hn, if_true]; exact ih s hfr' hon
        · simp only [hn, Bool.false_eq_true, if_false]
          rw [ih]
          · simp
          · intro f hf
            simp only [List.mem_cons] at hf
            rcases hf with rfl | hf
            · exact hj
            · exact hfr' f hf
          · exact hon
    | step j =>
      have hfr' : ∀ f ∈ s.frames, Ev.arrive f.id ∉ es := fun f hf h => hfr f hf (List.mem_cons_of_mem _ h)
      have hon' : arrivesOnce es = true := by simpa [arrivesOnce] using hon
      have hadv : ∀ f ∈ advance j s.frames, Ev.arrive f.id ∉ es := by
        intro g hg
        obtain ⟨f, hf, hid⟩ := mem_advance_id hg
        rw [hid]; exact hfr' f hf
      simp only [stepSrv, arrivalNames]
      cases hf : s.frames.find? (·.id == j) with
      | none => exact ih s hfr' hon'
      | some f =>
        simp only
        cases ht : f.todo with
        | nil => exact ih s hfr' hon'
        | cons a rest =>
          cases a with
          | handler => exact ih { s with frames := advance j s.frames } hadv hon'
          | print fb => exact ih { s with frames := advance j s.frames } hadv hon'

theorem countOf_reverse (l : List String) (n : String) : countOf l.reverse n = countOf l n := by
  simp [countOf, List.filter_reverse]

end ConfModel.ServerOverlap
