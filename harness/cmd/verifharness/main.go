// Command verifharness drives the real code of connectrpc/conformance (built from the
// current working tree, tag verif, through a -overlay) on generated inputs and writes
// one JSON line per input: {"op","in","impl"}.  The Lean driver judges the lines.
package main

import (
	"flag"
	"fmt"
	"os"
	"sort"
	"strconv"

	"connectrpc.com/conformance/internal/verifharness/gen"
)

var areas = map[string]func(c *gen.Ctx) error{}

// rawCommands are sub-commands with their own argument handling (helper processes such as
// wrapped peers); they receive os.Args[2:] and return the exit status.
var rawCommands = map[string]func(args []string) int{}

func main() {
	if len(os.Args) < 2 {
		var names []string
		for k := range areas {
			names = append(names, k)
		}
		sort.Strings(names)
		fmt.Fprintln(os.Stderr, "usage: verifharness <area> [--seed N] [--tier quick|thorough] [--out file] [--stats file] [--replay file]; areas:", names)
		os.Exit(2)
	}
	area := os.Args[1]
	if rc, ok := rawCommands[area]; ok {
		os.Exit(rc(os.Args[2:]))
	}
	fs := flag.NewFlagSet(area, flag.ExitOnError)
	seed := fs.Uint64("seed", 1, "seed")
	tier := fs.String("tier", "quick", "tier")
	out := fs.String("out", "", "output file (default stdout)")
	stats := fs.String("stats", "", "generator statistics file")
	replay := fs.String("replay", "", "replay file")
	work := fs.String("work", "", "scratch dir")
	repo := fs.String("repo", "/repo", "repository dir")
	bin := fs.String("bin", "", "dir with binaries built from the tree")
	fs.Parse(os.Args[2:])
	if s := os.Getenv("VERIF_SEED"); s != "" && !isSet(fs, "seed") {
		if v, err := strconv.ParseUint(s, 10, 64); err == nil {
			*seed = v
		}
	}
	fn, ok := areas[area]
	if !ok {
		fmt.Fprintln(os.Stderr, "unknown area", area)
		os.Exit(2)
	}
	w := os.Stdout
	if *out != "" {
		f, err := os.Create(*out)
		if err != nil {
			fmt.Fprintln(os.Stderr, err)
			os.Exit(2)
		}
		defer f.Close()
		w = f
	}
	e := gen.NewEmitter(w)
	c := &gen.Ctx{Area: area, Seed: *seed, Tier: *tier, R: gen.NewRand(*seed), E: e, WorkDir: *work, RepoDir: *repo, Replay: *replay, BinDir: *bin}
	var err error
	if *replay != "" {
		err = c.ReplayFile(*replay)
	} else {
		err = fn(c)
	}
	e.Flush()
	if *stats != "" {
		e.WriteStats(*stats)
	}
	if err != nil {
		fmt.Fprintln(os.Stderr, "harness error:", err)
		os.Exit(3)
	}
}

func isSet(fs *flag.FlagSet, name string) bool {
	set := false
	fs.Visit(func(f *flag.Flag) {
		if f.Name == name {
			set = true
		}
	})
	return set
}
