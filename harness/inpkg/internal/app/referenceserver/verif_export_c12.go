//go:build verif

package referenceserver

import (
	"bytes"
	"context"
	"fmt"
	"net/http"
	"net/http/httptest"
	"sync"
	"time"

	"connectrpc.com/conformance/internal"
	conformancev1 "connectrpc.com/conformance/internal/gen/proto/go/connectrpc/conformance/v1"
	"connectrpc.com/conformance/internal/tracer"
)

// VerifC12Line is one message the code under test sent to its printer.
type VerifC12Line struct {
	Prefixed bool   // PrefixPrintf was used
	Prefix   string // its prefix (the test case name for feedback)
	Msg      string
}

type verifC12Printer struct {
	mu    sync.Mutex
	lines []VerifC12Line
}

func (p *verifC12Printer) Printf(msg string, args ...any) {
	p.mu.Lock()
	defer p.mu.Unlock()
	p.lines = append(p.lines, VerifC12Line{Msg: fmt.Sprintf(msg, args...)})
}

func (p *verifC12Printer) PrefixPrintf(prefix, msg string, args ...any) {
	p.mu.Lock()
	defer p.mu.Unlock()
	p.lines = append(p.lines, VerifC12Line{Prefixed: true, Prefix: prefix, Msg: fmt.Sprintf(msg, args...)})
}

func (p *verifC12Printer) take() []VerifC12Line {
	p.mu.Lock()
	defer p.mu.Unlock()
	out := p.lines
	p.lines = nil
	return out
}

// verifC12TimeoutMs is what createRequestInfo echoes for a context produced by
// contextWithTimeout (the path referenceServerChecks -> handler -> createRequestInfo).
func verifC12TimeoutMs(ctx context.Context) *int64 {
	return createRequestInfo(ctx, http.Header{}, nil, nil).TimeoutMs
}

// VerifC12ExtractTimeout calls extractTimeout on h (which it may modify) and, when a timeout
// was accepted, pushes it through contextWithTimeout / createRequestInfo.
func VerifC12ExtractTimeout(h http.Header, protocol int32, testName string) (d time.Duration, ok bool, lines []VerifC12Line, echoedMs *int64) {
	p := &verifC12Printer{}
	d, ok = extractTimeout(h, conformancev1.Protocol(protocol), &feedbackPrinter{p: p, testCaseName: testName})
	if ok {
		echoedMs = verifC12TimeoutMs(contextWithTimeout(context.Background(), d))
	}
	return d, ok, p.take(), echoedMs
}

// VerifC12Server is one instance of the handler returned by referenceServerChecks around a
// recording inner handler.
type VerifC12Server struct {
	p       *verifC12Printer
	stderr  *bytes.Buffer // non-nil: the checks print through internal.NewPrinter into this buffer
	handler http.Handler
	called  bool
	seen    http.Header
	ms      *int64
}

// VerifC12Obs is what one request produced.
type VerifC12Obs struct {
	Lines     []VerifC12Line
	Called    bool        // the inner handler ran
	Seen      http.Header // headers the inner handler saw
	TimeoutMs *int64      // RequestInfo.timeout_ms the inner handler would echo
	Status    int
	// ErrorResponse: the response carries an error (HTTP status other than 200, a non-zero
	// Grpc-Status in headers for the gRPC protocols, or a body - the Connect end-stream error -
	// although the inner handler, which writes none, did not run)
	ErrorResponse bool
	// Stderr: for a server made by VerifC12NewServerStderr, the bytes the request made the checks
	// write to the "stderr" stream (Lines is empty then)
	Stderr string
}

func VerifC12NewServer() *VerifC12Server { return verifC12NewServer(false, false) }

// VerifC12NewServerOpts: stderr as VerifC12NewServerStderr; traced: the handler is wrapped the
// way createServer wraps it when the server was given a tracer - tracer.TracingHandler AROUND
// referenceServerChecks, so the checks see the tracer's request (clone, traced body).
func VerifC12NewServerOpts(stderr, traced bool) *VerifC12Server {
	return verifC12NewServer(stderr, traced)
}

// VerifC12NewServerStderr is VerifC12NewServer with the printer the real process uses:
// internal.NewPrinter around the stderr stream (run() in server.go), here a buffer. What the
// checks report is then only observable the way the runner observes it: as bytes of that stream.
func VerifC12NewServerStderr() *VerifC12Server { return verifC12NewServer(true, false) }

func verifC12NewServer(stderr, traced bool) *VerifC12Server {
	s := &VerifC12Server{p: &verifC12Printer{}}
	var printer internal.Printer = s.p
	if stderr {
		s.stderr = &bytes.Buffer{}
		printer = internal.NewPrinter(s.stderr)
	}
	inner := http.HandlerFunc(func(w http.ResponseWriter, req *http.Request) {
		s.called = true
		s.seen = req.Header.Clone()
		s.ms = verifC12TimeoutMs(req.Context())
		w.WriteHeader(http.StatusOK)
	})
	s.handler = referenceServerChecks(inner, printer)
	if traced {
		s.handler = tracer.TracingHandler(s.handler, &tracer.Tracer{})
	}
	return s
}

func (s *VerifC12Server) Serve(req *http.Request) VerifC12Obs {
	s.called, s.seen, s.ms = false, nil, nil
	rec := httptest.NewRecorder()
	s.handler.ServeHTTP(rec, req)
	gs := rec.Header().Get("Grpc-Status")
	obs := VerifC12Obs{Lines: s.p.take(), Called: s.called, Seen: s.seen, TimeoutMs: s.ms, Status: rec.Code,
		ErrorResponse: rec.Code != http.StatusOK || (gs != "" && gs != "0") || rec.Body.Len() > 0}
	if s.stderr != nil {
		obs.Stderr = s.stderr.String()
		s.stderr.Reset()
	}
	return obs
}
