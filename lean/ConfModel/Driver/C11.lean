/-
C11 driver.  One line = one fault script of a server batch plus what the real
`runTestCasesForServer` did on it.

`agree` := outcome class per name, abort count, forwarded lines and side-band records equal the
           model's (`ServerRunner.runBatch`, the function the theorems are about);
`holds` := the property's predicates from `Spec/ServerRunner.lean` on the implementation's output:
           returned in time, exactly the batch names have an outcome, `expectedOK` for every case,
           `stoppedOK`, forwarded = `expectForwarded`, side-band = last `expectRecords` per name.
-/
import ConfModel.Driver.Common
import ConfModel.Driver.OSCmd
import ConfModel.Driver.C11InProc
import ConfModel.Driver.C11Wire
import ConfModel.Spec.ServerRunner
namespace ConfModel.Driver.C11
open Lean ConfModel.Driver ConfModel.ServerRunner

def parseKind (k : String) : Option Kind :=
  match k with
  | "pass" => some .pass | "mismatch" => some .mismatch | "error" => some .error
  | "neither" => some .neither | "noresult" => some .noresult | _ => none

def parseCase (j : Json) : Option Case :=
  let k := str (field j "k")
  if k == "refuse" then some .refuse else (parseKind k).map (fun kd => .answer kd (bool (field j "async")))

def parseResp (r : String) (cut len : Nat) : Option Resp :=
  match r with
  | "ok" => some .ok | "okcert" => some .okcert | "zero" => some .zero | "garbage" => some .garbage
  | "oversize" => some .oversize | "overshort" => some .oversize | "limit" => some .limit | "cut" => some (.cut cut len) | "never" => some .never | _ => none

def className : Class → String
  | .pass => "pass" | .fail => "fail" | .setup => "setup" | .norun => "norun" | .noresult => "noresult"

def parseClass (c : String) : Option Class :=
  match c with
  | "pass" => some .pass | "fail" => some .fail | "setup" => some .setup | "norun" => some .norun
  | "noresult" => some .noresult | _ => none

/-- last record per name, sorted by name -/
def lastPerName (recs : List (String × String)) : List (String × String) :=
  let names := asSet (recs.map (·.1))
  names.filterMap fun n => (recs.reverse.find? (·.1 == n))

def pairs (j : Json) : List (String × String) :=
  (arr j).map fun p => match strList p with | [a, b] => (a, b) | _ => ("?", "?")

def handle : Handler := fun op inp impl =>
  match op with
  | "oscmd" => ConfModel.Driver.OSCmd.judgeServer inp impl
  | "inproc" => ConfModel.Driver.C11InProc.handle inp impl
  | "wire" => ConfModel.Driver.C11Wire.handle inp impl
  | "refhang" =>
    -- the real in-process reference server, requests left hanging at the end of the batch: the
    -- fault script is "nothing goes wrong for the cases": every case answered with the expected response
    if nat (field impl "frozenMs") > 0 then { agree := true, holds := true, nontrivial := false, cls := "refhang-set-aside" } else
    let n := nat (field inp "n")
    let s : Script := {
      cases := List.replicate n (.answer .pass false), isRef := bool (field inp "isRef"), useTLS := false,
      startErr := false, writeErr := false, closeErr := false, resp := .ok, dies := none, names := [], stderr := [] }
    let out := runBatch s
    let mClasses := (List.range n).filterMap fun i => (out.log.reverse.find? (·.1 == i)).map fun e => className e.2
    let iOutcomes := pairs (field impl "outcomes")
    let hang := bool (field impl "hang")
    let el := nat (field impl "elapsedMs")
    -- bounded: the server's graceful shutdown (5 s) and localProcess's grace (5 s), twice (abort is
    -- called on the way out as well), with a generous margin
    let bounded := !hang && el ≤ 35000
    let perCase := iOutcomes.length == n && iOutcomes.all (fun p => match parseClass p.2 with | some c => Spec.expectedOK s 0 c | none => false)
    let holds := bounded && perCase && bool (field impl "serverReturned")
    { agree := holds && iOutcomes.map (·.2) == mClasses && str (field impl "setupErr") == "", holds := holds, nontrivial := str (field inp "hang") != "none",
      cls := "refhang:" ++ str (field inp "hang"),
      why := if holds then "" else
        if hang then s!"refhang: the batch against the in-process reference server had not ended after {nat (field inp "dogS")} s although the client had reported a result for every case ({nat (field impl "hanging")} request(s) left hanging in the server: {str (field inp "hang")}); outcomes so far {iOutcomes}; server function returned: {bool (field impl "serverReturned")}"
        else if !bounded then s!"refhang: the batch took {el} ms"
        else if !perCase then s!"refhang: outcomes {iOutcomes} — every case was answered with the expected response"
        else "refhang: the server function had not returned when the batch ended" }
  | "batch" =>
    let names := strList (field inp "names")
    let n := names.length
    let casesO := (arr (field inp "cases")).map parseCase
    let respO := parseResp (str (field inp "resp")) (nat (field inp "cut")) (nat (field inp "respLen"))
    if casesO.any Option.isNone || respO.isNone || casesO.length != n then bad "unparsable script" else
    if names.eraseDups.length != n then bad "batch names not distinct" else
    if !(isNull (field impl "panic")) then
      { agree := false, holds := false, why := "panic: " ++ str (field impl "panic") } else
    let diesI := int (field inp "dies")
    let s : Script := {
      cases := casesO.filterMap id, isRef := bool (field inp "isRef"), useTLS := bool (field inp "useTLS"),
      startErr := str (field inp "start") == "err", writeErr := str (field inp "write") != "ok",
      closeErr := str (field inp "close") == "err", resp := respO.getD .ok,
      dies := if diesI < 0 then none else some diesI.toNat,
      names := names.map String.toList, stderr := (str (field inp "stderr")).toList }
    let out := runBatch s
    -- model observation
    let mFinal : List (String × String) := (List.range n).filterMap fun i =>
      (out.log.reverse.find? (·.1 == i)).map fun e => (names.getD i "?", className e.2)
    let mOutcomes := (mFinal.toArray.qsort (fun a b => a.1 < b.1)).toList
    let mFw := out.forwarded.map String.ofList
    let mSb := lastPerName (out.sideband.map fun (a, b) => (String.ofList a, String.ofList b))
    -- implementation observation
    let iOutcomes := pairs (field impl "outcomes")
    let iFw := strList (field impl "forwarded")
    let iSb := pairs (field impl "sideband")
    let iAborts := nat (field impl "aborts")
    let iStarted := bool (field impl "started")
    let hang := bool (field impl "hang")
    let badPrefix := nat (field impl "badPrefix")
    let agree := !hang && iOutcomes == mOutcomes && iAborts == out.aborts && iStarted == out.started &&
      iFw == mFw && iSb == mSb && badPrefix == 0
    -- the property on the implementation's output
    let keysOK := asSet (iOutcomes.map (·.1)) == asSet names && iOutcomes.length == n
    let perCase := (List.range n).all fun i =>
      match (iOutcomes.find? (·.1 == names.getD i "?")).bind (fun p => parseClass p.2) with
      | some c => Spec.expectedOK s i c
      | none => false
    let stopped := Spec.stoppedOK iStarted iAborts
    let lines := splitLines s.stderr []
    let reads := s.isRef && !s.startErr
    let namesOK := s.names.all Spec.noSep
    let xFw := if reads then (Spec.expectForwarded s.names lines).map String.ofList else []
    let xSb := if reads then lastPerName ((Spec.expectRecords s.names lines).map fun (a, b) => (String.ofList a, String.ofList b)) else []
    let stderrOK := !namesOK || (iFw == xFw && iSb == xSb && badPrefix == 0)
    -- merging the recorded feedback into the outcomes (what report() does first) must not turn a
    -- set-up error into an ordinary failure: "recorded as setup errors rather than passes"
    let iAfter := pairs (field impl "afterMerge")
    let isSetupClass (c : String) : Bool := c == "setup" || c == "norun" || c == "noresult"
    let mergeOK := iOutcomes.all fun (n', c) =>
      !isSetupClass c || (match iAfter.find? (·.1 == n') with | some p => isSetupClass p.2 | none => false)
    let why :=
      if hang then "runTestCasesForServer did not return within 15 s"
      else if keysOK && perCase && !mergeOK then "a set-up error stopped being a set-up error once the reference server's feedback was merged: before " ++ toString iOutcomes ++ " after " ++ toString iAfter
      else if !keysOK then "outcomes recorded for " ++ toString (iOutcomes.map (·.1)) ++ ", batch is " ++ toString names
      else if !perCase then "outcome classes " ++ toString iOutcomes ++ " contradict the fault script (set-up fault ⇒ all set-up errors; answered ⇒ own verdict; after the fault ⇒ set-up error)"
      else if !stopped then s!"server started={iStarted} but abort was called {iAborts} time(s)"
      else if !stderrOK then "stderr attribution: forwarded " ++ toString iFw ++ " side-band " ++ toString iSb ++ "; expected forwarded " ++ toString xFw ++ " side-band " ++ toString xSb
      else ""
    let holds := why == ""
    { agree := agree, holds := holds,
      nontrivial := Spec.setupFault s || Spec.stopIdx s.dies 0 s.cases < n || !out.sideband.isEmpty || !out.forwarded.isEmpty
        || s.cases.any (fun c => match c with | .answer .pass _ => false | _ => true),
      model := Json.mkObj [("outcomes", toJson (mOutcomes.map fun (a, b) => [a, b])), ("aborts", toJson out.aborts),
        ("forwarded", toJson mFw), ("sideband", toJson (mSb.map fun (a, b) => [a, b]))],
      why := if holds && !agree then "implementation differs from the model" else why,
      cls := if Spec.setupFault s then "setup-fault" else if Spec.stopIdx s.dies 0 s.cases < n then
        (if dead s.dies (Spec.stopIdx s.dies 0 s.cases) then "server-died" else "client-refused") else "complete" }
  | _ => bad ("C11: unknown op " ++ op)

end ConfModel.Driver.C11
