/-
C04 — where the LABEL of a feedback line comes from.

The batch runner adds to every request of a test case the header `x-test-case-name` with the test
name as its only value, verbatim (server_runner.go:
`&conformancev1.Header{Name: "x-test-case-name", Value: []string{testCase.Request.TestName}}`).
The reference server reads it back with `req.Header.Get("X-Test-Case-Name")` (checks.go,
`getTestCaseName`: the first value as it is; an empty value counts as a missing header and the
request is refused) and uses that string as the prefix of every complaint it prints about the
request (`feedbackPrinter.Printf` -> `safePrinter.PrefixPrintf`, `FeedbackLine.prefixLine`).

Nothing on this path looks INSIDE the name: no unescaping, no case folding, no trimming.

Core Lean only.
-/
import ConfModel.Model.FeedbackLine
namespace ConfModel.FeedbackLabel
open ConfModel.FeedbackLine

/-- the values of the `x-test-case-name` header the runner adds for a test case -/
def headerOf (testName : List Char) : List (List Char) := [testName]

/-- `http.Header.Get`: the first value, "" if there is none -/
def headerGet : List (List Char) → List Char
  | [] => []
  | v :: _ => v

/-- `getTestCaseName`: the header value as it is; none = the request is refused (no name, no checks) -/
def getTestCaseName (values : List (List Char)) : Option (List Char) :=
  let v := headerGet values
  if v.isEmpty then none else some v

/-- what the reference server writes to its stderr when it has the complaint `text` about a request
that carries these `x-test-case-name` values -/
def complaint (values : List (List Char)) (text : List Char) : List Char :=
  match getTestCaseName values with
  | some label => prefixLine label text
  | none => []

end ConfModel.FeedbackLabel
