import ConfModel.Driver.Common
namespace ConfModel.Driver.C03
open Lean ConfModel.Driver

def handle : Handler := fun op _inp _impl => bad ("C03: unknown op " ++ op)

end ConfModel.Driver.C03
