/-
Helper lemmas for the wire-walk theorems of C18.
-/
import ConfModel.Model.ProtoWire
import ConfModel.Spec.ProtoWire
namespace ConfModel.ProtoWire
open ConfModel.ProtoWireSpec

theorem nested_nil_iff (r1 : Nat → Bytes → Option (List (Nat × Nat))) (r2 : Nat → Bytes → Bool)
    (h : ∀ ti b, r1 ti b = some [] ↔ r2 ti b = true) (t : Table) (fs : List Field) :
    nestedUnknowns r1 t fs = some [] ↔ nestedAll r2 t fs = true := by
  induction fs with
  | nil => simp [nestedUnknowns, nestedAll]
  | cons f rest ih =>
    unfold nestedUnknowns nestedAll
    cases hd : descend t f with
    | none => simpa using ih
    | some p =>
      obtain ⟨sub, payload⟩ := p
      simp only [Bool.and_eq_true, ← h, ← ih]
      cases ha : r1 sub payload with
      | none => simp
      | some a =>
        cases hb : nestedUnknowns r1 t rest with
        | none => simp
        | some b => simp [List.append_eq_nil_iff]

theorem unknownsIn_nil_iff (fuel : Nat) (T : Tables) (ti : Nat) (b : Bytes) :
    unknownsIn fuel T ti b = some [] ↔ allKnown fuel T ti b = true := by
  induction fuel generalizing ti b with
  | zero => simp [unknownsIn, allKnown]
  | succ n ih =>
    unfold unknownsIn allKnown
    cases ht : T[ti]? with
    | none => simp
    | some t =>
      cases hf : fields b with
      | none => simp
      | some fs =>
        simp only [Bool.and_eq_true, Bool.or_eq_true]
        rw [← nested_nil_iff (unknownsIn n T) (allKnown n T) (fun ti b => ih ti b) t fs]
        cases hn : nestedUnknowns (unknownsIn n T) t fs with
        | none => simp
        | some ns =>
          cases hl : t.lenient with
          | true => simp
          | false =>
            simp only [Bool.false_eq_true, if_false, false_or, Option.some.injEq, List.append_eq_nil_iff,
              List.map_eq_nil_iff, List.filter_eq_nil_iff, List.all_eq_true]
            constructor
            · rintro ⟨h1, h2⟩
              exact ⟨fun f hfm => by simpa using h1 f hfm, by rw [h2]⟩
            · rintro ⟨h1, h2⟩
              refine ⟨fun f hfm => by simpa using h1 f hfm, ?_⟩
              simpa using h2

/-- what the nested walk returns are unknown fields found by the recursive walk in one of the
nested messages -/
theorem nested_mem (rec : Nat → Bytes → Option (List (Nat × Nat))) (t : Table) (fs : List Field)
    (ns : List (Nat × Nat)) (h : nestedUnknowns rec t fs = some ns) (x : Nat × Nat) (hx : x ∈ ns) :
    ∃ f ∈ fs, ∃ sub payload us, descend t f = some (sub, payload) ∧ rec sub payload = some us ∧ x ∈ us := by
  induction fs generalizing ns with
  | nil => simp [nestedUnknowns] at h; subst h; cases hx
  | cons f rest ih =>
    unfold nestedUnknowns at h
    cases hd : descend t f with
    | none =>
      simp only [hd] at h
      obtain ⟨g, hg, r⟩ := ih ns h hx
      exact ⟨g, by simp [hg], r⟩
    | some p =>
      obtain ⟨sub, payload⟩ := p
      simp only [hd] at h
      cases ha : rec sub payload with
      | none => simp [ha] at h
      | some a =>
        cases hb : nestedUnknowns rec t rest with
        | none => simp [ha, hb] at h
        | some b =>
          simp only [ha, hb, Option.some.injEq] at h
          subst h
          rcases List.mem_append.mp hx with hxa | hxb
          · exact ⟨f, by simp, sub, payload, a, hd, ha, hxa⟩
          · obtain ⟨g, hg, r⟩ := ih b hb hxb
            exact ⟨g, by simp [hg], r⟩

end ConfModel.ProtoWire
