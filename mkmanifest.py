#!/usr/bin/env python3
"""Assembles MANIFEST.json from checks/Cxx.json (claimed checks) and checks/not_applicable.json."""
import json, os
here = os.path.dirname(os.path.abspath(__file__))
from checks_registry import CHECKS
props = [json.loads(l) for l in open(os.path.join(here, "properties.jsonl"))]
na = json.load(open(os.path.join(here, "checks", "not_applicable.json")))
man = {
    "version": 1,
    "setup_cmd": "python3 check.py setup",
    "hooks": {
        "guard": "verif",
        "enable": "no file of /repo is changed: check.py compiles /verif/harness into the repo's module from the current working tree with `go build -tags verif -overlay .build/overlay.json` (in-package wrapper files harness/inpkg/<pkg>/verif_export_*.go carry `//go:build verif`; the harness packages are mapped to internal/verifharness/...)",
        "baseline_off_cmd": "cd /repo && go build ./... && go test -vet=off -count=1 -timeout 25m ./...",
        "source_commits": [],
        "add_only": True,
    },
    "engines": [{
        "name": "lean-proof+correspondence", "path": "check.py", "serves_properties": sorted(CHECKS),
        "kind_free_text": "Lean 4 theorems about executable models (lean/ConfModel), tied to the code on every run by a differential correspondence check: a Go harness (real code, rebuilt from the working tree) and a compiled Lean driver (model + spec) judge the same JSON lines; finite tables are regenerated from the tree into lean/ConfModel/Generated and re-proved",
    }],
    "checks": [],
    "notes": "See DESIGN.md. known-findings.json lists fixed/known defects. Every check: python3 check.py <id> [--tier quick|thorough]; VERIF_SEED honoured.",
    "not_applicable": [],
}
for p in props:
    pid = p["id"]
    if pid in CHECKS:
        c = CHECKS[pid]
        m = c["manifest"]
        man["checks"].append({
            "property_id": pid,
            "quick_cmd": f"python3 check.py {pid} --tier quick",
            "thorough_cmd": f"python3 check.py {pid} --tier thorough",
            "evidence_file": f"/verif/evidence/{pid}.json",
            "replay_cmd_template": f"python3 check.py {pid} --replay {{path}}",
            "engine": "lean-proof+correspondence",
            "level_claimed": m["level_claimed"],
            "level_note": m["level_note"],
            "technique": m["technique"],
        })
    else:
        man["not_applicable"].append({"property_id": pid, "reason": na.get(pid, "check not yet built at this commit (work in progress; DESIGN.md has the planned model and theorems)")})
json.dump(man, open(os.path.join(here, "MANIFEST.json"), "w"), indent=1)
print("claimed:", [c["property_id"] for c in man["checks"]], "not_applicable:", [x["property_id"] for x in man["not_applicable"]])
