package main

// C15: frames longer than the default SETTINGS_MAX_FRAME_SIZE.  A peer may raise the limit up to
// 2^24-1; http2FrameTracer counts the payload in `expecting uint32` / `actual uint64`
// (Props.C15.frame_need_no_wrap, frame_widths_simulate).  Frames of 16384, 16385, 65535, 65536
// bytes go through op conn (DATA frames of a named stream carrying one enveloped message of
// exactly that frame length; the driver runs the whole model on the bytes); frames of 2^24-1
// bytes (and again 65536, 16385) go through op bigframe: unknown-type frames between the frames
// of a named stream, bytes not reported, judged by the property's predicate on the traces.

import "strconv"

func c15B2I(b bool) int {
	if b {
		return 1
	}
	return 0
}

// c15Filler is the payload of a frame too large to write down: no long run of equal bytes, so
// that a tracer that lost the frame boundary meets garbage headers.
func c15Filler(n int) []byte {
	b := make([]byte, n)
	for i := range b {
		b[i] = byte(i*131 + 17 + i>>8)
	}
	return b
}

var c15BigSizes = []int{16384, 16385, 65535, 65536}

const c15MaxWireFrame = 1<<24 - 1

// c15BigCuts: the cut position classes for a run in which a frame of 9+size bytes starts at
// offset at: whole run in one call (several frames per chunk), the big frame's header split, the
// header of the frame behind it split, the payload split at its ends and at 16384 / 65536, the
// run in chunks of 16384 and of 65536 bytes.
func c15BigCuts(which, at, size int) map[string]func(int, int) []int {
	end := at + 9 + size
	other := func(k int) func(int, int) []int {
		f := c15Fixed(k)
		return func(i, n int) []int {
			if i != which {
				return []int{n}
			}
			return f(i, n)
		}
	}
	return map[string]func(int, int) []int{
		"whole":          c15Whole,
		"header-split":   c15CutsAt(which, at+3, at+8, end+1, end+5),
		"payload-split":  c15CutsAt(which, at+9, at+10, at+9+16384, at+9+65536, end-1),
		"payload-only":   c15CutsAt(which, at+9+size/2),
		"chunks-16384":   other(16384),
		"chunks-65536":   other(65536),
		"frame-by-frame": c15CutsAt(which, at, end),
	}
}

var c15BigCutNames = []string{"whole", "header-split", "payload-split", "payload-only", "chunks-16384", "chunks-65536", "frame-by-frame"}

func (g *c15Gen) bigFrames() {
	thorough := g.c.Thorough()
	// (a) op conn: DATA frames of exactly `size` bytes on a named stream, both directions
	for si, size := range c15BigSizes {
		name := "big" + string(rune('a'+si))
		frames := c15SetIDs([]c15Frame{
			c15H("q", c15ReqFields(name, "application/grpc", "/svc.S/M"), false),
			c15D("q", c15Msg(0, c15Filler(size-5)), false),
			c15D("q", c15Msg(0, []byte("tail")), true),
			c15H("p", c15RespFields("200", "application/grpc"), false),
			c15D("p", c15Msg(0, c15Filler(size-5)), false),
			c15D("p", c15Msg(0, []byte("TAIL")), false),
			c15H("p", [][2]string{{"grpc-status", "0"}}, true),
		}, 1)
		_, _, lens := c15Build(frames)
		runs := c15Runs(frames, lens)
		for _, server := range []bool{false, true} {
			for ci, cn := range c15BigCutNames {
				if !thorough && (ci+si+c15B2I(server))%2 == 1 && cn != "header-split" && cn != "payload-split" {
					continue
				}
				for which, at := range []int{len(c15Preface) + lens[0], lens[3]} {
					part := c15BigCuts(which, at, size)[cn]
					calls := append(c15Calls(server, runs, part), c15Close...)
					in := c15In{Server: server, Legal: true, Frames: frames, Calls: calls, Note: "bigframe-" + cn}
					g.c.E.Count("bigframe:" + cn)
					g.c.E.Count("bigframe-size:" + strconv.Itoa(size))
					if (ci+which)%3 == 0 {
						in.Reuse = 1 + ci%4
					}
					g.emit1(in, "bigframe")
				}
			}
		}
	}
	// (b) op bigframe: unknown-type frames of up to 2^24-1 bytes between the frames of a named stream
	sizes := []int{c15MaxWireFrame, 65536, 16385}
	for si, size := range sizes {
		name := "huge" + string(rune('a'+si))
		frames := c15SetIDs([]c15Frame{
			c15H("q", c15ReqFields(name, "application/grpc", "/svc.S/M"), false),
			{D: "q", T: "O", Kind: "unknown", Fill: size},
			c15D("q", c15Msg(0, []byte("tail")), true),
			c15H("p", c15RespFields("200", "application/grpc"), false),
			{D: "p", T: "O", Kind: "unknown", Fill: size},
			c15D("p", c15Msg(0, []byte("TAIL")), false),
			{D: "p", T: "O", Kind: "unknown", Fill: size / 2},
			c15H("p", [][2]string{{"grpc-status", "0"}}, true),
		}, 1)
		lens := []int{0, 9 + size, 0, 0, 9 + size, 0, 9 + size/2, 0}
		{
			// the lengths of the small frames: build them without the fillers
			small := append([]c15Frame{}, frames...)
			for i := range small {
				small[i].Fill = 0
			}
			_, _, sl := c15Build(small)
			for i := range lens {
				if lens[i] == 0 {
					lens[i] = sl[i]
				}
			}
		}
		runs := c15Runs(frames, lens)
		for _, server := range []bool{false, true} {
			for ci, cn := range c15BigCutNames {
				if size == c15MaxWireFrame && cn == "chunks-16384" && !thorough {
					continue
				}
				if size != c15MaxWireFrame && !thorough && (ci+c15B2I(server))%2 == 1 {
					continue
				}
				which := (ci + c15B2I(server)) % 2
				at := []int{len(c15Preface) + lens[0], lens[3]}[which]
				part := c15BigCuts(which, at, size)[cn]
				calls := append(c15Calls(server, runs, part), c15Close...)
				in := c15In{Server: server, Legal: true, Frames: frames, Calls: calls, Note: "hugeframe-" + cn}
				if ci%3 == 1 {
					in.Reuse = 1 + ci%4
				}
				g.c.E.Count("hugeframe:" + cn)
				g.c.E.Count("hugeframe-size:" + strconv.Itoa(size))
				g.c.Do("bigframe", in)
			}
		}
	}
}
