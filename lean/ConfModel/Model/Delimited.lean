/-
Model of `internal/delimited.go` (`timeoutDelimitedReader.read`,
`readDelimitedMessageRaw`, `writeDelimitedMessageRaw`) and of the binary stream codec of
`internal/codec.go` (`protoDecoder.DecodeNext` = two `io.ReadFull`s).

The peer's pipe is a *scripted reader*: the bytes that are still to come, a list of
per-call size caps (call `i` returns at most `caps[i]` bytes; when the list is used up a
call returns as much as the buffer takes) and what happens once the bytes are used up.
A cap of 0 is a `(0, nil)` read; the loops of the Go code simply go round again, and so does
the model, so no theorem needs the "a Read never returns (0, nil)" hypothesis (a script is
finite; an endless sequence of empty reads is the `stall` ending).
-/
namespace ConfModel.Delimited

abbrev Bytes := List UInt8

/-- what the reader does once its bytes are used up -/
inductive Ending
  | eofSeparate      -- the last bytes come with a nil error, the next call returns (0, EOF)
  | eofWithLastData  -- the call that hands out the last byte returns (n, EOF)
  | fail             -- (0, some other error)
  | stall            -- the call never returns
deriving DecidableEq, Repr

structure Reader where
  data : Bytes
  caps : List Nat
  ending : Ending
deriving DecidableEq, Repr

/-- outcome of one `Read(buf)` -/
inductive Step
  | data (bs : Bytes) (eofToo : Bool)
  | eof
  | fail
  | stall
deriving DecidableEq, Repr

/-- how many bytes the next call may hand out into a buffer of `k` bytes -/
def Reader.cap (r : Reader) (k : Nat) : Nat :=
  match r.caps with
  | [] => k
  | c :: _ => min k c

/-- one `Read(buf)` with `len(buf) = k`.  A zero-length buffer returns `(0, nil)` without
touching the script. -/
def Reader.read (r : Reader) (k : Nat) : Step × Reader :=
  if k = 0 then (.data [] false, r) else
  match r.data with
  | [] =>
    (match r.ending with
      | .eofSeparate => .eof
      | .eofWithLastData => .eof
      | .fail => .fail
      | .stall => .stall, r)
  | _ :: _ =>
    let c := r.cap k
    (.data (r.data.take c) ((r.data.drop c).isEmpty && r.ending == .eofWithLastData),
     { r with data := r.data.drop c, caps := r.caps.tail })

inductive RErr
  | eof
  | unexpectedEOF
  | fail
deriving DecidableEq, Repr

/-- result of `timeoutDelimitedReader.read(n)` / `io.ReadFull`; `offs` is the number of bytes
of this unit received in completed `Read` calls (= the `bytesRead` progress field) -/
inductive RN
  | ok (b : Bytes) (rest : Reader)
  | err (e : RErr) (offs : Nat) (rest : Reader)
  | stall (offs : Nat) (rest : Reader)
deriving DecidableEq, Repr

/-- the loop of `timeoutDelimitedReader.read(numBytes)`: the completion test
`offs+numRead == numBytes` comes *before* the error is looked at; progress is only recorded
after an incomplete read; EOF after at least one byte is an unexpected EOF. -/
def readLoop (n : Nat) : Nat → Bytes → Reader → RN
  | 0, acc, r => .stall acc.length r
  | fuel+1, acc, r =>
    match r.read (n - acc.length) with
    | (.data bs eofToo, r') =>
      if acc.length + bs.length = n then .ok (acc ++ bs) r'
      else if eofToo then
        .err (if acc.length + bs.length > 0 then .unexpectedEOF else .eof) (acc.length + bs.length) r'
      else readLoop n fuel (acc ++ bs) r'
    | (.eof, r') => .err (if acc.length > 0 then .unexpectedEOF else .eof) acc.length r'
    | (.fail, r') => .err .fail acc.length r'
    | (.stall, r') => .stall acc.length r'

/-- `timeoutDelimitedReader.read(n)`.  For `n = 0` it returns at once without a `Read` (a
zero-length `Read` may block: a synchronous pipe waits for the peer's next write, see
`Model/SyncPipe.lean`; finding F29, repaired in 715ef44).  Otherwise the loop, with enough fuel:
every round but the last two uses up one cap. -/
def readN (n : Nat) (r : Reader) : RN :=
  if n = 0 then .ok [] r else readLoop n (r.caps.length + 2) [] r

/-- `io.ReadAtLeast(r, buf, min)` with `min = len(buf)`:
`for n < min && err == nil { nn, err = Read(buf[n:]); n += nn }`, then `n >= min → nil`,
`n > 0 && err == EOF → ErrUnexpectedEOF`.  The loop is written rotated (the `n < min` test
of the next round is made right after `n += nn`; the very first test is in `readFull`), so
that `acc.length < n` holds at the top of every round.  No `Read` at all for an empty
buffer. -/
def fullLoop (n : Nat) : Nat → Bytes → Reader → RN
  | 0, acc, r => .stall acc.length r
  | fuel+1, acc, r =>
    match r.read (n - acc.length) with
    | (.data bs eofToo, r') =>
      if acc.length + bs.length ≥ n then .ok (acc ++ bs) r'
      else if eofToo then
        .err (if acc.length + bs.length > 0 then .unexpectedEOF else .eof) (acc.length + bs.length) r'
      else fullLoop n fuel (acc ++ bs) r'
    | (.eof, r') => .err (if acc.length > 0 then .unexpectedEOF else .eof) acc.length r'
    | (.fail, r') => .err .fail acc.length r'
    | (.stall, r') => .stall acc.length r'

def readFull (n : Nat) (r : Reader) : RN :=
  if n = 0 then .ok [] r else fullLoop n (r.caps.length + 2) [] r

/-- `binary.BigEndian.Uint32` (on any number of bytes) -/
def be32 (b : Bytes) : Nat := b.foldl (fun acc x => acc * 256 + x.toNat) 0

/-- `binary.BigEndian.PutUint32(buf, uint32(n))` -/
def putBe32 (n : Nat) : Bytes :=
  [UInt8.ofNat (n / 16777216), UInt8.ofNat (n / 65536), UInt8.ofNat (n / 256), UInt8.ofNat n]

/-- `writeDelimitedMessageRaw` -/
def encode (m : Bytes) : Bytes := putBe32 m.length ++ m

/-- One write of a message by any of the writers (`WriteDelimitedMessage`, `StreamEncoder.Encode`):
`none` = the message cannot be encoded (marshalling fails): the writer returns the error and has
written NOTHING; `some m` = prefix and message are appended.  All or nothing. -/
def writeStep (s : Bytes) : Option Bytes → Bytes
  | none => s
  | some m => s ++ encode m

/-- the stream after a history of writes, some of which failed -/
def writeHistory (h : List (Option Bytes)) : Bytes := h.foldl writeStep []

/-- what one `readDelimitedMessageRaw` / `DecodeNext` reports -/
inductive Res
  | msg (b : Bytes)
  | eof
  | unexpectedEOF
  | fail
  | tooLarge (size : Nat)
  /-- the progress triple `(prefixDone, bytesRead, bytesExpecting)` at the time-out -/
  | timeout (prefixDone : Bool) (read expecting : Nat)
deriving DecidableEq, Repr

def Res.ofErr : RErr → Res
  | .eof => .eof
  | .unexpectedEOF => .unexpectedEOF
  | .fail => .fail

def Res.isMsg : Res → Bool
  | .msg _ => true
  | _ => false

structure MsgOut where
  res : Res
  rest : Reader
  /-- sizes of the buffers allocated (`make([]byte, n)`) on the way -/
  allocs : List Nat
deriving DecidableEq, Repr

/-! ### the 32-bit arithmetic of the length prefix

`msgSize := int(binary.BigEndian.Uint32(data))`: the four bytes are combined in `uint32`
arithmetic (shifts and ors, as `encoding/binary` does) and the result is converted to `int`.
`int` has 64 bits on every platform the runner is built for, so the conversion is a zero
extension: whatever the peer sends, the size is one of 0 … 2^32-1, never negative
(`Lemmas/Delimited.lean: msgSize_eq_be32`, `Props/C09.lean: prefix_size_total`).  A narrower
conversion (through `int32`, or an `int` of 32 bits) would make every prefix whose first byte
is ≥ 0x80 a negative size, which passes the `msgSize > maxSize` test and reaches
`make([]byte, msgSize)`: a run-time panic in the reading goroutine. -/

/-- `binary.BigEndian.Uint32(b)`:
`uint32(b[3]) | uint32(b[2])<<8 | uint32(b[1])<<16 | uint32(b[0])<<24` -/
def beU32 (b0 b1 b2 b3 : UInt8) : UInt32 :=
  b3.toUInt32 ||| (b2.toUInt32 <<< 8) ||| (b1.toUInt32 <<< 16) ||| (b0.toUInt32 <<< 24)

/-- `int(x)` for `x : uint32` with a 64-bit `int`: zero extension -/
def intOfU32 (x : UInt32) : Int := Int.ofNat x.toNat

/-- `int(binary.BigEndian.Uint32(data))` for the bytes `read(4)` returned (always four; the
second clause is not reached) -/
def msgSize : Bytes → Int
  | [b0, b1, b2, b3] => intOfU32 (beU32 b0 b1 b2 b3)
  | p => Int.ofNat (be32 p)

/-- `readDelimitedMessageRaw` with the goroutine/`select` collapsed: either the read
finishes (whatever the time-out) or it stalls and the time-out fires.  The size is an `int`
(`msgSize`), compared with the limit as an `int`; `read(msgSize)` then allocates
`make([]byte, msgSize)` — `Int.toNat` stands for that step, which is only sound because the
size is never negative (see above). -/
def readMessage (max : Nat) (r : Reader) : MsgOut :=
  match readN 4 r with
  | .err e _ r' => ⟨Res.ofErr e, r', [4]⟩
  | .stall offs r' => ⟨.timeout false offs 4, r', [4]⟩
  | .ok p r' =>
    let sz := msgSize p
    if sz > Int.ofNat max then ⟨.tooLarge sz.toNat, r', [4]⟩ else
    match readN sz.toNat r' with
    | .ok b r'' => ⟨.msg b, r'', [4, sz.toNat]⟩
    | .err e _ r'' => ⟨(match e with | .eof => .unexpectedEOF | e => Res.ofErr e), r'', [4, sz.toNat]⟩
    | .stall offs r'' => ⟨.timeout true offs sz.toNat, r'', [4, sz.toNat]⟩

/-- The places where the runners call `ReadDelimitedMessage` on a peer's stdout:
`runTestCasesForServer` (the server's one `ServerCompatResponse`) and
`clientProcessRunner.consumeOutput` (the client's `ClientCompatResponse`s). -/
inductive Site
  | server
  | client
deriving DecidableEq, Repr

/-- the documented limit of each site: `maxServerResponseSize` = 1 MB, `maxClientResponseSize`
= 16 MB -/
def Site.limit : Site → Nat
  | .server => 1048576
  | .client => 16777216

/-- the time-out period of each site, in milliseconds: `serverResponseTimeout` = 10 s,
`clientResponseTimeout` = 20 s.  A function of the site alone: the period does not depend on what
is outstanding when a read begins. -/
def Site.timeoutMs : Site → Nat
  | .server => 10000
  | .client => 20000

/-- one `ReadDelimitedMessage` at a call site (up to `Unmarshal`) -/
def readAt (s : Site) (r : Reader) : MsgOut := readMessage s.limit r

/-- `protoDecoder.DecodeNext` up to (not including) `Unmarshal`; no size limit, no time-out
(a stalled peer stalls the decoder: outcome `timeout` stands for "never returns"). -/
def decodeNext (r : Reader) : MsgOut :=
  match readFull 4 r with
  | .err e _ r' => ⟨Res.ofErr e, r', [4]⟩
  | .stall offs r' => ⟨.timeout false offs 4, r', [4]⟩
  | .ok p r' =>
    let sz := be32 p
    match readFull sz r' with
    | .ok b r'' => ⟨.msg b, r'', [4, sz]⟩
    | .err e _ r'' => ⟨(match e with | .eof => .unexpectedEOF | e => Res.ofErr e), r'', [4, sz]⟩
    | .stall offs r'' => ⟨.timeout true offs sz, r'', [4, sz]⟩

structure AllOut where
  results : List Res
  rest : Reader
  allocs : List Nat
deriving DecidableEq, Repr

/-- call `next` up to `count` times, stopping after the first result that is not a message -/
def readAllWith (next : Reader → MsgOut) : Nat → Reader → AllOut
  | 0, r => ⟨[], r, []⟩
  | k+1, r =>
    let o := next r
    if o.res.isMsg then
      let t := readAllWith next k o.rest
      ⟨o.res :: t.results, t.rest, o.allocs ++ t.allocs⟩
    else ⟨[o.res], o.rest, o.allocs⟩

def readAll (max : Nat) : Nat → Reader → AllOut := readAllWith (readMessage max)
def decodeAll : Nat → Reader → AllOut := readAllWith decodeNext

/-- what the time-out branch of `readDelimitedMessageRaw` prints -/
inductive Report
  | complete                 -- racing with a finished read: the result is returned instead
  | nothing                  -- "timed out waiting for result from X"
  | partialRead (what : String) (read expecting : Nat)  -- ": read r/e bytes of <what>"
deriving DecidableEq, Repr

def timeoutReport (prefixDone : Bool) (read expecting : Nat) : Report :=
  if prefixDone && read == expecting then .complete
  else if !prefixDone && read == 0 then .nothing
  else .partialRead (if prefixDone then "message" else "length prefix") read expecting

end ConfModel.Delimited
