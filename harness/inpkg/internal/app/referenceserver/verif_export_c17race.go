//go:build verif

package referenceserver

import (
	"context"
	"errors"
	"net/http"
	"runtime"
	"sort"
	"strings"
	"sync/atomic"

	conformancev1 "connectrpc.com/conformance/internal/gen/proto/go/connectrpc/conformance/v1"
)

// VerifC17RaceOut is what N rounds of two goroutines arbitrating one rawResponseWriter showed.
type VerifC17RaceOut struct {
	Rounds    int
	AllRaw    int // setRawResponse accepted, wire = prescribed status / headers / body exactly
	AllNormal int // setRawResponse refused (errNonRawResponseStarted), wire = the handler's output exactly
	Mixed     int // anything else
	// first mixed round (Mixed > 0)
	FirstRound   int
	FirstResult  string   // accepted | refused | error:...
	FirstWire    []string // events the underlying ResponseWriter saw, in order
	FirstHeaders []string // "Name: v1|v2", sorted
}

type verifC17RaceSlot struct {
	ctx context.Context
}

// VerifC17Race releases, for every round, two goroutines through a spin barrier on a FRESH
// rawResponseWriter (real rawResponder around the handler, so finish runs after both are done;
// recording ResponseWriter underneath): the handler goroutine performs handlerOps (the first of
// which starts the normal response: Write, WriteHeader or Flush) after setting handlerHeader, the
// other one calls the real setRawResponse(ctx, raw). A small per-round skew (0..7 spin iterations
// on one side or the other) sweeps the relative alignment of the two.
func VerifC17Race(rounds int, handlerOps []VerifC17Op, raw *conformancev1.RawHTTPResponse, wantRawWire []string, wantRawHeaders []string) VerifC17RaceOut {
	out := VerifC17RaceOut{Rounds: rounds}
	var slot atomic.Pointer[verifC17RaceSlot]
	var barrier, done, sink atomic.Int64
	results := make([]string, 1) // result of the current round, written by the raw goroutine before done
	quit := make(chan struct{})
	skew := func(n int) {
		for i := 0; i < n; i++ {
			sink.Add(1)
		}
	}
	go func() {
		defer close(quit)
		for r := 1; r <= rounds; r++ {
			var s *verifC17RaceSlot
			for spins := 0; ; spins++ {
				if s = slot.Load(); s != nil {
					break
				}
				if spins&63 == 63 {
					runtime.Gosched()
				}
			}
			slot.Store(nil)
			barrier.Add(1)
			for spins := 0; barrier.Load() < int64(2*r); spins++ {
				if spins&1023 == 1023 {
					runtime.Gosched()
				}
			}
			if d := r & 15; d >= 8 {
				skew(d - 8)
			}
			err := setRawResponse(s.ctx, raw)
			switch {
			case err == nil:
				results[0] = "accepted"
			case errors.Is(err, errNonRawResponseStarted):
				results[0] = "refused"
			default:
				results[0] = "error:" + err.Error()
			}
			done.Store(int64(r))
		}
	}()
	// the handler's own output, as the recorder sees it when nothing interferes
	var wantNormalWire []string
	wantNormalHeaders := []string{"X-Normal: yes"}
	{
		rec := &verifC17Recorder{hdr: http.Header{}}
		verifC17Apply(context.Background(), rec, handlerOps)
		wantNormalWire = rec.wire
	}
	round := 0
	handler := rawResponder(http.HandlerFunc(func(w http.ResponseWriter, req *http.Request) {
		r := round
		w.Header().Set("X-Normal", "yes")
		slot.Store(&verifC17RaceSlot{ctx: req.Context()})
		barrier.Add(1)
		for spins := 0; barrier.Load() < int64(2*r); spins++ {
			if spins&1023 == 1023 {
				runtime.Gosched()
			}
		}
		if d := r & 15; d < 8 {
			skew(d)
		}
		verifC17Apply(req.Context(), w, handlerOps)
		for spins := 0; done.Load() < int64(r); spins++ {
			if spins&63 == 63 {
				runtime.Gosched()
			}
		}
	}))
	req, _ := http.NewRequestWithContext(context.Background(), http.MethodPost, "http://x/y", http.NoBody)
	for round = 1; round <= rounds; round++ {
		rec := &verifC17Recorder{hdr: http.Header{}}
		handler.ServeHTTP(rec, req)
		res := results[0]
		hdrs := verifC17RaceHeaders(rec.hdr)
		switch {
		case res == "accepted" && verifC17SameStrings(rec.wire, wantRawWire) && verifC17SameStrings(hdrs, wantRawHeaders):
			out.AllRaw++
		case res == "refused" && verifC17SameStrings(rec.wire, wantNormalWire) && verifC17SameStrings(hdrs, wantNormalHeaders):
			out.AllNormal++
		default:
			if out.Mixed == 0 {
				out.FirstRound, out.FirstResult, out.FirstWire, out.FirstHeaders = round, res, rec.wire, hdrs
			}
			out.Mixed++
		}
	}
	<-quit
	return out
}

// verifC17RaceHeaders lists the header map without the entries finish sets to nil (Date).
func verifC17RaceHeaders(h http.Header) []string {
	var out []string
	for k, v := range h {
		if v == nil {
			continue
		}
		out = append(out, k+": "+strings.Join(v, "|"))
	}
	sort.Strings(out)
	return out
}

func verifC17SameStrings(a, b []string) bool {
	if len(a) != len(b) {
		return false
	}
	for i := range a {
		if a[i] != b[i] {
			return false
		}
	}
	return true
}
