"""Per-property configuration of check.py: one JSON file per property under checks/."""
import glob, json, os

_here = os.path.dirname(os.path.abspath(__file__))
CHECKS = {}
for _p in sorted(glob.glob(os.path.join(_here, "checks", "C*.json"))):
    CHECKS[os.path.basename(_p)[:-5]] = json.load(open(_p))
