//go:build verif

package connectconformance

import (
	"sort"

	conformancev1 "connectrpc.com/conformance/internal/gen/proto/go/connectrpc/conformance/v1"
)

// VerifC02PopulateExpected runs the real populateExpectedResponse on a copy-free test case.
func VerifC02PopulateExpected(tc *conformancev1.TestCase) (*conformancev1.ClientResponseResult, error) {
	if err := populateExpectedResponse(tc); err != nil {
		return nil, err
	}
	return tc.ExpectedResponse, nil
}

// VerifC02Load runs parseTestSuites + parseConfig + newTestCaseLibrary and returns the
// permutation names (sorted), as Run would compute them for the given mode.
func VerifC02Load(files map[string][]byte, cfgYAML string, mode conformancev1.TestSuite_TestMode, clientIsGRPC, serverIsGRPC bool) ([]string, error) {
	suites, err := parseTestSuites(files)
	if err != nil {
		return nil, err
	}
	cases, err := parseConfig("cfg.yaml", []byte(cfgYAML))
	if err != nil {
		return nil, err
	}
	lib, err := newTestCaseLibrary(suites, cases, mode)
	if err != nil {
		return nil, err
	}
	var names []string
	for _, tc := range lib.allPermutations(clientIsGRPC, serverIsGRPC) {
		names = append(names, tc.Request.TestName)
	}
	sort.Strings(names)
	return names, nil
}
