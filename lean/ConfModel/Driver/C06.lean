import ConfModel.Driver.Common
namespace ConfModel.Driver.C06
open Lean ConfModel.Driver

def handle : Handler := fun op _inp _impl => bad ("C06: unknown op " ++ op)

end ConfModel.Driver.C06
