/-
Model of `internal/app/connectconformance/results.go` (the part that records outcomes and
reports the verdict): `setOutcome`, `failedToStart`, `failRemaining`, `recordSideband`,
`processSidebandInfoLocked`, `report`, and the last line of `Run` in `connectconformance.go`.

Go maps (`outcomes`, `serverSideband`) are association lists whose keys stay distinct because
every write goes through `put` (map assignment).  Errors are a small enum: `report` only looks
at `actualFailure == nil` and at `errors.As(actualFailure, *couldNotRunError)`.

`report` is the REPAIRED code (finding F03): it returns `failed == 0 && couldNotRun == 0`; the
unrepaired code returned `failed == 0` (`reportUnrepaired`, kept for the witness theorem).
Core Lean only.
-/
namespace ConfModel.Report

/-- `actualFailure`, up to what `report` can observe. `feedback` = an error made of peer feedback
only (`errors.New(msg)` in `processSidebandInfoLocked`). -/
inductive Fail where
  | none | assertion | clientError | other | couldNotRun | feedback
  deriving DecidableEq, Repr, Inhabited

/-- `testOutcome` -/
structure Outcome where
  failure : Fail
  setupError : Bool
  knownFailing : Bool
  knownFlaky : Bool
  deriving DecidableEq, Repr, Inhabited

/-- map assignment `m[n] = v` on an association list -/
def put {β : Type} : List (String × β) → String → β → List (String × β)
  | [], n, v => [(n, v)]
  | (m, w) :: t, n, v => if m = n then (n, v) :: t else (m, w) :: put t n v

/-- map lookup `v, ok := m[n]` -/
def get? {β : Type} : List (String × β) → String → Option β
  | [], _ => none
  | (m, w) :: t, n => if m = n then some w else get? t n

abbrev Outcomes := List (String × Outcome)
abbrev Sideband := List (String × String)

/-- the two tries of `testResults`, as predicates on the test name (C08 is about the tries) -/
structure Marks where
  failing : String → Bool
  flaky : String → Bool

/-- `setOutcomeLocked` -/
def setOutcome (mk : Marks) (os : Outcomes) (n : String) (setup : Bool) (f : Fail) : Outcomes :=
  put os n { failure := f, setupError := setup, knownFailing := mk.failing n, knownFlaky := mk.flaky n }

/-- `failedToStart`: every given case gets the setup error (overwriting) -/
def failedToStart (mk : Marks) (os : Outcomes) (names : List String) (f : Fail) : Outcomes :=
  names.foldl (fun os n => setOutcome mk os n true f) os

/-- `failRemaining`: only cases without an outcome get the setup error -/
def failRemaining (mk : Marks) (os : Outcomes) (names : List String) (f : Fail) : Outcomes :=
  names.foldl (fun os n => match get? os n with
    | some _ => os
    | none => setOutcome mk os n true f) os

/-- `recordSideband` -/
def recordSideband (sb : Sideband) (n msg : String) : Sideband := put sb n msg

/-- one iteration of the loop in `processSidebandInfoLocked`.  Wrapping with `%w` keeps a
`couldNotRunError` visible to `errors.As`, so a non-nil failure keeps its class. -/
def mergeOne (mk : Marks) (os : Outcomes) (n : String) : Outcomes :=
  match get? os n with
  | some o => put os n { o with failure := if o.failure = .none then .feedback else o.failure }
  | none => setOutcome mk os n false .feedback

/-- `processSidebandInfoLocked` (the map is iterated in some order; keys are distinct) -/
def processSideband (mk : Marks) (os : Outcomes) (sb : Sideband) : Outcomes :=
  sb.foldl (fun os e => mergeOne mk os e.1) os

/-- the `expectError` variable of `report` -/
def expectError (o : Outcome) : Bool :=
  if o.setupError then false else o.knownFailing || (o.knownFlaky && o.failure != .none)

/-- which arm of the `switch` in `report` an outcome takes -/
inductive Class where
  | couldNotRun | failed | unexpectedPass | info | succeeded
  deriving DecidableEq, Repr

def classify (o : Outcome) : Class :=
  if o.failure = .couldNotRun then .couldNotRun
  else if !expectError o && o.failure != .none then .failed
  else if expectError o && o.failure == .none then .unexpectedPass
  else if expectError o && o.failure != .none then .info
  else .succeeded

def count (c : Class) (os : Outcomes) : Nat := os.countP (fun e => classify e.2 = c)

def namesOf (p : Class → Bool) (os : Outcomes) : List String :=
  (os.filter (fun e => p (classify e.2))).map (·.1)

def isFailedClass : Class → Bool
  | .failed | .unexpectedPass => true
  | _ => false

def isInfoClass : Class → Bool
  | .info => true
  | _ => false

structure Report where
  ok : Bool
  /-- "Total cases: %d" = `len(r.outcomes)` -/
  totalCases : Nat
  succeeded : Nat
  failed : Nat
  expectedFailures : Nat
  couldNotRun : Nat
  /-- names printed on `FAILED:` lines -/
  failedNames : List String
  /-- names printed on `INFO:` lines -/
  infoNames : List String
  deriving Repr

/-- `report` with the verdict expression as a parameter -/
def reportWith (verdict : Nat → Nat → Bool) (mk : Marks) (total : Nat) (os : Outcomes) (sb : Sideband) : Report :=
  let os := processSideband mk os sb
  -- `couldNotRun := r.totalTestCount - len(testCaseNames)`, clamped at 0 (Nat subtraction)
  let failed := count .failed os + count .unexpectedPass os
  let couldNotRun := (total - os.length) + count .couldNotRun os
  { ok := verdict failed couldNotRun
    totalCases := os.length
    succeeded := count .succeeded os
    failed := failed
    expectedFailures := count .info os
    couldNotRun := couldNotRun
    failedNames := namesOf isFailedClass os
    infoNames := namesOf isInfoClass os }

/-- the repaired `report`: `return failed == 0 && couldNotRun == 0` -/
def report : Marks → Nat → Outcomes → Sideband → Report :=
  reportWith (fun failed couldNotRun => failed == 0 && couldNotRun == 0)

/-- `report` before the repair of F03: `return failed == 0` -/
def reportUnrepaired : Marks → Nat → Outcomes → Sideband → Report :=
  reportWith (fun failed _ => failed == 0)

/-- last line of `Run`: `return results.report(logPrinter) && err == nil, nil` -/
def runVerdict (r : Report) (runErr : Bool) : Bool := r.ok && !runErr

end ConfModel.Report
