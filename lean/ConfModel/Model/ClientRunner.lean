/-
Model of `clientProcessRunner` (internal/app/connectconformance/client_runner.go) together with the
process it talks to (process.go, `runInProcess` / `runCommand`) as a labelled transition system.

Atomicity = what the locks and atomics of the Go code give:
* `sendMu` is held from `sLock` until the send returns, so `closedSend` is read/written atomically
  with acquiring it; the blocking write happens while it is held;
* every `pendingMu` critical section is one step (`sRegister`, the clean-up part of `sWriteFail`,
  `rLookup`, `rDrain`); the callback of a normal answer runs outside the lock (`rFire`), the
  callbacks of the final drain run inside it (one step);
* `err` (CompareAndSwap), `terminated` (Store) and `abort` are separate atomic steps.

The client program is *not* modelled: it is the environment.  Its visible actions are events
(`sWriteOk`/`sWriteFail`: it consumed a request / the pipe was closed under the writer;
`rRecv m`/`rRecvEOF`/`rRecvBad`: a complete response named `m` / a clean end of stream / anything
else: truncated prefix or body, oversize prefix, undecodable body, time-out; `pExit`: it exits).
Every theorem quantifies over **all** event lists, i.e. all client behaviours and all interleavings
of any number of concurrent `sendRequest` calls with the output reader.

Request `i` (a call `sendRequest(req_i, cb_i)`) has test name `names i`.
Core Lean only.
-/
namespace ConfModel.ClientRunner

abbrev Name := Nat

/-- what `c.err` can hold / what a refused send returns: `errClosed`, or the reader's reason -/
inductive Err | closed | fail
  deriving DecidableEq, Repr

/-- return value of `sendRequest` -/
inductive SendRet | ok | dup | err (e : Err)
  deriving DecidableEq, Repr

/-- program counter of one `sendRequest` call -/
inductive SPc
  | idle      -- not called (yet)
  | waitLock  -- passed the `c.err` check, waiting for `sendMu`
  | locked    -- holds `sendMu`, `closedSend` was false
  | writing   -- registered in `pendingOps`, blocked in `WriteDelimitedMessage`
  | failed    -- write failed and its own entry was still there (removed); about to CAS `err`
  | ret (r : SendRet)
  deriving DecidableEq, Repr

/-- program counter of `consumeOutput` -/
inductive RPc
  | reading
  | got (m : Name)               -- decoded a response named m, before the pendingMu section
  | firing (i : Nat) (m : Name)  -- removed request i from pendingOps, about to call its callback
  | failErr | failTerm | failAbort  -- deferred func, reason ≠ EOF: CAS err; terminated; abort
  | closing                      -- about to closeSend (needs sendMu)
  | draining                     -- about to fail everything still pending
  | finishing                    -- about to close(done)
  | done
  deriving DecidableEq, Repr

inductive Proc | running | exited (code : Nat)
  deriving DecidableEq, Repr

structure State where
  spc : Nat → SPc
  sendMu : Option Nat
  closedSend : Bool
  /-- `pendingOps`: test name ↦ request whose callback is registered -/
  pending : List (Name × Nat)
  err : Option Err
  terminated : Bool
  rpc : RPc
  /-- log of callback invocations: request, `some m` = response named m, `none` = error -/
  fired : List (Nat × Option Name)
  /-- ghost: requests whose entry was found by the reader for a response of the client -/
  matched : List Nat
  proc : Proc
  aborted : Bool
  hookRan : Bool

def init : State :=
  { spc := fun _ => .idle, sendMu := none, closedSend := false, pending := [], err := none,
    terminated := false, rpc := .reading, fired := [], matched := [], proc := .running,
    aborted := false, hookRan := false }

inductive Event
  | sStart (i : Nat) | sLock (i : Nat) | sRegister (i : Nat)
  | sWriteOk (i : Nat) | sWriteFail (i : Nat) | sSetErr (i : Nat)
  | uCloseSend
  | rRecv (m : Name) | rRecvEOF | rRecvBad
  | rLookup | rFire | rSetErr | rTerminate | rAbort | rCloseSend | rDrain | rDone
  | pExit (code : Nat) | pHook
  deriving DecidableEq, Repr

def setPc (s : State) (i : Nat) (p : SPc) : State :=
  { s with spc := fun j => if j = i then p else s.spc j }

def lookup (p : List (Name × Nat)) (m : Name) : Option (Name × Nat) := p.find? (fun e => e.1 == m)
def eraseName (p : List (Name × Nat)) (m : Name) : List (Name × Nat) := p.eraseP (fun e => e.1 == m)

/-- `err.CompareAndSwap(nil, &e)` -/
def casErr (o : Option Err) (e : Err) : Option Err := match o with | some x => some x | none => some e

/-- One atomic step; `none` = the event is not enabled in `s`. -/
def step (names : Nat → Name) (s : State) : Event → Option State
  -- sendRequest ------------------------------------------------------------------------------
  | .sStart i =>
    if s.spc i = .idle then
      match s.err with
      | some e => some (setPc s i (.ret (.err e)))
      | none => some (setPc s i .waitLock)
    else none
  | .sLock i =>
    if s.spc i = .waitLock ∧ s.sendMu = none then
      if s.closedSend then some (setPc s i (.ret (.err .closed)))
      else some { setPc s i .locked with sendMu := some i }
    else none
  | .sRegister i =>
    if s.spc i = .locked then
      match lookup s.pending (names i) with
      | some _ => some { setPc s i (.ret .dup) with sendMu := none }
      | none => some { setPc s i .writing with pending := (names i, i) :: s.pending }
    else none
  | .sWriteOk i =>
    if s.spc i = .writing ∧ s.proc = .running then some { setPc s i (.ret .ok) with sendMu := none }
    else none
  | .sWriteFail i =>
    if s.spc i = .writing ∧ s.proc ≠ .running then
      match lookup s.pending (names i) with
      | some _ => some { setPc s i .failed with pending := eraseName s.pending (names i) }
      | none => some { setPc s i (.ret .ok) with sendMu := none }  -- "concurrently removed": nil
    else none
  | .sSetErr i =>
    if s.spc i = .failed then
      some { setPc s i (.ret (.err .closed)) with sendMu := none, err := casErr s.err .closed }
    else none
  -- closeSend called by the user of the runner ---------------------------------------------------
  | .uCloseSend => if s.sendMu = none then some { s with closedSend := true } else none
  -- consumeOutput ----------------------------------------------------------------------------
  | .rRecv m => if s.rpc = .reading then some { s with rpc := .got m } else none
  | .rRecvEOF => if s.rpc = .reading ∧ s.proc ≠ .running then some { s with rpc := .closing } else none
  | .rRecvBad => if s.rpc = .reading then some { s with rpc := .failErr } else none
  | .rLookup =>
    match s.rpc with
    | .got m =>
      match lookup s.pending m with
      | some e => some { s with pending := eraseName s.pending m, rpc := .firing e.2 m, matched := e.2 :: s.matched }
      | none => some { s with rpc := .failErr }   -- duplicate / unrecognised name
    | _ => none
  | .rFire =>
    match s.rpc with
    | .firing i m => some { s with fired := (i, some m) :: s.fired, rpc := .reading }
    | _ => none
  | .rSetErr => if s.rpc = .failErr then some { s with err := casErr s.err .fail, rpc := .failTerm } else none
  | .rTerminate => if s.rpc = .failTerm then some { s with terminated := true, rpc := .failAbort } else none
  | .rAbort => if s.rpc = .failAbort then some { s with aborted := true, rpc := .closing } else none
  | .rCloseSend =>
    if s.rpc = .closing ∧ s.sendMu = none then some { s with closedSend := true, rpc := .draining } else none
  | .rDrain =>
    if s.rpc = .draining then
      some { s with fired := s.pending.map (fun e => (e.2, none)) ++ s.fired, pending := [], rpc := .finishing }
    else none
  | .rDone => if s.rpc = .finishing then some { s with rpc := .done } else none
  -- the process ------------------------------------------------------------------------------
  | .pExit code => if s.proc = .running then some { s with proc := .exited code } else none
  | .pHook =>
    -- `proc.whenDone(func(error) { terminated.Store(true) })`  (the repaired code, finding F04)
    if s.proc ≠ .running ∧ s.hookRan = false then some { s with terminated := true, hookRan := true } else none

/-- run an event list, skipping events that are not enabled -/
def run (names : Nat → Name) : State → List Event → State
  | s, [] => s
  | s, e :: es => match step names s e with
    | some s' => run names s' es
    | none => run names s es

/-- number of callback invocations for request i -/
def firedCount (s : State) (i : Nat) : Nat := (s.fired.filter (fun f => f.1 == i)).length

def isRunning (s : State) : Bool := !s.terminated

/-- `waitForResponses` can return: `<-c.done` passes (the wait for the process is bounded by timers). -/
def waitEnabled (s : State) : Bool := s.rpc == .done

/-- the send holds `sendMu` -/
def holds (p : SPc) : Bool := match p with | .locked | .writing | .failed => true | _ => false

/-- the reader is past its `closeSend` -/
def readerClosed (r : RPc) : Bool := match r with | .draining | .finishing | .done => true | _ => false

/-- events that are actions of the runner's own goroutines (not choices of the client/user) -/
def Event.internal : Event → Bool
  | .sLock _ | .sRegister _ | .sWriteFail _ | .sSetErr _ => true
  | .rRecvEOF | .rLookup | .rFire | .rSetErr | .rTerminate | .rAbort | .rCloseSend | .rDrain | .rDone => true
  | _ => false

/-- what the reader goroutine does after a failure of the output stream (anything but a well-formed
response or a clean end: also a length prefix above the limit — `Delimited.Res.tooLarge`), when no
send is in progress: the deferred function of `consumeOutput` from `CompareAndSwap` to `close(done)` -/
def failSeq : List Event := [.rRecvBad, .rSetErr, .rTerminate, .rAbort, .rCloseSend, .rDrain, .rDone]

/-! ### the `sync.WaitGroup` of a server batch that sends through the runner (C05)

`runTestCasesForServer` does `wg.Add(1)` before every `sendRequest`, `wg.Done()` inside the
completion callback, and `wg.Done()` itself when `sendRequest` returns an error (after which it
sends nothing more); then it blocks in `wg.Wait()` before it stops its server.  For the requests
`ids` of one batch: -/

def started : SPc → Nat
  | .idle => 0
  | _ => 1

/-- `wg.Done()` by the batch itself: the send was refused -/
def refusedDone : SPc → Nat
  | .ret .dup => 1
  | .ret (.err _) => 1
  | _ => 0

def wgAdds (s : State) (ids : List Nat) : Nat := (ids.map (fun i => started (s.spc i))).sum
def wgDones (s : State) (ids : List Nat) : Nat := (ids.map (fun i => firedCount s i + refusedDone (s.spc i))).sum

/-- `wg.Wait()` of the batch passes -/
def batchWaitPasses (s : State) (ids : List Nat) : Bool := wgDones s ids == wgAdds s ids

/-! ### `waitForResponses`: how long the runner waits for the client process (C10)

```
<-c.done                                         -- the output reader has finished
go func() { procErrChan <- c.proc.result() }()
select { case procErr = <-procErrChan:
         case <-time.After(3 * time.Second): c.proc.abort(); procErr = <-procErrChan }
```
`result()` of an in-process client (`localProcess`) returns when the client function has returned
or when `gracefulShutdownPeriod` has passed since the call — `abort()` only cancels a context, which a
client that sits in a write on its unread output never sees.  `result()` of an OS process
(`cmdProcess`) waits for `done`, which is closed when the process has been reaped, or — after
`abort()` — by the abort goroutine once it has waited `gracefulShutdownPeriod`, closed the pipes, and
waited the same time again.  The process (whether and when it ends) is the environment. -/

inductive ProcKind | inProcess | osProcess
  deriving DecidableEq, Repr

structure WaitCfg where
  kind : ProcKind
  /-- `localProcess.result()` gives up after `gracefulShutdownPeriod` -/
  localResultBounded : Bool
  deriving Repr

inductive WPc
  | waitDone   -- `<-c.done`
  | waitProc   -- in the select
  | prodded    -- `c.proc.abort()` called, `procErr = <-procErrChan`
  | returned
  deriving DecidableEq, Repr

structure WSt where
  wpc : WPc
  readerDone : Bool
  /-- the client function has returned / the OS process has been reaped -/
  procGone : Bool
  /-- `c.proc.result()` was called (its grace timer runs from here) -/
  resultCalled : Bool
  graceElapsed : Bool
  /-- `procErrChan` holds the result -/
  resultOut : Bool
  aborted : Bool
  /-- the goroutine of `cmdProcess.abort`: 0 first grace period · 1 pipes force-closed · 2 gave up: `markDone` -/
  abortStage : Nat
  deriving DecidableEq, Repr

def winit : WSt :=
  { wpc := .waitDone, readerDone := false, procGone := false, resultCalled := false, graceElapsed := false,
    resultOut := false, aborted := false, abortStage := 0 }

inductive WEv
  | rDone        -- the output reader finishes                                   (environment)
  | pGone        -- the client process ends                                      (environment)
  | passDone     -- `<-c.done` passes; the goroutine calling `result()` is started
  | tGrace       -- `gracefulShutdownPeriod` has passed since `result()` was called
  | deliver      -- `result()` returns, its value is put on `procErrChan`
  | t3s          -- the 3 s timer of the select fires: `abort()`
  | aForce       -- abort goroutine (OS process): first grace period over, pipes closed
  | aGiveUp      -- abort goroutine (OS process): second grace period over, `markDone`
  | gotResult    -- `waitForResponses` receives from `procErrChan` and returns
  deriving DecidableEq, Repr

def WEv.internal : WEv → Bool
  | .rDone | .pGone => false
  | _ => true

/-- `result()` can return -/
def resultReady (cfg : WaitCfg) (s : WSt) : Bool :=
  match cfg.kind with
  | .inProcess => s.procGone || (cfg.localResultBounded && s.graceElapsed)
  | .osProcess => s.procGone || s.abortStage == 2

def wstep (cfg : WaitCfg) (s : WSt) : WEv → Option WSt
  | .rDone => if s.readerDone = false then some { s with readerDone := true } else none
  | .pGone => if s.procGone = false then some { s with procGone := true } else none
  | .passDone => if s.wpc = .waitDone ∧ s.readerDone = true then some { s with wpc := .waitProc, resultCalled := true } else none
  | .tGrace => if s.resultCalled = true ∧ s.graceElapsed = false then some { s with graceElapsed := true } else none
  | .deliver => if s.resultCalled = true ∧ s.resultOut = false ∧ resultReady cfg s = true then some { s with resultOut := true } else none
  | .t3s => if s.wpc = .waitProc then some { s with wpc := .prodded, aborted := true } else none
  | .aForce => if cfg.kind = .osProcess ∧ s.aborted = true ∧ s.abortStage = 0 then some { s with abortStage := 1 } else none
  | .aGiveUp => if cfg.kind = .osProcess ∧ s.aborted = true ∧ s.abortStage = 1 then some { s with abortStage := 2 } else none
  | .gotResult => if (s.wpc = .waitProc ∨ s.wpc = .prodded) ∧ s.resultOut = true then some { s with wpc := .returned } else none

def wrun (cfg : WaitCfg) : WSt → List WEv → WSt
  | s, [] => s
  | s, e :: es => match wstep cfg s e with
    | some s' => wrun cfg s' es
    | none => wrun cfg s es

/-- remaining own steps of `waitForResponses` and the timers it relies on -/
def wmu (s : WSt) : Nat :=
  (match s.wpc with | .waitDone => 3 | .waitProc => 2 | .prodded => 1 | .returned => 0) +
    (if s.graceElapsed then 0 else 1) + (if s.resultOut then 0 else 1) + (2 - s.abortStage)

/-- the steps of the runner's own goroutines and timers -/
def wown : List WEv := [.passDone, .tGrace, .deliver, .t3s, .aForce, .aGiveUp, .gotResult]

/-- no own step (timer, goroutine) is enabled -/
def wstuck (cfg : WaitCfg) (s : WSt) : Bool := wown.all (fun e => (wstep cfg s e).isNone)

/-- the own steps in a fixed order, `fuel` rounds (the process never ends by itself) -/
def wsettle (cfg : WaitCfg) (s : WSt) : Nat → WSt
  | 0 => s
  | fuel + 1 => wsettle cfg (wrun cfg s wown) fuel

/-- the code as it is -/
def waitCode (k : ProcKind) : WaitCfg := { kind := k, localResultBounded := true }
/-- the variant in which `localProcess.result()` just waits for the client function to return -/
def waitUnbounded : WaitCfg := { kind := .inProcess, localResultBounded := false }

end ConfModel.ClientRunner
