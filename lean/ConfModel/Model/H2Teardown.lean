/-
C16 — script-level model of one traced HTTP/2 connection (`tracingHTTP2Conn` of
internal/tracer/http2.go) as far as the *number of completions per operation* is concerned:
which streams are open, the GOAWAY limit, and — through `lower` — the sequence of calls the
connection makes on its `http2RetryCollector` (model `ConfModel.H2.Coll`, Model/H2Retry.lean):
`Complete` of a finished stream's builder, `newAttempt` for a new stream, `timesUp` when a retry
timer fires, `cancel` from `cancelAll` on every failed Read, failed Write and Close.
A trace is identified by its test name and stream id.
-/
import ConfModel.Model.H2Retry
namespace ConfModel.H2Teardown
open ConfModel.H2

inductive Step
  | opn (sid : Nat) (name : String)        -- request HEADERS: new stream ("" = no test name)
  | reqEnd (sid : Nat)                     -- request side END_STREAM
  | respEnd (sid : Nat)                    -- response HEADERS with END_STREAM
  | rst (sid : Nat) (code : Nat) (fromClient : Bool)
  | goaway (last : Nat) (code : Nat)
  | teardown                               -- failed Read / failed Write / Close: cancelAll
  | readTimeout                            -- a Read that times out: ignored
  | timers                                 -- every retry timer started so far fires
deriving DecidableEq, Repr

structure Conn where
  streams : List (Nat × String)   -- open streams: id, test name
  maxId : Nat                     -- maxStreamID (0 = none)
  held : List String              -- names with a retry timer started (for `timers`)
deriving DecidableEq, Repr

def Conn.init : Conn := ⟨[], 0, []⟩

def mkTrace (name : String) (sid : Nat) (err : Err) : Trace :=
  { Trace.empty with name := name, req := [("id", toString sid)], err := err }

/-- the builder of a stream without test name never completes anything -/
def completeOf (name : String) (sid : Nat) (err : Err) : List COp :=
  if name == "" then [] else [.complete (mkTrace name sid err)]

def heldAfter (held : List String) (ops : List COp) : List String :=
  ops.foldl (fun h op => match op with
    | .complete t => if t.err.retryable then t.name :: h else h
    | _ => h) held

/-- one step of the connection: new state and the calls on the retry collector, in order -/
def lower (c : Conn) : Step → Conn × List COp
  | .opn sid name =>
    if (c.streams.lookup sid).isSome then (c, [])
    else if c.maxId != 0 && sid > c.maxId then (c, [])
    else ({ c with streams := c.streams ++ [(sid, name)] }, [.newAttempt name])
  | .reqEnd _ => (c, [])
  | .respEnd sid =>
    match c.streams.lookup sid with
    | none => (c, [])
    | some name => ({ c with streams := c.streams.filter (·.1 != sid) }, completeOf name sid .none)
  | .rst sid code _ =>
    match c.streams.lookup sid with
    | none => (c, [])
    | some name =>
      let ops := completeOf name sid (.stream sid code)
      ({ c with streams := c.streams.filter (·.1 != sid), held := heldAfter c.held ops }, ops)
  | .goaway last code =>
    let gone := c.streams.filter (·.1 > last)
    let ops := gone.flatMap (fun p => completeOf p.2 p.1 (.conn code))
    ({ streams := c.streams.filter (fun p => !(p.1 > last)), maxId := last, held := heldAfter c.held ops }, ops)
  | .teardown =>
    ({ c with streams := [], held := [] },
      c.streams.flatMap (fun p => completeOf p.2 p.1 (.io "x")) ++ [.cancel])
  | .readTimeout => (c, [])
  | .timers => ({ c with held := [] }, c.held.map .timesUp)

def lowerAll : Conn → List Step → List COp
  | _, [] => []
  | c, s :: ss => (lower c s).2 ++ lowerAll (lower c s).1 ss

/-- what the downstream collector receives during a script -/
def deliveries (steps : List Step) : List Trace := (Coll.init.run (lowerAll Conn.init steps)).out

end ConfModel.H2Teardown
