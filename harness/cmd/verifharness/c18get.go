package main

// C18, the `message` query parameter of a Connect GET as bytes on the wire.
//
//   encoder (repository)   referenceclient.rawRequestSender: EncodedQueryParams -> base64.URLEncoding
//                          (param.Base64Encode) -> url.Values.Encode -> request URI
//   decoder (other side)   net/http's url.ParseQuery + connect-go's GET handling (binaryQueryValueReader:
//                          padded or raw URL-safe base64), in front of a handler whose codec hands over
//                          the decoded bytes AS THEY ARE - so the message may be any byte string, of any
//                          length mod 3, not only a well-formed protobuf message
//
// ops
//   getwire : {msg, b64, how, extra}  the real sender builds the request; the transport it is given records
//             the URI's raw query and serves the request with the connect-go handler. Output: the raw query,
//             the value of `message` cut out of it textually, the status and the bytes the handler received.
//   getdec  : {param, b64}  an arbitrary parameter value (escaped by url.QueryEscape) handed to the same
//             handler: the decoding end alone (both alphabets, padded / raw / wrongly padded values).

import (
	"context"
	"encoding/base64"
	"encoding/json"
	"io"
	"net/http"
	"net/http/httptest"
	"net/url"
	"strconv"
	"strings"

	connect "connectrpc.com/connect"
	rc "connectrpc.com/conformance/internal/app/referenceclient"
	conformancev1 "connectrpc.com/conformance/internal/gen/proto/go/connectrpc/conformance/v1"
	"connectrpc.com/conformance/internal/verifharness/gen"
)

func init() {
	gen.RegisterOp("c18", "getwire", func(_ *gen.Ctx, raw json.RawMessage) any { return c18GetWire(gen.Into[c18GetWireIn](raw)) })
	gen.RegisterOp("c18", "getdec", func(_ *gen.Ctx, raw json.RawMessage) any { return c18GetDec(gen.Into[c18GetDecIn](raw)) })
}

type c18RawMsg struct{ B []byte }

// c18RawCodec hands the bytes connect-go decoded from the request to the handler unchanged.
type c18RawCodec struct{}

func (c18RawCodec) Name() string { return "raw" }
func (c18RawCodec) Marshal(m any) ([]byte, error) {
	return m.(*c18RawMsg).B, nil
}
func (c18RawCodec) Unmarshal(b []byte, m any) error {
	m.(*c18RawMsg).B = append([]byte{}, b...)
	return nil
}

const c18RawProcedure = "/verif.Raw/Echo"

var c18RawHandler http.Handler = connect.NewUnaryHandler(c18RawProcedure,
	func(_ context.Context, req *connect.Request[c18RawMsg]) (*connect.Response[c18RawMsg], error) {
		resp := connect.NewResponse(&c18RawMsg{B: req.Msg.B})
		resp.Header().Set("X-Verif-Method", req.HTTPMethod())
		return resp, nil
	},
	connect.WithCodec(c18RawCodec{}),
	connect.WithIdempotency(connect.IdempotencyNoSideEffects),
)

type c18GetWireIn struct {
	Msg string `json:"msg"` // hex: the bytes of the request message (any bytes)
	B64 bool   `json:"b64"` // base64_encode / base64=1
	// how the fixed parameters are given: "uri" inside RawHTTPRequest.uri, "rawq" as raw_query_params
	How string `json:"how"`
	// other encoded parameters around `message` (names sort before and after it), with these bytes
	Extra string `json:"extra,omitempty"`
}
type c18GetWireOut struct {
	Fail   string `json:"fail,omitempty"`
	Query  string `json:"query"`  // hex: the raw query of the request the sender built
	Wire   string `json:"wire"`   // hex: the value of `message` in it ("" with Found=false if absent)
	Found  int    `json:"found"`  // number of `message=` pairs in the raw query
	Pairs  int    `json:"pairs"`  // number of &-separated pairs
	Status int    `json:"status"` // HTTP status of the handler's response
	Method string `json:"method"` // the method the handler saw
	Got    string `json:"got"`    // hex: the bytes the handler received as the message
}

type c18RecordingTransport struct {
	h     http.Handler
	query *string
}

func (t c18RecordingTransport) RoundTrip(req *http.Request) (*http.Response, error) {
	*t.query = req.URL.RawQuery
	rec := httptest.NewRecorder()
	t.h.ServeHTTP(rec, req)
	return rec.Result(), nil
}

func c18GetWire(in c18GetWireIn) c18GetWireOut {
	msg := c18MustUnhex(in.Msg)
	extra := c18MustUnhex(in.Extra)
	raw := &conformancev1.RawHTTPRequest{Verb: http.MethodGet}
	b64 := "0"
	if in.B64 {
		b64 = "1"
	}
	if in.How == "rawq" {
		raw.Uri = c18RawProcedure
		raw.RawQueryParams = []*conformancev1.Header{
			{Name: "connect", Value: []string{"v1"}},
			{Name: "encoding", Value: []string{"raw"}},
			{Name: "base64", Value: []string{b64}},
		}
	} else {
		raw.Uri = c18RawProcedure + "?connect=v1&encoding=raw&base64=" + b64
	}
	param := func(name string, data []byte, enc bool) *conformancev1.RawHTTPRequest_EncodedQueryParam {
		return &conformancev1.RawHTTPRequest_EncodedQueryParam{
			Name: name, Base64Encode: enc,
			Value: &conformancev1.MessageContents{Data: &conformancev1.MessageContents_Binary{Binary: data}},
		}
	}
	nPairs := 4
	if in.Extra != "" {
		raw.EncodedQueryParams = append(raw.EncodedQueryParams, param("zz", extra, false))
		nPairs += 2
	}
	raw.EncodedQueryParams = append(raw.EncodedQueryParams, param("message", msg, in.B64))
	if in.Extra != "" {
		raw.EncodedQueryParams = append(raw.EncodedQueryParams, param("aa", extra, !in.B64))
	}
	var query string
	rt := rc.VerifC17RawRequestSender(c18RecordingTransport{c18RawHandler, &query}, raw)
	orig, _ := http.NewRequestWithContext(context.Background(), http.MethodGet, "http://verif.test/", http.NoBody)
	resp, err := rt.RoundTrip(orig)
	if err != nil {
		return c18GetWireOut{Fail: "round trip: " + err.Error()}
	}
	body, _ := io.ReadAll(resp.Body)
	_ = resp.Body.Close()
	out := c18GetWireOut{Query: gen.Hex([]byte(query)), Status: resp.StatusCode, Method: resp.Header.Get("X-Verif-Method")}
	for _, pair := range strings.Split(query, "&") {
		out.Pairs++
		if v, ok := strings.CutPrefix(pair, "message="); ok {
			out.Found++
			out.Wire = gen.Hex([]byte(v))
		}
	}
	if out.Pairs != nPairs {
		out.Fail = "the raw query does not consist of the expected number of pairs"
	}
	if resp.StatusCode == http.StatusOK {
		out.Got = gen.Hex(body)
	}
	return out
}

type c18GetDecIn struct {
	Param string `json:"param"` // hex: the value of `message` before query escaping
	B64   bool   `json:"b64"`
}
type c18GetDecOut struct {
	Status int    `json:"status"`
	Got    string `json:"got"`
}

func c18GetDec(in c18GetDecIn) c18GetDecOut {
	b64 := "0"
	if in.B64 {
		b64 = "1"
	}
	target := "http://verif.test" + c18RawProcedure + "?connect=v1&encoding=raw&base64=" + b64 +
		"&message=" + url.QueryEscape(string(c18MustUnhex(in.Param)))
	req := httptest.NewRequest(http.MethodGet, target, http.NoBody)
	rec := httptest.NewRecorder()
	c18RawHandler.ServeHTTP(rec, req)
	out := c18GetDecOut{Status: rec.Code}
	if rec.Code == http.StatusOK {
		out.Got = gen.Hex(rec.Body.Bytes())
	}
	return out
}

func c18GetWireGen(c *gen.Ctx) {
	r := c.R
	n, nd := 0, 0
	hows := []string{"uri", "rawq"}
	wire := func(msg []byte, b64 bool, extra []byte) {
		c.Do("getwire", c18GetWireIn{Msg: gen.Hex(msg), B64: b64, How: hows[n%2], Extra: gen.Hex(extra)})
		n++
	}
	dec := func(p []byte, b64 bool) {
		c.Do("getdec", c18GetDecIn{Param: gen.Hex(p), B64: b64})
		nd++
	}
	// every length 0..9 (all residues mod 3, several quanta) of bytes whose sextets are 0, 62 (FB EF BE ->
	// "----" / "++++"), 63 (FF -> "____" / "////") and a mixture, with and without base64
	fills := [][]byte{{0}, {0xFB, 0xEF, 0xBE}, {0xFF}, {0xFB, 0xFF, 0x3E, 0x3F}, {'+', '/', '=', '&'}}
	for l := 0; l <= 9; l++ {
		for _, f := range fills {
			m := make([]byte, l)
			for i := range m {
				m[i] = f[i%len(f)]
			}
			wire(m, true, nil)
			wire(m, false, nil)
			wire(m, true, []byte("a&message=b#;+ %"))
		}
	}
	// every byte value in each position of a quantum, base64 and plain (plain: every byte through the
	// query escaping, alone and between letters)
	for b := 0; b < 256; b++ {
		for _, m := range [][]byte{{byte(b)}, {0xFB, byte(b)}, {0xFF, 0xFE, byte(b)}, {'a', byte(b), 'z'}} {
			wire(m, true, nil)
			wire(m, false, nil)
		}
	}
	// pairs over the bytes a query string gives a meaning to, and the two base64 alphabets' specials
	special := []byte("+&=%#;? /-_~.\"{}:,\\\r\n\x00\x7f\x80\xff*!'()@$<>[]^`|")
	for _, a := range special {
		for _, b := range special {
			if c.Thorough() || (int(a)+int(b))%3 == 0 {
				wire([]byte{a, b}, false, nil)
			}
		}
	}
	// JSON messages as protojson writes them: bytes fields in the STANDARD alphabet, padded
	for l := 0; l <= 6; l++ {
		d := make([]byte, l)
		for i := range d {
			d[i] = []byte{0xFB, 0xFF, 0xFE}[i%3]
		}
		js, _ := json.Marshal(map[string]string{"requestData": base64.StdEncoding.EncodeToString(d)})
		wire(js, false, nil)
		wire(js, true, nil)
	}
	nRand := 400
	if c.Thorough() {
		nRand = 30000
	}
	for i := 0; i < nRand; i++ {
		var extra []byte
		if r.Intn(4) == 0 {
			extra = r.Bytes(1 + r.Intn(6))
		}
		m := r.Bytes(r.Intn(60))
		if r.Intn(3) == 0 { // mostly 0xFB..0xFF: many 62 / 63 sextets
			for j := range m {
				m[j] |= 0xFB
			}
		}
		wire(m, r.Intn(3) != 0, extra)
	}
	// the decoding end alone: every value over the characters that matter up to length 4 (5)
	alpha := []byte("QR-_+/=")
	maxLen := 4
	if c.Thorough() {
		maxLen = 5
	}
	var rec func(p []byte)
	rec = func(p []byte) {
		dec(p, true)
		if len(p) == maxLen {
			return
		}
		for _, ch := range alpha {
			rec(append(append([]byte{}, p...), ch))
		}
	}
	rec(nil)
	// the four encodings (URL / standard alphabet, padded / raw) of the same bytes, base64 and plain
	for l := 0; l <= 9; l++ {
		for _, f := range fills[:4] {
			m := make([]byte, l)
			for i := range m {
				m[i] = f[i%len(f)]
			}
			for _, e := range []*base64.Encoding{base64.URLEncoding, base64.RawURLEncoding, base64.StdEncoding, base64.RawStdEncoding} {
				p := []byte(e.EncodeToString(m))
				dec(p, true)
				dec(p, false)
				dec(append(p, '='), true)
				if len(p) > 0 {
					dec(p[:len(p)-1], true)
				}
			}
		}
	}
	for i := 0; i < nRand; i++ {
		m := r.Bytes(r.Intn(40))
		e := []*base64.Encoding{base64.URLEncoding, base64.RawURLEncoding, base64.StdEncoding, base64.RawStdEncoding}[r.Intn(4)]
		dec([]byte(e.EncodeToString(m)), r.Intn(4) != 0)
	}
	c.E.Add("getwire", n)
	c.E.Add("getdec", nd)
}

// c18GetFacts: the two base64 alphabets (each library encoder called on the 48 bytes whose sextets are
// 0..63) and url.QueryEscape called on every single byte.
func c18GetFacts(sb *strings.Builder) {
	packed := make([]byte, 0, 48)
	for s := 0; s < 64; s += 4 {
		v := uint32(s)<<18 | uint32(s+1)<<12 | uint32(s+2)<<6 | uint32(s+3)
		packed = append(packed, byte(v>>16), byte(v>>8), byte(v))
	}
	list := func(name, doc string, b []byte) {
		sb.WriteString("/-- " + doc + " -/\ndef " + name + " : List Nat := [")
		for i, x := range b {
			if i > 0 {
				sb.WriteString(", ")
			}
			sb.WriteString(strconv.Itoa(int(x)))
		}
		sb.WriteString("]\n\n")
	}
	list("urlAlphabet", "base64.RawURLEncoding of the bytes whose sextets are 0..63", []byte(base64.RawURLEncoding.EncodeToString(packed)))
	list("stdAlphabet", "base64.RawStdEncoding of the same bytes", []byte(base64.RawStdEncoding.EncodeToString(packed)))
	sb.WriteString("/-- url.QueryEscape called on every single byte 0..255 -/\ndef queryEscapeByte : List (List Nat) := [")
	for b := 0; b < 256; b++ {
		if b > 0 {
			sb.WriteString(", ")
		}
		sb.WriteString("[")
		for i, x := range []byte(url.QueryEscape(string([]byte{byte(b)}))) {
			if i > 0 {
				sb.WriteString(", ")
			}
			sb.WriteString(strconv.Itoa(int(x)))
		}
		sb.WriteString("]")
	}
	sb.WriteString("]\n\n")
}
