/-
How an assignment (`RunVerdict.Case` list) is turned into calls of the `testResults` API — the
same sequence the in-package wrapper `VerifC04Report` issues on the real code:
for every case in order: (feedback first?) `recordSideband`; the outcome call of its kind;
(feedback after?) `recordSideband`; finally `failRemaining` over every case whose batch ran
(kind ≠ missing), as `runTestCasesForServer` does; then `report`.
-/
import ConfModel.Model.Report
import ConfModel.Spec.RunVerdict
namespace ConfModel.Report
open ConfModel.RunVerdict

structure Step where
  c : Case
  /-- peer feedback is recorded before (true) or after the outcome -/
  sbFirst : Bool
  deriving Repr, Inhabited

def marksOf (cases : List Case) : Marks :=
  { failing := fun n => cases.any (fun c => c.name == n && c.mark == .failing)
    flaky := fun n => cases.any (fun c => c.name == n && c.mark == .flaky) }

/-- the outcome call made for a case of the given kind -/
def applyKind (mk : Marks) (os : Outcomes) (c : Case) : Outcomes :=
  match c.kind with
  | .pass => setOutcome mk os c.name false .none              -- `assert` with a matching result
  | .assertFail => setOutcome mk os c.name false .assertion   -- `assert` with a deviating result
  | .clientErr => setOutcome mk os c.name false .clientError  -- `failed`
  | .setupErr => failedToStart mk os [c.name] .other
  | .couldNotRun => setOutcome mk os c.name true .couldNotRun
  | .noResult => os                                            -- left to `failRemaining`
  | .missing => os

def feedbackMsg : String := "peer feedback"

def stepOne (mk : Marks) (st : Outcomes × Sideband) (s : Step) : Outcomes × Sideband :=
  let sb1 := if s.c.feedback && s.sbFirst then recordSideband st.2 s.c.name feedbackMsg else st.2
  let os1 := applyKind mk st.1 s.c
  let sb2 := if s.c.feedback && !s.sbFirst then recordSideband sb1 s.c.name feedbackMsg else sb1
  (os1, sb2)

def runSteps (mk : Marks) (steps : List Step) : Outcomes × Sideband :=
  let st := steps.foldl (stepOne mk) ([], [])
  let batch := (steps.filter (fun s => s.c.kind != .missing)).map (·.c.name)
  (failRemaining mk st.1 batch .other, st.2)

def scriptReport (total : Nat) (steps : List Step) : Report :=
  let mk := marksOf (steps.map (·.c))
  let st := runSteps mk steps
  report mk total st.1 st.2

end ConfModel.Report

namespace ConfModel.Report
open ConfModel.RunVerdict

/-! ### What the script amounts to: the final outcome of each case -/

def markFailing (c : Case) : Bool := c.mark == .failing
def markFlaky (c : Case) : Bool := c.mark == .flaky

/-- the outcome recorded by the runner for a case (before peer feedback is merged) -/
def baseOutcome (c : Case) : Option Outcome :=
  let mkO (f : Fail) (setup : Bool) : Option Outcome :=
    some { failure := f, setupError := setup, knownFailing := markFailing c, knownFlaky := markFlaky c }
  match c.kind with
  | .pass => mkO .none false
  | .assertFail => mkO .assertion false
  | .clientErr => mkO .clientError false
  | .setupErr => mkO .other true
  | .noResult => mkO .other true
  | .couldNotRun => mkO .couldNotRun true
  | .missing => none

/-- the outcome `report` sees for a case, after merging peer feedback -/
def finalOutcome (c : Case) : Option Outcome :=
  if c.feedback then
    match baseOutcome c with
    | some o => some { o with failure := if o.failure = .none then .feedback else o.failure }
    | none => some { failure := .feedback, setupError := false, knownFailing := markFailing c, knownFlaky := markFlaky c }
  else baseOutcome c

/-- the outcome map of an assignment -/
def finalMap (cases : List Case) : Outcomes :=
  cases.filterMap (fun c => (finalOutcome c).map (fun o => (c.name, o)))

end ConfModel.Report
