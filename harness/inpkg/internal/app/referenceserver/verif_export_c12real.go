//go:build verif

package referenceserver

import (
	"bytes"
	"sync"
	"time"

	"connectrpc.com/conformance/internal"
	conformancev1 "connectrpc.com/conformance/internal/gen/proto/go/connectrpc/conformance/v1"
	"connectrpc.com/conformance/internal/tracer"
)

type verifC12Stderr struct {
	mu  sync.Mutex
	buf bytes.Buffer
}

func (b *verifC12Stderr) Write(p []byte) (int, error) {
	b.mu.Lock()
	defer b.mu.Unlock()
	return b.buf.Write(p)
}

func (b *verifC12Stderr) take() string {
	b.mu.Lock()
	defer b.mu.Unlock()
	s := b.buf.String()
	b.buf.Reset()
	return s
}

// VerifC12Real is a reference server exactly as createServer builds it in reference mode
// (the complete handler chain, the HTTP/1.1, HTTP/2 or HTTP/3 server, TLS), listening on a
// loopback port, its "stderr" captured through internal.NewPrinter like the real process's.
type VerifC12Real struct {
	svr    httpServer
	stderr *verifC12Stderr
	done   chan struct{}
	Addr   string
}

// VerifC12StartReal starts such a server. serverCert/serverKey are used when useTLS;
// clientCACert non-empty makes the server require and verify a client certificate.
func VerifC12StartReal(httpVersion int32, useTLS bool, serverCert, serverKey, clientCACert []byte) (*VerifC12Real, error) {
	return VerifC12StartRealTraced(httpVersion, useTLS, serverCert, serverKey, clientCACert, false)
}

// VerifC12StartRealTraced: traced = the server is given a tracer.Tracer, as when the runner is
// started with --trace (createServer then installs tracer.TracingHandler around the checks).
func VerifC12StartRealTraced(httpVersion int32, useTLS bool, serverCert, serverKey, clientCACert []byte, traced bool) (*VerifC12Real, error) {
	req := &conformancev1.ServerCompatRequest{
		Protocol:    conformancev1.Protocol_PROTOCOL_CONNECT,
		HttpVersion: conformancev1.HTTPVersion(httpVersion),
		UseTls:      useTLS,
	}
	if useTLS {
		req.ServerCreds = &conformancev1.TLSCreds{Cert: serverCert, Key: serverKey}
		req.ClientTlsCert = clientCACert
	}
	stderr := &verifC12Stderr{}
	var trace *tracer.Tracer
	if traced {
		trace = &tracer.Tracer{}
	}
	svr, _, err := createServer(req, "127.0.0.1:0", "", "", true, internal.NewPrinter(stderr), trace)
	if err != nil {
		return nil, err
	}
	r := &VerifC12Real{svr: svr, stderr: stderr, done: make(chan struct{}), Addr: svr.Addr()}
	go func() {
		defer close(r.done)
		_ = svr.Serve()
	}()
	return r, nil
}

// Stderr returns (and clears) what the server has written to its stderr so far.
func (r *VerifC12Real) Stderr() string { return r.stderr.take() }

// Stop shuts the server down (waiting for handlers that are still running) and returns the
// rest of its stderr.
func (r *VerifC12Real) Stop() string {
	_ = r.svr.GracefulShutdown(5 * time.Second)
	select {
	case <-r.done:
	case <-time.After(5 * time.Second):
	}
	return r.stderr.take()
}
