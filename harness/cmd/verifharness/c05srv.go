package main

import (
	"encoding/json"

	cc "connectrpc.com/conformance/internal/app/connectconformance"
	"connectrpc.com/conformance/internal/verifharness/gen"
)

// C05, op "handshake": a batch of the real runTestCasesForServer against a server that starts
// properly and reads its ServerCompatRequest in one of the legitimate ways — not before it has
// answered (blind), exactly the one length-prefixed message (msg), everything up to the END of its
// input (eof) — as a real OS process (/bin/sh script through the repository's runCommand) and
// in-process (the repository's runInProcess).  Whichever way it reads: every permutation of the
// batch must be handed to the client exactly once, with the server's host and port, and the server
// must be gone when the batch returns.  (The peers of op "run" read exactly one message.)

func init() {
	gen.RegisterOp("c05", "handshake", func(_ *gen.Ctx, raw json.RawMessage) any {
		return cc.VerifC05Handshake(gen.Into[cc.VerifC05HandshakeSpec](raw))
	})
}

func c05HandshakeScenarios(c *gen.Ctx) []any {
	var ins []any
	for _, kind := range []string{"sh", "inproc"} {
		for _, read := range []string{"eof", "msg", "blind"} {
			for _, tls := range []bool{false, true} {
				delay := 0
				if c.R.Chance(1, 3) {
					delay = gen.Pick(c.R, []int{50, 300})
				}
				ins = append(ins, cc.VerifC05HandshakeSpec{Kind: kind, Read: read, N: c.R.Range(1, 4), UseTLS: tls, DelayMs: delay, TimeoutS: 30})
				c.E.Count("handshake:" + kind + ":" + read)
			}
		}
	}
	if c.Thorough() {
		for i := 0; i < 24; i++ {
			ins = append(ins, cc.VerifC05HandshakeSpec{Kind: gen.Pick(c.R, []string{"sh", "inproc"}), Read: gen.Pick(c.R, []string{"eof", "eof", "msg", "blind"}),
				N: c.R.Range(0, 8), UseTLS: c.R.Bool(), DelayMs: gen.Pick(c.R, []int{0, 0, 20, 300, 1200}), TimeoutS: 30})
		}
	}
	return ins
}
