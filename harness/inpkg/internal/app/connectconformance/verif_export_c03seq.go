//go:build verif

package connectconformance

import (
	"errors"
	"regexp"
	"sort"
	"strconv"
	"strings"

	"connectrpc.com/conformance/internal"
	conformancev1 "connectrpc.com/conformance/internal/gen/proto/go/connectrpc/conformance/v1"
)

// One testResults accumulator under a sequence of calls with repeated names: what assert PUBLISHES.

// VerifC03SeqCall is one call on the accumulator.
type VerifC03SeqCall struct {
	K   string   // assert | failed | neither | setup | start | remaining | sideband
	Ns  []string // the name (first element) or, for start / remaining, the names
	Def *conformancev1.TestCase
	Act *conformancev1.ClientResponseResult
	Msg string
}

// VerifC03SeqOutcome is the outcome stored for a name before report().
type VerifC03SeqOutcome struct {
	Name  string
	Setup bool
	Kind  string   // none | discrepancies | client | neither | setup | start | noResult | other
	Texts []string // individual error texts (Kind = discrepancies)
}

type VerifC03SeqObs struct {
	Outcomes   []VerifC03SeqOutcome // sorted by name
	ReportOK   bool
	Listed     []string // names of "FAILED: <name>:" lines, in order
	OtherLines int      // printed lines that are neither FAILED lines, the blank separator nor the summary
	Total      int      // "Total cases: %d"
	Passed     int
	Failed     int
	NotRun     int // "Another %d could not be run", 0 when not printed
}

const (
	verifC03SeqClientMsg  = "client could not do it"
	verifC03SeqNeitherMsg = "client returned a response with neither an error nor result"
	verifC03SeqSetupMsg   = "server process terminated unexpectedly"
	verifC03SeqStartMsg   = "error starting server: boom"
)

var (
	verifC03SeqFailedRe  = regexp.MustCompile(`(?s)^FAILED: (\S+):\n.*$`)
	verifC03SeqSummaryRe = regexp.MustCompile(`^Total cases: (\d+)\n(\d+) passed, (\d+) failed$`)
	verifC03SeqNotRunRe  = regexp.MustCompile(`^Another (\d+) could not be run due to client timing out or exiting prematurely\.$`)
)

// VerifC03Seq issues the calls in order on ONE testResults (empty tries, no tracer), takes the stored
// outcomes, then calls report() with a capturing printer.
func VerifC03Seq(total int, calls []VerifC03SeqCall) VerifC03SeqObs {
	res := newResults(total, &testTrie{}, &testTrie{}, nil)
	defs := func(names []string) []*conformancev1.TestCase {
		out := make([]*conformancev1.TestCase, len(names))
		for i, n := range names {
			out[i] = &conformancev1.TestCase{Request: &conformancev1.ClientCompatRequest{TestName: n}}
		}
		return out
	}
	for _, c := range calls {
		switch c.K {
		case "assert":
			res.assert(c.Ns[0], c.Def, c.Act)
		case "failed":
			res.failed(c.Ns[0], &conformancev1.ClientErrorResult{Message: verifC03SeqClientMsg})
		case "neither":
			res.setOutcome(c.Ns[0], false, errors.New(verifC03SeqNeitherMsg))
		case "setup":
			res.setOutcome(c.Ns[0], true, errors.New(verifC03SeqSetupMsg))
		case "start":
			res.failedToStart(defs(c.Ns), errors.New(verifC03SeqStartMsg))
		case "remaining":
			res.failRemaining(defs(c.Ns), &failedToGetResultError{errNoOutcome})
		case "sideband":
			res.recordSideband(c.Ns[0], c.Msg)
		default:
			panic("VerifC03Seq: unknown call " + c.K)
		}
	}
	var obs VerifC03SeqObs
	res.mu.Lock()
	for name, o := range res.outcomes {
		so := VerifC03SeqOutcome{Name: name, Setup: o.setupError, Texts: []string{}}
		var noResult *failedToGetResultError
		switch failure := o.actualFailure.(type) {
		case nil:
			so.Kind = "none"
		case multiErrors:
			so.Kind = "discrepancies"
			for _, e := range failure {
				so.Texts = append(so.Texts, e.Error())
			}
		default:
			switch text := failure.Error(); {
			case errors.As(failure, &noResult):
				so.Kind = "noResult"
			case text == verifC03SeqClientMsg:
				so.Kind = "client"
			case text == verifC03SeqNeitherMsg:
				so.Kind = "neither"
			case text == verifC03SeqSetupMsg:
				so.Kind = "setup"
			case text == verifC03SeqStartMsg:
				so.Kind = "start"
			default:
				so.Kind = "discrepancies"
				so.Texts = append(so.Texts, text)
			}
		}
		obs.Outcomes = append(obs.Outcomes, so)
	}
	res.mu.Unlock()
	sort.Slice(obs.Outcomes, func(i, j int) bool { return obs.Outcomes[i].Name < obs.Outcomes[j].Name })

	printer := &internal.SimplePrinter{}
	obs.ReportOK = res.report(printer)
	obs.Listed = []string{}
	obs.Total = -1
	for _, raw := range printer.Messages {
		line := strings.TrimSuffix(raw, "\n")
		switch {
		case verifC03SeqFailedRe.MatchString(line):
			obs.Listed = append(obs.Listed, verifC03SeqFailedRe.FindStringSubmatch(line)[1])
		case verifC03SeqSummaryRe.MatchString(line):
			m := verifC03SeqSummaryRe.FindStringSubmatch(line)
			obs.Total, _ = strconv.Atoi(m[1])
			obs.Passed, _ = strconv.Atoi(m[2])
			obs.Failed, _ = strconv.Atoi(m[3])
		case verifC03SeqNotRunRe.MatchString(line):
			obs.NotRun, _ = strconv.Atoi(verifC03SeqNotRunRe.FindStringSubmatch(line)[1])
		case strings.TrimSpace(line) == "":
		default:
			obs.OtherLines++
		}
	}
	return obs
}
