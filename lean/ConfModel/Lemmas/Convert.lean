/-
Helper lemmas for `Props/C18.lean` (conversions are lossless).
-/
import ConfModel.Model.Convert
import ConfModel.Spec.Convert
namespace ConfModel.Convert
open ConfModel.ConvertSpec

/-! ### type URLs -/

theorem takeWhile_append_stop {α} (p : α → Bool) (l : List α) (a : α) (r : List α)
    (hl : ∀ x ∈ l, p x = true) (ha : p a = false) : (l ++ a :: r).takeWhile p = l := by
  induction l with
  | nil => simp [List.takeWhile, ha]
  | cons x t ih =>
    have hx : p x = true := hl x (by simp)
    simp only [List.cons_append, List.takeWhile_cons, hx, if_true]
    rw [ih (fun y hy => hl y (by simp [hy]))]

theorem typeName_prefixed (n : Str) (hn : n.contains '/' = false) :
    typeName (anyPrefix ++ n) = n := by
  unfold typeName
  have hrev : (anyPrefix ++ n).reverse = n.reverse ++ '/' :: "moc.sipaelgoog.epyt".toList := by
    rw [List.reverse_append]; rfl
  rw [hrev, takeWhile_append_stop]
  · simp
  · intro x hx
    have hx' : x ∈ n := by simpa using hx
    have : x ≠ '/' := by
      intro h; subst h
      have : n.contains '/' = true := by simpa using hx'
      rw [hn] at this; cases this
    simpa using this
  · simp

theorem restore_prefix (url : Str) (h : defaultPrefixed url = true) :
    anyPrefix ++ typeName url = url := by
  unfold defaultPrefixed at h
  simp only [Bool.and_eq_true, Bool.not_eq_true'] at h
  obtain ⟨hp, hc⟩ := h
  have hp' : anyPrefix <+: url := List.isPrefixOf_iff_prefix.mp hp
  obtain ⟨n, rfl⟩ := hp'
  have hd : (anyPrefix ++ n).drop anyPrefix.length = n := by simp
  rw [hd] at hc
  rw [typeName_prefixed n hc]

theorem restore_details (ds : List Detail) (h : ds.all (fun d => defaultPrefixed d.url) = true) :
    ds.map (fun d => ({ url := anyPrefix ++ typeName d.url, value := d.value } : Detail)) = ds := by
  induction ds with
  | nil => rfl
  | cons d t ih =>
    simp only [List.all_cons, Bool.and_eq_true] at h
    simp only [List.map_cons, restore_prefix d.url h.1, ih h.2]

theorem mem_takeWhile_pos {α} (p : α → Bool) (l : List α) (x : α) (hx : x ∈ l.takeWhile p) : p x = true := by
  induction l with
  | nil => cases hx
  | cons a t ih =>
    by_cases ha : p a = true
    · simp only [List.takeWhile_cons, ha, if_true, List.mem_cons] at hx
      rcases hx with rfl | hx
      · exact ha
      · exact ih hx
    · have ha' : p a = false := by simpa using ha
      simp [ha'] at hx

theorem dropWhile_head {α} (p : α → Bool) (l : List α) :
    l.dropWhile p = [] ∨ ∃ c r, l.dropWhile p = c :: r ∧ p c = false := by
  induction l with
  | nil => exact Or.inl rfl
  | cons a t ih =>
    by_cases ha : p a = true
    · simpa [List.dropWhile_cons, ha] using ih
    · have ha' : p a = false := by simpa using ha
      exact Or.inr ⟨a, t, by simp [ha'], ha'⟩

/-- what connect-go's `Type()` returns is the type the URL names, for every URL -/
theorem typeName_names (url : Str) : urlNames url (typeName url) = true := by
  unfold urlNames
  simp only [Bool.and_eq_true, Bool.not_eq_true', Bool.or_eq_true, beq_iff_eq, List.isSuffixOf_iff_suffix]
  have hsplit := List.takeWhile_append_dropWhile (p := fun c : Char => c != '/') (l := url.reverse)
  constructor
  · cases hc : (typeName url).contains '/' with
    | false => rfl
    | true =>
      have hm : '/' ∈ typeName url := by simpa using hc
      unfold typeName at hm
      have := mem_takeWhile_pos _ _ _ (List.mem_reverse.mp hm)
      simp at this
  · rcases dropWhile_head (fun c : Char => c != '/') url.reverse with hd | ⟨c, r, hd, hc⟩
    · left
      rw [hd, List.append_nil] at hsplit
      have := congrArg List.reverse hsplit
      unfold typeName
      simpa using this.symm
    · right
      have hc' : c = '/' := by simpa using hc
      subst hc'
      rw [hd] at hsplit
      have := congrArg List.reverse hsplit
      simp only [List.reverse_append, List.reverse_cons, List.reverse_reverse, List.append_assoc,
        List.singleton_append] at this
      exact ⟨r.reverse, this⟩

theorem details_restored (ds : List Detail) :
    detailsRestored ds (ds.map (fun d => ({ url := anyPrefix ++ typeName d.url, value := d.value } : Detail))) = true := by
  induction ds with
  | nil => rfl
  | cons d t ih =>
    simp only [List.map_cons, detailsRestored, detailRestored, ih, Bool.and_true, Bool.and_eq_true, beq_self_eq_true,
      true_and]
    refine ⟨List.isPrefixOf_iff_prefix.mpr ⟨_, rfl⟩, ?_⟩
    have : (anyPrefix ++ typeName d.url).drop anyPrefix.length = typeName d.url := by simp
    rw [this]
    exact typeName_names d.url

/-! ### association lists -/

theorem mdGet_nil (k : Str) : mdGet [] k = [] := rfl

theorem mdGet_cons (k' : Str) (vs' : List Bytes) (t : MD) (k : Str) :
    mdGet ((k', vs') :: t) k = if k = k' then vs' else mdGet t k := by
  unfold mdGet
  simp only [List.lookup_cons]
  by_cases h : k = k'
  · subst h; simp
  · have : (k == k') = false := by simpa using h
    simp [this, h]

theorem mdGet_append (md : MD) (k : Str) (vs : List Bytes) (k' : Str) :
    mdGet (mdAppend md k vs) k' = if k' = k then mdGet md k ++ vs else mdGet md k' := by
  induction md with
  | nil =>
    simp only [mdAppend, mdGet_cons, mdGet_nil, List.nil_append]
  | cons kv t ih =>
    obtain ⟨k0, v0⟩ := kv
    simp only [mdAppend]
    by_cases h0 : k0 = k
    · subst h0
      simp only [beq_self_eq_true, if_true, mdGet_cons]
      by_cases h1 : k' = k0
      · subst h1; simp
      · simp [h1]
    · have hb : (k0 == k) = false := by simpa using h0
      simp only [hb, Bool.false_eq_true, if_false, mdGet_cons, ih]
      by_cases h1 : k' = k0
      · subst h1
        simp [h0]
      · by_cases h2 : k' = k
        · subst h2; simp [h1]
        · simp [h1, h2]

theorem mem_keys_append (md : MD) (k : Str) (vs : List Bytes) (k' : Str) :
    k' ∈ mdKeys (mdAppend md k vs) ↔ k' ∈ mdKeys md ∨ k' = k := by
  induction md with
  | nil => simp [mdAppend, mdKeys]
  | cons kv t ih =>
    obtain ⟨k0, v0⟩ := kv
    simp only [mdAppend]
    by_cases h0 : k0 = k
    · subst h0
      simp only [beq_self_eq_true, if_true, mdKeys, List.map_cons, List.mem_cons]
      constructor
      · intro h; exact Or.inl h
      · rintro (h | h)
        · exact h
        · exact Or.inl h
    · have hb : (k0 == k) = false := by simpa using h0
      simp only [hb, mdKeys, List.map_cons, List.mem_cons] at ih ⊢
      simp only [Bool.false_eq_true, if_false, List.map_cons, List.mem_cons]
      rw [ih]
      constructor
      · rintro (h | h | h)
        · exact Or.inl (Or.inl h)
        · exact Or.inl (Or.inr h)
        · exact Or.inr h
      · rintro ((h | h) | h)
        · exact Or.inl h
        · exact Or.inr (Or.inl h)
        · exact Or.inr (Or.inr h)

theorem nodup_keys_append (md : MD) (k : Str) (vs : List Bytes) (h : (mdKeys md).Nodup) :
    (mdKeys (mdAppend md k vs)).Nodup := by
  induction md with
  | nil => simp [mdAppend, mdKeys]
  | cons kv t ih =>
    obtain ⟨k0, v0⟩ := kv
    simp only [mdKeys, List.map_cons, List.nodup_cons] at h
    simp only [mdAppend]
    by_cases h0 : k0 = k
    · subst h0
      simp only [beq_self_eq_true, if_true, mdKeys, List.map_cons, List.nodup_cons]
      exact h
    · have hb : (k0 == k) = false := by simpa using h0
      simp only [hb, Bool.false_eq_true, if_false, mdKeys, List.map_cons, List.nodup_cons]
      refine ⟨?_, ih h.2⟩
      intro hm
      have := (mem_keys_append t k vs k0).mp hm
      rcases this with h1 | h1
      · exact h.1 h1
      · exact h0 h1

theorem mdAppend_fresh (md : MD) (k : Str) (vs : List Bytes) (h : k ∉ mdKeys md) :
    mdAppend md k vs = md ++ [(k, vs)] := by
  induction md with
  | nil => rfl
  | cons kv t ih =>
    obtain ⟨k0, v0⟩ := kv
    simp only [mdKeys, List.map_cons, List.mem_cons, not_or] at h
    have hb : (k0 == k) = false := by simpa using (Ne.symm h.1)
    simp only [mdAppend, hb, Bool.false_eq_true, if_false, List.cons_append]
    rw [ih h.2]

/-! ### the collecting loops -/

theorem valuesFor_nil (norm : Str → Str) (tr : Str → Bytes → Bytes) (k : Str) :
    valuesFor norm tr [] k = [] := rfl

theorem valuesFor_cons (norm : Str → Str) (tr : Str → Bytes → Bytes) (h : Header) (t : List Header) (k : Str) :
    valuesFor norm tr (h :: t) k =
      (if norm h.name = k then h.values.map (tr k) else []) ++ valuesFor norm tr t k := by
  unfold valuesFor
  by_cases hk : norm h.name = k
  · have : (norm h.name == k) = true := by simpa using hk
    simp [List.filter_cons, this, hk]
  · have : (norm h.name == k) = false := by simpa using hk
    simp [List.filter_cons, this, hk]

theorem collectInto_get (norm : Str → Str) (tr : Str → Bytes → Bytes) (acc : MD) (hs : List Header) (k : Str) :
    mdGet (collectInto norm tr acc hs) k = mdGet acc k ++ valuesFor norm tr hs k := by
  induction hs generalizing acc with
  | nil => simp [collectInto, valuesFor_nil]
  | cons h t ih =>
    simp only [collectInto, ih, mdGet_append, valuesFor_cons]
    by_cases hk : norm h.name = k
    · subst hk; simp
    · have hk' : ¬ k = norm h.name := fun e => hk e.symm
      simp [hk, hk']

theorem collectInto_keys (norm : Str → Str) (tr : Str → Bytes → Bytes) (acc : MD) (hs : List Header) (k : Str) :
    k ∈ mdKeys (collectInto norm tr acc hs) ↔ k ∈ mdKeys acc ∨ ∃ h ∈ hs, norm h.name = k := by
  induction hs generalizing acc with
  | nil => simp [collectInto]
  | cons h t ih =>
    simp only [collectInto, ih, mem_keys_append, List.mem_cons, exists_eq_or_imp]
    constructor
    · rintro ((h1 | h1) | h1)
      · exact Or.inl h1
      · exact Or.inr (Or.inl h1.symm)
      · exact Or.inr (Or.inr h1)
    · rintro (h1 | h1 | h1)
      · exact Or.inl (Or.inl h1)
      · exact Or.inl (Or.inr h1.symm)
      · exact Or.inr h1

theorem collectInto_nodup (norm : Str → Str) (tr : Str → Bytes → Bytes) (acc : MD) (hs : List Header)
    (h : (mdKeys acc).Nodup) : (mdKeys (collectInto norm tr acc hs)).Nodup := by
  induction hs generalizing acc with
  | nil => simpa [collectInto] using h
  | cons x t ih => exact ih _ (nodup_keys_append acc _ _ h)

theorem nodupB_iff (l : List Str) : nodupB l = true ↔ l.Nodup := by
  induction l with
  | nil => simp [nodupB]
  | cons a t ih => simp [nodupB, ih]

/-- the general statement behind `md_preserves`, `headers_preserve` and `trailers_preserve` -/
theorem collect_preserves (norm : Str → Str) (tr : Str → Bytes → Bytes) (hs : List Header) :
    preserves norm tr hs (collect norm tr hs) = true := by
  unfold preserves
  simp only [Bool.and_eq_true, List.all_eq_true, List.any_eq_true, beq_iff_eq, List.contains_iff_mem]
  refine ⟨⟨⟨?_, ?_⟩, ?_⟩, ?_⟩
  · exact (nodupB_iff _).mpr (collectInto_nodup norm tr [] hs (by simp [mdKeys]))
  · intro k hk
    have := (collectInto_keys norm tr [] hs k).mp hk
    simpa [mdKeys] using this
  · intro h hh
    exact (collectInto_keys norm tr [] hs (norm h.name)).mpr (Or.inr ⟨h, hh, rfl⟩)
  · intro k _
    have := collectInto_get norm tr [] hs k
    simpa [mdGet_nil, collect] using this

/-! ### value maps over metadata -/

def mapVals (g : Str → Bytes → Bytes) (md : MD) : MD := md.map (fun kv => (kv.1, kv.2.map (g kv.1)))

theorem mapVals_append (g : Str → Bytes → Bytes) (md : MD) (k : Str) (vs : List Bytes) :
    mapVals g (mdAppend md k vs) = mdAppend (mapVals g md) k (vs.map (g k)) := by
  induction md with
  | nil => rfl
  | cons kv t ih =>
    obtain ⟨k0, v0⟩ := kv
    by_cases h0 : k0 = k
    · subst h0
      simp [mdAppend, mapVals]
    · have hb : (k0 == k) = false := by simpa using h0
      simp only [mdAppend, hb, Bool.false_eq_true, if_false]
      simp only [mapVals, List.map_cons] at ih ⊢
      simp only [mdAppend, hb, Bool.false_eq_true, if_false, ih]

theorem mapVals_collectInto (g : Str → Bytes → Bytes) (norm : Str → Str) (tr : Str → Bytes → Bytes)
    (acc : MD) (hs : List Header) :
    mapVals g (collectInto norm tr acc hs) =
      collectInto norm (fun k v => g k (tr k v)) (mapVals g acc) hs := by
  induction hs generalizing acc with
  | nil => rfl
  | cons h t ih =>
    simp only [collectInto, ih, mapVals_append, List.map_map]
    rfl

theorem collectInto_congr (norm : Str → Str) (tr tr' : Str → Bytes → Bytes) (acc : MD) (hs : List Header)
    (h : ∀ x ∈ hs, ∀ v ∈ x.values, tr (norm x.name) v = tr' (norm x.name) v) :
    collectInto norm tr acc hs = collectInto norm tr' acc hs := by
  induction hs generalizing acc with
  | nil => rfl
  | cons x t ih =>
    have hx : x.values.map (tr (norm x.name)) = x.values.map (tr' (norm x.name)) :=
      List.map_congr_left (fun v hv => h x (by simp) v hv)
    simp only [collectInto, hx]
    exact ih _ (fun y hy => h y (by simp [hy]))

theorem mdToHeaders_eq (c : B64) (md : MD) :
    mdToHeaders c md = convertToProtoHeader (mapVals (encIfBin c) md) := by
  simp [mdToHeaders, convertToProtoHeader, mapVals, List.map_map, Function.comp_def]

/-- collecting headers whose keys are distinct, already normalised and not yet present
simply appends them -/
theorem collectInto_distinct (norm : Str → Str) (tr : Str → Bytes → Bytes) (acc : MD) (hs : List Header)
    (hnorm : ∀ h ∈ hs, norm h.name = h.name)
    (hnd : (hs.map (·.name)).Nodup) (hdis : ∀ h ∈ hs, h.name ∉ mdKeys acc) :
    collectInto norm tr acc hs = acc ++ hs.map (fun h => (h.name, h.values.map (tr h.name))) := by
  induction hs generalizing acc with
  | nil => simp [collectInto]
  | cons x t ih =>
    have hx : norm x.name = x.name := hnorm x (by simp)
    simp only [List.map_cons, List.nodup_cons] at hnd
    simp only [collectInto, hx]
    rw [mdAppend_fresh acc x.name _ (hdis x (by simp))]
    rw [ih]
    · simp
    · exact fun h hh => hnorm h (by simp [hh])
    · exact hnd.2
    · intro h hh hm
      simp only [mdKeys, List.map_append, List.map_cons, List.map_nil, List.mem_append,
        List.mem_singleton] at hm
      rcases hm with hm | hm
      · exact hdis h (by simp [hh]) (by simpa [mdKeys] using hm)
      · exact hnd.1 (by rw [← hm]; exact List.mem_map_of_mem hh)

/-! ### adding key/value pairs one at a time (outgoing context, http.Header.Add) -/

theorem addPairs_values (norm : Str → Str) (acc : MD) (name : Str) (g : Bytes → Bytes) (vs : List Bytes) (k : Str) :
    mdGet ((vs.map (fun v => (name, g v))).foldl (fun md kv => mdAppend md (norm kv.1) [kv.2]) acc) k =
      mdGet acc k ++ (if norm name = k then vs.map g else []) := by
  induction vs generalizing acc with
  | nil => simp
  | cons v t ih =>
    simp only [List.map_cons, List.foldl_cons, ih, mdGet_append]
    by_cases hk : norm name = k
    · subst hk; simp
    · have hk' : ¬ k = norm name := fun e => hk e.symm
      simp [hk, hk']

/-- `nm` is how the pair's key is written (identity, or with the trailer prefix) -/
theorem addPairs_get_aux (norm : Str → Str) (nm : Str → Str) (tr : Str → Bytes → Bytes) (acc : MD) (hs : List Header) (k : Str) :
    mdGet ((hs.flatMap (fun h => h.values.map (fun v => (nm h.name, tr (norm (nm h.name)) v)))).foldl
        (fun md kv => mdAppend md (norm kv.1) [kv.2]) acc) k =
      mdGet acc k ++ valuesFor (fun n => norm (nm n)) tr hs k := by
  induction hs generalizing acc with
  | nil => simp [valuesFor_nil]
  | cons h t ih =>
    rw [List.flatMap_cons, List.foldl_append, ih, addPairs_values, valuesFor_cons]
    by_cases hk : norm (nm h.name) = k
    · subst hk; simp
    · simp [hk]

theorem addPairs_keys_aux (norm : Str → Str) (acc : MD) (kvs : List (Str × Bytes)) (k : Str) :
    k ∈ mdKeys (kvs.foldl (fun md kv => mdAppend md (norm kv.1) [kv.2]) acc) ↔
      k ∈ mdKeys acc ∨ ∃ kv ∈ kvs, norm kv.1 = k := by
  induction kvs generalizing acc with
  | nil => simp
  | cons x t ih =>
    simp only [List.foldl_cons, ih, mem_keys_append, List.mem_cons, exists_eq_or_imp]
    constructor
    · rintro ((h1 | h1) | h1)
      · exact Or.inl h1
      · exact Or.inr (Or.inl h1.symm)
      · exact Or.inr (Or.inr h1)
    · rintro (h1 | h1 | h1)
      · exact Or.inl (Or.inl h1)
      · exact Or.inl (Or.inr h1.symm)
      · exact Or.inr h1

theorem addPairs_nodup_aux (norm : Str → Str) (acc : MD) (kvs : List (Str × Bytes)) (h : (mdKeys acc).Nodup) :
    (mdKeys (kvs.foldl (fun md kv => mdAppend md (norm kv.1) [kv.2]) acc)).Nodup := by
  induction kvs generalizing acc with
  | nil => simpa using h
  | cons x t ih => exact ih _ (nodup_keys_append acc _ _ h)

/-- the general statement behind `outgoing_preserves` and `headers_preserve` -/
theorem addPairs_preserves (norm : Str → Str) (nm : Str → Str) (tr : Str → Bytes → Bytes) (hs : List Header) :
    preservesValues (fun n => norm (nm n)) tr hs
      (addPairs norm (hs.flatMap (fun h => h.values.map (fun v => (nm h.name, tr (norm (nm h.name)) v))))) = true := by
  unfold preservesValues
  simp only [Bool.and_eq_true, List.all_eq_true, List.any_eq_true, beq_iff_eq]
  refine ⟨⟨?_, ?_⟩, ?_⟩
  · exact (nodupB_iff _).mpr (addPairs_nodup_aux norm [] _ (by simp [mdKeys]))
  · intro k hk
    have := (addPairs_keys_aux norm [] _ k).mp hk
    rcases this with h | ⟨kv, hkv, hl⟩
    · simp [mdKeys] at h
    · simp only [List.mem_flatMap, List.mem_map] at hkv
      obtain ⟨h, hh, v, _, rfl⟩ := hkv
      exact ⟨h, hh, hl⟩
  · intro h _
    have := addPairs_get_aux norm nm tr [] hs (norm (nm h.name))
    simpa [mdGet_nil, addPairs] using this

/-! ### percent-encoding -/

theorem byte_cases (P : UInt8 → Prop) (h : ∀ n : Fin 256, P (UInt8.ofNat n.val)) (b : UInt8) : P b := by
  have := h ⟨b.toNat, UInt8.toNat_lt b⟩
  simpa using this

set_option maxRecDepth 100000 in
theorem percent_byte_printable (b : UInt8) :
    (if shouldEscape b then [0x25, upperHex (b.toNat / 16), upperHex (b.toNat % 16)] else [b]).all printable = true := by
  revert b
  apply byte_cases
  decide

set_option maxRecDepth 100000 in
theorem percent_byte_decode (b : UInt8) :
    shouldEscape b = true →
      hexVal (upperHex (b.toNat / 16)) = some (b.toNat / 16) ∧
      hexVal (upperHex (b.toNat % 16)) = some (b.toNat % 16) ∧
      UInt8.ofNat (b.toNat / 16 * 16 + b.toNat % 16) = b := by
  revert b
  apply byte_cases
  decide

set_option maxRecDepth 100000 in
theorem percent_byte_plain (b : UInt8) : shouldEscape b = false → (b == 0x25) = false := by
  revert b
  apply byte_cases
  decide

/-! ### the repository's own decoders -/

set_option maxRecDepth 100000 in
theorem unhex_upper (b : UInt8) :
    unhexDigit (upperHex (b.toNat / 16)) = some (b.toNat / 16) ∧
    unhexDigit (upperHex (b.toNat % 16)) = some (b.toNat % 16) ∧
    UInt8.ofNat (b.toNat / 16 * 16 + b.toNat % 16) = b := by
  revert b
  apply byte_cases
  decide

set_option maxRecDepth 100000 in
theorem unhex_lower (b : UInt8) :
    unhexDigit (lowerHex (b.toNat / 16)) = some (b.toNat / 16) ∧
    unhexDigit (lowerHex (b.toNat % 16)) = some (b.toNat % 16) ∧
    UInt8.ofNat (b.toNat / 16 * 16 + b.toNat % 16) = b := by
  revert b
  apply byte_cases
  decide

theorem pathUnescape_encodeWith (cs : List (UInt8 × Esc)) (h : conformant cs = true) :
    pathUnescape (encodeWith cs) = some (cs.map (·.1)) := by
  induction cs with
  | nil => rfl
  | cons be t ih =>
    obtain ⟨b, e⟩ := be
    unfold conformant at h ih
    simp only [List.all_cons, Bool.and_eq_true] at h
    have iht := ih h.2
    cases e with
    | plain =>
      have hb : shouldEscape b = false := by simpa using h.1
      have hp := percent_byte_plain b hb
      simp only [encodeWith, encodeByte, List.cons_append, List.nil_append]
      unfold pathUnescape
      simp [hp, iht]
    | upper =>
      obtain ⟨h1, h2, h3⟩ := unhex_upper b
      simp only [encodeWith, encodeByte, List.cons_append, List.nil_append]
      unfold pathUnescape
      simp [h1, h2, h3, iht]
    | lower =>
      obtain ⟨h1, h2, h3⟩ := unhex_lower b
      simp only [encodeWith, encodeByte, List.cons_append, List.nil_append]
      unfold pathUnescape
      simp [h1, h2, h3, iht]

theorem percentEncode_own (m : Bytes) : percentEncode m = encodeWith (ownChoice m) := by
  induction m with
  | nil => rfl
  | cons b t ih =>
    unfold percentEncode ownChoice
    by_cases he : shouldEscape b = true
    · simp only [he, if_true, List.map_cons, encodeWith, encodeByte, List.cons_append, List.nil_append]
      rw [ih]; rfl
    · have he' : shouldEscape b = false := by simpa using he
      simp only [he', Bool.false_eq_true, if_false, List.map_cons, encodeWith, encodeByte, List.cons_append,
        List.nil_append]
      rw [ih]; rfl

theorem ownChoice_conformant (m : Bytes) : conformant (ownChoice m) = true := by
  unfold conformant ownChoice
  simp only [List.all_map, List.all_eq_true]
  intro b _
  by_cases he : shouldEscape b = true
  · simp [he]
  · have he' : shouldEscape b = false := by simpa using he
    simp [he']

theorem ownChoice_bytes (m : Bytes) : (ownChoice m).map (·.1) = m := by
  simp [ownChoice, List.map_map, Function.comp_def]

/-! ### metadata / http.Header read back -/

theorem mdGet_not_mem (md : MD) (k : Str) (h : k ∉ mdKeys md) : mdGet md k = [] := by
  induction md with
  | nil => rfl
  | cons kv t ih =>
    obtain ⟨k', vs'⟩ := kv
    simp only [mdKeys, List.map_cons, List.mem_cons, not_or] at h
    rw [mdGet_cons, if_neg h.1]
    exact ih (by simpa [mdKeys] using h.2)

/-- a header list that came out of a map with distinct, already normalised keys holds under
every key exactly the map's values -/
theorem valuesFor_convert (norm : Str → Str) (md : MD) (hn : ∀ kv ∈ md, norm kv.1 = kv.1)
    (hnd : (mdKeys md).Nodup) (k : Str) :
    valuesFor norm (fun _ v => v) (convertToProtoHeader md) k = mdGet md k := by
  induction md with
  | nil => rfl
  | cons kv t ih =>
    obtain ⟨k', vs'⟩ := kv
    have hk' : norm k' = k' := hn (k', vs') (by simp)
    simp only [mdKeys, List.map_cons, List.nodup_cons] at hnd
    have iht := ih (fun kv hkv => hn kv (by simp [hkv])) (by simpa [mdKeys] using hnd.2)
    have hc : convertToProtoHeader ((k', vs') :: t) = ⟨k', vs'⟩ :: convertToProtoHeader t := rfl
    rw [hc, valuesFor_cons, mdGet_cons, iht]
    simp only [hk', List.map_id']
    by_cases hk : k = k'
    · subst hk
      have : mdGet t k = [] := mdGet_not_mem t k (by simpa [mdKeys] using hnd.1)
      simp [this]
    · have hk2 : ¬ k' = k := fun e => hk e.symm
      simp [hk, hk2]

/-! ## sequences of codec calls -/

theorem runCalls_append {M} (c : Codec M) (a b : List (Call M)) (st : CallState M) :
    runCalls c (a ++ b) st = runCalls c b (runCalls c a st) := by
  induction a generalizing st with
  | nil => rfl
  | cons x t ih => simp only [List.cons_append, runCalls, ih]

theorem callStep_bufs {M} (c : Codec M) (st : CallState M) (call : Call M) :
    ∃ b, (callStep c st call).bufs = st.bufs ++ [b] := by
  cases call with
  | encode m => exact ⟨_, rfl⟩
  | decode i => exact ⟨_, rfl⟩

theorem runCalls_bufs_length {M} (c : Codec M) (calls : List (Call M)) (st : CallState M) :
    (runCalls c calls st).bufs.length = st.bufs.length + calls.length := by
  induction calls generalizing st with
  | nil => simp [runCalls]
  | cons x t ih =>
    obtain ⟨b, hb⟩ := callStep_bufs c st x
    simp only [runCalls, ih, hb, List.length_append, List.length_cons, List.length_nil]
    omega

/-- a call never writes into an earlier result -/
theorem runCalls_keeps {M} (c : Codec M) (calls : List (Call M)) (st : CallState M) (i : Nat)
    (hi : i < st.bufs.length) : (runCalls c calls st).bufs[i]? = st.bufs[i]? := by
  induction calls generalizing st with
  | nil => rfl
  | cons x t ih =>
    obtain ⟨b, hb⟩ := callStep_bufs c st x
    have hlen : i < (callStep c st x).bufs.length := by rw [hb, List.length_append]; omega
    rw [runCalls, ih _ hlen, hb, List.getElem?_append_left hi]

theorem callStep_msgs {M} (c : Codec M) (st : CallState M) (call : Call M) :
    ∃ b, (callStep c st call).msgs = st.msgs ++ [b] := by
  cases call with
  | encode m => exact ⟨_, rfl⟩
  | decode i => exact ⟨_, rfl⟩

theorem runCalls_msgs_length {M} (c : Codec M) (calls : List (Call M)) (st : CallState M) :
    (runCalls c calls st).msgs.length = st.msgs.length + calls.length := by
  induction calls generalizing st with
  | nil => simp [runCalls]
  | cons x t ih =>
    obtain ⟨b, hb⟩ := callStep_msgs c st x
    simp only [runCalls, ih, hb, List.length_append, List.length_cons, List.length_nil]
    omega

theorem runCalls_msgs_keeps {M} (c : Codec M) (calls : List (Call M)) (st : CallState M) (i : Nat)
    (hi : i < st.msgs.length) : (runCalls c calls st).msgs[i]? = st.msgs[i]? := by
  induction calls generalizing st with
  | nil => rfl
  | cons x t ih =>
    obtain ⟨b, hb⟩ := callStep_msgs c st x
    have hlen : i < (callStep c st x).msgs.length := by rw [hb, List.length_append]; omega
    rw [runCalls, ih _ hlen, hb, List.getElem?_append_left hi]

/-- the result of an encode call, right after it -/
theorem runCalls_encode_last {M} (c : Codec M) (pre : List (Call M)) (m : M) :
    (runCalls c (pre ++ [.encode m]) {}).bufs[pre.length]? = some (strictMarshal c m) := by
  have hl : (runCalls c pre {}).bufs.length = pre.length := by
    rw [runCalls_bufs_length]; simp
  rw [runCalls_append]
  simp only [runCalls, callStep]
  rw [List.getElem?_append_right (by omega), hl]
  simp

/-! ## histories of one message object -/

theorem runHist_append {M} (c : Codec M) (a b : List (HStep M)) (st : HistState M) :
    runHist c (a ++ b) st = runHist c b (runHist c a st) := by
  induction a generalizing st with
  | nil => rfl
  | cons x t ih => simp only [List.cons_append, runHist, ih]

theorem histStep_value {M} (c : Codec M) (st : HistState M) (s : HStep M) :
    (histStep c st s).value = valueAfter [s] st.value := by
  cases s <;> rfl

theorem histStep_outs {M} (c : Codec M) (st : HistState M) (s : HStep M) :
    ∃ o, (histStep c st s).outs = st.outs ++ [o] := by
  cases s <;> exact ⟨_, rfl⟩

theorem valueAfter_cons {M} (s : HStep M) (rest : List (HStep M)) (v : M) :
    valueAfter (s :: rest) v = valueAfter rest (valueAfter [s] v) := by
  cases s <;> rfl

theorem valueAfter_append {M} (a b : List (HStep M)) (v : M) :
    valueAfter (a ++ b) v = valueAfter b (valueAfter a v) := by
  induction a generalizing v with
  | nil => rfl
  | cons x t ih =>
    rw [List.cons_append, valueAfter_cons, ih, valueAfter_cons x t]

theorem runHist_value {M} (c : Codec M) (steps : List (HStep M)) (st : HistState M) :
    (runHist c steps st).value = valueAfter steps st.value := by
  induction steps generalizing st with
  | nil => rfl
  | cons x t ih => rw [runHist, ih, histStep_value, ← valueAfter_cons]

theorem runHist_outs_length {M} (c : Codec M) (steps : List (HStep M)) (st : HistState M) :
    (runHist c steps st).outs.length = st.outs.length + steps.length := by
  induction steps generalizing st with
  | nil => rfl
  | cons x t ih =>
    obtain ⟨o, ho⟩ := histStep_outs c st x
    rw [runHist, ih, ho]; simp; omega

theorem runHist_outs_keeps {M} (c : Codec M) (steps : List (HStep M)) (st : HistState M) (i : Nat)
    (hi : i < st.outs.length) : (runHist c steps st).outs[i]? = st.outs[i]? := by
  induction steps generalizing st with
  | nil => rfl
  | cons x t ih =>
    obtain ⟨o, ho⟩ := histStep_outs c st x
    rw [runHist, ih _ (by rw [ho]; simp; omega), ho, List.getElem?_append_left hi]

theorem valueAfter_mutationsOf {M} (steps : List (HStep M)) (v : M) :
    valueAfter (mutationsOf steps) v = valueAfter steps v := by
  induction steps generalizing v with
  | nil => rfl
  | cons x t ih => cases x <;> simp only [mutationsOf, valueAfter, ih]

end ConfModel.Convert
