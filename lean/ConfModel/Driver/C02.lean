import ConfModel.Driver.Common
namespace ConfModel.Driver.C02
open Lean ConfModel.Driver

def handle : Handler := fun op _inp _impl => bad ("C02: unknown op " ++ op)

end ConfModel.Driver.C02
