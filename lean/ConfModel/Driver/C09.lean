import ConfModel.Driver.Common
import ConfModel.Model.Delimited
import ConfModel.Spec.Framing
namespace ConfModel.Driver.C09
open Lean ConfModel.Driver ConfModel.Delimited ConfModel.Framing

def ending (s : String) : Ending :=
  match s with
  | "eof" => .eofSeparate
  | "eofWithData" => .eofWithLastData
  | "fail" => .fail
  | _ => .stall

/-- canonical text of a result; a time-out is shown as the text the code prints for its
progress triple -/
def showRes (limit : Nat) : Res → String
  | .msg b => "msg:" ++ hex b
  | .eof => "eof"
  | .unexpectedEOF => "unexpectedEOF"
  | .fail => "fail"
  | .tooLarge n => s!"tooLarge:{n}/{limit}"
  | .timeout pd k n =>
    match timeoutReport pd k n with
    | .complete => "timeout:complete"
    | .nothing => "timeout:nothing"
    | .partialRead w k n => s!"timeout:{w}:{k}/{n}"

def showImpl (j : Json) : String :=
  let err := str (field j "err")
  if err == "" then
    (if isNull (field j "msg") then "hdr:" ++ toString (strList (field j "hdr")) else "msg:" ++ str (field j "msg"))
  else if err == "tooLarge" then s!"tooLarge:{nat (field j "size")}/{nat (field j "limit")}"
  else if err == "timeout" then
    (if str (field j "what") == "nothing" then "timeout:nothing"
     else s!"timeout:{str (field j "what")}:{nat (field j "read")}/{nat (field j "of")}")
  else err

def isWs (b : UInt8) : Bool := b == 0x20 || b == 0x0a || b == 0x0d || b == 0x09

def lastD (l : List String) (d : String) : String := l.getLast?.getD d

def handle : Handler := fun op inp impl =>
  if !(isNull (field impl "panic")) then
    { agree := false, holds := false, why := "panic: " ++ str (field impl "panic") } else
  match op with
  | "read" =>
    let data := unhex (str (field inp "bytes"))
    let caps := natList (field inp "caps")
    let e := ending (str (field inp "ending"))
    let via := str (field inp "via")
    let max := if via == "dec" then 4294967295 else nat (field inp "max")
    let count := nat (field inp "count")
    let r : Reader := ⟨data, caps, e⟩
    let out := if via == "dec" then decodeAll count r else readAll max count r
    let mRes := out.results.map (showRes max)
    let mConsumed := data.length - out.rest.data.length
    let mMaxBuf := out.allocs.foldl Nat.max 0
    let iRes := (arr (field impl "results")).map showImpl
    let iConsumed := nat (field impl "consumed")
    let iMaxBuf := nat (field impl "maxBuf")
    let timely := bool (field impl "timely")
    -- the property: the results are those of the declarative cut of the byte string (which
    -- knows nothing about caps), exactly the consumed bytes were taken, no buffer above the
    -- limit was asked for, time-outs came within the window
    let spec := (expected max count data e).map (showRes max)
    let sConsumed := consumed max count data
    let bufOk := via == "dec" || iMaxBuf ≤ Nat.max 4 max
    let holds := iRes == spec && iConsumed == sConsumed && bufOk && timely
    { agree := iRes == mRes && iConsumed == mConsumed && iMaxBuf == mMaxBuf,
      holds := holds,
      nontrivial := !data.isEmpty,
      cls := via ++ ":" ++ ((lastD spec "none").splitOn ":").head!,
      model := Json.mkObj [("results", toJson mRes), ("consumed", mConsumed), ("maxBuf", mMaxBuf)],
      why := if holds then "" else
        s!"framing: expected {spec} consumed {sConsumed}, got {iRes} consumed {iConsumed} maxBuf {iMaxBuf} timely {timely}" }
  | "enc" =>
    let bodies := (strList (field impl "bodies")).map unhex
    let want := hex (bodies.flatMap encode)
    let got := str (field impl "stream")
    { agree := got == want, holds := got == want, nontrivial := !bodies.isEmpty,
      model := Json.mkObj [("stream", want)],
      why := if got == want then "" else "encoder: stream is not the concatenation of prefix+body" }
  | "peer" =>
    -- the reference client must have read every request written to its stdin, however the byte
    -- stream was split across reads, in the binary and in the JSON wire variant
    if !(isNull (field impl "panic")) then
      { agree := false, holds := false, why := "panic: " ++ str (field impl "panic") } else
    let got := strList (field impl "got")
    let want := strList (field impl "want")
    let holds := got == want && !want.isEmpty
    { agree := holds, holds := holds, nontrivial := nat (field inp "chunk") > 0, cls := if bool (field inp "json") then "peer-json" else "peer-binary",
      why := if holds then "" else s!"reference client answered {got.length} of {want.length} requests written to its stdin (chunk {nat (field inp "chunk")}): " ++ str (field impl "runErr") ++ str (field impl "err") }
  | "json" =>
    let hdrs := (arr (field inp "hdrs")).map (fun h => let l := strList h; if l.isEmpty then [""] else l)
    let e := ending (str (field inp "ending"))
    let count := nat (field inp "count")
    let total := nat (field impl "len")
    let cut := int (field inp "cut")
    let n := if cut < 0 then total else Nat.min cut.toNat total
    let valueEnds := natList (field impl "valueEnds")
    let textEnds := natList (field impl "textEnds")
    let complete := (valueEnds.filter (· ≤ n)).length
    let iRes := (arr (field impl "results")).map showImpl
    let wantMsgs := ((hdrs.take complete).take count).map (fun h => "hdr:" ++ toString h)
    let iMsgs := iRes.filter (·.startsWith "hdr:")
    let iLast := lastD iRes "none"
    -- only white space after the last complete message?
    let clean := complete == 0 && n == 0 || (complete > 0 && n ≤ (textEnds.getD (complete - 1) 0))
    let holds :=
      iMsgs == wantMsgs && iRes.length ≤ wantMsgs.length + 1 &&
      (if count ≤ complete then iRes.length == count
       else iRes.length == complete + 1 &&
         (if clean then (if e == .fail then iLast == "fail" else iLast == "eof")
          else iLast != "eof" && !iLast.startsWith "hdr:"))
    { agree := holds, holds := holds, nontrivial := n > 0,
      cls := if count ≤ complete then "more" else if clean then "clean" else "cut",
      why := if holds then "" else s!"json: {complete} complete messages, clean={clean}, got {iRes}" }
  | _ => bad ("unknown op " ++ op)

end ConfModel.Driver.C09
