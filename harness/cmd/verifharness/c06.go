package main

import (
	"encoding/json"
	"os"
	"sync"

	cc "connectrpc.com/conformance/internal/app/connectconformance"
	conformancev1 "connectrpc.com/conformance/internal/gen/proto/go/connectrpc/conformance/v1"
	"connectrpc.com/conformance/internal/verifharness/gen"
	"google.golang.org/protobuf/encoding/protojson"
	"google.golang.org/protobuf/proto"
)

// c06Entry is a ConfigCase: five enum numbers (0 = omitted) and three tri-states
// (-1 = omitted, 0 = false, 1 = true): [v, p, c, z, s, tls, certs, limit]. On the line protocol it
// is an object {"v","p","c","z","s","tls","certs","limit"} (so that shrinking cannot deform it).
type c06Entry [8]int

type c06EntryJSON struct {
	V     int `json:"v"`
	P     int `json:"p"`
	C     int `json:"c"`
	Z     int `json:"z"`
	S     int `json:"s"`
	TLS   int `json:"tls"`
	Certs int `json:"certs"`
	Limit int `json:"limit"`
}

func (e c06Entry) MarshalJSON() ([]byte, error) {
	return json.Marshal(c06EntryJSON{e[0], e[1], e[2], e[3], e[4], e[5], e[6], e[7]})
}

func (e *c06Entry) UnmarshalJSON(b []byte) error {
	var j c06EntryJSON
	if err := json.Unmarshal(b, &j); err != nil {
		return err
	}
	*e = c06Entry{j.V, j.P, j.C, j.Z, j.S, j.TLS, j.Certs, j.Limit}
	return nil
}

// c06In is the abstract Config. Flags: [h2c, tls, certs, trailers, halfH1, get, limit], each
// -1 (absent), 0 or 1. Fmt selects the transport rendering ("json" | "yaml").
type c06In struct {
	Versions  []int      `json:"versions"`
	Protocols []int      `json:"protocols"`
	Codecs    []int      `json:"codecs"`
	Comps     []int      `json:"comps"`
	Sts       []int      `json:"sts"`
	Flags     [7]int     `json:"flags"`
	Inc       []c06Entry `json:"inc"`
	Exc       []c06Entry `json:"exc"`
	Fmt       string     `json:"fmt,omitempty"`
}

type c06Out struct {
	Cases []int  `json:"cases,omitempty"`
	Err   string `json:"err,omitempty"`
}

var c06Quiet sync.Once

func init() {
	areas["c06"] = runC06
	gen.RegisterOp("c06", "cfg", func(_ *gen.Ctx, raw json.RawMessage) any {
		// checkForDeprecations writes a warning to os.Stderr for CODEC_TEXT; not an observable of C06
		c06Quiet.Do(func() {
			if f, err := os.OpenFile(os.DevNull, os.O_WRONLY, 0); err == nil {
				os.Stderr = f
			}
		})
		in := gen.Into[c06In](raw)
		data, err := c06Render(in)
		if err != nil {
			panic(err)
		}
		codes, class, _ := cc.VerifC06ParseConfig(data)
		if class != "" {
			return c06Out{Err: class}
		}
		return c06Out{Cases: codes}
	})
}

func c06Tri(x int) *bool {
	switch x {
	case 0:
		return proto.Bool(false)
	case 1:
		return proto.Bool(true)
	}
	return nil
}

func c06Enums[T ~int32](xs []int) []T {
	out := make([]T, len(xs))
	for i, x := range xs {
		out[i] = T(x)
	}
	return out
}

func c06EntryProto(e c06Entry) *conformancev1.ConfigCase {
	return &conformancev1.ConfigCase{
		Version:                conformancev1.HTTPVersion(e[0]),
		Protocol:               conformancev1.Protocol(e[1]),
		Codec:                  conformancev1.Codec(e[2]),
		Compression:            conformancev1.Compression(e[3]),
		StreamType:             conformancev1.StreamType(e[4]),
		UseTls:                 c06Tri(e[5]),
		UseTlsClientCerts:      c06Tri(e[6]),
		UseMessageReceiveLimit: c06Tri(e[7]),
	}
}

// c06Render turns the abstract config into the bytes handed to the real parseConfig
// (protojson; YAML is a superset of JSON, protoyaml is only the transport here).
func c06Render(in c06In) ([]byte, error) {
	cfg := &conformancev1.Config{
		Features: &conformancev1.Features{
			Versions:                        c06Enums[conformancev1.HTTPVersion](in.Versions),
			Protocols:                       c06Enums[conformancev1.Protocol](in.Protocols),
			Codecs:                          c06Enums[conformancev1.Codec](in.Codecs),
			Compressions:                    c06Enums[conformancev1.Compression](in.Comps),
			StreamTypes:                     c06Enums[conformancev1.StreamType](in.Sts),
			SupportsH2C:                     c06Tri(in.Flags[0]),
			SupportsTls:                     c06Tri(in.Flags[1]),
			SupportsTlsClientCerts:          c06Tri(in.Flags[2]),
			SupportsTrailers:                c06Tri(in.Flags[3]),
			SupportsHalfDuplexBidiOverHttp1: c06Tri(in.Flags[4]),
			SupportsConnectGet:              c06Tri(in.Flags[5]),
			SupportsMessageReceiveLimit:     c06Tri(in.Flags[6]),
		},
	}
	for _, e := range in.Inc {
		cfg.IncludeCases = append(cfg.IncludeCases, c06EntryProto(e))
	}
	for _, e := range in.Exc {
		cfg.ExcludeCases = append(cfg.ExcludeCases, c06EntryProto(e))
	}
	if in.Fmt == "empty" {
		// the `len(data) == 0` branch of parseConfig: no file contents at all (all defaults)
		return []byte{}, nil
	}
	if in.Fmt == "nofeatures" {
		// the `config.Features == nil` branch of parseConfig (only meaningful with all-default features)
		cfg.Features = nil
	}
	return protojson.MarshalOptions{UseEnumNumbers: in.Fmt == "numbers"}.Marshal(cfg)
}

func c06Subset(r *gen.Rand, lo, hi int, withZero bool) []int {
	out := []int{}
	for v := lo; v <= hi; v++ {
		if r.Bool() {
			out = append(out, v)
		}
	}
	if withZero && r.Chance(1, 12) {
		out = append(out, 0)
	}
	// occasionally a duplicate, occasionally a shuffled order
	if len(out) > 0 && r.Chance(1, 10) {
		out = append(out, gen.Pick(r, out))
	}
	if len(out) > 1 && r.Chance(1, 3) {
		i, j := r.Intn(len(out)), r.Intn(len(out))
		out[i], out[j] = out[j], out[i]
	}
	return out
}

// c06Small returns a short list (0-2 values): keeps the expanded sets small so that many
// configurations can be run.
func c06Small(r *gen.Rand, lo, hi int, withZero bool) []int {
	n := r.Intn(3)
	out := []int{}
	for i := 0; i < n; i++ {
		out = append(out, r.Range(lo, hi))
	}
	if withZero && r.Chance(1, 15) {
		out = append(out, 0)
	}
	return out
}

func c06RandEntry(r *gen.Rand) c06Entry {
	var e c06Entry
	his := [5]int{3, 3, 3, 6, 5}
	pOmit := r.Range(1, 3) // 1/4 .. 3/4 of the fields omitted
	for i := 0; i < 5; i++ {
		if !r.Chance(pOmit, 4) {
			e[i] = r.Range(1, his[i])
		}
	}
	for i := 5; i < 8; i++ {
		if r.Chance(pOmit, 4) {
			e[i] = -1
		} else {
			e[i] = r.Intn(2)
		}
	}
	return e
}

func c06RandFlags(r *gen.Rand) [7]int {
	var f [7]int
	for i := range f {
		f[i] = r.Intn(3) - 1
	}
	return f
}

// c06Pool is the fixed pool of entry shapes used against every flag tri-state.
func c06Pool() []c06Entry {
	o := -1
	return []c06Entry{
		{0, 0, 0, 0, 0, o, o, o},
		{1, 0, 0, 0, 0, o, o, o}, {2, 0, 0, 0, 0, o, o, o}, {3, 0, 0, 0, 0, o, o, o},
		{2, 0, 0, 0, 0, 0, o, o}, {2, 0, 0, 0, 0, 1, o, o}, {3, 0, 0, 0, 0, 0, o, o}, {3, 0, 0, 0, 0, 1, o, o},
		{0, 1, 0, 0, 0, o, o, o}, {0, 2, 0, 0, 0, o, o, o}, {0, 3, 0, 0, 0, o, o, o},
		{1, 2, 0, 0, 0, o, o, o}, {2, 2, 0, 0, 0, o, o, o}, {3, 2, 0, 0, 0, o, o, o},
		{0, 0, 1, 0, 0, o, o, o}, {0, 0, 2, 0, 0, o, o, o}, {0, 0, 3, 0, 0, o, o, o},
		{0, 0, 0, 1, 0, o, o, o}, {0, 0, 0, 4, 0, o, o, o},
		{0, 0, 0, 0, 1, o, o, o}, {0, 0, 0, 0, 4, o, o, o}, {0, 0, 0, 0, 5, o, o, o},
		{1, 0, 0, 0, 4, o, o, o}, {1, 0, 0, 0, 5, o, o, o}, {2, 0, 0, 0, 5, o, o, o},
		{0, 0, 0, 0, 0, 0, o, o}, {0, 0, 0, 0, 0, 1, o, o},
		{0, 0, 0, 0, 0, o, 0, o}, {0, 0, 0, 0, 0, o, 1, o},
		{0, 0, 0, 0, 0, 0, 0, o}, {0, 0, 0, 0, 0, 0, 1, o}, {0, 0, 0, 0, 0, 1, 0, o}, {0, 0, 0, 0, 0, 1, 1, o},
		{0, 0, 0, 0, 0, o, o, 0}, {0, 0, 0, 0, 0, o, o, 1},
		{1, 1, 1, 1, 1, 0, 0, 0}, {2, 2, 1, 2, 5, 1, 1, 1}, {3, 3, 2, 6, 4, 1, 0, 1},
		{1, 3, 0, 0, 3, o, 0, o}, {2, 1, 2, 0, 0, 0, o, 1},
	}
}

func runC06(c *gen.Ctx) error {
	r, e := c.R, c.E
	pool := c06Pool()
	var ins []any
	flush := func() {
		c.DoParallel("cfg", ins, 8)
		ins = ins[:0]
	}
	add := func(in c06In) {
		if in.Versions == nil {
			in.Versions = []int{}
		}
		if in.Protocols == nil {
			in.Protocols = []int{}
		}
		if in.Codecs == nil {
			in.Codecs = []int{}
		}
		if in.Comps == nil {
			in.Comps = []int{}
		}
		if in.Sts == nil {
			in.Sts = []int{}
		}
		if in.Inc == nil {
			in.Inc = []c06Entry{}
		}
		if in.Exc == nil {
			in.Exc = []c06Entry{}
		}
		ins = append(ins, in)
		if len(ins) >= 2000 {
			flush()
		}
	}
	// (a) every tri-state of the seven flags with all lists omitted (the defaults of versions,
	// protocols and stream types depend on the flags), alone, with one include and with one exclude
	for n := 0; n < 2187; n++ {
		var f [7]int
		m := n
		for i := range f {
			f[i] = m%3 - 1
			m /= 3
		}
		add(c06In{Flags: f})
		add(c06In{Flags: f, Codecs: []int{1}, Comps: []int{1}, Inc: []c06Entry{gen.Pick(r, pool)}})
		add(c06In{Flags: f, Codecs: []int{2}, Comps: []int{2}, Exc: []c06Entry{gen.Pick(r, pool)}})
		e.Add("kind:flags-exhaustive", 3)
	}
	// (b) every subset of versions x every subset of protocols x every entry shape of the pool as
	// include and as exclude, flags random
	for vs := 0; vs < 8; vs++ {
		for ps := 0; ps < 8; ps++ {
			var versions, protocols []int
			for i := 0; i < 3; i++ {
				if vs&(1<<i) != 0 {
					versions = append(versions, i+1)
				}
				if ps&(1<<i) != 0 {
					protocols = append(protocols, i+1)
				}
			}
			for _, en := range pool {
				add(c06In{Versions: versions, Protocols: protocols, Codecs: []int{1}, Comps: []int{1}, Sts: c06Small(r, 1, 5, false),
					Flags: c06RandFlags(r), Inc: []c06Entry{en}})
				add(c06In{Versions: versions, Protocols: protocols, Codecs: []int{1}, Comps: []int{1}, Sts: c06Small(r, 1, 5, false),
					Flags: c06RandFlags(r), Exc: []c06Entry{en}})
				e.Add("kind:lists-x-pool", 2)
			}
		}
	}
	// (c) every subset of stream types x every subset of versions x the flags that interact with them
	for ss := 0; ss < 32; ss++ {
		for vs := 0; vs < 8; vs++ {
			var sts, versions []int
			for i := 0; i < 5; i++ {
				if ss&(1<<i) != 0 {
					sts = append(sts, i+1)
				}
			}
			for i := 0; i < 3; i++ {
				if vs&(1<<i) != 0 {
					versions = append(versions, i+1)
				}
			}
			for half := -1; half <= 1; half++ {
				f := [7]int{-1, -1, -1, -1, half, 0, 0}
				add(c06In{Versions: versions, Protocols: []int{1}, Codecs: []int{1}, Comps: []int{1}, Sts: sts, Flags: f})
				f2 := c06RandFlags(r)
				f2[4] = half
				add(c06In{Versions: versions, Protocols: []int{3}, Codecs: []int{1}, Comps: []int{1}, Sts: sts, Flags: f2,
					Inc: []c06Entry{c06RandEntry(r)}})
				e.Add("kind:streams-x-versions", 2)
			}
		}
	}
	// (d) random configurations: mostly short lists (small sets, many configs), some with every
	// axis a uniformly random subset; 0-3 include and exclude entries; a few rendered with enum
	// numbers or with the features message absent
	nRand := 8000
	if c.Thorough() {
		nRand = 120000
	}
	for i := 0; i < nRand; i++ {
		var in c06In
		if r.Chance(1, 8) {
			in = c06In{Versions: c06Subset(r, 1, 3, true), Protocols: c06Subset(r, 1, 3, true), Codecs: c06Subset(r, 1, 3, true),
				Comps: c06Subset(r, 1, 6, true), Sts: c06Subset(r, 1, 5, true)}
			e.Count("kind:random-wide")
		} else {
			in = c06In{Versions: c06Small(r, 1, 3, true), Protocols: c06Small(r, 1, 3, true), Codecs: c06Small(r, 1, 3, true),
				Comps: c06Small(r, 1, 6, true), Sts: c06Small(r, 1, 5, true)}
			e.Count("kind:random-small")
		}
		in.Flags = c06RandFlags(r)
		if r.Chance(1, 3) {
			// mostly-consistent flags: contradictions otherwise dominate
			in.Flags = [7]int{-1, -1, r.Intn(3) - 1, -1, r.Intn(3) - 1, r.Intn(3) - 1, r.Intn(3) - 1}
		}
		for k := r.Intn(4); k > 0; k-- {
			in.Inc = append(in.Inc, c06RandEntry(r))
		}
		for k := r.Intn(4); k > 0; k-- {
			in.Exc = append(in.Exc, c06RandEntry(r))
		}
		switch r.Intn(20) {
		case 0:
			in.Fmt = "numbers"
		case 1:
			if len(in.Versions)+len(in.Protocols)+len(in.Codecs)+len(in.Comps)+len(in.Sts) == 0 && in.Flags == [7]int{-1, -1, -1, -1, -1, -1, -1} {
				in.Fmt = "nofeatures"
			}
		}
		add(in)
	}
	// no configuration data at all; the features message absent altogether
	add(c06In{Flags: [7]int{-1, -1, -1, -1, -1, -1, -1}, Fmt: "empty"})
	add(c06In{Flags: [7]int{-1, -1, -1, -1, -1, -1, -1}, Fmt: "nofeatures"})
	add(c06In{Flags: [7]int{-1, -1, -1, -1, -1, -1, -1}, Fmt: "nofeatures", Exc: []c06Entry{{0, 0, 0, 0, 0, -1, -1, -1}}})
	// the shipped configurations of the repository (testing/*.yaml), abstracted by hand
	for _, in := range c06Shipped() {
		add(in)
		e.Count("kind:shipped")
	}
	flush()
	if c.Thorough() {
		// (e) thorough: every flag tri-state x every subset of versions x every subset of protocols
		for n := 0; n < 2187; n++ {
			var f [7]int
			m := n
			for i := range f {
				f[i] = m%3 - 1
				m /= 3
			}
			for vs := 0; vs < 8; vs++ {
				for ps := 0; ps < 8; ps++ {
					var versions, protocols []int
					for i := 0; i < 3; i++ {
						if vs&(1<<i) != 0 {
							versions = append(versions, i+1)
						}
						if ps&(1<<i) != 0 {
							protocols = append(protocols, i+1)
						}
					}
					in := c06In{Versions: versions, Protocols: protocols, Codecs: []int{1}, Comps: []int{1}, Sts: c06Subset(r, 1, 5, false), Flags: f}
					if r.Chance(1, 2) {
						in.Inc = []c06Entry{c06RandEntry(r)}
					}
					if r.Chance(1, 2) {
						in.Exc = []c06Entry{c06RandEntry(r)}
					}
					add(in)
				}
			}
			e.Add("kind:flags-x-versions-x-protocols", 64)
		}
		flush()
	}
	return nil
}

// c06Shipped abstracts testing/*.yaml of the repository.
func c06Shipped() []c06In {
	d := [7]int{-1, -1, -1, -1, -1, -1, -1}
	ref := d
	ref[2], ref[4] = 1, 1
	noTLS := d
	noTLS[1] = 0
	return []c06In{
		{Versions: []int{1, 2, 3}, Protocols: []int{1, 2, 3}, Codecs: []int{1, 2}, Comps: []int{1, 2, 3, 4, 5, 6}, Flags: ref},
		{Versions: []int{2}, Protocols: []int{2}, Codecs: []int{1}, Flags: noTLS},
		{Versions: []int{1}, Protocols: []int{3}, Codecs: []int{1}, Comps: []int{1}, Sts: []int{1, 3}, Flags: noTLS},
		{Versions: []int{1, 2}, Protocols: []int{3}, Codecs: []int{1}, Flags: noTLS},
	}
}
