//go:build verif

package referenceserver

import (
	"context"
	"errors"
	"fmt"
	"io"
	"net/http"
	"time"

	"connectrpc.com/conformance/internal"
	conformancev1 "connectrpc.com/conformance/internal/gen/proto/go/connectrpc/conformance/v1"
)

// VerifC17Op is one operation of a handler on the rawResponseWriter:
// K = "w" Write(Data), "h" WriteHeader(Code), "f" Flush, "raw" setRawResponse(ctx, Raw).
type VerifC17Op struct {
	K    string
	Data []byte
	Code int
	Raw  *conformancev1.RawHTTPResponse
}

type verifC17Recorder struct {
	hdr  http.Header
	wire []string
}

func (r *verifC17Recorder) Header() http.Header { return r.hdr }
func (r *verifC17Recorder) Write(b []byte) (int, error) {
	r.wire = append(r.wire, fmt.Sprintf("w:%x", b))
	return len(b), nil
}
func (r *verifC17Recorder) WriteHeader(code int) { r.wire = append(r.wire, fmt.Sprintf("h:%d", code)) }
func (r *verifC17Recorder) Flush()               { r.wire = append(r.wire, "f") }

func verifC17Apply(ctx context.Context, w http.ResponseWriter, ops []VerifC17Op) []string {
	var results []string
	for _, op := range ops {
		switch op.K {
		case "w":
			_, _ = w.Write(op.Data)
			results = append(results, "handler")
		case "h":
			w.WriteHeader(op.Code)
			results = append(results, "handler")
		case "f":
			if f, ok := w.(http.Flusher); ok {
				f.Flush()
			}
			results = append(results, "handler")
		case "raw":
			err := setRawResponse(ctx, op.Raw)
			switch {
			case err == nil:
				results = append(results, "accepted")
			case errors.Is(err, errNonRawResponseStarted):
				results = append(results, "refused")
			default:
				results = append(results, "error:"+err.Error())
			}
		}
	}
	return results
}

// VerifC17Arbitrate drives the real rawResponseWriter (through rawResponder, so including
// finish) with a handler performing ops over a recording http.ResponseWriter.
func VerifC17Arbitrate(ops []VerifC17Op) (results []string, wire []string) {
	rec := &verifC17Recorder{hdr: http.Header{}}
	h := rawResponder(http.HandlerFunc(func(w http.ResponseWriter, req *http.Request) {
		results = verifC17Apply(req.Context(), w, ops)
	}))
	req, _ := http.NewRequestWithContext(context.Background(), http.MethodPost, "http://x/y", http.NoBody)
	h.ServeHTTP(rec, req)
	return results, rec.wire
}

// VerifC17RawHandler is rawResponder around a handler that sets the given headers and performs ops.
func VerifC17RawHandler(handlerHeaders []*conformancev1.Header, ops []VerifC17Op, results *[]string) http.Handler {
	return rawResponder(http.HandlerFunc(func(w http.ResponseWriter, req *http.Request) {
		for _, h := range handlerHeaders {
			for _, v := range h.Value {
				w.Header().Add(h.Name, v)
			}
		}
		*results = verifC17Apply(req.Context(), w, ops)
	}))
}

// VerifC17StartReal starts a reference server exactly as createServer builds it in reference
// mode (CORS, raw responder, referenceServerChecks, connect-go's mux with the raw-response
// recorder; net/http HTTP/1.1 server for httpVersion 1, h2c for 2) on a loopback port. Its
// stderr is discarded. The server runs until the process ends.
func VerifC17StartReal(httpVersion int32) (addr string, err error) {
	req := &conformancev1.ServerCompatRequest{
		Protocol:    conformancev1.Protocol_PROTOCOL_CONNECT,
		HttpVersion: conformancev1.HTTPVersion(httpVersion),
	}
	svr, _, err := createServer(req, "127.0.0.1:0", "", "", true, internal.NewPrinter(io.Discard), nil)
	if err != nil {
		return "", err
	}
	go func() { _ = svr.Serve() }()
	return svr.Addr(), nil
}

// VerifC17StartRealStop is VerifC17StartReal for a server of one's own: a new createServer stack
// (new CORS object, new mux, new interceptors) that stop shuts down again.
func VerifC17StartRealStop(httpVersion int32) (addr string, stop func(), err error) {
	req := &conformancev1.ServerCompatRequest{
		Protocol:    conformancev1.Protocol_PROTOCOL_CONNECT,
		HttpVersion: conformancev1.HTTPVersion(httpVersion),
	}
	svr, _, err := createServer(req, "127.0.0.1:0", "", "", true, internal.NewPrinter(io.Discard), nil)
	if err != nil {
		return "", nil, err
	}
	done := make(chan struct{})
	go func() { _ = svr.Serve(); close(done) }()
	return svr.Addr(), func() { _ = svr.GracefulShutdown(2 * time.Second); <-done }, nil
}
