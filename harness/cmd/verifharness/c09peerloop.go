package main

import (
	"bytes"
	"context"
	"encoding/json"
	"errors"
	"fmt"
	"io"
	"net"
	"sort"
	"sync"
	"time"

	"connectrpc.com/conformance/internal"
	"connectrpc.com/conformance/internal/app/grpcclient"
	"connectrpc.com/conformance/internal/app/grpcserver"
	"connectrpc.com/conformance/internal/app/referenceclient"
	"connectrpc.com/conformance/internal/app/referenceserver"
	conformancev1 "connectrpc.com/conformance/internal/gen/proto/go/connectrpc/conformance/v1"
	"connectrpc.com/conformance/internal/verifharness/gen"
	"google.golang.org/grpc"
	"google.golang.org/protobuf/proto"
)

// Op "peerloop": the framing as EVERY peer command really reads it — through the command's own
// read loop, not through a decoder built by the harness. A sequence of n requests (clients) or the
// one configuration message (servers) is put on the stdin of the real Run function of the peer, in
// the binary or the -json wire variant, handed out in the given pieces (one piece per Read; a
// smaller buffer gets the beginning of the piece and the next Read the rest), possibly cut short.
// The requests fail at once without any RPC (a gRPC server with no services for the gRPC client,
// a closed port for the reference client): what is observed is one response per request read.
func init() {
	gen.RegisterOp("c09", "peerloop", func(_ *gen.Ctx, raw json.RawMessage) any {
		return c09PeerLoop(gen.Into[c09PeerLoopIn](raw))
	})
}

type c09PeerLoopIn struct {
	Peer  string `json:"peer"` // grpcclient | referenceclient | grpcserver | referenceserver
	JSON  bool   `json:"json"`
	N     int    `json:"n"`    // messages written (servers read exactly one)
	Pads  []int  `json:"pads"` // length of the padding of the test name of request i
	P     int    `json:"p"`    // clients: -p (1: the responses must come in the order of the requests); 0: default
	Reads string `json:"reads"` // ones | all | permsg | inside | insideEach | marks
	K     int    `json:"k"`     // reads = inside: the first read ends in the middle of message k (the rest in one read)
	Marks []int  `json:"marks"` // reads = marks: read boundaries in per mille of the stream
	// truncation: none | between (after CutMsg complete messages) | prefix (binary: CutOff bytes into the
	// prefix of message CutMsg) | inside (CutOff per mille into the text/body of message CutMsg) | ws (after
	// the last byte of message CutMsg, before the white space that follows it)
	Cut    string `json:"cut"`
	CutMsg int    `json:"cutMsg"`
	CutOff int    `json:"cutOff"`
}

type c09PeerLoopOut struct {
	Err       string   `json:"err,omitempty"` // the op could not set the scenario up
	Want      []string `json:"want"`          // names of the requests written, in order
	Got       []string `json:"got"`           // names of the responses, in the order of the output
	Exit      string   `json:"exit"`          // ok | eof | unexpectedEOF | other | hang
	ExitText  string   `json:"exitText,omitempty"`
	OutJunk   bool     `json:"outJunk"`   // the output is not a clean sequence of responses
	Stream    string   `json:"stream"`    // binary variant: the bytes handed out (after the cut), hex
	Pieces    []int    `json:"pieces"`    // sizes of the pieces
	Len       int      `json:"len"`       // length of the stream before the cut
	CutAt     int      `json:"cutAt"`     // length after the cut
	ValueEnds []int    `json:"valueEnds"` // offset after the last byte of message i
	TextEnds  []int    `json:"textEnds"`  // offset after the white space the encoder wrote after it
}

// c09PieceReader hands the stream out piece by piece.
type c09PieceReader struct {
	mu     sync.Mutex
	pieces [][]byte
}

func (c *c09PieceReader) Read(p []byte) (int, error) {
	c.mu.Lock()
	defer c.mu.Unlock()
	if len(p) == 0 {
		return 0, nil
	}
	for len(c.pieces) > 0 && len(c.pieces[0]) == 0 {
		c.pieces = c.pieces[1:]
	}
	if len(c.pieces) == 0 {
		return 0, io.EOF
	}
	n := copy(p, c.pieces[0])
	c.pieces[0] = c.pieces[0][n:]
	return n, nil
}
func (c *c09PieceReader) Close() error { return nil }

type c09LockedSink struct {
	mu  sync.Mutex
	buf bytes.Buffer
}

func (s *c09LockedSink) Write(p []byte) (int, error) {
	s.mu.Lock()
	defer s.mu.Unlock()
	return s.buf.Write(p)
}
func (s *c09LockedSink) Close() error { return nil }
func (s *c09LockedSink) snapshot() []byte {
	s.mu.Lock()
	defer s.mu.Unlock()
	return append([]byte{}, s.buf.Bytes()...)
}

var (
	c09EmptyGRPCOnce sync.Once
	c09EmptyGRPCPort int
	c09EmptyGRPCErr  error
)

// c09EmptyGRPC is a gRPC server with no services on the loopback interface: connections become
// ready, so the gRPC client gets as far as looking at the service name of the request.
func c09EmptyGRPC() (int, error) {
	c09EmptyGRPCOnce.Do(func() {
		lis, err := net.Listen("tcp", "127.0.0.1:0")
		if err != nil {
			c09EmptyGRPCErr = err
			return
		}
		svr := grpc.NewServer()
		go func() { _ = svr.Serve(lis) }()
		c09EmptyGRPCPort = lis.Addr().(*net.TCPAddr).Port //nolint:forcetypeassert
	})
	return c09EmptyGRPCPort, c09EmptyGRPCErr
}

func c09IsServerPeer(peer string) bool { return peer == "grpcserver" || peer == "referenceserver" }

func c09PeerLoopMsg(in c09PeerLoopIn, i int) (proto.Message, string, error) {
	pad := 0
	if i < len(in.Pads) {
		pad = in.Pads[i]
	}
	name := fmt.Sprintf("req-%d/%s", i, bytes.Repeat([]byte{byte('a' + i%26)}, pad))
	switch in.Peer {
	case "grpcclient":
		port, err := c09EmptyGRPC()
		if err != nil {
			return nil, "", err
		}
		return &conformancev1.ClientCompatRequest{TestName: name, Host: "127.0.0.1", Port: uint32(port),
			Service: strPtr("no.such.Service")}, name, nil
	case "referenceclient":
		return &conformancev1.ClientCompatRequest{
			TestName: name, HttpVersion: conformancev1.HTTPVersion_HTTP_VERSION_1, Protocol: conformancev1.Protocol_PROTOCOL_CONNECT,
			Codec: conformancev1.Codec_CODEC_PROTO, Compression: conformancev1.Compression_COMPRESSION_IDENTITY,
			Host: "127.0.0.1", Port: 1, StreamType: conformancev1.StreamType_STREAM_TYPE_UNARY,
			Service: strPtr("connectrpc.conformance.v1.ConformanceService"), Method: strPtr("Unary"), TimeoutMs: u32Ptr(2000),
		}, name, nil
	case "grpcserver":
		return &conformancev1.ServerCompatRequest{Protocol: conformancev1.Protocol_PROTOCOL_GRPC,
			HttpVersion: conformancev1.HTTPVersion_HTTP_VERSION_2, MessageReceiveLimit: uint32(1000 + pad)}, "server", nil
	case "referenceserver":
		return &conformancev1.ServerCompatRequest{Protocol: conformancev1.Protocol_PROTOCOL_CONNECT,
			HttpVersion: conformancev1.HTTPVersion_HTTP_VERSION_1, MessageReceiveLimit: uint32(1000 + pad)}, "server", nil
	}
	return nil, "", errors.New("unknown peer " + in.Peer)
}

func c09PeerLoop(in c09PeerLoopIn) c09PeerLoopOut {
	out := c09PeerLoopOut{Want: []string{}, Got: []string{}, Pieces: []int{}, ValueEnds: []int{}, TextEnds: []int{}}
	codec := internal.NewCodec(in.JSON)
	var stdin bytes.Buffer
	enc := codec.NewEncoder(&stdin)
	for i := 0; i < in.N; i++ {
		msg, name, err := c09PeerLoopMsg(in, i)
		if err != nil {
			out.Err = err.Error()
			return out
		}
		if err := enc.Encode(msg); err != nil {
			out.Err = "encode: " + err.Error()
			return out
		}
		out.Want = append(out.Want, name)
		text := stdin.Bytes()
		out.TextEnds = append(out.TextEnds, len(text))
		if in.JSON {
			out.ValueEnds = append(out.ValueEnds, len(bytes.TrimRight(text, " \t\r\n")))
		} else {
			out.ValueEnds = append(out.ValueEnds, len(text))
		}
	}
	data := append([]byte{}, stdin.Bytes()...)
	out.Len = len(data)
	start := func(i int) int {
		if i <= 0 {
			return 0
		}
		if i > in.N {
			i = in.N
		}
		return out.TextEnds[i-1]
	}
	// the cut
	cut := len(data)
	if in.N > 0 && in.CutMsg >= 0 && in.CutMsg < in.N {
		s, e := start(in.CutMsg), out.ValueEnds[in.CutMsg]
		switch in.Cut {
		case "between":
			cut = s
		case "prefix":
			cut = s + 1 + in.CutOff%3
		case "inside":
			cut = s + 1 + (e-s-2)*in.CutOff/1000
			if cut >= e {
				cut = e - 1
			}
		case "ws":
			cut = e
		}
	}
	if cut > len(data) {
		cut = len(data)
	}
	data = data[:cut]
	out.CutAt = cut
	if !in.JSON {
		out.Stream = gen.Hex(data)
	}
	// the pieces
	var bounds []int
	mid := func(i int) int { return (start(i) + out.ValueEnds[i]) / 2 }
	switch in.Reads {
	case "ones":
		for i := 1; i < len(data); i++ {
			bounds = append(bounds, i)
		}
	case "permsg":
		bounds = append(bounds, out.TextEnds...)
	case "inside":
		if in.K >= 0 && in.K < in.N {
			bounds = append(bounds, mid(in.K))
		}
	case "insideEach":
		for i := 0; i < in.N; i++ {
			bounds = append(bounds, mid(i))
		}
	case "marks":
		for _, m := range in.Marks {
			bounds = append(bounds, len(data)*m/1000)
		}
	}
	sort.Ints(bounds)
	var pieces [][]byte
	prev := 0
	for _, b := range bounds {
		if b <= prev || b >= len(data) {
			continue
		}
		pieces = append(pieces, data[prev:b])
		prev = b
	}
	if prev < len(data) {
		pieces = append(pieces, data[prev:])
	}
	for _, p := range pieces {
		out.Pieces = append(out.Pieces, len(p))
	}

	args := []string{in.Peer}
	if in.JSON {
		args = append(args, "-json")
	}
	server := c09IsServerPeer(in.Peer)
	if server {
		args = append(args, "-bind", "127.0.0.1", "-port", "0")
	} else if in.P > 0 {
		args = append(args, "-p", fmt.Sprint(in.P))
	}
	ctx, cancel := context.WithTimeout(context.Background(), 30*time.Second)
	defer cancel()
	rd := &c09PieceReader{pieces: pieces}
	var sink, errSink c09LockedSink
	done := make(chan error, 1)
	go func() {
		defer func() {
			if r := recover(); r != nil {
				done <- fmt.Errorf("panic: %v", r)
			}
		}()
		switch in.Peer {
		case "grpcclient":
			done <- grpcclient.Run(ctx, args, rd, &sink, &errSink)
		case "referenceclient":
			done <- referenceclient.Run(ctx, args, rd, &sink, &errSink)
		case "grpcserver":
			done <- grpcserver.Run(ctx, args, rd, &sink, &errSink)
		default:
			done <- referenceserver.Run(ctx, args, rd, &sink, &errSink)
		}
	}()
	var runErr error
	returned := false
	if server {
		// a server goes on serving after its response: wait for the response (or the return), then stop it
		deadline := time.After(20 * time.Second)
		tick := time.NewTicker(5 * time.Millisecond)
	wait:
		for {
			select {
			case runErr = <-done:
				returned = true
				break wait
			case <-deadline:
				break wait
			case <-tick.C:
				if names, junk := c09PeerLoopNames(codec, true, sink.snapshot()); len(names) > 0 && !junk {
					break wait
				}
			}
		}
		tick.Stop()
		cancel()
	}
	if !returned {
		select {
		case runErr = <-done:
		case <-time.After(40 * time.Second):
			out.Exit = "hang"
			return out
		}
	}
	out.Got, out.OutJunk = c09PeerLoopNames(codec, server, sink.snapshot())
	switch {
	case runErr == nil:
		out.Exit = "ok"
	case errors.Is(runErr, io.ErrUnexpectedEOF):
		out.Exit = "unexpectedEOF"
	case errors.Is(runErr, io.EOF):
		out.Exit = "eof"
	default:
		out.Exit = "other"
	}
	if runErr != nil {
		out.ExitText = runErr.Error()
	}
	return out
}

// c09PeerLoopNames reads the peer's output with the real decoder of the variant: the test names of
// the responses (for a server: "server" for each ServerCompatResponse with a port).
func c09PeerLoopNames(codec internal.Codec, server bool, data []byte) ([]string, bool) {
	names := []string{}
	dec := codec.NewDecoder(bytes.NewReader(data))
	for {
		var err error
		if server {
			var resp conformancev1.ServerCompatResponse
			if err = dec.DecodeNext(&resp); err == nil {
				if resp.Port == 0 {
					return names, true
				}
				names = append(names, "server")
			}
		} else {
			var resp conformancev1.ClientCompatResponse
			if err = dec.DecodeNext(&resp); err == nil {
				names = append(names, resp.TestName)
			}
		}
		if err != nil {
			return names, !errors.Is(err, io.EOF) || errors.Is(err, io.ErrUnexpectedEOF)
		}
	}
}

func c09PeerLoopGen(c *gen.Ctx) {
	var ins []any
	pads := func(n int) []int {
		p := make([]int, n)
		for i := range p {
			p[i] = []int{0, 1, 7, 40, 300, 700}[c.R.Intn(6)]
		}
		return p
	}
	marks := func() []int {
		m := make([]int, c.R.Range(1, 6))
		for i := range m {
			m[i] = c.R.Range(1, 999)
		}
		return m
	}
	maxN := 4
	if c.Thorough() {
		maxN = 7
	}
	for _, peer := range []string{"grpcclient", "referenceclient"} {
		for _, js := range []bool{false, true} {
			for n := 1; n <= maxN; n++ {
				mk := func(reads string, k int, ms []int) c09PeerLoopIn {
					p := 0
					if c.R.Bool() {
						p = 1
					}
					return c09PeerLoopIn{Peer: peer, JSON: js, N: n, Pads: pads(n), P: p, Reads: reads, K: k, Marks: ms, Cut: "none", CutMsg: -1}
				}
				// every partition class of a complete stream
				ins = append(ins, mk("ones", 0, nil), mk("all", 0, nil), mk("permsg", 0, nil), mk("insideEach", 0, nil), mk("marks", 0, marks()), mk("marks", 0, marks()))
				for k := 1; k < n; k++ {
					ins = append(ins, mk("inside", k, nil))
				}
				// truncation at every class of position, in every message
				if n == 1 || n == 3 || c.Thorough() {
					for j := 0; j < n; j++ {
						cuts := []c09PeerLoopIn{}
						for _, reads := range []string{"ones", "all", "marks"} {
							add := func(cut string, off int) {
								in := mk(reads, 0, marks())
								in.Cut, in.CutMsg, in.CutOff = cut, j, off
								cuts = append(cuts, in)
							}
							add("between", 0)
							add("inside", c.R.Range(0, 999))
							add("inside", 1000) // only the last byte is missing
							if js {
								add("ws", 0)
								add("inside", 0) // only the opening brace
							} else {
								add("prefix", c.R.Intn(3))
							}
						}
						for _, in := range cuts {
							ins = append(ins, in)
						}
					}
				}
			}
		}
	}
	// the servers read exactly one message
	for _, peer := range []string{"grpcserver", "referenceserver"} {
		for _, js := range []bool{false, true} {
			mk := func(reads string, cut string, off int) c09PeerLoopIn {
				return c09PeerLoopIn{Peer: peer, JSON: js, N: 1, Pads: []int{c.R.Intn(100000)}, Reads: reads, Marks: marks(), Cut: cut, CutMsg: 0, CutOff: off}
			}
			ins = append(ins, mk("ones", "none", 0), mk("all", "none", 0), mk("insideEach", "none", 0), mk("marks", "none", 0),
				mk("marks", "between", 0), mk("ones", "inside", c.R.Range(0, 999)), mk("all", "inside", 1000))
			if js {
				ins = append(ins, mk("marks", "ws", 0))
			} else {
				ins = append(ins, mk("ones", "prefix", c.R.Intn(3)))
			}
		}
	}
	c.E.Add("peerloop-inputs", len(ins))
	c.DoParallel("peerloop", ins, 8)
}
