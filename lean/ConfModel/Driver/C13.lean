import ConfModel.Driver.Common
import ConfModel.Model.WireChecks
import ConfModel.Spec.WireChecks
import ConfModel.Model.ConnectJson
import ConfModel.Spec.ContentCoding
import ConfModel.Spec.ConnectJson
import ConfModel.Spec.BinMeta
import ConfModel.Model.Session
namespace ConfModel.Driver.C13
open Lean ConfModel.Driver ConfModel.WireChecks ConfModel.WireChecksSpec
open ConfModel.ServerTimeout (Bytes)
open ConfModel.ConnectJson hiding Json bytesLt
open ConfModel.ConnectJsonSpec

/-- the parsed documents of the Connect JSON examiners (duplicate keys kept) -/
abbrev CJ := ConfModel.ConnectJson.Json

def EsFb.cls : EsFb → String
  | .missingColon => "es:missing-colon" | .invalidName => "es:invalid-name"
  | .nonLowerKey => "es:non-lower-key" | .invalidValue => "es:invalid-value"
  | .obsFold => "es:obs-fold" | .extraBlankAtEnd => "es:extra-blank"
  | .blankLines => "es:blank-lines" | .lfOnly => "es:lf-only" | .noFinalCRLF => "es:no-final-crlf"

def allEs : List EsFb := [.missingColon, .invalidName, .nonLowerKey, .invalidValue, .obsFold,
  .extraBlankAtEnd, .blankLines, .lfOnly, .noFinalCRLF]

def StFb.cls : StFb → String
  | .multiStatus => "st:multi-status" | .noStatus => "st:no-status" | .badStatus => "st:bad-status"
  | .statusRange => "st:status-range" | .multiMessage => "st:multi-message"
  | .msg .hexExpected => "st:msg-hex" | .msg .unescaped => "st:msg-unescaped"
  | .msg .incomplete => "st:msg-incomplete" | .msgWithOK => "st:msg-with-ok"
  | .multiDetails => "st:multi-details" | .detailsBadBase64 => "st:details-base64"
  | .detailsPadded => "st:details-padded" | .detailsUnparseable => "st:details-unparseable"
  | .detailsCodeMismatch => "st:details-code" | .detailsWithOK => "st:details-with-ok"
  | .detailsMsgMismatch => "st:details-msg"

def allSt : List StFb := [.multiStatus, .noStatus, .badStatus, .statusRange, .multiMessage,
  .msg .hexExpected, .msg .unescaped, .msg .incomplete, .msgWithOK, .multiDetails, .detailsBadBase64,
  .detailsPadded, .detailsUnparseable, .detailsCodeMismatch, .detailsWithOK, .detailsMsgMismatch]

/-- impl class strings back to the enum; `none` for an unknown class -/
def esOf (s : String) : Option EsFb := allEs.find? (fun f => EsFb.cls f == s)
def stOf (s : String) : Option StFb := allSt.find? (fun f => StFb.cls f == s)

def bytesLt : Bytes → Bytes → Bool
  | [], [] => false
  | [], _ :: _ => true
  | _ :: _, [] => false
  | a :: as, b :: bs' => a.toNat < b.toNat || (a.toNat == b.toNat && bytesLt as bs')

def insertH (x : Bytes × List Bytes) : Hdrs → Hdrs
  | [] => [x]
  | y :: ys => if bytesLt x.1 y.1 then x :: y :: ys else y :: insertH x ys

def sortH (h : Hdrs) : Hdrs := h.foldl (fun acc x => insertH x acc) []

def hdrsOf (j : Json) : Hdrs :=
  (arr j).map (fun e => (unhex (str (field e "k")), (strList (field e "v")).map unhex))

def hdrsJson (h : Hdrs) : Json :=
  toJson (h.map fun (k, vs) => Json.mkObj [("k", hex k), ("v", toJson (vs.map hex))])

/-- the oracle for base64 + Status unmarshalling supplied by the harness -/
def decOf (j : Json) : Bytes → DetailsDec :=
  if isNull j then fun _ => .invalid else
  let value := unhex (str (field j "value"))
  let kind := str (field j "kind")
  let res : DetailsDec :=
    if kind == "invalid" then .invalid
    else .decoded (kind == "padded")
      (if bool (field j "parsed") then
        some (int (field j "code"), unhex (str (field j "msg")), nat (field j "details") > 0) else none)
  fun v => if v == value then res else .invalid

structure Examined where
  fb1 : List String
  hdrs : Hdrs
  fb2 : List String
  dec : Bytes → DetailsDec
  /-- checkBinaryMetadata on the parsed trailers, when the op reports it -/
  fb3 : Option (List String) := none

def examinedOf (impl : Json) : Examined :=
  { fb1 := strList (field impl "fb1"), hdrs := hdrsOf (field impl "headers"),
    fb2 := strList (field impl "fb2"), dec := decOf (field impl "oracle"),
    fb3 := if isNull (field impl "fb3") then none else some (strList (field impl "fb3")) }

def binCls (f : BinMeta.BinFb) : String := match f with | .padded => "bm:padded" | .invalid => "bm:invalid"

def binOfCls (c : String) : Option BinMeta.BinFb :=
  if c == "bm:padded" then some .padded else if c == "bm:invalid" then some .invalid else none

/-- the binary-metadata examination of parsed trailers: agreement with the model and the
property's predicate on the implementation's output (vacuous when the op does not report it or a
name is not ASCII) -/
def judgeBin (e : Examined) : Bool × Bool :=
  match e.fb3 with
  | none => (true, true)
  | some fb3 =>
    if !e.hdrs.all (fun kv => isASCII kv.1) then (true, true) else
    let m := BinMeta.checkBinaryMetadata e.hdrs
    let known := fb3.filterMap binOfCls
    (m.map binCls == fb3, known.length == fb3.length && BinMetaSpec.binHolds e.hdrs known)

/-- agreement of the model with the implementation on one block; the model's result -/
def judgeBlock (block : Bytes) (e : Examined) : Bool × Json × List EsFb × List StFb :=
  let (mFb1, mH, unk) := examineGRPCEndStream block
  let mFb2 := checkGRPCStatus e.dec mH
  let drop (l : List String) := if unk then l.filter (· != "es:non-lower-key") else l
  let agree := drop (mFb1.map EsFb.cls) == drop e.fb1 && sortH mH == e.hdrs && mFb2.map StFb.cls == e.fb2
  (agree, Json.mkObj [("fb1", toJson (mFb1.map EsFb.cls)), ("headers", hdrsJson (sortH mH)),
    ("fb2", toJson (mFb2.map StFb.cls))], e.fb1.filterMap esOf, e.fb2.filterMap stOf)

def unknownClasses (e : Examined) : List String :=
  (e.fb1.filter (fun s => (esOf s).isNone)) ++ (e.fb2.filter (fun s => (stOf s).isNone))


/-! ### Connect JSON examiners -/

def DebugFb.cls : DebugFb → String
  | .unresolved => "cd:debug-unresolved" | .value => "cd:debug-value" | .json => "cd:debug-json"
  | .type => "cd:debug-type" | .mismatch => "cd:debug-mismatch"

def allDebug : List DebugFb := [.unresolved, .value, .json, .type, .mismatch]

def CFb.cls : CFb → String
  | .jsonType => "json:type" | .jsonNull => "json:null" | .dupKey => "json:duplicate-key"
  | .codeType => "ce:code-type" | .codeUnknown => "ce:code-unknown" | .messageType => "ce:message-type"
  | .detailsType => "ce:details-type" | .invalidKey => "ce:invalid-key" | .missingCode => "ce:missing-code"
  | .dTypeType => "cd:type-type" | .dTypeInvalid => "cd:type-invalid" | .dValueType => "cd:value-type"
  | .dValueBase64 => "cd:value-base64" | .dInvalidKey => "cd:invalid-key"
  | .dMissingType => "cd:missing-type" | .dMissingValue => "cd:missing-value"
  | .dDebug f => DebugFb.cls f
  | .sErrorType => "cs:error-type" | .sMetadataType => "cs:metadata-type" | .sMetaName => "cs:meta-name"
  | .sMetaArray => "cs:meta-array" | .sMetaValueType => "cs:meta-value-type" | .sMetaValue => "cs:meta-value"
  | .sInvalidKey => "cs:invalid-key"

def allCFb : List CFb := [.jsonType, .jsonNull, .dupKey, .codeType, .codeUnknown, .messageType,
  .detailsType, .invalidKey, .missingCode, .dTypeType, .dTypeInvalid, .dValueType, .dValueBase64,
  .dInvalidKey, .dMissingType, .dMissingValue, .sErrorType, .sMetadataType, .sMetaName, .sMetaArray,
  .sMetaValueType, .sMetaValue, .sInvalidKey] ++ allDebug.map .dDebug

def cfbOf (s : String) : Option CFb := allCFb.find? (fun f => CFb.cls f == s)

/-- the harness's encoding of a parsed document: null, bool, number, {"s": hex} for a string,
an array, {"o": [[hex key, value], ..]} for an object (document order, duplicates kept) -/
partial def cjOf (j : Json) : CJ :=
  match j with
  | .null => .null
  | .bool b => .bool b
  | .num _ => .num
  | .str _ => .null
  | .arr a => .arr (a.toList.map cjOf)
  | .obj _ =>
    let s := field j "s"
    if !isNull s then .str (unhex (str s))
    else .obj ((arr (field j "o")).map fun kv =>
      match arr kv with
      | [k, v] => (unhex (str k), cjOf v)
      | _ => ([], .null))

structure OracleEntry where
  i : Nat
  type : Bytes
  data : Bytes
  /-- what the real `examineConnectErrorDetailDebugData` printed -/
  fb : List String
  /-- the outcome of each library call, computed by the harness -/
  steps : DebugSteps

def stepsOf (j : Json) : DebugSteps :=
  { resolved := bool (field j "resolved"), valueOK := bool (field j "valueOk"),
    directOK := bool (field j "directOk"), eqDirect := bool (field j "eqDirect"),
    anyUrl := if bool (field j "anyOk") then some (unhex (str (field j "anyUrl"))) else none,
    newOK := bool (field j "newOk"), eqAny := bool (field j "eqAny") }

def oracleEntries (j : Json) : List OracleEntry :=
  (arr j).map fun e =>
    { i := nat (field e "i"), type := unhex (str (field e "type")), data := unhex (str (field e "data")),
      fb := strList (field e "fb"), steps := stepsOf (field e "steps") }

/-- all library calls fail: the outcome where the harness has no entry -/
def noSteps : DebugSteps :=
  { resolved := false, valueOK := false, directOK := false, eqDirect := false, anyUrl := none, newOK := false, eqAny := false }

/-- the library outcomes the harness computed; `none` where it has no entry -/
def stepsFor (es : List OracleEntry) (i : Nat) (t d : Bytes) : Option DebugSteps :=
  (es.find? (fun e => e.i == i && e.type == t && e.data == d)).map (·.steps)

/-- the comparison as the model makes it from the library outcomes (`debugDataFb`); `dflt` where
the harness has no entry -/
def oracleOf (es : List OracleEntry) (dflt : Option DebugFb) : DebugOracle := fun i t d =>
  match stepsFor es i t d with
  | some s => debugDataFb t s
  | none => dflt

/-- the declarative side: silent exactly on well-formed debug data (`debugOK`) -/
def specOracleOf (es : List OracleEntry) : DebugOracle :=
  debugSpecOracle (fun i t d => (stepsFor es i t d).getD noSteps)

/-- the entries on which the real function does not print what the model derives from the
library outcomes -/
def debugDisagreements (es : List OracleEntry) : List OracleEntry :=
  es.filter fun e => e.fb != ((debugDataFb e.type e.steps).map DebugFb.cls).toList

/-- (code, message, details) of a document of the shape connect-go's error writer produces -/
def ownErrorOf (doc : CJ) : Option (Nat × Bytes × List Detail) :=
  match doc with
  | .obj fs =>
    match lookup fs jkCode with
    | some (.str c) =>
      let code := (codeNames.findIdx? (· == c)).map (· + 1)
      let msg := (strOf (lookup fs jkMessage)).getD []
      let details : List Detail := match lookup fs jkDetails with
        | some (.arr xs) => xs.map (fun d => match d with
          | .obj ds =>
            { type := (strOf (lookup ds jkType)).getD [],
              value := ((strOf (lookup ds jkValue)).bind rawStdDecode).getD [],
              debug := lookup ds jkDebug }
          | _ => { type := [], value := [], debug := none })
        | _ => []
      code.map (fun c => (c, msg, details))
    | _ => none
  | _ => none

def ownMetadataOf (m : Option CJ) : List (Bytes × List Bytes) :=
  match m with
  | some (.obj ms) => ms.map (fun kv => (kv.1, match kv.2 with
      | .arr vs => vs.map (fun v => (strOf (some v)).getD [])
      | _ => []))
  | _ => []

/-- the document is the value of the encoder model on some (code 1..16, message, details)
[and metadata] satisfying the hypotheses of `own_connect_error_clean` /
`own_connect_end_stream_clean`; the second component says why not -/
def ownImage (endStream : Bool) (dbg : DebugOracle) (doc : CJ) : Bool × String :=
  if !endStream then
    match ownErrorOf doc with
    | some (code, msg, details) =>
      if !(encodeError code msg details).beq doc then (false, "not the encoder model's document")
      else if !detailsFine dbg 0 details then (false, "details outside the hypotheses")
      else (true, "")
    | none => (false, "no code name")
  else
    match doc with
    | .obj fs =>
      let err := (lookup fs jkError).bind ownErrorOf
      let md := ownMetadataOf (lookup fs jkMetadata)
      if !(encodeEndStream err md).beq doc then (false, "not the encoder model's document")
      else if !(match err with | some (_, _, details) => detailsFine dbg 0 details | none => true) then
        (false, "details outside the hypotheses")
      else if !metadataFine md then (false, "metadata outside the hypotheses")
      else (true, "")
    | _ => (false, "not an object")

def judgeJSON (endStream : Bool) (kind : String) (impl : Json) : Verdict :=
  let fb := strList (field impl "fb")
  let other := fb.filter (·.startsWith "other:")
  let mutCls := if kind.startsWith "mut:" then (kind.drop 4).toString else ""
  let cls := if kind.startsWith "mut:" then (if fb.contains mutCls then "mut-exact-class" else "mut-other-class") else kind
  if !other.isEmpty then
    { agree := false, holds := true, nontrivial := false, why := s!"unclassified message {other}", cls := cls } else
  -- the generator's own expectation: silence on the server's documents, some feedback on every
  -- injected malformation
  let genHolds : Bool × String :=
    if kind == "own" then (fb.isEmpty, s!"feedback on a well-formed document written by the repository's own server: {fb}")
    else if kind == "anyform" then (fb.isEmpty, s!"feedback on a well-formed document whose debug data is the detail's message in google.protobuf.Any form (only the text after the last slash of a type URL names the type): {fb}")
    else if kind == "freeform" then (fb.isEmpty, s!"feedback on a well-formed document: free-form JSON in a detail's debug member in which every object has distinct keys (a key is repeated only when ONE object has it twice, whatever the key strings look like): {fb}")
    else if kind.startsWith "mut:" then (!fb.isEmpty, s!"injected malformation {kind} not reported")
    else (true, "")
  if !bool (field impl "tokenized") then
    -- not JSON (or a token encoding/json cannot read): the opaque class, and nothing else
    let agree := fb == ["json:syntax"] || fb == ["json:type"]
    let holds := !fb.isEmpty && genHolds.1
    { agree := agree, holds := holds, nontrivial := kind != "random", model := toJson ["json:syntax"],
      why := if holds then "" else if fb.isEmpty then "a document that is not JSON is not reported" else genHolds.2,
      cls := cls } else
  let doc := cjOf (field impl "parsed")
  let entries := oracleEntries (field impl "oracle")
  let dbg := oracleOf entries none
  let run (o : DebugOracle) := if endStream then examineConnectEndStream o doc else examineConnectError o doc
  let m := run dbg
  -- a debug comparison the model reaches but the harness has no outcome for
  let oracleMissing := run (oracleOf entries (some .mismatch)) != m
  let mCls := sortStrings (m.map CFb.cls)
  let known := fb.filterMap cfbOf
  -- the property's predicate is evaluated with the declarative oracle (debugOK: the type URL
  -- names the detail's type, whatever its prefix)
  let dbgSpec := specOracleOf entries
  let specHolds := known.length == fb.length &&
    (if endStream then endStreamHolds dbgSpec doc known else errorHolds dbgSpec doc known)
  let wellFormed := if endStream then endStreamOK dbgSpec doc else errorOK dbgSpec doc
  -- the server's own documents are values of the encoder model within the theorem's hypotheses
  let own := if kind == "own" || kind == "anyform" then ownImage endStream dbgSpec doc else (true, "")
  let holds := specHolds && genHolds.1
  -- the real debug comparison prints what the model derives from the library outcomes
  let dbgBad := debugDisagreements entries
  { agree := mCls == sortStrings fb && !oracleMissing && own.1 && dbgBad.isEmpty, holds := holds,
    nontrivial := true, model := toJson mCls,
    why := if holds then (if own.1 then (if oracleMissing then "debug oracle has no entry for a comparison the model reaches"
          else match dbgBad.head? with
            | some e => s!"debug comparison of details[{e.i}] (type {(String.fromUTF8? ⟨e.type.toArray⟩).getD (hex e.type)}): the examiner printed {e.fb}, the model derives {((debugDataFb e.type e.steps).map DebugFb.cls).toList} from the library outcomes {reprStr e.steps}"
            | none => "") else "own document: " ++ own.2)
      else if !genHolds.1 then genHolds.2
      else s!"well-formed={wellFormed}, must flag {reprStr (if endStream then mustFlagEndStream doc else mustFlagError doc)}, feedback {fb}",
    cls := cls }

/-- the compressed-exchange ops (c13z.go): is the plain payload what the examiner must see? -/
def zDemanded (stream : Bool) (inp : Json) : Bool :=
  let enc := if isNull (field inp "enc") then none else some (str (field inp "enc"))
  ContentCoding.payloadReachesExaminer stream (bool (field inp "flag")) (nat (field inp "comp")) enc

def zCls (inp : Json) (base : String) : String :=
  let enc := field inp "enc"
  let spelling := if isNull enc then "absent" else
    let e := str enc
    if e == ContentCoding.lower e then "lower" else if e == e.map Char.toUpper then "upper" else "mixed"
  s!"{base}/{ContentCoding.codings.getD (nat (field inp "comp")) "?"}/{spelling}"

def handleOne : Handler := fun op inp impl =>
  if !(isNull (field impl "panic")) then
    { agree := false, holds := false, why := "panic on arbitrary input: " ++ str (field impl "panic") } else
  match op with
  | "percent" =>
    let msg := unhex (str (field inp "msg"))
    let enc := unhex (str (field impl "enc"))
    let fb := strList (field impl "fb")
    let mEnc := percentEncode msg
    let esc := boolList (field impl "escapes")
    -- the property: the encoder's output is accepted by the validator, decodes to the message
    -- and is printable ASCII
    let printable := enc.all (fun b => 0x20 ≤ b.toNat && b.toNat ≤ 0x7E)
    let holds := fb.isEmpty && printable && encodingOK enc && percentDecode enc == some msg
    { agree := enc == mEnc && esc == msg.map shouldEscape &&
        (fb.isEmpty == ((validateMessage mEnc 0).isEmpty && percentDecode mEnc == some msg)),
      holds := holds, nontrivial := msg.any shouldEscape, model := toJson (hex mEnc),
      why := if holds then "" else s!"own encoding {hex enc} of {hex msg}: feedback {fb}, printable {printable}, decodes back {percentDecode enc == some msg}" }
  | "status" =>
    let h := hdrsOf (field inp "headers")
    let dec := decOf (field impl "oracle")
    let fb := strList (field impl "fb")
    let m := checkGRPCStatus dec h
    let known := fb.filterMap stOf
    let holds := known.length == fb.length && statusHolds dec h known
    { agree := m.map StFb.cls == fb, holds := holds, nontrivial := !fb.isEmpty,
      model := toJson (m.map StFb.cls),
      why := if holds then "" else s!"status trailers well-formed={statusOK dec h}, must flag {reprStr (mustFlagStatus dec h)}, feedback {fb}",
      cls := if statusOK dec h then "well-formed" else "malformed" }
  | "grpcweb" =>
    let block := unhex (str (field inp "block"))
    let e := examinedOf impl
    let (agree, model, fb1, fb2) := judgeBlock block e
    let unknown := unknownClasses e
    let (binAgree, binOk) := judgeBin e
    let holds := unknown.isEmpty && blockHolds block fb1 && statusHolds e.dec e.hdrs fb2 && binOk
    { agree := agree && binAgree, holds := holds, nontrivial := !(e.fb1.isEmpty && e.fb2.isEmpty), model := model,
      why := if holds then "" else
        s!"block well-formed={blockOK block} must flag {reprStr (mustFlag block)} got {e.fb1}; status well-formed={statusOK e.dec e.hdrs} must flag {reprStr (mustFlagStatus e.dec e.hdrs)} got {e.fb2} {unknown}",
      cls := if blockOK block then "well-formed" else "malformed" }
  | "own" =>
    let code := nat (field inp "code")
    let msg := unhex (str (field inp "msg"))
    let trailers := hdrsOf (field inp "trailers")
    let nDetails := (arr (field inp "details")).length
    let block := unhex (str (field impl "block"))
    let detailsBin := if isNull (field impl "detailsBin") then none else some (unhex (str (field impl "detailsBin")))
    let e := examinedOf impl
    let mBlock := grpcWebStatusEndStream code msg detailsBin trailers
    let (agree, model, _, _) := judgeBlock block e
    let renderAgree := mBlock == block || !trailers.all (fun (n, _) => isASCII n)
    let hyp := trailersOK trailers && (1 ≤ code && code ≤ 16)
    -- binary trailers of the test case: valid unpadded base64 values must reach the client one by one
    let binFine := trailers.all (fun (n, vs) => !BinMeta.examined n || vs.all BinMetaSpec.unpaddedB64)
    let fb3 := e.fb3.getD []
    let (binAgree, _) := judgeBin e
    let clean := e.fb1.isEmpty && e.fb2.isEmpty && (!binFine || fb3.isEmpty)
    let (holds, why) : Bool × String :=
      if !hyp || clean then (true, "")
      else if e.fb1.isEmpty && e.fb2.isEmpty then
        (false, s!"the reference server's own end-stream message carries binary trailers the reference client reports as badly encoded ({fb3}), although every value of the test case is unpadded base64")
      else if !noEdgeSpace msg && nDetails > 0 && e.fb1.isEmpty && e.fb2 == ["st:details-msg"] then
        (false, "F16: own gRPC-Web end-stream for a message with leading/trailing space: grpc-message is trimmed, then reported to disagree with grpc-status-details-bin")
      else (false, s!"feedback on the reference server's own end-stream message: {e.fb1} {e.fb2}")
    { agree := agree && binAgree && renderAgree && (detailsBin.isSome == (nDetails > 0)), holds := holds, nontrivial := hyp,
      model := Json.mkObj [("block", hex mBlock), ("examined", model)], why := why,
      cls := if !hyp then "hypothesis-violated" else if noEdgeSpace msg then "plain" else "edge-space" }
  | "binmd" =>
    let md : List (Bytes × List Bytes) := (arr (field inp "md")).map fun e =>
      (unhex (str (field e "k")), (strList (field e "v")).map unhex)
    let fb := strList (field impl "fb")
    let cls (f : BinMeta.BinFb) : String := match f with | .padded => "bm:padded" | .invalid => "bm:invalid"
    let ofCls (c : String) : Option BinMeta.BinFb :=
      if c == "bm:padded" then some .padded else if c == "bm:invalid" then some .invalid else none
    let m := BinMeta.checkBinaryMetadata md
    let known := fb.filterMap ofCls
    let own := field impl "own"
    -- what ConvertMetadataToProtoHeader wrote for the raw metadata is accepted silently
    let ownOk := isNull own || (strList own).isEmpty
    let ascii := md.all (fun e => isASCII e.1)
    let holds := known.length == fb.length && BinMetaSpec.binHolds md known && ownOk
    { agree := !ascii || m.map cls == fb, holds := !ascii || holds, nontrivial := !fb.isEmpty || !isNull own,
      model := toJson (m.map cls),
      why := if holds then "" else
        if !ownOk then s!"checkBinaryMetadata reports {strList own} on -bin values written by the repository's own encoder"
        else s!"binary metadata: examined values {(BinMetaSpec.examinedValues md).map hex}, feedback {fb}",
      cls := if !isNull own then "own" else if (BinMetaSpec.examinedValues md).all BinMetaSpec.unpaddedB64 then "well-formed" else "malformed" }
  | "capture" =>
    let size := nat (field inp "size")
    let recv := nat (field impl "received")
    let capt := nat (field impl "captured")
    -- capture is the identity (Props.C13.capture_identity): the buffer holds what the client received, the whole body
    let holds := bool (field impl "same") && recv == size && capt == size
    { agree := holds, holds := holds, nontrivial := size > 0, model := toJson size, cls := if size > 65536 then "large" else "small",
      why := if holds then "" else
        s!"the capturing body reader handed the client {recv} bytes of a body of {size} bytes but kept {capt} for examineWireDetails (chunks {(field inp "chunks").compress}): the examiner does not see the bytes the client received" }
  | "zbig" =>
    let mutK := str (field inp "mut")
    let fb := strList (field impl "fb")
    let direct := strList (field impl "direct")
    let what := str (field inp "what")
    let holds := if mutK == "" then fb.isEmpty && bool (field impl "ok") else !fb.isEmpty
    { agree := sortStrings fb == sortStrings direct, holds := holds, nontrivial := true, model := toJson (sortStrings direct),
      cls := what ++ (if mutK == "" then "" else ":" ++ mutK),
      why := if holds then "" else
        if mutK == "" then s!"feedback {fb} on a well-formed {what} payload of {nat (field impl "len")} bytes (coding {nat (field inp "comp")}); on the same payload handed over directly the examiner says {direct}"
        else s!"a {what} payload of {nat (field impl "len")} bytes (coding {nat (field inp "comp")}) with a malformation at its very end ({mutK}) draws no feedback through the exchange; handed over directly the examiner says {direct}" }
  | "cerr" | "cend" => judgeJSON (op == "cend") (str (field inp "kind")) impl
  | "zcerr" | "zcend" =>
    -- the same judgement as cerr / cend, on the feedback of the complete exchange
    let kind := str (field inp "kind")
    if !zDemanded (op == "zcend") inp then
      { agree := true, holds := true, nontrivial := false, cls := "coding-not-announced" } else
    let v := judgeJSON (op == "zcend") kind impl
    let fb := strList (field impl "fb")
    let direct := strList (field impl "direct")
    let same := fb == direct
    let holds := v.holds && bool (field impl "ok")
    { v with
      agree := v.agree && same, holds := holds,
      why := if !holds then
          s!"compressed payload (coding {nat (field inp "comp")}, announced as {(field inp "enc").compress}): " ++
            (if v.why == "" then "exchange not examined" else v.why) ++ s!" [feedback on the plain payload: {direct}]"
        else if !same then s!"feedback through the exchange {fb} differs from the feedback on the plain payload {direct}"
        else v.why,
      cls := zCls inp (if kind == "own" then "own" else "mutant") }
  | "zgrpcweb" =>
    if !zDemanded true inp then
      { agree := true, holds := true, nontrivial := false, cls := "coding-not-announced" } else
    let block := unhex (str (field inp "block"))
    let e := examinedOf impl
    let (agree, model, fb1, fb2) := judgeBlock block e
    let other := strList (field impl "other")
    let unknown := unknownClasses e ++ other
    let same := e.fb1 == strList (field impl "direct1") && e.fb2 == strList (field impl "direct2")
    let holds := unknown.isEmpty && blockHolds block fb1 && statusHolds e.dec e.hdrs fb2 && bool (field impl "ok")
    { agree := agree && same, holds := holds, nontrivial := true, model := model,
      why := if holds then (if same then "" else "feedback through the exchange differs from the feedback on the plain block") else
        s!"compressed trailers frame (coding {nat (field inp "comp")}, announced as {(field inp "enc").compress}): block well-formed={blockOK block} must flag {reprStr (mustFlag block)} got {e.fb1}; status well-formed={statusOK e.dec e.hdrs} must flag {reprStr (mustFlagStatus e.dec e.hdrs)} got {e.fb2} {unknown} [on the plain block: {strList (field impl "direct1")} {strList (field impl "direct2")}]",
      cls := zCls inp (if blockOK block && statusOK e.dec e.hdrs then "well-formed" else "malformed") }
  | "serve" =>
    let fb := strList (field impl "fb")
    let msg := unhex (str (field inp "msg"))
    let examined := str (field impl "examined")
    let (holds, why) : Bool × String :=
      if fb.isEmpty && bool (field impl "ok") then (true, "")
      else if !noEdgeSpace msg && (examined == "grpc-web-trailers") && fb == ["st:details-msg"] then
        (false, "F16: reference server's gRPC-Web response for a message with leading/trailing space: grpc-message is trimmed, then reported to disagree with grpc-status-details-bin")
      else (false, s!"feedback on the reference server's own {examined} response: {fb}")
    { agree := true, holds := holds, nontrivial := true, model := Json.null, why := why, cls := examined }
  | "wire" =>
    let ct := str (field inp "ct")
    let fb := strList (field impl "fb")
    let want := httpTrailersFeedback ct (nat (field inp "trailers"))
    let got := fb.contains "wire:http-trailers"
    { agree := got == want && !fb.any (·.startsWith "other:"), holds := got == want, nontrivial := want,
      model := toJson want,
      why := if got == want then "" else s!"HTTP trailers outside gRPC: content-type {ct}, flagged={got}, expected={want}" }
  | "tonly" =>
    let ct := str (field inp "ct")
    let hs := hdrsOf (field inp "headers")
    let real := hdrsOf (field inp "real")
    let tr : Hdrs := announcedOnly ((strList (field inp "announced")).map unhex) ++ real
    let bodyData := bool (field inp "bodyData")
    let traceErr := bool (field inp "traceErr")
    let fb := strList (field impl "fb")
    let st := fb.filter (·.startsWith "st:")
    let decH := decOf (field impl "oracleH")
    let decT := decOf (field impl "oracleT")
    let src := statusSource ct traceErr bodyData tr
    let m : List StFb := match src with
      | .headers => checkGRPCStatus decH hs
      | .trailers => checkGRPCStatus decT real
      | .none => []
    let wantT := httpTrailersFeedback ct tr.length
    let gotT := fb.contains "wire:http-trailers"
    let others := fb.filter (fun f => !(f.startsWith "st:") && f != "wire:http-trailers")
    -- the property's side: a gRPC / gRPC-Web response without body message and without a trailer
    -- that HAS A VALUE carries its status in the headers: silent iff that status is well-formed,
    -- every malformation of it reported (announced names are not trailers)
    let isGrpc := "application/grpc".toList.isPrefixOf ct.toList
    let specTrailersOnly := isGrpc && !traceErr && !bodyData && real.all (fun kv => kv.2.isEmpty)
    let known := st.filterMap stOf
    let holds := !specTrailersOnly || (known.length == st.length && statusHolds decH hs known)
    { agree := m.map StFb.cls == st && gotT == wantT && others.isEmpty && bool (field impl "ok"), holds := holds,
      nontrivial := specTrailersOnly && !(strList (field inp "announced")).isEmpty,
      model := toJson (m.map StFb.cls),
      cls := (if specTrailersOnly then "trailers-only" else "other") ++ (if (strList (field inp "announced")).isEmpty then "" else "/announcing"),
      why := if holds then (if m.map StFb.cls == st then "" else s!"status feedback {st}, model {m.map StFb.cls} (source {reprStr src})") else
        s!"Trailers-Only {ct} response (status in the HTTP headers, no body message, no trailer sent) announcing trailer names {(strList (field inp "announced")).map (fun n => (String.fromUTF8? ⟨(unhex n).toArray⟩).getD n)}: the status in the headers is well-formed={statusOK decH hs}, must flag {reprStr (mustFlagStatus decH hs)}, feedback {st}" }
  | _ => bad ("C13: unknown op " ++ op)

/-! ### histories of calls (c13seq.go) -/

/-- one step of a history: is anything demanded of the feedback of this response on its own?
(the coding is announced as applied, and the coded body is neither truncated nor followed by bytes) -/
def seqDemanded (st : Json) : Bool :=
  let inp := field st "in"
  -- connect-go (the client under the invoker) knows content codings by their exact lower-case
  -- names only; for any other spelling it fails the RPC and closes the body UNREAD, so that the
  -- capture is empty: nothing is demanded of such a call on its own here (the one-response op
  -- zcerr, where the body is read to its end, demands every spelling) - history independence is
  -- judged all the same
  let enc := field inp "enc"
  let readByClient := isNull enc || str enc == ContentCoding.lower (str enc)
  nat (field st "trunc") == 0 && str (field st "trail") == "" && readByClient &&
    zDemanded (str (field st "op") != "zcerr") inp

/-- `seq`: per call of the history (a) the judgement of the one-response op on the feedback of
THAT call, (b) history independence: the feedback is that of the same response as the only call
(`Session.run fresh` = `map alone`, Props.C13.session_fresh). The property's predicate is silent
iff well-formed - a function of the response: a response that is silent in one history and draws
feedback in another violates it on whichever side the response is. -/
def handleSeq (inp impl : Json) : Verdict :=
  if !(isNull (field impl "panic")) then
    { agree := false, holds := false, why := "panic on a history of responses: " ++ str (field impl "panic") } else
  let steps := arr (field inp "steps")
  let outs := arr (field impl "steps")
  if steps.length != outs.length then bad "C13 seq: step count" else
  let zs := steps.zip outs
  -- the model of the history: the code keeps nothing between calls; the examiner of call k is
  -- what the same response yields alone (index k identifies the response, its body is one chunk)
  let aloneOf (k : Nat) : List String := sortStrings (strList (field (outs.getD k Json.null) "alone"))
  let body (k : Nat) : List UInt8 := (toString k).toUTF8.toList
  let examine (k : Nat) (captured : List UInt8) : List String × List UInt8 :=
    if captured == body k then (aloneOf k, []) else (["<bytes of another call examined>"], [])
  let expected := Session.run Session.fresh examine () ((List.range steps.length).map fun k => (k, [body k]))
  let seqs := outs.map fun o => sortStrings (strList (field o "seq"))
  let indep := seqs == expected
  -- the same response examined in this history and alone: silent in one, vocal in the other
  let flips := (List.range steps.length).filter fun k =>
    (seqs.getD k []).isEmpty != (aloneOf k).isEmpty ||
      bool (field (outs.getD k Json.null) "ok") != bool (field (outs.getD k Json.null) "aloneOk")
  let vs : List (Nat × Verdict) := (List.range steps.length).filterMap fun k =>
    match zs[k]? with
    | none => none
    | some (st, o) =>
      if seqDemanded st then some (k, handleOne (str (field st "op")) (field st "in") (field o "impl")) else none
  let badHold := vs.find? (fun kv => !kv.2.holds)
  let badAgree := vs.find? (fun kv => !kv.2.agree)
  let holds := badHold.isNone && flips.isEmpty
  let describe (k : Nat) : String :=
    match zs[k]? with
    | some (st, _) => s!"call {k + 1} of {steps.length} ({str (field st "op")} {str (field (field st "in") "kind")})"
    | none => ""
  { agree := indep && badAgree.isNone, holds := holds,
    nontrivial := vs.length ≥ 1 && steps.length ≥ 2,
    model := toJson expected,
    cls := s!"len{steps.length}/" ++ (if vs.length == steps.length then "all-demanded" else if vs.isEmpty then "none-demanded" else "mixed"),
    why :=
      match badHold with
      | some (k, v) => s!"history of {steps.length} responses through invoker.Invoke in one process: {describe k}: {v.why} [feedback of this call in the history {seqs.getD k []}, of the same response as the only call {aloneOf k}]"
      | none =>
        match flips.head? with
        | some k => s!"history of {steps.length} responses through invoker.Invoke in one process: {describe k}: the same response draws {seqs.getD k []} in this history but {aloneOf k} as the only call (examined: {bool (field (outs.getD k Json.null) "ok")} / {bool (field (outs.getD k Json.null) "aloneOk")}) - silent iff well-formed cannot hold of both"
        | none =>
          if !indep then s!"feedback of the calls of the history {seqs} differs from the feedback of the same responses alone {expected}"
          else match badAgree with
            | some (k, v) => s!"{describe k}: {v.why}"
            | none => "" }

def handle : Handler := fun op inp impl =>
  if op == "seq" then handleSeq inp impl else handleOne op inp impl

end ConfModel.Driver.C13
