package main

import (
	"encoding/json"
	"fmt"
	"regexp"
	"sort"
	"strconv"

	cc "connectrpc.com/conformance/internal/app/connectconformance"
	"connectrpc.com/conformance/internal/verifharness/gen"
)

// C04 — the run succeeds iff every selected case ran and met its expectation.
//
// op "report": in = {total, cases}; cases[i] is a 4-character code
//   kind  p pass | a assertion failure | c client error | s setup error | n no result
//         | r could-not-run | m missing (nothing recorded)
//   mark  u unmarked | f known failing | k known flaky
//   fb    1 peer feedback recorded | 0
//   sf    1 feedback recorded before the outcome | 0 after
// the case's name is "s/c<i>".  impl = report()'s verdict, the three summary lines parsed back
// to numbers and the names on the FAILED / INFO lines.

func init() {
	areas["c04"] = runC04
	gen.RegisterOp("c04", "report", func(_ *gen.Ctx, raw json.RawMessage) any {
		in := gen.Into[c04In](raw)
		return c04Report(in)
	})
}

type c04In struct {
	Total int      `json:"total"`
	Cases []string `json:"cases"`
}

type c04Out struct {
	OK          bool     `json:"ok"`
	Total       int      `json:"total"`
	Passed      int      `json:"passed"`
	Failed      int      `json:"failed"`
	NotRun      int      `json:"notRun"`
	Expected    int      `json:"expected"`
	FailedNames []string `json:"failedNames"`
	InfoNames   []string `json:"infoNames"`
	Unparsed    []string `json:"unparsed"`
}

var c04Kinds = map[byte]string{'p': "pass", 'a': "assert", 'c': "clienterr", 's': "setup", 'n': "noresult", 'r': "cnr", 'm': "missing"}

var (
	c04ReFailed   = regexp.MustCompile(`^FAILED: (\S+):\n\t`)
	c04ReFailedUP = regexp.MustCompile(`^FAILED: (\S+) was expected to fail but did not\n$`)
	c04ReInfo     = regexp.MustCompile(`^INFO: (\S+) failed \(as expected\):\n\t`)
	c04ReTotal    = regexp.MustCompile(`^Total cases: (\d+)\n(\d+) passed, (\d+) failed\n$`)
	c04ReNotRun   = regexp.MustCompile(`^Another (\d+) could not be run due to client timing out or exiting prematurely\.\n$`)
	c04ReExpected = regexp.MustCompile(`^\(Another (\d+) failed as expected due to being known failures/flakes\.\)\n$`)
)

func c04Report(in c04In) c04Out {
	cases := make([]cc.VerifC04Case, len(in.Cases))
	for i, code := range in.Cases {
		if len(code) != 4 {
			panic("c04: bad case code " + code)
		}
		kind, ok := c04Kinds[code[0]]
		if !ok || (code[1] != 'u' && code[1] != 'f' && code[1] != 'k') ||
			(code[2] != '0' && code[2] != '1') || (code[3] != '0' && code[3] != '1') {
			panic("c04: bad case code " + code)
		}
		cases[i] = cc.VerifC04Case{
			Name: fmt.Sprintf("s/c%d", i), Kind: kind, Mark: string(code[1]),
			Feedback: code[2] == '1', SidebandFirst: code[3] == '1',
		}
	}
	ok, msgs := cc.VerifC04Report(in.Total, cases)
	out := c04Out{OK: ok, Total: -1, FailedNames: []string{}, InfoNames: []string{}, Unparsed: []string{}}
	atoi := func(s string) int { v, _ := strconv.Atoi(s); return v }
	for _, m := range msgs {
		switch {
		case m == "\n":
		case c04ReFailed.MatchString(m):
			out.FailedNames = append(out.FailedNames, c04ReFailed.FindStringSubmatch(m)[1])
		case c04ReFailedUP.MatchString(m):
			out.FailedNames = append(out.FailedNames, c04ReFailedUP.FindStringSubmatch(m)[1])
		case c04ReInfo.MatchString(m):
			out.InfoNames = append(out.InfoNames, c04ReInfo.FindStringSubmatch(m)[1])
		case c04ReTotal.MatchString(m) && out.Total < 0:
			g := c04ReTotal.FindStringSubmatch(m)
			out.Total, out.Passed, out.Failed = atoi(g[1]), atoi(g[2]), atoi(g[3])
		case c04ReNotRun.MatchString(m) && out.NotRun == 0:
			out.NotRun = atoi(c04ReNotRun.FindStringSubmatch(m)[1])
		case c04ReExpected.MatchString(m) && out.Expected == 0:
			out.Expected = atoi(c04ReExpected.FindStringSubmatch(m)[1])
		default:
			out.Unparsed = append(out.Unparsed, m)
		}
	}
	sort.Strings(out.FailedNames)
	sort.Strings(out.InfoNames)
	return out
}

func runC04(c *gen.Ctx) error {
	r := c.R
	kinds := []byte("pacsnrm")
	marks := []byte("ufk")
	var combos []string // 42 = 7 kinds x 3 marks x 2 feedback
	for _, k := range kinds {
		for _, m := range marks {
			for _, fb := range []byte("01") {
				combos = append(combos, string([]byte{k, m, fb}))
			}
		}
	}
	code := func(i int) string {
		if r.Bool() {
			return combos[i] + "1"
		}
		return combos[i] + "0"
	}
	// (i) exhaustive: every assignment to 1, 2 and 3 selected cases
	for i := range combos {
		c.Do("report", c04In{1, []string{code(i)}})
	}
	for i := range combos {
		for j := range combos {
			c.Do("report", c04In{2, []string{code(i), code(j)}})
		}
	}
	for i := range combos {
		for j := range combos {
			for k := range combos {
				c.Do("report", c04In{3, []string{code(i), code(j), code(k)}})
			}
		}
	}
	c.E.Add("exhaustive-assignments", len(combos)+len(combos)*len(combos)+len(combos)*len(combos)*len(combos))
	// (ii) random larger assignments (mostly passing, as real runs are), with further selected
	// cases about which nothing is known (total > number of listed cases)
	nRand := 4000
	if c.Thorough() {
		nRand = 120000
	}
	for i := 0; i < nRand; i++ {
		n := r.Range(0, 40)
		cs := make([]string, n)
		passBias := r.Intn(4) // 0: uniform, else mostly meeting the expectation
		for k := range cs {
			switch {
			case passBias > 0 && r.Chance(3, 4):
				cs[k] = gen.Pick(r, []string{"pu0", "pu0", "pu0", "pk0", "ak0", "af0", "cf0", "pf1", "ck1", "mf1"})
			default:
				cs[k] = combos[r.Intn(len(combos))]
			}
			if r.Bool() {
				cs[k] += "1"
			} else {
				cs[k] += "0"
			}
		}
		extra := 0
		if r.Chance(1, 4) {
			extra = r.Range(1, 3)
		}
		c.Do("report", c04In{n + extra, cs})
		if extra > 0 {
			c.E.Count("random:with-unknown-cases")
		}
	}
	// (iii) the clamp for a total that was never configured (tests use 0): agreement only
	for i := 0; i < 200; i++ {
		n := r.Range(1, 6)
		cs := make([]string, n)
		for k := range cs {
			cs[k] = combos[r.Intn(len(combos))] + "0"
		}
		c.Do("report", c04In{r.Intn(n), cs})
	}
	return nil
}
