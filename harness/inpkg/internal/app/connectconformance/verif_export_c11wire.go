//go:build verif

package connectconformance

import (
	"context"
	"encoding/hex"
	"errors"
	"io"
	"regexp"
	"sort"
	"strconv"
	"strings"
	"sync"
	"time"

	conformancev1 "connectrpc.com/conformance/internal/gen/proto/go/connectrpc/conformance/v1"
	"google.golang.org/protobuf/proto"
)

// Op "wire" of C11 and op "site" of C09: the real runTestCasesForServer, fed with the BYTES its
// peers put on their stdout. The server's stdout is an arbitrary byte string (ServerOut followed by
// ServerFill zero bytes, then end of file); the client is either scripted at the level of the
// clientRunner interface (every request answered with the expected response) or it is the real
// runClient / clientProcessRunner over a scripted client process whose stdout is an arbitrary byte
// string as well (ClientOut, ClientFill zero bytes, end of file), withheld until every request of
// the batch has been written to the client's stdin. Both call sites of ReadDelimitedMessage in the
// runner (server_runner.go: the server's response; client_runner.go: consumeOutput) are thus reached
// with length prefixes of any value — at and around each site's limit, with the top bit set, text
// instead of a prefix — through the code that chooses the limit, the time-out and the goroutine in
// which the read happens.
//
// The op is run in a child process (see c11child.go): a panic in one of the runner's own goroutines,
// which no recover() of the harness can reach, is then an observation ("crashed") instead of the
// end of the whole run.
type VerifC11WireSpec struct {
	Names  []string `json:"names"`
	IsRef  bool     `json:"isRef"`
	UseTLS bool     `json:"useTLS"`
	// the server's stdout
	ServerOut  string `json:"serverOut"` // hex
	ServerFill int    `json:"serverFill"`
	// ServerBody says what the generator put behind the first length prefix, for the model's benefit
	// (protobuf decoding is outside the model): "plain" | "cert" (a well-formed response of exactly
	// the announced length, without / with certificate), "empty" (announced length 0), "junk"
	// (anything else: cannot be decoded if it is framed at all)
	ServerBody string `json:"serverBody"`
	// Client: "scripted" | "real"
	Client     string `json:"client"`
	ClientOut  string `json:"clientOut"` // hex
	ClientFill int    `json:"clientFill"`
	// ClientValid: the first ClientValid frames of the client's stdout are well-formed responses
	// with the expected payload for Names[0], Names[1], … (checked by the op)
	ClientValid int `json:"clientValid"`
	// reads of the peers' stdout return at most Chunk bytes (0: as much as fits)
	Chunk int `json:"chunk"`
}

// VerifC11WireRead is what one call site of ReadDelimitedMessage did with its stream.
type VerifC11WireRead struct {
	Used     bool   `json:"used"`     // the site was reached
	Msgs     int    `json:"msgs"`     // messages framed, decoded and accepted
	Err      string `json:"err"`      // class of the error that ended the reading: tooLarge | unexpectedEOF | eof | unmarshal | name | timeout | other | "" (none)
	Size     int64  `json:"size"`     // tooLarge: the two numbers of the text
	Limit    int64  `json:"limit"`    //
	Consumed int    `json:"consumed"` // bytes taken from the stream
	MaxBuf   int    `json:"maxBuf"`   // largest buffer handed to Read
}

type VerifC11WireObs struct {
	Outcomes [][2]string      `json:"outcomes"`
	Aborts   int              `json:"aborts"`
	Started  bool             `json:"started"`
	Hang     bool             `json:"hang"`
	Sent     int              `json:"sent"` // requests handed to the client
	Srv      VerifC11WireRead `json:"srv"`
	Cli      VerifC11WireRead `json:"cli"`
	FrozenMs int64            `json:"frozenMs"` // set by the harness: the process was not scheduled for that long
}

// verifC11WireStream is a peer's stdout: head, then fill zero bytes, then EOF.
type verifC11WireStream struct {
	mu       sync.Mutex
	head     []byte
	fill     int
	chunk    int
	gate     <-chan struct{} // nil: no gate; otherwise nothing is handed out before it is closed
	dead     <-chan struct{} // the process has ended: EOF
	consumed int
	maxBuf   int
}

func (s *verifC11WireStream) Read(p []byte) (int, error) {
	s.mu.Lock()
	if len(p) > s.maxBuf {
		s.maxBuf = len(p)
	}
	s.mu.Unlock()
	if s.gate != nil {
		select {
		case <-s.gate: // once open, the stream is served to its end whatever happens to the process
		default:
			select {
			case <-s.gate:
			case <-s.dead:
				return 0, io.EOF
			}
		}
	}
	if len(p) == 0 {
		return 0, nil
	}
	s.mu.Lock()
	defer s.mu.Unlock()
	if len(s.head) == 0 && s.fill == 0 {
		return 0, io.EOF
	}
	n := len(p)
	if s.chunk > 0 && n > s.chunk {
		n = s.chunk
	}
	if rest := len(s.head) + s.fill; n > rest {
		n = rest
	}
	k := copy(p[:n], s.head)
	s.head = s.head[k:]
	for i := k; i < n; i++ {
		p[i] = 0
	}
	s.fill -= n - k
	s.consumed += n
	return n, nil
}

// verifC11WireStdin accepts everything and counts the complete frames written to it.
type verifC11WireStdin struct {
	mu      sync.Mutex
	pending []byte
	need    int // bytes of the current body still to come (-1: inside a prefix)
	frames  int
	want    int
	full    chan struct{}
	once    sync.Once
}

func (w *verifC11WireStdin) Write(b []byte) (int, error) {
	w.mu.Lock()
	defer w.mu.Unlock()
	for _, c := range b {
		if w.need < 0 {
			w.pending = append(w.pending, c)
			if len(w.pending) == 4 {
				w.need = int(w.pending[0])<<24 | int(w.pending[1])<<16 | int(w.pending[2])<<8 | int(w.pending[3])
				w.pending = w.pending[:0]
			}
		} else {
			w.need--
		}
		if w.need == 0 {
			w.frames++
			w.need = -1
		}
	}
	if w.frames >= w.want {
		w.once.Do(func() { close(w.full) })
	}
	return len(b), nil
}

func (w *verifC11WireStdin) Close() error { return nil }

var verifC11WireTooLarge = regexp.MustCompile(`indicates message size of (-?\d+) bytes, but should not exceed (-?\d+)$`)

func verifC11WireClassify(err error, r *VerifC11WireRead) {
	switch {
	case err == nil:
		return
	case errors.Is(err, io.ErrUnexpectedEOF):
		r.Err = "unexpectedEOF"
		return
	case errors.Is(err, io.EOF) || errors.Is(err, errNoOutcome):
		r.Err = "eof"
		return
	}
	msg := err.Error()
	if m := verifC11WireTooLarge.FindStringSubmatch(msg); m != nil {
		r.Err = "tooLarge"
		r.Size, _ = strconv.ParseInt(m[1], 10, 64)
		r.Limit, _ = strconv.ParseInt(m[2], 10, 64)
		return
	}
	switch {
	case strings.Contains(msg, "failed to unmarshal"):
		r.Err = "unmarshal"
	case strings.Contains(msg, "unrecognized test case name") || strings.Contains(msg, "duplicate response"):
		r.Err = "name"
	case strings.Contains(msg, "timed out"):
		r.Err = "timeout"
	default:
		r.Err = "other"
	}
}

// VerifC11WireClientFrames returns the first k well-formed client responses (frames) for the names.
func VerifC11WireClientFrames(names []string, k int) []byte {
	var out []byte
	for i := 0; i < k && i < len(names); i++ {
		msg := &conformancev1.ClientCompatResponse{TestName: names[i], Result: &conformancev1.ClientCompatResponse_Response{
			Response: &conformancev1.ClientResponseResult{Payloads: []*conformancev1.ConformancePayload{{Data: []byte("data")}}},
		}}
		data, err := proto.MarshalOptions{Deterministic: true}.Marshal(msg)
		if err != nil {
			panic(err)
		}
		out = append(out, byte(len(data)>>24), byte(len(data)>>16), byte(len(data)>>8), byte(len(data)))
		out = append(out, data...)
	}
	return out
}

// VerifC11WireServerBody is the body of a well-formed server response without / with certificate.
func VerifC11WireServerBody(cert bool) []byte { return verifC11RespBytes(cert)[4:] }

// VerifC11WireDecodes is the decoding oracle of the generator (protobuf is outside the model): what
// proto.Unmarshal into a ServerCompatResponse says about body — "junk" (error), "plain", "cert".
func VerifC11WireDecodes(body []byte) string {
	var resp conformancev1.ServerCompatResponse
	if err := proto.Unmarshal(body, &resp); err != nil {
		return "junk"
	}
	if len(resp.PemCert) > 0 {
		return "cert"
	}
	return "plain"
}

func VerifC11WireLimits() (server, client int) { return maxServerResponseSize, maxClientResponseSize }

func VerifC11WireRun(spec VerifC11WireSpec) VerifC11WireObs {
	n := len(spec.Names)
	serverOut, err := hex.DecodeString(spec.ServerOut)
	if err != nil {
		panic(err)
	}
	clientOut, err := hex.DecodeString(spec.ClientOut)
	if err != nil {
		panic(err)
	}
	if spec.Client == "real" {
		want := VerifC11WireClientFrames(spec.Names, spec.ClientValid)
		if len(clientOut) < len(want) || string(clientOut[:len(want)]) != string(want) {
			panic("c11 wire: the client stream does not start with ClientValid well-formed responses")
		}
	}
	cases := make([]*conformancev1.TestCase, n)
	for i, name := range spec.Names {
		cases[i] = &conformancev1.TestCase{
			Request:          &conformancev1.ClientCompatRequest{TestName: name},
			ExpectedResponse: &conformancev1.ClientResponseResult{Payloads: []*conformancev1.ConformancePayload{{Data: []byte("data")}}},
		}
	}
	results := newResults(n, &testTrie{}, &testTrie{}, nil)

	// the server process
	var procMu sync.Mutex
	var serverProc *verifC11Proc
	var serverStream *verifC11WireStream
	starter := func(_ context.Context, _ bool) (*process, error) {
		p := &verifC11Proc{doneCh: make(chan struct{})}
		st := &verifC11WireStream{head: serverOut, fill: spec.ServerFill, chunk: spec.Chunk, dead: p.doneCh}
		procMu.Lock()
		serverProc, serverStream = p, st
		procMu.Unlock()
		return &process{processController: p, stdin: &verifC11Stdin{spec: &VerifC11Spec{Write: "ok", Close: "ok"}}, stdout: st,
			stderr: &verifC11Stderr{eof: make(chan struct{})}}, nil
	}

	// the client
	var client clientRunner
	var scripted *verifC11Client
	var realRunner *clientProcessRunner
	var clientStream *verifC11WireStream
	var clientStdin *verifC11WireStdin
	var clientProc *verifC11Proc
	var cbMu sync.Mutex
	cbMsgs := 0
	switch spec.Client {
	case "scripted":
		cspec := &VerifC11Spec{Names: spec.Names, Cases: make([]VerifC11Case, n), Dies: -1}
		for i := range cspec.Cases {
			cspec.Cases[i] = VerifC11Case{K: "pass"}
		}
		scripted = &verifC11Client{spec: cspec, cases: cases, proc: func() *verifC11Proc { return nil }}
		client = scripted
	case "real":
		clientProc = &verifC11Proc{doneCh: make(chan struct{})}
		clientStdin = &verifC11WireStdin{need: -1, want: n, full: make(chan struct{})}
		clientStream = &verifC11WireStream{head: clientOut, fill: spec.ClientFill, chunk: spec.Chunk, gate: clientStdin.full, dead: clientProc.doneCh}
		r, err := runClient(context.Background(), func(_ context.Context, _ bool) (*process, error) {
			return &process{processController: clientProc, stdin: clientStdin, stdout: clientStream, stderr: &verifC11Stderr{eof: make(chan struct{})}}, nil
		})
		if err != nil {
			panic(err)
		}
		realRunner = r.(*clientProcessRunner) //nolint:forcetypeassert
		client = &verifC11WireCount{inner: r, onMsg: func() { cbMu.Lock(); cbMsgs++; cbMu.Unlock() }}
	default:
		panic("c11 wire: unknown client kind " + spec.Client)
	}

	meta := serverInstance{protocol: conformancev1.Protocol_PROTOCOL_CONNECT, httpVersion: conformancev1.HTTPVersion_HTTP_VERSION_1, useTLS: spec.UseTLS}
	done := make(chan struct{})
	go func() {
		defer close(done)
		runTestCasesForServer(context.Background(), !spec.IsRef, spec.IsRef, meta, cases, nil, nil, starter,
			verifNopPrinter{}, verifNopPrinter{}, results, client, nil, false)
	}()
	var obs VerifC11WireObs
	obs.Outcomes = [][2]string{}
	select {
	case <-done:
	case <-time.After(15 * time.Second):
		obs.Hang = true
	}
	if clientProc != nil {
		clientProc.stop()
	}
	procMu.Lock()
	sp, ss := serverProc, serverStream
	procMu.Unlock()
	if obs.Hang {
		if sp != nil {
			sp.stop()
		}
		return obs
	}
	obs.Started = sp != nil
	if sp != nil {
		sp.mu.Lock()
		obs.Aborts = sp.aborts
		sp.mu.Unlock()
	}
	var readErr error
	readFailed := false
	results.mu.Lock()
	for name, o := range results.outcomes {
		obs.Outcomes = append(obs.Outcomes, [2]string{name, verifC11Class(o)})
		if o.actualFailure != nil && strings.HasPrefix(o.actualFailure.Error(), "error reading server response:") {
			readFailed, readErr = true, o.actualFailure
		}
	}
	results.mu.Unlock()
	sort.Slice(obs.Outcomes, func(i, j int) bool { return obs.Outcomes[i][0] < obs.Outcomes[j][0] })
	if ss != nil {
		ss.mu.Lock()
		obs.Srv = VerifC11WireRead{Used: true, Consumed: ss.consumed, MaxBuf: ss.maxBuf}
		ss.mu.Unlock()
		if readFailed {
			verifC11WireClassify(readErr, &obs.Srv)
		} else {
			obs.Srv.Msgs = 1
		}
	}
	switch {
	case scripted != nil:
		obs.Sent = scripted.calls
	case realRunner != nil:
		clientStdin.mu.Lock()
		obs.Sent = clientStdin.frames
		clientStdin.mu.Unlock()
		if obs.Sent > 0 {
			select {
			case <-realRunner.done:
			case <-time.After(10 * time.Second):
				obs.Hang = true
				return obs
			}
			clientStream.mu.Lock()
			obs.Cli = VerifC11WireRead{Used: true, Consumed: clientStream.consumed, MaxBuf: clientStream.maxBuf}
			clientStream.mu.Unlock()
			cbMu.Lock()
			obs.Cli.Msgs = cbMsgs
			cbMu.Unlock()
			if e := realRunner.err.Load(); e != nil && *e != nil {
				verifC11WireClassify(*e, &obs.Cli)
			} else {
				obs.Cli.Err = "eof"
			}
		}
	}
	return obs
}

// verifC11WireCount delegates to the real client runner and counts the callbacks that carry a response.
type verifC11WireCount struct {
	inner clientRunner
	onMsg func()
}

func (w *verifC11WireCount) sendRequest(req *conformancev1.ClientCompatRequest, whenDone func(string, *conformancev1.ClientCompatResponse, error)) error {
	return w.inner.sendRequest(req, func(name string, resp *conformancev1.ClientCompatResponse, err error) {
		if err == nil && resp != nil {
			w.onMsg()
		}
		whenDone(name, resp, err)
	})
}
func (w *verifC11WireCount) closeSend()              { w.inner.closeSend() }
func (w *verifC11WireCount) waitForResponses() error { return w.inner.waitForResponses() }
func (w *verifC11WireCount) isRunning() bool         { return w.inner.isRunning() }
func (w *verifC11WireCount) stop()                   { w.inner.stop() }
