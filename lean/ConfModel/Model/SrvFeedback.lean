/-
C04 — server mode: the callback of `runTestCasesForServer` (server_runner.go) for an answered
request, INCLUDING the branch that only exists when the client is the reference client:
```
switch {
case err != nil:               results.setOutcome(name, true, err)
case resp.GetError() != nil:   results.failed(name, resp.GetError())
case resp.GetResponse() != nil: results.assert(name, testCase, resp.GetResponse())
default:                       results.setOutcome(name, false, errors.New("… neither …"))
}
if isReferenceClient && resp.GetResponse() != nil {
    for _, msg := range resp.GetResponse().Feedback { results.recordSideband(resp.TestName, msg) }
}
```
composed with `results.report` (`ConfModel.Report`).  `isRefClient` is what `run()` passes as
`clientInfo.isReferenceImpl`: true for the in-process reference client (mode SERVER), false for a client
under test and for the gRPC reference client.  Core Lean only.
-/
import ConfModel.Model.Report
namespace ConfModel.SrvFeedback
open ConfModel.Report

/-- what the client answered -/
inductive Ans
  | pass | mismatch | error | neither
  deriving DecidableEq, Repr, Inhabited

/-- `resp.GetResponse() != nil` -/
def Ans.hasResponse : Ans → Bool
  | .pass => true
  | .mismatch => true
  | _ => false

def failOfAns : Ans → Fail
  | .pass => .none
  | .mismatch => .assertion
  | .error => .clientError
  | .neither => .other

/-- a `ClientCompatResponse` as far as the callback looks at it -/
structure Resp where
  name : String
  ans : Ans
  /-- `ClientResponseResult.feedback` -/
  feedback : List String
  deriving Repr, Inhabited

structure Results where
  os : Outcomes
  sb : Sideband
  deriving Repr

/-- the `for … range Feedback { recordSideband }` loop -/
def recordAll (sb : Sideband) (n : String) (msgs : List String) : Sideband :=
  msgs.foldl (fun sb m => recordSideband sb n m) sb

/-- the callback (err == nil) -/
def callback (mk : Marks) (isRefClient : Bool) (r : Results) (p : Resp) : Results :=
  { os := setOutcome mk r.os p.name false (failOfAns p.ans)
    sb := if isRefClient && p.ans.hasResponse then recordAll r.sb p.name p.feedback else r.sb }

/-- a feedback line of the reference SERVER for case `n`, as the batch runner's stderr reader records
it (client mode; `ConfModel.ServerRunner.processLines` is the reader) -/
def serverNote (r : Results) (n msg : String) : Results := { r with sb := recordSideband r.sb n msg }

/-- one batch whose every request was answered -/
def runBatch (mk : Marks) (isRefClient : Bool) (ps : List Resp) : Results :=
  ps.foldl (callback mk isRefClient) ⟨[], []⟩

/-- the report of a run that consisted of these answers -/
def srvReport (mk : Marks) (isRefClient : Bool) (ps : List Resp) : Report :=
  let r := runBatch mk isRefClient ps
  report mk ps.length r.os r.sb

end ConfModel.SrvFeedback
