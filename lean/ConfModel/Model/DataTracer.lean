/-
Model of `internal/tracer/reader.go` (`dataTracer`, `tracingReader`, `propertiesFromHeaders`),
of the body part of `tracingResponseWriter` (`middleware.go`) and of the message numbering done
by `builder.add` (`builder.go`).  Core Lean only.

`dataTracer` is modelled block-wise, branch by branch:

* `trace`        – `trace c fuel s data` (the `for` loop; fuel = `data.length + 1`, see `run`)
* `tracePrefixLocked` – the `expecting = 0` branch + `finishPrefix`
* `traceMessageLocked` – the other branch + `finishMsg`
* `emitUnfinished` – `unfinished`
* non-stream protocols only count bytes (`feed`).

`uint32`/`uint64` arithmetic: `expecting < 2^32` (four prefix bytes) and `actual < expecting`
(lemma `Inv`), so `d.expecting - uint32(d.actual)` never wraps and `Nat` subtraction is exact.

The decompressor is a parameter (`Cfg.dec`): the harness supplies, per case, the output of the
real decompressor of the negotiated encoding on each end-stream payload.

The model is of the code *after* the `fix:` commit for F09: the end-stream content is
decompressed iff the message's compressed flag (bit 0) is set.  `contentF09` is the decision
as it was before (always through the negotiated decompressor), kept for the witness theorem.
-/
namespace ConfModel.DataTracer

abbrev Bytes := List UInt8

structure Env where
  flags : UInt8
  len : Nat
deriving DecidableEq, Repr

/-- what `dataTracer` hands to `builder.add` -/
inductive Ev
  | data (env : Option Env) (len : Nat)
  | endStream (content : Bytes)
deriving DecidableEq, Repr

structure St where
  pfx : Bytes
  env : Option Env
  expecting : Nat
  actual : Nat
  eos : Option Bytes
deriving DecidableEq, Repr

def init : St := ⟨[], none, 0, 0, none⟩

/-- `binary.BigEndian.Uint32` -/
def be32 (b : Bytes) : Nat := b.foldl (fun acc x => acc * 256 + x.toNat) 0

structure Cfg where
  isRequest : Bool
  isStream : Bool
  /-- the negotiated encoding's decompressor: `none` = Reset/ReadFrom returned an error -/
  dec : Bytes → Option Bytes

def isEndFlag (f : UInt8) : Bool := (f &&& 0x82) != 0
def isCompressed (f : UInt8) : Bool := (f &&& 1) != 0

/-- content of an end-stream message (repaired code: decided by the compressed flag) -/
def content (c : Cfg) (flags : UInt8) (payload : Bytes) : Option Bytes :=
  if isCompressed flags then c.dec payload else some payload

/-- the decision before the F09 fix: `d.decompressor == nil` is never true -/
def contentF09 (c : Cfg) (_flags : UInt8) (payload : Bytes) : Option Bytes := c.dec payload

/-- end of `tracePrefixLocked`: the five prefix bytes `p` are complete -/
def finishPrefix (c : Cfg) (s : St) (p : Bytes) : St × List Ev :=
  let e : Env := ⟨p.headD 0, be32 (p.drop 1)⟩
  if e.len = 0 then ({ s with pfx := [], env := none, expecting := 0 }, [Ev.data (some e) 0])
  else
    let es : Option Bytes := if !c.isRequest && isEndFlag e.flags then some [] else s.eos
    (⟨[], some e, e.len, s.actual, es⟩, [])

/-- the events of a completed end-stream buffer -/
def eosEvents (c : Cfg) (flags : UInt8) (payload : Bytes) : List Ev :=
  match content c flags payload with
  | some x => if x.isEmpty then [] else [Ev.endStream x]
  | none => []

/-- end of `traceMessageLocked`: `chunk` is the final part of the payload -/
def finishMsg (c : Cfg) (s : St) (chunk : Bytes) : St × List Ev :=
  let evs := [Ev.data s.env s.expecting]
  let evs2 := match s.eos with
    | none => []
    | some buf => eosEvents c ((s.env.map (·.flags)).getD 0) (buf ++ chunk)
  ({ s with env := none, expecting := 0, actual := 0, eos := none }, evs ++ evs2)

/-- the loop of `dataTracer.trace` for stream protocols -/
def trace (c : Cfg) : Nat → St → Bytes → St × List Ev
  | 0, s, _ => (s, [])
  | fuel+1, s, data =>
    if data.isEmpty then (s, []) else
    if s.expecting = 0 then
      let need := 5 - s.pfx.length
      if data.length < need then ({ s with pfx := s.pfx ++ data }, [])
      else
        let (s1, e1) := finishPrefix c s (s.pfx ++ data.take need)
        let (s2, e2) := trace c fuel s1 (data.drop need)
        (s2, e1 ++ e2)
    else
      let need := s.expecting - s.actual
      if data.length < need then
        ({ s with actual := s.actual + data.length, eos := s.eos.map (· ++ data) }, [])
      else
        let (s1, e1) := finishMsg c s (data.take need)
        let (s2, e2) := trace c fuel s1 (data.drop need)
        (s2, e1 ++ e2)

def run (c : Cfg) (s : St) (d : Bytes) : St × List Ev := trace c (d.length + 1) s d

/-- `dataTracer.trace` -/
def feed (c : Cfg) (s : St) (d : Bytes) : St × List Ev :=
  if c.isStream then run c s d else ({ s with actual := s.actual + d.length }, [])

/-- `dataTracer.emitUnfinished` (events only; the state is reset to `init`) -/
def unfinished (s : St) : List Ev :=
  let n := if s.expecting = 0 ∧ s.pfx.length > 0 then s.pfx.length else s.actual
  if n > 0 then [Ev.data s.env n] else []

/-- successive `trace` calls -/
def feedAll (c : Cfg) : St → List Bytes → St × List Ev
  | s, [] => (s, [])
  | s, d :: ds =>
    let r1 := feed c s d
    let r2 := feedAll c r1.1 ds
    (r2.1, r1.2 ++ r2.2)

/-! ### `tracingReader` / `tracingResponseWriter`: operations of the wrapper's user -/

/-- class of the error recorded in `RequestBodyEnd`/`ResponseBodyEnd` -/
inductive EndErr
  | nil      -- io.EOF on Read, or the handler returned normally
  | inner    -- the inner reader's / writer's / Close's own error (possibly wrapped)
  | other    -- an error made by the wrapper ("closed before fully consumed", "panic: …")
deriving DecidableEq, Repr

/-- what reaches the builder -/
inductive Out
  | ev (e : Ev)
  | bodyEnd (err : EndErr)
deriving DecidableEq, Repr

/-- `data d`: a Read/Write that moved the bytes `d` (then `dataTracer.trace d`);
`fin e`: `tryFinish` (Read/Write returned an error, Close, or the handler's deferred call). -/
inductive Op
  | data (d : Bytes)
  | fin (err : EndErr)
deriving DecidableEq, Repr

structure WSt where
  dt : St
  closed : Bool
deriving DecidableEq, Repr

def winit : WSt := ⟨init, false⟩

def wstep (c : Cfg) (w : WSt) : Op → WSt × List Out
  | .data d => let r := feed c w.dt d; ({ w with dt := r.1 }, r.2.map Out.ev)
  | .fin e =>
    if w.closed then (w, [])
    else (⟨init, true⟩, (unfinished w.dt).map Out.ev ++ [Out.bodyEnd e])

def wrun (c : Cfg) : WSt → List Op → WSt × List Out
  | w, [] => (w, [])
  | w, o :: os =>
    let r1 := wstep c w o
    let r2 := wrun c r1.1 os
    (r2.1, r1.2 ++ r2.2)

/-! ### `builder.add`: numbering of the data events of one side -/

inductive NEv
  | data (env : Option Env) (len : Nat) (index : Nat)
  | endStream (content : Bytes)
  | bodyEnd (err : EndErr)
deriving DecidableEq, Repr

def number : Nat → List Out → List NEv
  | _, [] => []
  | k, Out.ev (Ev.data e n) :: t => NEv.data e n k :: number (k+1) t
  | k, Out.ev (Ev.endStream x) :: t => NEv.endStream x :: number k t
  | k, Out.bodyEnd e :: t => NEv.bodyEnd e :: number k t

/-- the body events of one side of a traced operation, as they appear in `Trace.Events` -/
def observe (c : Cfg) (ops : List Op) : List NEv := number 0 (wrun c winit ops).2

/-! ### `propertiesFromHeaders` -/

def lowerAscii (s : String) : String :=
  String.ofList (s.toList.map fun ch => if 'A' ≤ ch ∧ ch ≤ 'Z' then Char.ofNat (ch.toNat + 32) else ch)

/-- `(isStream, which header names the encoding)`: 0 = none (broken decompressor),
1 = `Connect-Content-Encoding`, 2 = `Grpc-Encoding` -/
def propsFromHeaders (contentType contentEncoding : String) : Bool × Nat :=
  let ct := lowerAscii contentType
  if contentEncoding != "" then (false, 0)
  else if ct.startsWith "application/connect" then (true, 1)
  else if ct.startsWith "application/grpc" then (true, 2)
  else (false, 0)

end ConfModel.DataTracer
