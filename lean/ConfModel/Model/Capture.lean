/-
Model of the capturing body reader of the reference client (`wireReader` in
`internal/app/referenceclient/wire_details.go`): every `Read` hands the caller what the
underlying body returned and appends the same bytes to the wrapper's buffer, which
`examineWireDetails` later examines as the body of a unary Connect error.
-/
namespace ConfModel.Capture

abbrev Bytes := List UInt8

structure St where
  /-- `wrapper.buf` -/
  buf : Bytes
  /-- what the caller (the connect client) has received so far -/
  delivered : Bytes
  deriving Repr, DecidableEq

/-- one `wireReader.Read` in which the body returned `chunk` -/
def read (st : St) (chunk : Bytes) : St :=
  { buf := st.buf ++ chunk, delivered := st.delivered ++ chunk }

/-- the body read to its end in the given chunks -/
def run (chunks : List Bytes) : St := chunks.foldl read { buf := [], delivered := [] }

/-- a reader that stops copying once the buffer holds `cap` bytes (counter-model of the witness
theorem) -/
def readCapped (cap : Nat) (st : St) (chunk : Bytes) : St :=
  { buf := st.buf ++ chunk.take (cap - st.buf.length), delivered := st.delivered ++ chunk }

def runCapped (cap : Nat) (chunks : List Bytes) : St := chunks.foldl (readCapped cap) { buf := [], delivered := [] }

end ConfModel.Capture
