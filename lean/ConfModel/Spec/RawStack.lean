/-
Declarative side of C17 for an exchange with the complete reference server: what the peer must
see when the response definition prescribes a raw response - judged on that definition alone,
whatever the process served before - and what it must see when it prescribes none.
`base` is what the stack in front of the raw responder (and, for a normal response, the handler)
sends on its own for the same request: the same exchange, definition without headers, as the first
exchange of another process.
-/
import ConfModel.Model.RawStack
import ConfModel.Spec.RawSeq
namespace ConfModel.RawStackSpec
open ConfModel.RawBody ConfModel.RawBodySpec ConfModel.RawMerge ConfModel.RawSeq ConfModel.RawSeqSpec ConfModel.RawStack

/-- headers `net/http` computes itself -/
def auto : List String := ["Content-Type", "Content-Length", "Date", "Transfer-Encoding", "Trailer", "Connection"]

def canonList (canon : String → String) (hs : List (String × List String)) : List (String × List String) :=
  hs.map fun p => (canon p.1, p.2)

def dedup : List String → List String
  | [] => []
  | x :: t => if t.contains x then dedup t else x :: dedup t

def namesOf (canon : String → String) (hs : List (String × List String)) : List String :=
  dedup (hs.map fun p => canon p.1)

/-- headers `net/http` refuses to send with a status (server.go `suppressedHeaders`: a 304 carries no
`Content-Type`; no response without a body carries `Content-Length` / `Transfer-Encoding`) - like
the body of such a response, nothing can be demanded of them -/
def suppressed (status : Nat) : List String :=
  if status == 304 then ["Content-Type", "Content-Length", "Transfer-Encoding"]
  else if bodyless status then ["Content-Length", "Transfer-Encoding"] else []

/-- every given header (that `net/http` sends with this status at all) with its values in order -
anything else under that name is the stack's own; no header that is neither given nor the stack's -/
def headersHold (canon : String → String) (given : List (String × List String)) (skip : List String) (hdrs base : Hdrs) : Bool :=
  let names := namesOf canon given
  (names.all fun k => skip.contains k || givenHonoured (get hdrs k) (listed (canonList canon given) k) (get base k))
  && hdrs.all fun h => names.contains h.1 || auto.contains h.1 || hasKey base h.1

/-- the prescribed raw response, and nothing else: status (200 if unset), every given header and
trailer, no foreign header, the body (a status that cannot have a body: a beginning of it) -/
def rawHolds (compress : Compress) (canon : String → String) (d : RawDef)
    (status : Nat) (hdrs base trls : Hdrs) (body : RawBody.Bytes) : Bool :=
  statusHonoured d.status [] status
  && headersHold canon d.headers (suppressed status) hdrs base
  && (bodyless status ||
      (namesOf canon d.trailers).all fun k => get trls k == listed (canonList canon d.trailers) k)
  && (if bodyless status then
        (match d.body with
         | .stream items => !(items.all (itemOk compress)) || body.isPrefixOf (streamBytes compress items)
         | .unary c => body.isPrefixOf ((payloadOf compress c).getD []))
      else stepBytesHold compress ⟨d.body, none⟩ body)

/-- no raw response prescribed: the handler's answer (status 200, its data, its response headers)
and no header of any other origin -/
def normalHolds (canon : String → String) (data : RawBody.Bytes) (respHdrs : List (String × List String))
    (status : Nat) (hdrs base : Hdrs) (decoded : Bool) (gotData : RawBody.Bytes) : Bool :=
  status == 200 && decoded && gotData == data
  && (namesOf canon respHdrs).all (fun k => givenHonoured (get hdrs k) (listed (canonList canon respHdrs) k) (get base k))
  && hdrs.all fun h => (namesOf canon respHdrs).contains h.1 || hasKey base h.1

end ConfModel.RawStackSpec
