/-
End-to-end (C15): the induction over the wire events and the passage from the invariant to
the property's predicate on everything delivered (`deliveredOK`).
-/
import ConfModel.Lemmas.H2E2ESim
set_option linter.unusedSimpArgs false
set_option linter.unusedVariables false
namespace ConfModel.H2

theorem good_of_run : ∀ (ws : List WEv) (acc : List Expect), Good (expects acc ws) → Good acc
  | [], _, h => h
  | w :: ws, acc, h => by
    rw [expects_cons] at h
    exact good_of_step acc w (good_of_run ws _ h)

theorem noOpen_of_all : ∀ (ws : List WEv), ws.all (fun w => !w.isReqHeaders) = true → noOpenAfterGoaway ws = true
  | [], _ => rfl
  | w :: ws, h => by
    simp only [List.all_cons, Bool.and_eq_true] at h
    have ih := noOpen_of_all ws h.2
    cases w with
    | lost err => exact ih
    | timers => exact ih
    | frame r f =>
      cases f with
      | goaway l c => exact h.2
      | headers id fields es => exact ih
      | data id p es => exact ih
      | rst id c => exact ih
      | other => exact ih

theorem noOpen_tail (w : WEv) (ws : List WEv) (h : noOpenAfterGoaway (w :: ws) = true) : noOpenAfterGoaway ws = true := by
  cases w with
  | lost err => exact h
  | timers => exact h
  | frame r f =>
    cases f with
    | goaway l c => exact noOpen_of_all ws h
    | headers id fields es => exact h
    | data id p es => exact h
    | rst id c => exact h
    | other => exact h

theorem Inv.weaken_g {isServer : Bool} {acc : List Expect} {s : L2 × Coll} (h : Inv isServer false acc s) (g : Bool) :
    Inv isServer g acc s :=
  ⟨h.accOK, h.tok, h.wok, h.srv, fun _ => h.max rfl, h.tblOpen, h.tblOnly, h.names, h.unnamed⟩

/-- one wire event of well-formed traffic keeps the invariant -/
theorem step_inv {isServer g : Bool} {acc : List Expect} {s : L2 × Coll} (h : Inv isServer g acc s) (w : WEv)
    (hg : g = true → w.isReqHeaders = false) (hl : w.lossOK = true) (hgood : Good (expects acc [w])) :
    ∃ g', Inv isServer g' (expects acc [w]) (wstep s w) ∧
      (g' = true → g = true ∨ ∃ r l c, w = .frame r (.goaway l c)) := by
  cases w with
  | timers =>
    rw [expects_one_plain acc .timers rfl]
    exact ⟨g, step_timers h, Or.inl⟩
  | lost err =>
    rw [expects_one_plain acc (.lost err) rfl]
    exact ⟨g, step_lost h err hl, Or.inl⟩
  | frame r f =>
    -- frames that carry a stream id
    have hsid : ∀ id, frameSid f = some id → ∃ g', Inv isServer g' (expects acc [.frame r f]) (wstep s (.frame r f)) ∧
        (g' = true → g = true ∨ ∃ r' l c, WEv.frame r f = .frame r' (.goaway l c)) := by
      intro id hs
      by_cases hex : ∃ x ∈ acc, x.id = id ∧ x.isOpen = true
      · obtain ⟨x, hx, hxid, hxo⟩ := hex
        subst hxid
        have hno : opensStream acc (.frame r f) = false := by
          cases f with
          | headers j fields es =>
            cases r with
            | false => rfl
            | true =>
              have : j = x.id := by simpa [frameSid] using hs
              subst this
              simp only [opensStream, Bool.not_eq_false']
              exact List.any_eq_true.mpr ⟨x, hx, by simp [hxo]⟩
          | data j p es => cases r <;> rfl
          | rst j c => cases r <;> rfl
          | goaway l c => cases r <;> rfl
          | other => cases r <;> rfl
        rw [expects_one_plain acc _ hno] at hgood ⊢
        exact ⟨g, step_sid_open h r f x hx hxo hs hgood, Or.inl⟩
      · have hno : ∀ e ∈ acc, e.id = id → e.isOpen = false := by
          intro e he hid
          cases ho : e.isOpen with
          | false => rfl
          | true => exact absurd ⟨e, he, hid, ho⟩ hex
        by_cases hnew : ∃ fields es, r = true ∧ f = .headers id fields es
        · obtain ⟨fields, es, hr, hf⟩ := hnew
          subst hr hf
          have hgf : g = false := by
            cases g with
            | false => rfl
            | true => have := hg rfl; simp [WEv.isReqHeaders] at this
          have hany : acc.any (fun e => e.id == id && e.isOpen) = false := by
            cases ha : acc.any (fun e => e.id == id && e.isOpen) with
            | false => rfl
            | true =>
              obtain ⟨e, he, hp⟩ := List.any_eq_true.mp ha
              simp only [Bool.and_eq_true, beq_iff_eq] at hp
              rw [hno e he hp.1] at hp; cases hp.2
          exact ⟨g, step_new h hgf id fields es hany hgood, Or.inl⟩
        · have hno' : opensStream acc (.frame r f) = false := by
            cases f with
            | headers j fields es =>
              cases r with
              | false => rfl
              | true =>
                have : j = id := by simpa [frameSid] using hs
                subst this
                exact absurd ⟨fields, es, rfl, rfl⟩ hnew
            | data j p es => cases r <;> rfl
            | rst j c => cases r <;> rfl
            | goaway l c => cases r <;> rfl
            | other => cases r <;> rfl
          rw [expects_one_plain acc _ hno']
          exact ⟨g, step_sid_none h r f id hs hno (fun fields es hc => hnew ⟨fields, es, hc.1, hc.2⟩), Or.inl⟩
    cases f with
    | other =>
      rw [expects_one_plain acc _ (by cases r <;> rfl)]
      exact ⟨g, step_other h r, Or.inl⟩
    | goaway l c =>
      rw [expects_one_plain acc _ (by cases r <;> rfl)]
      exact ⟨true, step_goaway h r l c, fun _ => Or.inr ⟨r, l, c, rfl⟩⟩
    | headers id fields es => exact hsid id rfl
    | data id p es => exact hsid id rfl
    | rst id c => exact hsid id rfl

/-- **The simulation**: along well-formed traffic the invariant holds after every event. -/
theorem run_inv {isServer : Bool} : ∀ (ws : List WEv) (g : Bool) (acc : List Expect) (s : L2 × Coll), Inv isServer g acc s →
    (g = true → ws.all (fun w => !w.isReqHeaders) = true) → noOpenAfterGoaway ws = true → lossesOK ws = true →
    Good (expects acc ws) → ∃ g', Inv isServer g' (expects acc ws) (runW s ws)
  | [], g, acc, s, h, _, _, _, _ => ⟨g, h⟩
  | w :: ws, g, acc, s, h, hg, hno, hl, hgood => by
    rw [expects_cons] at hgood ⊢
    have hgood1 := good_of_run ws _ hgood
    simp only [lossesOK, List.all_cons, Bool.and_eq_true] at hl
    obtain ⟨g', hinv, hgo⟩ := step_inv h w
      (fun hgt => by
        have := hg hgt
        simp only [List.all_cons, Bool.and_eq_true, Bool.not_eq_true'] at this
        exact this.1) hl.1 hgood1
    have hrun : runW s (w :: ws) = runW (wstep s w) ws := rfl
    rw [hrun]
    refine run_inv ws g' _ _ hinv (fun hg't => ?_) (noOpen_tail w ws hno) hl.2 hgood
    rcases hgo hg't with hgt | ⟨r, l, c, hw⟩
    · have := hg hgt
      simp only [List.all_cons, Bool.and_eq_true] at this
      exact this.2
    · subst hw
      exact hno

/-! ### start and end -/

def l2Init (isServer : Bool) : L2 := { isServer := isServer, streams := [], maxId := 0 }

theorem inv_init (isServer : Bool) : Inv isServer false [] (l2Init isServer, Coll.init) := by
  refine Inv.intro _ _ ⟨by simp, by simp, by simp⟩ (by simp [l2Init, TOK]) (by simp [Coll.init, WOK]) rfl (fun _ => rfl)
    (by simp) (by simp [l2Init, tGet]) (fun n _ => ?_) ⟨rfl, rfl⟩
  refine ⟨by simp, fun _ => ⟨rfl, rfl⟩⟩

theorem filter_unique {α : Type} (p : α → Bool) : ∀ (l : List α), (∀ a ∈ l, ∀ b ∈ l, p a = true → p b = true → a = b) → l.Nodup →
    l.filter p = [] ∨ ∃ a, l.filter p = [a]
  | [], _, _ => Or.inl rfl
  | x :: l, hu, hn => by
    simp only [List.nodup_cons] at hn
    have ih := filter_unique p l (fun a ha b hb => hu a (List.mem_cons_of_mem _ ha) b (List.mem_cons_of_mem _ hb)) hn.2
    cases hp : p x with
    | false => simpa [List.filter, hp] using ih
    | true =>
      right
      refine ⟨x, ?_⟩
      simp only [List.filter, hp]
      congr 1
      apply List.filter_eq_nil_iff.mpr
      intro a ha hpa
      have := hu x (by simp) a (List.mem_cons_of_mem _ ha) hp hpa
      rw [← this] at ha
      exact hn.1 ha

theorem nodup_of_map_id : ∀ (l : List Expect), (l.map (·.id)).Nodup → l.Nodup
  | [], _ => List.nodup_nil
  | x :: l, h => by
    simp only [List.map_cons, List.nodup_cons] at h ⊢
    exact ⟨fun hx => h.1 (List.mem_map_of_mem hx), nodup_of_map_id l h.2⟩

theorem obs_name (t : Trace) : t.obs.name = t.name := rfl

/-- **From the invariant to the property's predicate**: what the downstream collector has
received is, test name by test name, exactly the promised traces of the streams that are due. -/
theorem deliveredOK_of_inv {isServer g : Bool} {es : List Expect} {s : L2 × Coll} (h : Inv isServer g es s) :
    deliveredOK isServer es (s.2.out.map Trace.obs) = true := by
  have hgot : ∀ n, (s.2.out.map Trace.obs).filter (fun o => o.name == n) = (s.2.outFor n).map Trace.obs := by
    intro n
    rw [List.filter_map]
    rfl
  unfold deliveredOK
  rw [Bool.and_eq_true]
  constructor
  · rw [List.all_eq_true]
    intro o ho
    obtain ⟨t, ht, rfl⟩ := List.mem_map.mp ho
    rw [obs_name]
    have hmem : t ∈ s.2.outFor t.name := by simp [Coll.outFor, ht]
    by_cases hn : t.name = ""
    · rw [hn, h.unnamed.2] at hmem; cases hmem
    · simp only [Bool.and_eq_true, bne_iff_ne, ne_eq, hn, not_false_eq_true, true_and]
      rw [List.any_eq_true]
      by_cases hex : ∃ e ∈ es, e.name = t.name
      · obtain ⟨e, he, hen⟩ := hex
        exact ⟨e, he, by simp [hen]⟩
      · have := (h.names t.name hn).2 (fun e he hen => absurd ⟨e, he, hen⟩ hex)
        rw [this.2] at hmem; cases hmem
  · rw [List.all_eq_true]
    intro e he
    by_cases hn : e.name = ""
    · simp [hn]
    · have hbn : (e.name == "") = false := by simp [hn]
      simp only [hbn, Bool.false_or, Bool.and_eq_true, beq_iff_eq]
      rw [hgot e.name]
      have hN := h.names e.name hn
      have huniq : ∀ a ∈ es, ∀ b ∈ es, (a.name == e.name && a.due) = true → (b.name == e.name && b.due) = true → a = b := by
        intro a ha b hb pa pb
        simp only [Bool.and_eq_true, beq_iff_eq, Expect.due, Bool.not_eq_true'] at pa pb
        exact eq_of_id es h.accOK.nodup a ha b hb
          (h.accOK.uniq a ha b hb (pa.1.trans pb.1.symm) (by rw [pa.1]; exact hn) pa.2.2 pb.2.2)
      rcases filter_unique (fun x => x.name == e.name && x.due) es huniq (nodup_of_map_id es h.accOK.nodup) with hf | ⟨a, hf⟩
      · rw [hf]
        have hO : s.2.outFor e.name = [] := by
          by_cases hex : ∃ x ∈ es, x.name = e.name ∧ x.superseded = false
          · obtain ⟨x, hx, hxn, hxs⟩ := hex
            have hnd : (x.name == e.name && x.due) = false := by
              cases hq : (x.name == e.name && x.due) with
              | false => rfl
              | true =>
                have : x ∈ es.filter (fun x => x.name == e.name && x.due) := List.mem_filter.mpr ⟨hx, hq⟩
                rw [hf] at this; cases this
            have hx1 := hN.1 x hx hxn hxs
            cases ho : x.isOpen with
            | true => exact (hx1.1 ho).2
            | false =>
              cases hh : x.held with
              | true => obtain ⟨t, _, b, _⟩ := hx1.2.1 ho hh; exact b
              | false => simp [hxn, Expect.due, ho, hh, hxs] at hnd
          · exact (hN.2 (fun x hx hxn => by
              cases hs : x.superseded with
              | true => rfl
              | false => exact absurd ⟨x, hx, hxn, hs⟩ hex)).2
        rw [hO]; simp
      · rw [hf]
        have ha : a ∈ es.filter (fun x => x.name == e.name && x.due) := by rw [hf]; simp
        obtain ⟨hae, hap⟩ := List.mem_filter.mp ha
        simp only [Bool.and_eq_true, beq_iff_eq, Expect.due, Bool.not_eq_true'] at hap
        obtain ⟨_, t, hO, hT⟩ := (hN.1 a hae hap.1 hap.2.2).2.2 hap.2.1.1 hap.2.1.2
        rw [hO]
        simp [hT.2.2]

/-- a stream that is due has exactly one delivered trace under its name, the promised one -/
theorem due_has_trace {isServer g : Bool} {es : List Expect} {s : L2 × Coll} (h : Inv isServer g es s) (e : Expect) (he : e ∈ es)
    (hn : e.name ≠ "") (hd : e.due = true) :
    ∃ t, s.2.outFor e.name = [t] ∧ traceOK isServer e t.obs = true := by
  simp only [Expect.due, Bool.and_eq_true, Bool.not_eq_true'] at hd
  obtain ⟨_, t, hO, hT⟩ := ((h.names e.name hn).1 e he rfl hd.2).2.2 hd.1.1 hd.1.2
  exact ⟨t, hO, hT.2.2⟩

/-- as long as no stream of a name is due, nothing is delivered under that name (open, held
back for a retry, or superseded by a retry that has not finished) -/
theorem not_due_nothing {isServer g : Bool} {es : List Expect} {s : L2 × Coll} (h : Inv isServer g es s) (n : String) (hn : n ≠ "")
    (hnd : ∀ e ∈ es, e.name = n → e.due = false) : s.2.outFor n = [] := by
  by_cases hex : ∃ x ∈ es, x.name = n ∧ x.superseded = false
  · obtain ⟨x, hx, hxn, hxs⟩ := hex
    have hx1 := (h.names n hn).1 x hx hxn hxs
    have hd := hnd x hx hxn
    cases ho : x.isOpen with
    | true => exact (hx1.1 ho).2
    | false =>
      cases hh : x.held with
      | true => obtain ⟨t, _, b, _⟩ := hx1.2.1 ho hh; exact b
      | false => simp [Expect.due, ho, hh, hxs] at hd
  · exact ((h.names n hn).2 (fun x hx hxn => by
      cases hs : x.superseded with
      | true => rfl
      | false => exact absurd ⟨x, hx, hxn, hs⟩ hex)).2

theorem wellFormed_parts (ws : List WEv) (h : wellFormed ws = true) :
    Good (expects [] ws) ∧ noOpenAfterGoaway ws = true := by
  simp only [wellFormed, Bool.and_eq_true, List.all_eq_true, Bool.not_eq_true'] at h
  exact ⟨⟨h.1.1, (nodupNat_iff _).mp h.1.2⟩, h.2⟩

/-- the invariant at the end of any well-formed run -/
theorem wf_inv (isServer : Bool) (ws : List WEv) (hwf : wellFormed ws = true) (hl : lossesOK ws = true) :
    ∃ g, Inv isServer g (expects [] ws) (runW (l2Init isServer, Coll.init) ws) := by
  obtain ⟨hg, hno⟩ := wellFormed_parts ws hwf
  exact run_inv ws false [] _ (inv_init isServer) (fun hx => by cases hx) hno hl hg

end ConfModel.H2
