/-
C14 — bodies that are too large to write down.

A call's bytes are described by a *segment*: literal bytes, or `n` filler bytes (zeros).  The
harness feeds the real tracer a body of 4 GiB and more by handing it the same zeroed buffer
again and again; the driver runs `feedSeg`, which does the same as `feed` on the segment's bytes
(`Props.C14.seg_feed_eq_bytes`) but handles a filler arithmetically wherever the code under
test only looks at `len(data)`:

* a protocol that is not an envelope stream — `d.actual += uint64(len(data))`;
* inside the payload of a message whose content is not captured (`d.endStream == nil`) —
  `d.actual += uint64(len(data))` while the message is incomplete, `finishMsg` when it completes
  (the completing bytes are only *written to `endStream`*, which is nil here).

Everywhere else (inside a prefix, inside a captured end-stream payload, after the message that
a filler completes) the filler is materialised; the generator keeps those parts small.
Core Lean only.
-/
import ConfModel.Model.DataTracer
namespace ConfModel.DataTracer

/-- the bytes of one Read / Write call, described without writing them down -/
inductive Seg
  | lit (b : Bytes)
  | fill (n : Nat)
deriving DecidableEq, Repr

def Seg.bytes : Seg → Bytes
  | .lit b => b
  | .fill n => List.replicate n 0

def Seg.length : Seg → Nat
  | .lit b => b.length
  | .fill n => n

/-- `dataTracer.trace` on the bytes of a segment -/
def feedSeg (c : Cfg) (s : St) : Seg → St × List Ev
  | .lit b => feed c s b
  | .fill n =>
    if !c.isStream then ({ s with actual := s.actual + n }, [])
    else if s.expecting ≠ 0 ∧ s.eos = none then
      if n < s.expecting - s.actual then ({ s with actual := s.actual + n }, [])
      else
        let r1 := finishMsg c s []
        let r2 := run c r1.1 (List.replicate (n - (s.expecting - s.actual)) 0)
        (r2.1, r1.2 ++ r2.2)
    else run c s (List.replicate n 0)

/-- the wrapper's operations with segments for bytes -/
inductive SOp
  | seg (g : Seg)
  | fin (err : EndErr)
deriving DecidableEq, Repr

def SOp.toOp : SOp → Op
  | .seg g => .data g.bytes
  | .fin e => .fin e

def wstepS (c : Cfg) (w : WSt) : SOp → WSt × List Out
  | .seg g => let r := feedSeg c w.dt g; ({ w with dt := r.1 }, r.2.map Out.ev)
  | .fin e =>
    if w.closed then (w, [])
    else (⟨init, true⟩, (unfinished w.dt).map Out.ev ++ [Out.bodyEnd e])

def wrunS (c : Cfg) : WSt → List SOp → WSt × List Out
  | w, [] => (w, [])
  | w, o :: os =>
    let r1 := wstepS c w o
    let r2 := wrunS c r1.1 os
    (r2.1, r1.2 ++ r2.2)

/-- the body events of one side, as they appear in `Trace.Events` -/
def observeS (c : Cfg) (ops : List SOp) : List NEv := number 0 (wrunS c winit ops).2

/-- total number of bytes of the segments among the operations -/
def segTotal : List SOp → Nat
  | [] => 0
  | .seg g :: t => g.length + segTotal t
  | .fin _ :: t => segTotal t

end ConfModel.DataTracer
