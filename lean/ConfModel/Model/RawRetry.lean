/-
C17, every attempt.  `rawRequestSender.RoundTrip` hands a substitute `*http.Request` to the
transport.  What can reach the wire as the body of that request - on the first attempt and on
every further attempt the transport decides to make - is determined by three of its fields:

* `Body`     - read for the first attempt: the pipe the raw body is written to;
* `GetBody`  - `nil`, or the function the transport calls to obtain the body of a re-attempt
               (`net/http`: `rewindBody`; `x/net/http2`: `shouldRetryRequest`);
* `ContentLength` - 0 unless the definition lists a `Content-Length` header (how the body is
               framed; not a source of bytes).

The transport's decision to re-attempt is a modelled law (`canReplay`), compared with the real
transports by the correspondence run (peers that drop a reused connection / refuse a stream).
-/
namespace ConfModel.RawRetry

abbrev Bytes := List UInt8

/-- the substitute request, as far as body bytes are concerned -/
structure SubReq where
  body : Bytes
  getBody : Option Bytes
  contentLength : Nat
deriving DecidableEq, Repr

/-- the request the client library built itself (the one to be replaced) -/
structure Orig where
  body : Bytes
  canRewind : Bool   -- `GetBody != nil` (connect-go sets it for unary calls)
deriving DecidableEq, Repr

/-- how the substitute request is made -/
inductive Ctor where
  | fresh   -- `http.NewRequestWithContext(ctx, verb, url, pipeReader)`
  | clone   -- `orig.Clone(ctx)` with the raw fields written over it
deriving DecidableEq, Repr

/-- `http.NewRequestWithContext` sets `GetBody` only for `*bytes.Buffer`, `*bytes.Reader` and
`*strings.Reader` bodies: a pipe gets none.  A clone keeps the original's. -/
def substitute (c : Ctor) (rawBody : Bytes) (clen : Nat) (o : Orig) : SubReq :=
  match c with
  | .fresh => ⟨rawBody, none, clen⟩
  | .clone => ⟨rawBody, if o.canRewind then some o.body else none, clen⟩

/-- `RoundTrip` as it is -/
def roundTripReq (rawBody : Bytes) (clen : Nat) (o : Orig) : SubReq := substitute .fresh rawBody clen o

structure Env where
  h2 : Bool
  verbIdempotent : Bool   -- GET, HEAD, OPTIONS, TRACE
  idemKey : Bool          -- an `Idempotency-Key` / `X-Idempotency-Key` header is listed
deriving DecidableEq, Repr

/-- May the transport re-send a request whose body it had already sent, after the peer dropped the
reused connection (HTTP/1.1) or refused the stream (HTTP/2)?  `net/http`: `isReplayable` (a body
needs `GetBody`; an idempotent verb or an idempotency key) and `rewindBody` (needs `GetBody`);
`x/net/http2`: `GetBody != nil`. -/
def canReplay (e : Env) (r : SubReq) : Bool :=
  r.getBody.isSome && (e.h2 || e.verbIdempotent || e.idemKey)

def later (b : Bytes) : Nat → List Bytes
  | 0 => []
  | n + 1 => b :: later b n

/-- the bodies put on the wire, one per attempt, when the peer refuses the first `faults` attempts
after having read them -/
def wire (e : Env) (r : SubReq) (faults : Nat) : List Bytes :=
  r.body :: (if canReplay e r then later (r.getBody.getD []) faults else [])

end ConfModel.RawRetry
