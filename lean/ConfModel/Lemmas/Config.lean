/-
Helper lemmas for property C06: membership in the nested loops of computeCasesFromFeatures,
one lemma per guard; resolveCase and the include/exclude folds.
-/
import ConfModel.Model.Config
import ConfModel.Spec.Config
namespace ConfModel.Config

theorem mem_orDefault (given : List Bool) (sup b : Bool) :
    b ∈ orDefault given sup ↔ (if given = [] then FlagAllowed sup b else b ∈ given) := by
  unfold orDefault FlagAllowed
  cases given with
  | nil => cases sup <;> cases b <;> simp
  | cons a t => simp

/-- membership in the loops of `computeCasesFromFeatures` without the loops -/
theorem mem_computeCases (f : Sup) (tl ce li : List Bool) (k : Case) :
    k ∈ computeCases f tl ce li ↔
      k.v ∈ f.versions ∧ k.p ∈ f.protocols ∧ k.c ∈ f.codecs ∧ k.z ∈ f.comps ∧ k.s ∈ f.sts ∧
      k.tls ∈ orDefault tl f.tls ∧ k.certs ∈ orDefault ce f.certs ∧
      k.limit ∈ orDefault li f.limit ∧ k.cvm = .unspec ∧ Possible f k := by
  obtain ⟨v, p, c, z, s, t, cc, g, l, m⟩ := k
  simp only [computeCases, List.mem_flatMap, Possible]
  constructor
  · rintro ⟨v', hv, t', ht, h⟩
    split at h
    · simp at h
    rename_i c1
    simp only [List.mem_flatMap] at h
    obtain ⟨cc', hcc, h⟩ := h
    split at h
    · simp at h
    rename_i c2
    simp only [List.mem_flatMap] at h
    obtain ⟨p', hp, h⟩ := h
    split at h
    · simp at h
    rename_i c3
    simp only [List.mem_flatMap] at h
    obtain ⟨s', hs, h⟩ := h
    split at h
    · simp at h
    rename_i c4
    simp only [List.mem_flatMap] at h
    obtain ⟨c', hc, h⟩ := h
    split at h
    · simp at h
    rename_i c5
    simp only [List.mem_flatMap, List.mem_map] at h
    obtain ⟨z', hz, g', hg, l', hl, heq⟩ := h
    simp only [Case.mk.injEq] at heq
    obtain ⟨rfl, rfl, rfl, rfl, rfl, rfl, rfl, rfl, rfl, rfl⟩ := heq
    refine ⟨hv, hp, hc, hz, hs, ht, hcc, hl, rfl, ?_, ?_, ?_, ?_, ?_, ?_, ?_, ?_⟩
    · intro hp'; subst hp'; cases v' <;> simp_all
    · intro hv'; subst hv'; cases t' <;> simp_all
    · intro hv' ht'; subst hv'; subst ht'; simp_all
    · intro hc'; subst hc'; cases t' <;> simp_all
    · intro hs'; subst hs'; cases v' <;> simp_all
    · intro hs' hv'; subst hs'; subst hv'; simp_all
    · intro hg'; subst hg'; split at hg <;> simp_all
    · intro hc'; subst hc'; simp_all
  · rintro ⟨hv, hp, hc, hz, hs, ht, hcc, hl, hm, h1, h2, h3, h4, h5, h6, h7, h8⟩
    subst hm
    refine ⟨v, hv, t, ht, ?_⟩
    rw [if_neg]
    · simp only [List.mem_flatMap]
      refine ⟨cc, hcc, ?_⟩
      rw [if_neg]
      · simp only [List.mem_flatMap]
        refine ⟨p, hp, ?_⟩
        rw [if_neg]
        · simp only [List.mem_flatMap]
          refine ⟨s, hs, ?_⟩
          rw [if_neg]
          · simp only [List.mem_flatMap]
            refine ⟨c, hc, ?_⟩
            rw [if_neg h8]
            simp only [List.mem_flatMap, List.mem_map]
            refine ⟨z, hz, g, ?_, l, hl, rfl⟩
            cases g
            · split <;> simp
            · obtain ⟨a, b⟩ := h7 rfl
              simp [a, b]
          · rintro (⟨a, b, c'⟩ | ⟨a, b⟩)
            · have := h6 a c'; simp_all
            · exact h5 a b
        · rintro ⟨a, b⟩; exact b (h1 a)
      · rintro ⟨a, b⟩; have := h4 a; simp_all
    · rintro ⟨a, b | ⟨b, c'⟩⟩
      · have := h2 b; simp_all
      · have := h3 b a; simp_all

theorem possible_implied (f : Sup) (e : Entry) (k : Case) : Possible (implied f e) k ↔ Possible f k :=
  Iff.rfl

theorem mem_axis {α} [DecidableEq α] (zero : α) (l : List α) (g x : α) :
    x ∈ (if g = zero then l else [g]) ↔ AxisOk zero l g x := by
  unfold AxisOk; split <;> simp

theorem mem_flag (sup : Bool) (g : Option Bool) (b : Bool) :
    b ∈ orDefault (optList g) sup ↔ FlagOk sup g b := by
  rw [mem_orDefault]
  cases g <;> simp [optList, FlagOk]

/-- the cases computed for an entry are exactly the cases it matches -/
theorem mem_entryCases (f : Sup) (e : Entry) (k : Case) :
    k ∈ computeCases (implied f e) (optList e.tls) (optList e.certs) (optList e.limit) ↔ Matches f e k := by
  rw [mem_computeCases, possible_implied]
  unfold Matches
  simp only [implied, mem_axis, mem_flag]

theorem resolveCase_ok (f : Sup) (e : Entry) (cs : List Case) (h : resolveCase f e = .ok cs) :
    cs = computeCases (implied f e) (optList e.tls) (optList e.certs) (optList e.limit) := by
  unfold resolveCase at h
  repeat' split at h
  all_goals first | (injection h with h; exact h.symm) | (exact absurd h (by simp))

theorem mem_resolveCase (f : Sup) (e : Entry) (cs : List Case) (h : resolveCase f e = .ok cs) (k : Case) :
    k ∈ cs ↔ Matches f e k := by
  rw [resolveCase_ok f e cs h]; exact mem_entryCases f e k

theorem mem_features (f : Sup) (k : Case) : k ∈ computeCases f [] [] [] ↔ InFeatures f k := by
  rw [mem_computeCases]
  unfold InFeatures
  simp only [mem_orDefault, if_true]

theorem mem_addIncludes (f : Sup) (es : List Entry) : ∀ (i : Nat) (acc r : List Case),
    addIncludes f i es acc = .ok r → ∀ k, k ∈ r ↔ (k ∈ acc ∨ ∃ e ∈ es, Matches f e k) := by
  induction es with
  | nil => intro i acc r h k; simp [addIncludes] at h; subst h; simp
  | cons e es ih =>
    intro i acc r h k
    unfold addIncludes at h
    split at h
    · exact absurd h (by simp)
    · rename_i cs hcs
      rw [ih _ _ _ h k, List.mem_append, mem_resolveCase f e cs hcs]
      simp only [List.mem_cons, exists_eq_or_imp]
      constructor
      · rintro ((a | a) | a)
        · exact Or.inr (Or.inl a)
        · exact Or.inl a
        · exact Or.inr (Or.inr a)
      · rintro (a | a | a)
        · exact Or.inl (Or.inr a)
        · exact Or.inl (Or.inl a)
        · exact Or.inr a

theorem mem_removeExcludes (f : Sup) (es : List Entry) : ∀ (i : Nat) (acc r : List Case),
    removeExcludes f i es acc = .ok r → ∀ k, k ∈ r ↔ (k ∈ acc ∧ ¬ ∃ e ∈ es, Matches f e k) := by
  induction es with
  | nil => intro i acc r h k; simp [removeExcludes] at h; subst h; simp
  | cons e es ih =>
    intro i acc r h k
    unfold removeExcludes at h
    split at h
    · exact absurd h (by simp)
    · rename_i cs hcs
      rw [ih _ _ _ h k, List.mem_filter]
      simp only [List.mem_cons, exists_eq_or_imp, Bool.not_eq_true', List.contains_eq_mem,
        decide_eq_false_iff_not, mem_resolveCase f e cs hcs, not_or]
      constructor
      · rintro ⟨⟨a, b⟩, c⟩; exact ⟨a, b, c⟩
      · rintro ⟨a, b, c⟩; exact ⟨⟨a, b⟩, c⟩

/-! ### resolveFeatures -/

theorem versions1_ne_nil (fs : Features) : versions1 fs ≠ [] := by
  unfold versions1
  split
  · split <;> simp
  · rename_i h; intro h2; rw [h2] at h; simp at h

theorem versions2_eq (fs : Features) : versions2 fs = versions1 fs := by
  unfold versions2
  have := versions1_ne_nil fs
  cases h : versions1 fs with
  | nil => exact absurd h this
  | cons a t => simp

theorem versions1_eq (fs : Features) : versions1 fs = (defaults fs).versions := by
  unfold versions1 defaults flagTls flagH2c
  cases fs.versions <;> simp

theorem includesHTTP2_eq (fs : Features) : includesHTTP2 fs = decide (Ver.v2 ∈ (defaults fs).versions) := by
  unfold includesHTTP2
  have := versions1_ne_nil fs
  rw [← versions1_eq]
  cases h : versions1 fs with
  | nil => exact absurd h this
  | cons a t => simp

theorem includesHTTP3_eq (fs : Features) : includesHTTP3 fs = decide (Ver.v3 ∈ (defaults fs).versions) := by
  unfold includesHTTP3
  rw [← versions1_eq]; simp

theorem resolved_eq_defaults (fs : Features) : resolved fs = defaults fs := by
  have h1 := versions1_eq fs
  have h2 := includesHTTP2_eq fs
  have h3 := includesHTTP3_eq fs
  unfold resolved
  rw [versions2_eq, h1]
  unfold protocolsR codecsR compsR stsR onlyHTTP1
  rw [h2, h3]
  unfold defaults flagTls flagH2c flagCerts flagTrailers flagHalfH1 flagGet flagLimit
  simp only [Sup.mk.injEq, true_and, and_true]
  refine ⟨?_, ?_, ?_, ?_⟩
  · cases fs.protocols <;> simp
  · cases fs.codecs <;> simp
  · cases fs.comps <;> simp
  · cases fs.sts with
    | cons a t => simp
    | nil =>
      simp only [↓reduceIte, List.isEmpty_nil]
      split <;> split <;> simp_all

theorem defaulted_defaults (fs : Features) : Defaulted fs (defaults fs) := by
  unfold Defaulted defaults
  simp only [true_and]
  refine ⟨?_, ?_, ?_, ?_, ?_, ?_, ?_, ?_, ?_, ?_⟩ <;> intro h <;> simp [h]

theorem ite_err {ε α} {c : Prop} [Decidable c] {e : ε} {r : Except ε α} :
    (∃ x, (if c then Except.error e else r) = Except.error x) ↔ (c ∨ ∃ x, r = Except.error x) := by
  by_cases h : c <;> simp [h]

theorem ok_ne_err {ε α} {a : α} : (∃ x : ε, (Except.ok a : Except ε α) = Except.error x) ↔ False := by
  simp

theorem resolveFeatures_ok (fs : Features) (f : Sup) (h : resolveFeatures fs = .ok f) : f = defaults fs := by
  rw [← resolved_eq_defaults]
  unfold resolveFeatures at h
  repeat' split at h
  all_goals first | (injection h with h; exact h.symm) | (injection h)

theorem resolveFeatures_error_iff (fs : Features) :
    (∃ x, resolveFeatures fs = .error x) ↔ Contradictory fs (defaults fs) := by
  have h1 := versions1_eq fs
  have h2 := includesHTTP2_eq fs
  have h3 := includesHTTP3_eq fs
  have hd : (defaults fs).h2c = flagH2c fs ∧ (defaults fs).tls = flagTls fs ∧ (defaults fs).certs = flagCerts fs ∧
      (defaults fs).trailers = flagTrailers fs ∧ (defaults fs).halfH1 = flagHalfH1 fs := ⟨rfl, rfl, rfl, rfl, rfl⟩
  obtain ⟨d1, d2, d3, d4, d5⟩ := hd
  unfold Contradictory
  rw [d1, d2, d3, d4, d5, ← h1]
  unfold resolveFeatures onlyHTTP1
  rw [h2, h3, ← h1]
  simp only [ite_err, ok_ne_err, or_false]
  simp only [List.contains_eq_mem, decide_eq_true_eq, decide_eq_false_iff_not, Bool.or_eq_false_iff,
    Bool.and_eq_true, Bool.not_eq_true', List.isEmpty_eq_false_iff, ne_eq]
  have key : (¬fs.versions = [] ∧ fs.h2c = some true ∧ ¬Ver.v2 ∈ versions1 fs) ↔
      (¬fs.versions = [] ∧ fs.h2c = some true ∧ ¬Ver.v2 ∈ fs.versions) := by
    constructor <;> rintro ⟨a, b, c⟩ <;> refine ⟨a, b, ?_⟩
    · unfold versions1 at c; cases hv : fs.versions with
      | nil => exact absurd hv a
      | cons x t => rw [hv] at c; simpa using c
    · unfold versions1; cases hv : fs.versions with
      | nil => exact absurd hv a
      | cons x t => rw [hv] at c; simpa using c
  rw [key]
  simp only [and_assoc]
theorem only_iff {α} [DecidableEq α] (l : List α) (x : α) :
    only l x = true ↔ (l ≠ [] ∧ ∀ y ∈ l, y = x) := by
  unfold only
  cases l <;> simp

theorem or_and_absorb {a b : Prop} : (a ∨ a ∧ b) ↔ a :=
  ⟨fun h => h.elim id And.left, Or.inl⟩

theorem usingTLS_iff (f : Sup) (e : Entry) : usingTLS f e = true ↔ EntryTls f e := by
  unfold usingTLS EntryTls
  simp

theorem resolveCase_error_iff (f : Sup) (e : Entry) :
    (∃ x, resolveCase f e = .error x) ↔ EntryContradictory f e := by
  unfold resolveCase EntryContradictory
  simp only [ite_err, ok_ne_err, or_false]
  have hv : (implied f e).versions = entryVersions f e := rfl
  rw [hv]
  simp only [← usingTLS_iff, only_iff, List.contains_eq_mem, decide_eq_false_iff_not, Bool.not_eq_true]
  rcases e.tls with _ | _ | _ <;> simp [optList, or_and_absorb]

theorem axis_cand {α} [DecidableEq α] (zero : α) (l : List α) (g x : α) (h : AxisOk zero l g x) :
    x ∈ l ∨ g = x := by
  unfold AxisOk at h; split at h
  · exact Or.inl h
  · exact Or.inr h.symm

theorem mem_allVer (v : Ver) : v ∈ allVer := by cases v <;> simp [allVer]
theorem mem_allProto (v : Proto) : v ∈ allProto := by cases v <;> simp [allProto]
theorem mem_allCodec (v : Codec) : v ∈ allCodec := by cases v <;> simp [allCodec]
theorem mem_allComp (v : Comp) : v ∈ allComp := by cases v <;> simp [allComp]
theorem mem_allST (v : ST) : v ∈ allST := by cases v <;> simp [allST]
theorem mem_bools (b : Bool) : b ∈ [false, true] := by cases b <;> simp

theorem mem_candidates (f : Sup) (inc : List Entry) (k : Case) :
    k ∈ candidates f inc ↔
      (k.v ∈ f.versions ∨ ∃ e ∈ inc, e.v = k.v) ∧ (k.p ∈ f.protocols ∨ ∃ e ∈ inc, e.p = k.p) ∧
      (k.c ∈ f.codecs ∨ ∃ e ∈ inc, e.c = k.c) ∧ (k.z ∈ f.comps ∨ ∃ e ∈ inc, e.z = k.z) ∧
      (k.s ∈ f.sts ∨ ∃ e ∈ inc, e.s = k.s) ∧ k.cvm = .unspec := by
  obtain ⟨v, p, c, z, s, t, cc, g, l, m⟩ := k
  simp only [candidates, List.mem_flatMap, List.mem_filter, List.mem_map, decide_eq_true_eq,
    Case.mk.injEq, mem_allVer, mem_allProto, mem_allCodec, mem_allComp, mem_allST, true_and]
  constructor
  · rintro ⟨v', hv, p', hp, c', hc, z', hz, s', hs, t', _, cc', _, g', _, l', _, rfl, rfl, rfl, rfl, rfl, rfl, rfl, rfl, rfl, rfl⟩
    exact ⟨hv, hp, hc, hz, hs, rfl⟩
  · rintro ⟨hv, hp, hc, hz, hs, rfl⟩
    exact ⟨v, hv, p, hp, c, hc, z, hz, s, hs, t, mem_bools t, cc, mem_bools cc, g, mem_bools g, l, mem_bools l,
      rfl, rfl, rfl, rfl, rfl, rfl, rfl, rfl, rfl, rfl⟩

theorem specified_mem_candidates (f : Sup) (inc exc : List Entry) (k : Case)
    (h : Specified f inc exc k) : k ∈ candidates f inc := by
  rw [mem_candidates]
  rcases h.1 with h1 | ⟨e, he, h2⟩
  · exact ⟨Or.inl h1.1, Or.inl h1.2.1, Or.inl h1.2.2.1, Or.inl h1.2.2.2.1, Or.inl h1.2.2.2.2.1, h1.2.2.2.2.2.2.2.2.1⟩
  · obtain ⟨a1, a2, a3, a4, a5, _, _, _, a9, _⟩ := h2
    refine ⟨?_, ?_, ?_, ?_, ?_, a9⟩
    · exact (axis_cand _ _ _ _ a1).imp id fun h => ⟨e, he, h⟩
    · exact (axis_cand _ _ _ _ a2).imp id fun h => ⟨e, he, h⟩
    · exact (axis_cand _ _ _ _ a3).imp id fun h => ⟨e, he, h⟩
    · exact (axis_cand _ _ _ _ a4).imp id fun h => ⟨e, he, h⟩
    · exact (axis_cand _ _ _ _ a5).imp id fun h => ⟨e, he, h⟩

theorem mem_specSet (f : Sup) (inc exc : List Entry) (k : Case) :
    k ∈ specSet f inc exc ↔ Specified f inc exc k := by
  unfold specSet
  rw [List.mem_filter, decide_eq_true_eq]
  exact ⟨fun h => h.2, fun h => ⟨specified_mem_candidates f inc exc k h, h⟩⟩

/-! ### errors of the include / exclude loops -/

theorem addIncludes_error_iff (f : Sup) (es : List Entry) : ∀ (i : Nat) (acc : List Case),
    (∃ x, addIncludes f i es acc = .error x) ↔ ∃ e ∈ es, EntryContradictory f e := by
  induction es with
  | nil => intro i acc; simp [addIncludes]
  | cons e es ih =>
    intro i acc
    unfold addIncludes
    simp only [List.mem_cons, exists_eq_or_imp]
    rw [← resolveCase_error_iff]
    cases h : resolveCase f e with
    | error x => simp
    | ok cs => simp only [ih]; simp

theorem removeExcludes_error_iff (f : Sup) (es : List Entry) : ∀ (i : Nat) (acc : List Case),
    (∃ x, removeExcludes f i es acc = .error x) ↔ ∃ e ∈ es, EntryContradictory f e := by
  induction es with
  | nil => intro i acc; simp [removeExcludes]
  | cons e es ih =>
    intro i acc
    unfold removeExcludes
    simp only [List.mem_cons, exists_eq_or_imp]
    rw [← resolveCase_error_iff]
    cases h : resolveCase f e with
    | error x => simp
    | ok cs => simp only [ih]; simp


/-- the three stages of `parseConfig` when nothing errs -/
theorem parseConfig_stages (cfg : Config) :
    (∃ x, parseConfig cfg = .error x) ∨
    (∃ cs, parseConfig cfg = .ok cs ∧ resolveFeatures cfg.features = .ok (defaults cfg.features) ∧ cs ≠ [] ∧
      ∀ k, k ∈ cs ↔ Specified (defaults cfg.features) cfg.includes cfg.excludes k) := by
  unfold parseConfig
  cases hf : resolveFeatures cfg.features with
  | error x => exact Or.inl ⟨_, rfl⟩
  | ok f =>
    have hfd := resolveFeatures_ok _ _ hf
    subst hfd
    simp only
    cases hinc : addIncludes (defaults cfg.features) 0 cfg.includes (computeCases (defaults cfg.features) [] [] []) with
    | error x => exact Or.inl ⟨_, rfl⟩
    | ok withInc =>
      simp only
      cases hexc : removeExcludes (defaults cfg.features) 0 cfg.excludes withInc with
      | error x => exact Or.inl ⟨_, rfl⟩
      | ok cs =>
        simp only
        cases cs with
        | nil => exact Or.inl ⟨_, rfl⟩
        | cons a t =>
          refine Or.inr ⟨a :: t, rfl, by first | rfl | trivial, by simp, fun k => ?_⟩
          rw [mem_removeExcludes _ _ _ _ _ hexc k, mem_addIncludes _ _ _ _ _ hinc k, mem_features]
          rfl

end ConfModel.Config
