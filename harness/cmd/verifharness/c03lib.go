package main

import (
	"encoding/json"
	"fmt"
	"strings"

	cc "connectrpc.com/conformance/internal/app/connectconformance"
	conformancev1 "connectrpc.com/conformance/internal/gen/proto/go/connectrpc/conformance/v1"
	"connectrpc.com/conformance/internal/verifharness/gen"
	"google.golang.org/protobuf/proto"
)

// C03 — op "libassert": the definition that assert is GIVEN.  A real testCaseLibrary is built
// (newTestCaseLibrary) from a generated suite whose cases declare an expected response, other
// allowed error codes and expand_requests, under config cases such that gRPC-impl copies exist;
// EVERY object of allPermutations(true, true) is (a) compared with its template / its original
// permutation apart from the fields the library is documented to set and (b) handed, as it is,
// to the real assert together with a generated reported result.
//
// in = {cases: [{name, st, other, exp, act, mut, expect, expand}], cfgs: [{v, p, c, z, tls}]}
// impl = {err, perms: [{name, case, kind, p, diff, origDiff, recorded, errs}]} sorted by name.

func init() {
	gen.RegisterOp("c03", "libassert", func(_ *gen.Ctx, raw json.RawMessage) any {
		in := gen.Into[c03LibIn](raw)
		return c03LibAssert(in)
	})
}

type c03LibCase struct {
	Name string `json:"name"`
	c03In
	Expand []int `json:"expand"`
}

type c03LibIn struct {
	Cases []c03LibCase        `json:"cases"`
	Cfgs  []cc.VerifC03LibCfg `json:"cfgs"`
}

type c03LibOut struct {
	Err   string               `json:"err"`
	Perms []cc.VerifC03LibPerm `json:"perms"`
}

func c03LibAssert(in c03LibIn) c03LibOut {
	var templates []*conformancev1.TestCase
	actual := map[string]*conformancev1.ClientResponseResult{}
	for _, cs := range in.Cases {
		def := &conformancev1.TestCase{
			Request:          &conformancev1.ClientCompatRequest{TestName: cs.Name, StreamType: conformancev1.StreamType(cs.St)},
			ExpectedResponse: c03ToProto(cs.Exp),
		}
		for _, o := range cs.Other {
			def.OtherAllowedErrorCodes = append(def.OtherAllowedErrorCodes, conformancev1.Code(o))
		}
		for _, e := range cs.Expand {
			def.ExpandRequests = append(def.ExpandRequests, &conformancev1.TestCase_ExpandedSize{SizeRelativeToLimit: proto.Int32(int32(e))})
		}
		templates = append(templates, def)
		actual[cs.Name] = c03ToProto(cs.Act)
	}
	errText, perms := cc.VerifC03LibAssert(templates, in.Cfgs, actual)
	out := c03LibOut{Err: errText, Perms: []cc.VerifC03LibPerm{}}
	for _, p := range perms {
		p.Errs = []string{}
		for _, t := range p.Texts {
			p.Errs = append(p.Errs, c03Classify(t))
		}
		out.Perms = append(out.Perms, p)
	}
	return out
}

func runC03Lib(c *gen.Ctx, g0 *c03Gen) error {
	r := g0.r.Fork()
	g := &c03Gen{r: r, grace: g0.grace}
	// config cases: Connect / gRPC / gRPC-Web x HTTP/1.1, HTTP/2 x proto, JSON x identity, gzip,
	// brotli x TLS or not; a random subset that always holds an eligible gRPC and gRPC-Web case
	var pool []cc.VerifC03LibCfg
	for _, p := range []int{1, 2, 3} {
		for _, v := range []int{1, 2} {
			for _, cd := range []int{1, 2} {
				for _, z := range []int{1, 2, 3} {
					for _, tls := range []bool{false, true} {
						pool = append(pool, cc.VerifC03LibCfg{V: v, P: p, C: cd, Z: z, TLS: tls})
					}
				}
			}
		}
	}
	n := 260
	if c.Thorough() {
		n = 4000
	}
	var ins []any
	for i := 0; i < n; i++ {
		in := c03LibIn{Cfgs: []cc.VerifC03LibCfg{{V: 2, P: 2, C: 1, Z: 1 + r.Intn(2)}, {V: 1 + r.Intn(2), P: 3, C: 1, Z: 1 + r.Intn(2)}}}
		for k := r.Intn(5); k > 0; k-- {
			in.Cfgs = append(in.Cfgs, gen.Pick(r, pool))
		}
		nCases := r.Range(1, 3)
		for k := 0; k < nCases; k++ {
			e, st, other := g.result()
			if st == 0 {
				st = 1
			}
			// mostly a definition with an error and alternative codes
			if r.Chance(2, 3) {
				if e.E == nil {
					e.E = &c03Err{C: r.Range(1, 16), D: []c03Detail{}}
				}
				for len(other) == 0 || r.Chance(1, 3) {
					other = append(other, r.Range(1, 16))
				}
			}
			vs := g.variants(e, st, other)
			var codeVs []c03Variant
			for _, v := range vs {
				if strings.Contains(v.mut, "other-allowed-code") || strings.Contains(v.mut, "change-code") {
					codeVs = append(codeVs, v)
				}
			}
			v := vs[0]
			switch {
			case len(codeVs) > 0 && r.Chance(3, 5):
				v = gen.Pick(r, codeVs)
			case r.Chance(1, 2):
				v = gen.Pick(r, vs)
			}
			cs := c03LibCase{Name: fmt.Sprintf("case-%d", k), c03In: c03In{St: st, Other: other, Exp: e, Act: v.act, Mut: v.mut, Expect: v.expect}, Expand: []int{}}
			for x := r.Intn(3); x > 0; x-- {
				cs.Expand = append(cs.Expand, r.Intn(7)-3)
			}
			in.Cases = append(in.Cases, cs)
			c.E.Count("lib-mut:" + c03MutKind(v.mut))
		}
		ins = append(ins, in)
	}
	c.DoParallel("libassert", ins, 8)
	return nil
}
