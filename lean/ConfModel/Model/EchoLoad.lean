/-
C02, second half — "loading and expanding any parseable suite never crashes the runner: shapes it
cannot handle are rejected with an error".  Model of WHICH shapes are rejected, for the part of the
suite schema C02 quantifies over: the test cases' stream type, names, service / method, request
message kinds, raw payloads, explicit expected responses and expand-requests directives, and the
suite's mode, codecs and relies-on flags.

Transcribed, in the order of the code, from `parseTestSuites` (with `expandRequestData`),
`newTestCaseLibrary`, `expandSuite`, `expandCases` and `populateExpectedResponse`
(test_case_library.go).  The padding arithmetic of `expandRequestData` is C19's subject: a directive
is abstracted to whether it gives a size and whether the arithmetic works out (`Dir`).  Which config
cases a suite matches is C06/C07's subject: `applies s` says whether the configuration has cases
for suite `s` at all (for the configuration the harness loads with — HTTP/1.1 and 2, three protocols,
both codecs, no TLS, Connect GET supported — it then has them for every stream type, `cfgApplies`).

Go iterates over the files in map order, so WHICH error is reported when several apply is not
determined; whether the load is rejected is (`load_rejects_iff`).  The model visits the suites in
list order.
-/
namespace ConfModel.EchoLoad

/-- kind of a request message (an `Any` in `request_messages`) -/
inductive Msg
  /-- carry a `UnaryResponseDefinition` (`unaryResponseDefiner`) -/
  | unary | idempotent | clientStream
  /-- carry a `StreamResponseDefinition` (`streamResponseDefiner`) -/
  | serverStream | bidi
  /-- `UnimplementedRequest`: a registered message without definition and without `request_data` -/
  | unimplemented
  /-- a registered message that is no request at all (e.g. `Header`) -/
  | other
  /-- an `Any` that does not unmarshal: unknown type URL, or bytes that are no such message -/
  | broken
deriving DecidableEq, Repr, Inhabited

def Msg.unaryDefiner : Msg → Bool
  | .unary | .idempotent | .clientStream => true
  | _ => false

def Msg.streamDefiner : Msg → Bool
  | .serverStream | .bidi => true
  | _ => false

/-- unmarshals and has an optional bytes field `request_data` -/
def Msg.hasData : Msg → Bool
  | .unary | .idempotent | .clientStream | .serverStream | .bidi => true
  | _ => false

/-- an `expand_requests` directive: no size given; a size the padding arithmetic can reach (given a
message with a `request_data` field); a size it cannot (out of range, below what is there, varint
boundary — C19) -/
inductive Dir
  | absent | fits | misfit
deriving DecidableEq, Repr, Inhabited

structure Case where
  name : String
  /-- `stream_type`: 0 unspecified, 1..5 the stream types, anything else an unknown enum number -/
  st : Nat
  service : Bool
  method : Bool
  msgs : List Msg
  rawRequest : Bool
  /-- the response definition of the first message carries a raw response -/
  rawResponse : Bool
  explicit : Bool
  expand : List Dir
deriving DecidableEq, Repr, Inhabited

structure Suite where
  name : String
  /-- 0 unspecified, 1 client, 2 server -/
  mode : Nat
  /-- `relevant_protocols` (1 Connect, 2 gRPC, 3 gRPC-Web); like the other relevant lists assumed
  free of repetitions where the suite is expanded (a repeated value expands the suite twice:
  duplicate definitions — C07's `duplicate_error_genuine`) -/
  protos : List Nat
  /-- `relevant_codecs` (1 proto, 2 json) -/
  codecs : List Nat
  tls : Bool
  certs : Bool
  get : Bool
  /-- `connect_version_mode`: 0 unspecified, 1 require, 2 ignore -/
  cvm : Nat
  cases : List Case
deriving DecidableEq, Repr, Inhabited

inductive LoadErr
  | rawRequestMode | rawResponseMode | rawResponseNoExpected | expandCodecs | expandCount | expandData
  | suiteNoName | suiteNoCases | suiteDuplicate | misconfigured
  | caseNoName | caseNoStreamType | methodNoService | serviceNoMethod | duplicateCase
  | noCases | populateUnmarshal | populateNotUnary | populateNotStream
  | streamTypeRequired | streamTypeUnsupported
deriving DecidableEq, Repr, Inhabited

/-- first error of `f` over a list (a loop with `return err`) -/
def firstSome {α ε : Type} (f : α → Option ε) : List α → Option ε
  | [] => none
  | x :: xs => match f x with
    | some e => some e
    | none => firstSome f xs

/-- `hasRawResponse`: looks at the first message only, and only at messages that define a response -/
def hasRaw (c : Case) : Bool :=
  match c.msgs with
  | m :: _ => (m.unaryDefiner || m.streamDefiner) && c.rawResponse
  | [] => false

/-- `expandRequestData` -/
def expandCheck (c : Case) : Option LoadErr :=
  if c.expand.length > c.msgs.length then some .expandCount
  else if (c.expand.zip c.msgs).any (fun dm => dm.1 == .misfit || (dm.1 == .fits && !dm.2.hasData)) then some .expandData
  else none

/-- the body of the loop over the test cases in `parseTestSuites` -/
def parseCase (s : Suite) (c : Case) : Option LoadErr :=
  if c.rawRequest && s.mode != 2 then some .rawRequestMode
  else if hasRaw c && s.mode != 1 then some .rawResponseMode
  else if hasRaw c && !c.explicit then some .rawResponseNoExpected
  else if !c.expand.isEmpty && (s.codecs.length > 1 || !s.codecs.contains 1) then some .expandCodecs
  else expandCheck c

/-- a stream type a config case can have -/
def runnable (c : Case) : Bool := 1 ≤ c.st && c.st ≤ 5

/-- the checks `expandCases` makes on every case whenever it is called (name, stream type) and on
the cases of the config case's stream type (service / method) -/
def caseCheck (c : Case) : Option LoadErr :=
  if c.name == "" then some .caseNoName
  else if c.st == 0 then some .caseNoStreamType
  else if !runnable c then none
  else if !c.service && c.method then some .methodNoService
  else if c.service && !c.method then some .serviceNoMethod
  else none

/-- "test case library includes duplicate definition": the full name does not contain the stream type -/
def dupCheck : List String → List Case → Option LoadErr
  | _, [] => none
  | seen, c :: cs =>
    if runnable c then (if seen.contains c.name then some .duplicateCase else dupCheck (c.name :: seen) cs)
    else dupCheck seen cs

/-- `only(slice, find)`: not empty and nothing but `find` -/
def only (l : List Nat) (x : Nat) : Bool := !l.isEmpty && l.all (· == x)

def misconfigured (s : Suite) : Bool :=
  (s.certs && !s.tls) || (s.get && !only s.protos 1) || (s.cvm == 2 && !only s.protos 1) || (s.cvm == 1 && !only s.protos 1)

/-- `populateExpectedResponse` on an expanded case -/
def populateCheck (c : Case) : Option LoadErr :=
  if c.explicit then none
  else match c.msgs with
    | [] => none
    | m :: _ =>
      if m == .broken then some .populateUnmarshal
      else if c.st == 1 || c.st == 2 then (if m.unaryDefiner then none else some .populateNotUnary)
      else (if m.streamDefiner then none else some .populateNotStream)

/-- `populateExpectedResponse` called on a test case as it stands, with the `switch` on the stream
type that the library never reaches with anything but the five stream types (`expandCases` has
rejected "unspecified" and never matches an unknown number) -/
def populateDirect (c : Case) : Option LoadErr :=
  if c.explicit then none
  else if c.st == 0 then some .streamTypeRequired
  else if !runnable c then some .streamTypeUnsupported
  else populateCheck c

/-- `expandSuite`: the number of test cases it adds to the library -/
def expandSuite (applies : Suite → Bool) (s : Suite) : Except LoadErr Nat :=
  if misconfigured s then .error .misconfigured
  else if !applies s then .ok 0
  else match firstSome caseCheck s.cases with
    | some e => .error e
    | none => match dupCheck [] s.cases with
      | some e => .error e
      | none => .ok (s.cases.filter runnable).length

/-- the loop over the suites in `newTestCaseLibrary`: names seen so far, test cases added so far -/
def libLoop (applies : Suite → Bool) (mode : Nat) : List String → Nat → List Suite → Except LoadErr Nat
  | _, n, [] => .ok n
  | seen, n, s :: rest =>
    if s.name == "" then .error .suiteNoName
    else if s.cases.isEmpty then .error .suiteNoCases
    else if seen.contains s.name then .error .suiteDuplicate
    else if s.mode != 0 && s.mode != mode then libLoop applies mode (s.name :: seen) n rest
    else match expandSuite applies s with
      | .error e => .error e
      | .ok k => libLoop applies mode (s.name :: seen) (n + k) rest

/-- the suites whose cases are in the library -/
def admitted (mode : Nat) (s : Suite) : Bool := s.mode == 0 || s.mode == mode

/-- `parseTestSuites` followed by `newTestCaseLibrary` -/
def load (applies : Suite → Bool) (mode : Nat) (ss : List Suite) : Except LoadErr Unit :=
  match firstSome (fun s => firstSome (parseCase s) s.cases) ss with
  | some e => .error e
  | none =>
    match libLoop applies mode [] 0 ss with
    | .error e => .error e
    | .ok n =>
      if n == 0 then .error .noCases
      else match firstSome (fun s => if admitted mode s && applies s then firstSome populateCheck (s.cases.filter runnable) else none) ss with
        | some e => .error e
        | none => .ok ()

/-- the error of a load, if any (what the driver compares) -/
def loadErr (applies : Suite → Bool) (mode : Nat) (ss : List Suite) : Option LoadErr :=
  match load applies mode ss with
  | .ok _ => none
  | .error e => some e

/-- the configuration the harness loads with (HTTP/1.1 + 2, Connect / gRPC / gRPC-Web, proto + json,
no TLS, Connect GET supported, no receive limit): it has config cases for a suite — then for every
stream type — unless the suite relies on TLS or client certificates, sets a Connect version mode
(no config case ever carries one), or lists relevant codecs none of which is configured -/
def cfgApplies (s : Suite) : Bool :=
  !s.tls && !s.certs && s.cvm == 0 && (s.codecs.isEmpty || s.codecs.any (fun c => c == 1 || c == 2))

end ConfModel.EchoLoad
