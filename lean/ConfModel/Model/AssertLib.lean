import ConfModel.Model.Assert
/-!
C03 — the definition that `assert` is GIVEN: the test-case objects of
`testCaseLibrary.allPermutations` (test_case_library.go).  A permutation carries the definition of
its suite entry (stream type, other allowed error codes, expected response); the copies built by
`filterGRPCImplTestCases` for the grpc-go reference client / server are `proto.Clone`s whose NAME
gets a marker element, nothing else.
-/
namespace ConfModel.AssertLib
open ConfModel.Assert

/-- what `assert` reads of a `TestCase` (plus the name it is stored under and whether the case is
eligible for a copy that runs against a gRPC reference implementation) -/
structure Def where
  name : String
  st : StreamType
  other : List Nat
  expected : Result
  eligibleClient : Bool
  eligibleServer : Bool
  deriving Repr, DecidableEq, Inhabited

/-- the marker element inserted into the name of a copy -/
inductive Marker where
  | client | server | both
  deriving Repr, DecidableEq

def Marker.text : Marker → String
  | .client => "(grpc client impl)" | .server => "(grpc server impl)" | .both => "(grpc impls)"

/-- `filterGRPCImplTestCases`' loop body after the guards: clone, then rename -/
def markCopy (m : Marker) (d : Def) : Def := { d with name := d.name ++ "/" ++ m.text }

def eligible : Marker → Def → Bool
  | .client, d => d.eligibleClient
  | .server, d => d.eligibleServer
  | .both, d => d.eligibleClient && d.eligibleServer

def copies (m : Marker) (ds : List Def) : List Def := (ds.filter (eligible m)).map (markCopy m)

/-- `allPermutations(clientIsGRPCImpl, serverIsGRPCImpl)` -/
def allPermutations (ds : List Def) (client server : Bool) : List Def :=
  ds ++ (if client then copies .client ds else []) ++ (if server then copies .server ds else []) ++
    (if client && server then copies .both ds else [])

/-- what `assert` records when it is given the object `d` and the reported result `a` -/
def verdictOf (g : Int) (d : Def) (a : Result) : List Discrepancy := assert g d.st d.other d.expected a

/-- a copy that loses the alternative codes on the way (what a partial copy does) -/
def dropOther (d : Def) : Def := { d with other := [] }

end ConfModel.AssertLib
