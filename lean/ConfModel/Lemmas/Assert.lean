/-
Helper lemmas about `ConfModel.Model.Assert` and `ConfModel.Spec.Agree`: every check function
reports nothing exactly when its clause of `Agree` holds.
-/
import ConfModel.Model.Assert
import ConfModel.Spec.Agree
namespace ConfModel.Assert
open ConfModel.Agree

/-! ### `lookupLast` and `checkHeaders` -/

theorem lookupLast_some_mem (act : List Header) (n : String) (v : List Val)
    (h : lookupLast act n = some v) : ∃ h' ∈ act, lower h'.name = n ∧ h'.values = v := by
  induction act with
  | nil => simp [lookupLast] at h
  | cons x t ih =>
    unfold lookupLast at h
    cases ht : lookupLast t n with
    | some w =>
      rw [ht] at h
      simp only [Option.some.injEq] at h
      obtain ⟨h', hm, hn, hv⟩ := ih (h ▸ ht)
      exact ⟨h', List.mem_cons_of_mem _ hm, hn, hv⟩
    | none =>
      rw [ht] at h
      by_cases hx : lower x.name = n
      · simp only [hx, if_true, Option.some.injEq] at h
        exact ⟨x, List.mem_cons_self, hx, h⟩
      · simp [hx] at h

theorem lookupLast_of_mem (act : List Header) (hd : NamesDistinct act) (h' : Header) (hm : h' ∈ act) :
    lookupLast act (lower h'.name) = some h'.values := by
  induction act with
  | nil => cases hm
  | cons x t ih =>
    unfold NamesDistinct at hd
    simp only [List.map_cons, List.nodup_cons] at hd
    unfold lookupLast
    rcases List.mem_cons.1 hm with rfl | hm
    · cases ht : lookupLast t (lower h'.name) with
      | some w =>
        obtain ⟨y, hy, hn, _⟩ := lookupLast_some_mem t _ _ ht
        exact absurd (List.mem_map.2 ⟨y, hy, hn⟩) hd.1
      | none => simp
    · rw [ih hd.2 hm]

theorem checkHeader_nil_iff (w : What) (act : List Header) (hd : NamesDistinct act) (h : Header) :
    checkHeader w act h = [] ↔ ∃ h' ∈ act, lower h'.name = lower h.name ∧ canon h.values = canon h'.values := by
  unfold checkHeader
  cases hl : lookupLast act (lower h.name) with
  | none =>
    simp only [List.cons_ne_nil, false_iff, not_exists, not_and]
    intro h' hm hn hc
    have := lookupLast_of_mem act hd h' hm
    rw [hn, hl] at this; cases this
  | some av =>
    obtain ⟨y, hy, hn, hv⟩ := lookupLast_some_mem act _ _ hl
    constructor
    · intro hc
      refine ⟨y, hy, hn, ?_⟩
      rw [hv]
      by_cases hcv : canon h.values = canon av
      · exact hcv
      · simp [hcv] at hc
    · rintro ⟨h', hm, hn', hc⟩
      have := lookupLast_of_mem act hd h' hm
      rw [hn', hl] at this
      simp only [Option.some.injEq] at this
      rw [this]; simp [hc]

theorem checkHeaders_nil_iff (w : What) (exp act : List Header) (hd : NamesDistinct act) :
    checkHeaders w exp act = [] ↔ Subsumed exp act := by
  unfold checkHeaders Subsumed
  rw [List.flatMap_eq_nil_iff]
  exact forall_congr' fun h => imp_congr_right fun _ => checkHeader_nil_iff w act hd h

/-! ### timeout, echoed requests, request info -/

theorem checkTimeout_nil_iff (g : Int) (e a : Option Int) :
    checkTimeout g e a = [] ↔ TimeoutAgree g e a := by
  cases e <;> cases a <;> simp [checkTimeout, TimeoutAgree]
  rename_i t u
  constructor
  · intro h; split at h <;> omega
  · intro h; split <;> omega

theorem checkRequests_nil_iff (k : Nat) (es as : List Msg) :
    checkRequests k es as = [] ↔ ∀ x ∈ es.zip as, x.1 = x.2 := by
  induction es generalizing as k with
  | nil => simp [checkRequests]
  | cons e es ih =>
    cases as with
    | nil => simp [checkRequests]
    | cons a as =>
      simp only [checkRequests, List.append_eq_nil_iff, ih, List.zip_cons_cons, List.mem_cons, forall_eq_or_imp]
      constructor
      · rintro ⟨h1, h2⟩
        refine ⟨?_, h2⟩
        by_cases he : e = a
        · exact he
        · simp [he] at h1
      · rintro ⟨h1, h2⟩
        exact ⟨by simp [h1], h2⟩

theorem eq_of_zip_eq {α} (es as : List α) (hl : as.length = es.length)
    (h : ∀ x ∈ es.zip as, x.1 = x.2) : as = es := by
  induction es generalizing as with
  | nil => cases as <;> simp_all
  | cons e es ih =>
    cases as with
    | nil => simp at hl
    | cons a as =>
      simp only [List.zip_cons_cons, List.mem_cons, forall_eq_or_imp] at h
      simp only [List.length_cons, Nat.add_right_cancel_iff] at hl
      rw [h.1, ih as hl h.2]

theorem requests_nil_iff (es as : List Msg) :
    (if as.length ≠ es.length then [Discrepancy.requestCount] else []) ++ checkRequests 1 es as = [] ↔ as = es := by
  rw [List.append_eq_nil_iff, checkRequests_nil_iff]
  constructor
  · rintro ⟨h1, h2⟩
    have hl : as.length = es.length := by
      by_cases h : as.length = es.length
      · exact h
      · simp [h] at h1
    exact eq_of_zip_eq es as hl h2
  · rintro rfl
    refine ⟨by simp, ?_⟩
    intro x hx
    induction as with
    | nil => simp at hx
    | cons a as ih =>
      simp only [List.zip_cons_cons, List.mem_cons] at hx
      rcases hx with rfl | hx
      · rfl
      · exact ih hx

theorem checkRequestInfo_nil_iff (g : Int) (e a : ReqInfo) (first : Bool) (hw : ReqInfoWF a) :
    checkRequestInfo g e a first = [] ↔ ReqInfoAgree g first e a := by
  unfold checkRequestInfo ReqInfoAgree
  rw [List.append_assoc, List.append_eq_nil_iff, requests_nil_iff]
  apply and_congr_left'
  cases first with
  | false => simp
  | true =>
    simp only [if_true, List.append_eq_nil_iff, checkHeaders_nil_iff _ _ _ hw.1, checkTimeout_nil_iff, true_imp_iff]
    rw [and_assoc]
    apply and_congr_right'
    apply and_congr_right'
    by_cases hq : e.queryParams.length > 0 ∧ a.queryParams.length > 0
    · have h1 : e.queryParams ≠ [] := by intro h; rw [h] at hq; simp at hq
      have h2 : a.queryParams ≠ [] := by intro h; rw [h] at hq; simp at hq
      simp [hq.1, hq.2, h1, h2, checkHeaders_nil_iff _ _ _ hw.2]
    · have : (decide (e.queryParams.length > 0) && decide (a.queryParams.length > 0)) = false := by
        simp only [Bool.and_eq_false_iff, decide_eq_false_iff_not]
        by_cases h : e.queryParams.length > 0
        · exact Or.inr fun h' => hq ⟨h, h'⟩
        · exact Or.inl h
      rw [this]
      simp only [Bool.false_eq_true, if_false, true_iff]
      intro h1 h2
      exact absurd ⟨List.length_pos_iff.2 h1, List.length_pos_iff.2 h2⟩ hq

end ConfModel.Assert

namespace ConfModel.Assert
open ConfModel.Agree

/-! ### payloads -/

theorem checkPayloadsFrom_nil_iff (g : Int) (i : Nat) (es as : List Payload)
    (hw : ∀ p ∈ as, ReqInfoWF (p.reqInfo.getD .empty)) :
    checkPayloadsFrom g i es as = [] ↔
      ∀ x ∈ (es.zip as).zipIdx i,
        x.1.2.data = x.1.1.data ∧
        ReqInfoAgree g (x.2 == 0) (x.1.1.reqInfo.getD .empty) (x.1.2.reqInfo.getD .empty) := by
  induction es generalizing as i with
  | nil => simp [checkPayloadsFrom]
  | cons e es ih =>
    cases as with
    | nil => simp [checkPayloadsFrom]
    | cons a as =>
      have hwa := hw a List.mem_cons_self
      have hwt : ∀ p ∈ as, ReqInfoWF (p.reqInfo.getD .empty) := fun p hp => hw p (List.mem_cons_of_mem _ hp)
      simp only [checkPayloadsFrom, List.append_eq_nil_iff, ih (i + 1) as hwt, List.zip_cons_cons,
        List.zipIdx_cons, List.mem_cons, forall_eq_or_imp, checkRequestInfo_nil_iff g _ _ _ hwa]
      constructor
      · rintro ⟨⟨h1, h2⟩, h3⟩
        refine ⟨⟨?_, h2⟩, h3⟩
        by_cases hd : a.data = e.data
        · exact hd
        · simp [hd] at h1
      · rintro ⟨⟨h1, h2⟩, h3⟩
        exact ⟨⟨by simp [h1], h2⟩, h3⟩

theorem checkPayloads_nil_iff (g : Int) (es as : List Payload)
    (hw : ∀ p ∈ as, ReqInfoWF (p.reqInfo.getD .empty)) :
    checkPayloads g es as = [] ↔ PayloadsAgree g es as := by
  unfold checkPayloads PayloadsAgree
  rw [List.append_eq_nil_iff, checkPayloadsFrom_nil_iff g 0 es as hw]
  apply and_congr_left'
  by_cases h : as.length = es.length <;> simp [h]

/-! ### error -/

theorem checkDetailsFrom_nil_iff (g : Int) (i : Nat) (es as : List Detail)
    (hw : ∀ d ∈ as, DetailWF d) :
    checkDetailsFrom g i es as = [] ↔ ∀ x ∈ es.zip as, DetailAgree g x.1 x.2 := by
  induction es generalizing as i with
  | nil => simp [checkDetailsFrom]
  | cons e es ih =>
    cases as with
    | nil => simp [checkDetailsFrom]
    | cons a as =>
      have hwa := hw a List.mem_cons_self
      have hwt : ∀ d ∈ as, DetailWF d := fun d hd => hw d (List.mem_cons_of_mem _ hd)
      simp only [checkDetailsFrom, List.append_eq_nil_iff, ih (i + 1) as hwt, List.zip_cons_cons,
        List.mem_cons, forall_eq_or_imp]
      apply and_congr_left'
      cases e with
      | reqInfo er =>
        cases a with
        | reqInfo ar => simp only [DetailAgree]; exact checkRequestInfo_nil_iff g er ar true hwa
        | other am => simp [DetailAgree]
      | other em =>
        cases a with
        | reqInfo ar => simp [DetailAgree]
        | other am =>
          simp only [DetailAgree]
          by_cases h : Detail.other em = Detail.other am <;> simp [h]

theorem checkError_nil_iff (g : Int) (other : List Nat) (e a : Option Err)
    (hw : ∀ err, a = some err → ∀ d ∈ err.details, DetailWF d) :
    checkError g e a other = [] ↔ ErrorAgree g other e a := by
  cases e with
  | none => cases a <;> simp [checkError, ErrorAgree]
  | some e =>
    cases a with
    | none => simp [checkError, ErrorAgree]
    | some a =>
      simp only [checkError, ErrorAgree, List.append_eq_nil_iff,
        checkDetailsFrom_nil_iff g 0 _ _ (hw a rfl)]
      rw [and_assoc, and_assoc]
      apply and_congr
      · by_cases hc : e.code = a.code
        · simp [hc]
        · by_cases ho : a.code ∈ other
          · simp [hc, ho]
          · simp [hc, ho]
      · apply and_congr
        · cases hm : e.message with
          | none => simp
          | some m =>
            by_cases h : m = a.message.getD ""
            · simp [h]
            · simp [h]
        · apply and_congr_left'
          by_cases h : e.details.length = a.details.length <;> simp [h]

theorem checkStatus_nil_iff (e a : Option Int) : checkStatus e a = [] ↔ StatusAgree e a := by
  cases e <;> cases a <;> simp [checkStatus, StatusAgree]

end ConfModel.Assert

namespace ConfModel.Assert
open ConfModel.Agree

/-! ### `mergeHeaders` builds the merged bag -/

abbrev HMap := List (String × List Val)

def keys (m : HMap) : List String := m.map (·.1)

/-- `v, ok := m[k]` -/
def lk : HMap → String → Option (List Val)
  | [], _ => none
  | (m, w) :: t, k => if m = k then some w else lk t k

def names (hs : List Header) : List String := hs.map (fun h => lower h.name)

theorem valuesOf_cons (x : Header) (t : List Header) (k : String) :
    valuesOf (x :: t) k = (if lower x.name = k then x.values else []) ++ valuesOf t k := by
  unfold valuesOf
  by_cases h : lower x.name = k <;> simp [h]

theorem valuesOf_not_mem (hs : List Header) (k : String) (h : k ∉ names hs) : valuesOf hs k = [] := by
  induction hs with
  | nil => rfl
  | cons x t ih =>
    simp only [names, List.map_cons, List.mem_cons, not_or] at h
    have hne : ¬ lower x.name = k := fun e => h.1 e.symm
    rw [valuesOf_cons, ih h.2]
    simp [hne]

theorem lk_mem_iff (m : HMap) (hn : (keys m).Nodup) (k : String) (v : List Val) :
    (k, v) ∈ m ↔ lk m k = some v := by
  induction m with
  | nil => simp [lk]
  | cons e t ih =>
    obtain ⟨n, w⟩ := e
    simp only [keys, List.map_cons, List.nodup_cons] at hn
    simp only [List.mem_cons, lk, Prod.mk.injEq]
    by_cases h : n = k
    · subst h
      simp only [if_true, Option.some.injEq]
      constructor
      · rintro (⟨_, rfl⟩ | hm)
        · rfl
        · exact absurd (List.mem_map.2 ⟨(n, v), hm, rfl⟩) hn.1
      · rintro rfl; exact Or.inl ⟨trivial, rfl⟩
    · simp only [h, if_false]
      rw [← ih hn.2]
      constructor
      · rintro (⟨hk, _⟩ | hm)
        · exact absurd hk.symm h
        · exact hm
      · exact Or.inr

theorem lk_assign (m : HMap) (n : String) (v : List Val) (k : String) :
    lk (assign m n v) k = if n = k then some v else lk m k := by
  induction m with
  | nil => simp [assign, lk]
  | cons e t ih =>
    obtain ⟨p, w⟩ := e
    by_cases hp : p = n
    · subst hp; by_cases hk : p = k <;> simp [assign, lk, hk]
    · by_cases hk : p = k
      · subst hk
        have hne : ¬ n = p := fun e => hp e.symm
        simp [assign, lk, hp, hne]
      · simp [assign, lk, hp, hk, ih]

theorem keys_assign (m : HMap) (n : String) (v : List Val) :
    keys (assign m n v) = if n ∈ keys m then keys m else keys m ++ [n] := by
  induction m with
  | nil => simp [assign, keys]
  | cons e t ih =>
    obtain ⟨p, w⟩ := e
    simp only [keys] at ih
    by_cases hp : p = n
    · subst hp; simp [assign, keys]
    · have hne : ¬ n = p := fun e => hp e.symm
      by_cases hn : n ∈ List.map (·.1) t
      · simp [assign, keys, hp, ih, hn]
      · simp [assign, keys, hp, ih, hn, hne]

theorem lk_appendTo (m : HMap) (n : String) (v : List Val) (k : String) :
    lk (appendTo m n v) k = if n = k then some ((lk m n).getD [] ++ v) else lk m k := by
  induction m with
  | nil => simp [appendTo, lk]
  | cons e t ih =>
    obtain ⟨p, w⟩ := e
    by_cases hp : p = n
    · subst hp; by_cases hk : p = k <;> simp [appendTo, lk, hk]
    · by_cases hk : p = k
      · subst hk
        have hne : ¬ n = p := fun e => hp e.symm
        simp [appendTo, lk, hp, hne]
      · simp [appendTo, lk, hp, hk, ih]

theorem keys_appendTo (m : HMap) (n : String) (v : List Val) :
    keys (appendTo m n v) = if n ∈ keys m then keys m else keys m ++ [n] := by
  induction m with
  | nil => simp [appendTo, keys]
  | cons e t ih =>
    obtain ⟨p, w⟩ := e
    simp only [keys] at ih
    by_cases hp : p = n
    · subst hp; simp [appendTo, keys]
    · have hne : ¬ n = p := fun e => hp e.symm
      by_cases hn : n ∈ List.map (·.1) t
      · simp [appendTo, keys, hp, ih, hn]
      · simp [appendTo, keys, hp, ih, hn, hne]

theorem nodup_snoc {α} (l : List α) (a : α) (hl : l.Nodup) (ha : a ∉ l) : (l ++ [a]).Nodup := by
  rw [List.nodup_append]
  refine ⟨hl, by simp, ?_⟩
  intro x hx y hy
  simp only [List.mem_singleton] at hy
  subst hy
  intro e; subst e; exact ha hx

theorem keys_nodup_assign (m : HMap) (n : String) (v : List Val) (h : (keys m).Nodup) :
    (keys (assign m n v)).Nodup := by
  rw [keys_assign]; split
  · exact h
  · next hn => exact nodup_snoc _ _ h hn

theorem keys_nodup_appendTo (m : HMap) (n : String) (v : List Val) (h : (keys m).Nodup) :
    (keys (appendTo m n v)).Nodup := by
  rw [keys_appendTo]; split
  · exact h
  · next hn => exact nodup_snoc _ _ h hn

/-- the map after the first loop of `mergeHeaders` (last write wins) -/
def afterA (a : List Header) (m : HMap) : HMap := a.foldl (fun m h => assign m (lower h.name) h.values) m
/-- the map after the second loop -/
def afterB (b : List Header) (m : HMap) : HMap := b.foldl (fun m h => appendTo m (lower h.name) h.values) m

theorem afterA_nodup (a : List Header) (m : HMap) (h : (keys m).Nodup) : (keys (afterA a m)).Nodup := by
  induction a generalizing m with
  | nil => exact h
  | cons x t ih => exact ih _ (keys_nodup_assign m _ _ h)

theorem afterB_nodup (b : List Header) (m : HMap) (h : (keys m).Nodup) : (keys (afterB b m)).Nodup := by
  induction b generalizing m with
  | nil => exact h
  | cons x t ih => exact ih _ (keys_nodup_appendTo m _ _ h)

theorem lk_afterA (a : List Header) (hd : NamesDistinct a) (m : HMap) (k : String) :
    lk (afterA a m) k = if k ∈ names a then some (valuesOf a k) else lk m k := by
  induction a generalizing m with
  | nil => simp [afterA, names]
  | cons x t ih =>
    unfold NamesDistinct at hd
    simp only [List.map_cons, List.nodup_cons] at hd
    have ih' := ih hd.2 (assign m (lower x.name) x.values)
    simp only [afterA, List.foldl_cons] at ih' ⊢
    rw [ih', lk_assign, valuesOf_cons]
    simp only [names, List.map_cons, List.mem_cons]
    by_cases hk : lower x.name = k
    · subst hk
      have hnot : lower x.name ∉ names t := hd.1
      simp only [names] at hnot
      simp [hnot, valuesOf_not_mem t _ hd.1]
    · have hne : ¬ k = lower x.name := fun e => hk e.symm
      simp [hk, hne]

theorem lk_afterB (b : List Header) (m : HMap) (k : String) :
    lk (afterB b m) k = if k ∈ names b then some ((lk m k).getD [] ++ valuesOf b k) else lk m k := by
  induction b generalizing m with
  | nil => simp [afterB, names]
  | cons x t ih =>
    have ih' := ih (appendTo m (lower x.name) x.values)
    simp only [afterB, List.foldl_cons] at ih' ⊢
    rw [ih', lk_appendTo, valuesOf_cons]
    simp only [names, List.map_cons, List.mem_cons]
    by_cases hk : lower x.name = k
    · subst hk
      by_cases ht : lower x.name ∈ List.map (fun h => lower h.name) t
      · simp [ht]
      · simp [ht, valuesOf_not_mem t _ ht]
    · have hne : ¬ k = lower x.name := fun e => hk e.symm
      simp [hk, hne]

theorem mem_mergedBag (a b : List Header) (x : Header) :
    x ∈ mergedBag a b ↔ ∃ k, (k ∈ names a ∨ k ∈ names b) ∧ x = { name := k, values := valuesOf a k ++ valuesOf b k } := by
  unfold mergedBag names
  rw [List.mem_map]
  constructor
  · rintro ⟨k, hk, rfl⟩
    rw [List.map_append, List.mem_append] at hk
    exact ⟨k, hk, rfl⟩
  · rintro ⟨k, hk, rfl⟩
    refine ⟨k, ?_, rfl⟩
    rw [List.map_append, List.mem_append]
    exact hk

theorem lk_merged (a b : List Header) (hd : NamesDistinct a) (k : String) :
    lk (afterB b (afterA a [])) k =
      if k ∈ names a ∨ k ∈ names b then some (valuesOf a k ++ valuesOf b k) else none := by
  rw [lk_afterB, lk_afterA a hd]
  by_cases hb : k ∈ names b
  · by_cases ha : k ∈ names a
    · simp [ha, hb]
    · simp [ha, hb, lk, valuesOf_not_mem a k ha]
  · by_cases ha : k ∈ names a
    · simp [ha, hb, valuesOf_not_mem b k hb]
    · simp [ha, hb, lk]

theorem mem_mergeHeaders (a b : List Header) (hd : NamesDistinct a) (x : Header) :
    x ∈ mergeHeaders a b ↔ x ∈ mergedBag a b := by
  have hn : (keys (afterB b (afterA a []))).Nodup := afterB_nodup b _ (afterA_nodup a [] (by simp [keys]))
  have hm : mergeHeaders a b = (afterB b (afterA a [])).map (fun e => { name := e.1, values := e.2 }) := rfl
  rw [hm, mem_mergedBag, List.mem_map]
  constructor
  · rintro ⟨⟨k, v⟩, hkv, rfl⟩
    rw [lk_mem_iff _ hn, lk_merged a b hd] at hkv
    by_cases h : k ∈ names a ∨ k ∈ names b
    · rw [if_pos h] at hkv
      simp only [Option.some.injEq] at hkv
      exact ⟨k, h, by rw [← hkv]⟩
    · rw [if_neg h] at hkv; cases hkv
  · rintro ⟨k, hk, rfl⟩
    refine ⟨(k, valuesOf a k ++ valuesOf b k), ?_, rfl⟩
    rw [lk_mem_iff _ hn, lk_merged a b hd, if_pos hk]

theorem subsumed_congr (l1 l2 act : List Header) (h : ∀ x, x ∈ l1 ↔ x ∈ l2) :
    Subsumed l1 act ↔ Subsumed l2 act := by
  unfold Subsumed
  exact forall_congr' fun x => by rw [h x]

theorem checkMetadata_nil_iff (st : StreamType) (e a : Result)
    (he : NamesDistinct e.headers) (hh : NamesDistinct a.headers) (ht : NamesDistinct a.trailers) :
    checkMetadata st e a = [] ↔ MetadataAgree st e a := by
  have hmerge : mergeable st e = true ↔ Mergeable st e := by
    simp only [mergeable, Mergeable, Bool.and_eq_true, Bool.or_eq_true, beq_iff_eq, List.length_eq_zero_iff,
      Option.isSome_iff_ne_none]
    rw [and_assoc]
  have hnormal : checkHeaders .responseHeaders e.headers a.headers ++ checkHeaders .responseTrailers e.trailers a.trailers = []
      ↔ Subsumed e.headers a.headers ∧ Subsumed e.trailers a.trailers := by
    rw [List.append_eq_nil_iff, checkHeaders_nil_iff _ _ _ hh, checkHeaders_nil_iff _ _ _ ht]
  have hmh := subsumed_congr _ _ a.headers (mem_mergeHeaders e.headers e.trailers he)
  have hmt := subsumed_congr _ _ a.trailers (mem_mergeHeaders e.headers e.trailers he)
  unfold checkMetadata MetadataAgree
  simp only []
  by_cases hm : mergeable st e = true
  · have hM := hmerge.1 hm
    simp only [hm, if_true]
    by_cases hn : checkHeaders .responseHeaders e.headers a.headers ++ checkHeaders .responseTrailers e.trailers a.trailers = []
    · have := hnormal.1 hn
      simp [hn, this]
    · have hpos : (checkHeaders .responseHeaders e.headers a.headers ++ checkHeaders .responseTrailers e.trailers a.trailers).length > 0 :=
        List.length_pos_iff.2 hn
      have hnn : ¬ (Subsumed e.headers a.headers ∧ Subsumed e.trailers a.trailers) := fun h => hn (hnormal.2 h)
      simp only [hpos, if_true]
      by_cases h1 : checkHeaders .responseMetadata (mergeHeaders e.headers e.trailers) a.headers = []
      · have s1 := hmh.1 ((checkHeaders_nil_iff _ _ _ hh).1 h1)
        simp [h1, hM, s1]
      · by_cases h2 : checkHeaders .responseMetadata (mergeHeaders e.headers e.trailers) a.trailers = []
        · have s2 := hmt.1 ((checkHeaders_nil_iff _ _ _ ht).1 h2)
          simp [h2, hM, s2]
        · have n1 : ¬ Subsumed (mergedBag e.headers e.trailers) a.headers :=
            fun s => h1 ((checkHeaders_nil_iff _ _ _ hh).2 (hmh.2 s))
          have n2 : ¬ Subsumed (mergedBag e.headers e.trailers) a.trailers :=
            fun s => h2 ((checkHeaders_nil_iff _ _ _ ht).2 (hmt.2 s))
          have l1 : (checkHeaders .responseMetadata (mergeHeaders e.headers e.trailers) a.headers).length ≠ 0 :=
            fun h => h1 (List.length_eq_zero_iff.1 h)
          have l2 : (checkHeaders .responseMetadata (mergeHeaders e.headers e.trailers) a.trailers).length ≠ 0 :=
            fun h => h2 (List.length_eq_zero_iff.1 h)
          simp [l1, l2, hn, hnn, n1, n2]
  · have hM : ¬ Mergeable st e := fun h => hm (hmerge.2 h)
    simp only [hm, Bool.false_eq_true, if_false]
    rw [hnormal]
    simp [hM]

end ConfModel.Assert

namespace ConfModel.Assert
open ConfModel.Agree

/-! ### canonicalisation of joined values -/

theorem splitComma_ne_nil (v : List Char) : splitComma v ≠ [] := by
  induction v with
  | nil => simp [splitComma]
  | cons c cs ih =>
    unfold splitComma
    split
    · simp
    · split <;> simp

theorem splitComma_clean (v : List Char) (h : ',' ∉ v) : splitComma v = [v] := by
  induction v with
  | nil => rfl
  | cons c cs ih =>
    simp only [List.mem_cons, not_or] at h
    have hc : ¬ c = ',' := fun e => h.1 e.symm
    unfold splitComma
    rw [if_neg hc, ih h.2]

theorem splitComma_append (v1 v2 : List Char) (h : ',' ∉ v1) :
    splitComma (v1 ++ ',' :: v2) = v1 :: splitComma v2 := by
  induction v1 with
  | nil => simp [splitComma]
  | cons c cs ih =>
    simp only [List.mem_cons, not_or] at h
    have hc : ¬ c = ',' := fun e => h.1 e.symm
    rw [List.cons_append]
    conv => lhs; unfold splitComma
    rw [if_neg hc, ih h.2]

theorem trimTrail_clean (v : List Char) (h : v.getLast? ≠ some ' ') : trimTrail v = v := by
  unfold trimTrail; rw [if_neg h]

theorem trimLead_clean (v : List Char) (h : v.head? ≠ some ' ') : trimLead v = v := by
  cases v with
  | nil => rfl
  | cons c cs =>
    by_cases hc : c = ' '
    · subst hc; simp at h
    · unfold trimLead
      split
      · next heq => simp only [List.cons.injEq] at heq; exact absurd heq.1 hc
      · rfl

theorem canonVal_clean (v : Val) (h : ',' ∉ v) : canonVal v = [v] := by
  unfold canonVal; rw [splitComma_clean v h]; rfl

theorem canonVal_join_comma (v1 v2 : Val) (h1 : ',' ∉ v1) (h2 : ',' ∉ v2)
    (h3 : v1.getLast? ≠ some ' ') (h4 : v2.head? ≠ some ' ') :
    canonVal (v1 ++ ',' :: v2) = [v1, v2] := by
  unfold canonVal
  rw [splitComma_append v1 v2 h1, splitComma_clean v2 h2]
  simp [canonParts, trimTrail_clean v1 h3, trimLead_clean v2 h4]

theorem canonVal_join_comma_space (v1 v2 : Val) (h1 : ',' ∉ v1) (h2 : ',' ∉ v2)
    (h3 : v1.getLast? ≠ some ' ') :
    canonVal (v1 ++ ',' :: ' ' :: v2) = [v1, v2] := by
  unfold canonVal
  have h2' : ',' ∉ (' ' :: v2) := by simp [h2]
  rw [splitComma_append v1 (' ' :: v2) h1, splitComma_clean _ h2']
  simp [canonParts, trimTrail_clean v1 h3, trimLead]

/-! ### membership: which discrepancy is named -/

theorem mem_checkPayloadsFrom_data (g : Int) (k : Nat) (es as : List Payload) (j : Nat)
    (he : j < es.length) (ha : j < as.length) (hd : (as[j]).data ≠ (es[j]).data) :
    Discrepancy.payloadData (k + j + 1) ∈ checkPayloadsFrom g k es as := by
  induction es generalizing as k j with
  | nil => simp at he
  | cons e es ih =>
    cases as with
    | nil => simp at ha
    | cons a as =>
      unfold checkPayloadsFrom
      cases j with
      | zero =>
        simp only [List.getElem_cons_zero] at hd
        simp [hd]
      | succ j =>
        simp only [List.getElem_cons_succ, List.length_cons, Nat.add_lt_add_iff_right] at hd he ha
        have := ih (k + 1) as j he ha hd
        rw [show k + (j + 1) + 1 = k + 1 + j + 1 by omega]
        exact List.mem_append_right _ this

theorem mem_checkPayloadsFrom_reqInfo (g : Int) (k : Nat) (es as : List Payload) (j : Nat)
    (he : j < es.length) (ha : j < as.length) (d : Discrepancy)
    (hd : d ∈ checkRequestInfo g ((es[j]).reqInfo.getD .empty) ((as[j]).reqInfo.getD .empty) (k + j == 0)) :
    d ∈ checkPayloadsFrom g k es as := by
  induction es generalizing as k j with
  | nil => simp at he
  | cons e es ih =>
    cases as with
    | nil => simp at ha
    | cons a as =>
      unfold checkPayloadsFrom
      cases j with
      | zero =>
        simp only [List.getElem_cons_zero, Nat.add_zero] at hd
        exact List.mem_append_left _ (List.mem_append_right _ hd)
      | succ j =>
        simp only [List.getElem_cons_succ, List.length_cons, Nat.add_lt_add_iff_right] at hd he ha
        rw [show k + (j + 1) = k + 1 + j by omega] at hd
        exact List.mem_append_right _ (ih (k + 1) as j he ha hd)

theorem mem_checkRequests (k : Nat) (es as : List Msg) (j : Nat)
    (he : j < es.length) (ha : j < as.length) (hd : es[j] ≠ as[j]) :
    Discrepancy.request (k + j) ∈ checkRequests k es as := by
  induction es generalizing as k j with
  | nil => simp at he
  | cons e es ih =>
    cases as with
    | nil => simp at ha
    | cons a as =>
      unfold checkRequests
      cases j with
      | zero =>
        simp only [List.getElem_cons_zero] at hd
        simp [hd]
      | succ j =>
        simp only [List.getElem_cons_succ, List.length_cons, Nat.add_lt_add_iff_right] at hd he ha
        have := ih (k + 1) as j he ha hd
        rw [show k + (j + 1) = k + 1 + j by omega]
        exact List.mem_append_right _ this

theorem mem_checkDetailsFrom (g : Int) (k : Nat) (es as : List Detail) (j : Nat)
    (he : j < es.length) (ha : j < as.length) (hne : es[j] ≠ as[j])
    (hri : ¬ ((∃ r, es[j] = .reqInfo r) ∧ (∃ r, as[j] = .reqInfo r))) :
    Discrepancy.detail (k + j + 1) ∈ checkDetailsFrom g k es as := by
  induction es generalizing as k j with
  | nil => simp at he
  | cons e es ih =>
    cases as with
    | nil => simp at ha
    | cons a as =>
      unfold checkDetailsFrom
      cases j with
      | zero =>
        simp only [List.getElem_cons_zero] at hne hri
        apply List.mem_append_left
        cases e with
        | reqInfo er =>
          cases a with
          | reqInfo ar => exact absurd ⟨⟨er, rfl⟩, ⟨ar, rfl⟩⟩ hri
          | other am => simp
        | other em =>
          cases a with
          | reqInfo ar => simp
          | other am => simp [hne]
      | succ j =>
        simp only [List.getElem_cons_succ, List.length_cons, Nat.add_lt_add_iff_right] at hne hri he ha
        have := ih (k + 1) as j he ha hne hri
        rw [show k + (j + 1) + 1 = k + 1 + j + 1 by omega]
        exact List.mem_append_right _ this

theorem mem_checkHeaders_missing (w : What) (exp act : List Header) (h : Header) (hm : h ∈ exp)
    (hno : ∀ h' ∈ act, lower h'.name ≠ lower h.name) :
    Discrepancy.headerMissing w (lower h.name) ∈ checkHeaders w exp act := by
  unfold checkHeaders
  rw [List.mem_flatMap]
  refine ⟨h, hm, ?_⟩
  unfold checkHeader
  cases hl : lookupLast act (lower h.name) with
  | none => simp
  | some v =>
    obtain ⟨y, hy, hn, _⟩ := lookupLast_some_mem act _ _ hl
    exact absurd hn (hno y hy)

theorem mem_checkHeaders_values (w : What) (exp act : List Header) (hd : NamesDistinct act)
    (h : Header) (hm : h ∈ exp) (h' : Header) (hm' : h' ∈ act) (hn : lower h'.name = lower h.name)
    (hc : canon h.values ≠ canon h'.values) :
    Discrepancy.headerValues w (lower h.name) ∈ checkHeaders w exp act := by
  unfold checkHeaders
  rw [List.mem_flatMap]
  refine ⟨h, hm, ?_⟩
  unfold checkHeader
  have := lookupLast_of_mem act hd h' hm'
  rw [hn] at this
  rw [this]
  simp [hc]

/-- an actual entry whose name matches no expected name does not matter -/
theorem lookupLast_insert (pre post : List Header) (x : Header) (n : String) (hx : lower x.name ≠ n) :
    lookupLast (pre ++ x :: post) n = lookupLast (pre ++ post) n := by
  induction pre with
  | nil =>
    simp only [List.nil_append, lookupLast, hx, if_false]
    cases lookupLast post n <;> rfl
  | cons p t ih => simp only [List.cons_append, lookupLast, ih]

theorem lookupLast_congr (act act' : List Header)
    (h : act.map (fun h => (lower h.name, h.values)) = act'.map (fun h => (lower h.name, h.values))) (n : String) :
    lookupLast act n = lookupLast act' n := by
  induction act generalizing act' with
  | nil => cases act' <;> simp_all
  | cons x t ih =>
    cases act' with
    | nil => simp at h
    | cons y t' =>
      simp only [List.map_cons, List.cons.injEq, Prod.mk.injEq] at h
      simp only [lookupLast, ih t' h.2, h.1.1, h.1.2]

end ConfModel.Assert

namespace ConfModel.Assert
open ConfModel.Agree

theorem mem_checkDetailsFrom_reqInfo (g : Int) (k : Nat) (es as : List Detail) (j : Nat)
    (he : j < es.length) (ha : j < as.length) (er ar : ReqInfo)
    (h1 : es[j] = .reqInfo er) (h2 : as[j] = .reqInfo ar) (d : Discrepancy)
    (hd : d ∈ checkRequestInfo g er ar true) : d ∈ checkDetailsFrom g k es as := by
  induction es generalizing as k j with
  | nil => simp at he
  | cons e es ih =>
    cases as with
    | nil => simp at ha
    | cons a as =>
      unfold checkDetailsFrom
      cases j with
      | zero =>
        simp only [List.getElem_cons_zero] at h1 h2
        subst h1; subst h2
        exact List.mem_append_left _ hd
      | succ j =>
        simp only [List.getElem_cons_succ, List.length_cons, Nat.add_lt_add_iff_right] at h1 h2 he ha
        exact List.mem_append_right _ (ih (k + 1) as j he ha h1 h2)

end ConfModel.Assert
