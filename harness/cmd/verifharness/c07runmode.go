package main

import (
	"encoding/json"
	"fmt"
	"os"
	"path/filepath"
	"sort"

	cc "connectrpc.com/conformance/internal/app/connectconformance"
	conformancev1 "connectrpc.com/conformance/internal/gen/proto/go/connectrpc/conformance/v1"
	"connectrpc.com/conformance/internal/verifharness/gen"
)

// c07 op runmode: the run mode is not an input of the runner but derived from which commands were
// given (glue in run()). The real Run, with recording peers (the machinery of C05), on suites of
// every suite mode: the names handed to the client must be the library of the mode the command
// combination means, and of no other.

type c07RunModeOut struct {
	Sent      []string            `json:"sent"`
	Lib       map[string][]string `json:"lib"` // "0" | "1" | "2" -> names of the real library built for that mode
	ClientCmd bool                `json:"clientCmd"`
	ServerCmd bool                `json:"serverCmd"`
	RunErr    string              `json:"runErr"`
	LoadErr   string              `json:"loadErr"`
}

func init() {
	gen.RegisterOp("c07", "runmode", func(c *gen.Ctx, raw json.RawMessage) any {
		in := gen.Into[c05In](raw)
		out := c07RunModeOut{Sent: []string{}, Lib: map[string][]string{}, ClientCmd: true, ServerCmd: in.Mode == "both"}
		res := c05Run(c, in)
		out.RunErr, out.LoadErr = res.RunErr, res.LoadErr
		for _, r := range res.Requests {
			if n, ok := r["name"].(string); ok {
				out.Sent = append(out.Sent, n)
			}
		}
		sort.Strings(out.Sent)
		dir := filepath.Join(c.WorkDir, fmt.Sprintf("c07rm-%d-%d", os.Getpid(), c05Seq.Add(1)))
		files, _ := c05Files(in, dir)
		for m := 0; m <= 2; m++ {
			perms, err := cc.VerifC05Perms(files, c05CfgYAML(in), conformancev1.TestSuite_TestMode(m), false, in.Mode != "both")
			names := []string{}
			if err != nil {
				names = append(names, "error: "+err.Error())
			}
			for _, p := range perms {
				names = append(names, p.Name)
			}
			sort.Strings(names)
			out.Lib[fmt.Sprint(m)] = names
		}
		return out
	})
}

func c07RunModeJobs(c *gen.Ctx) {
	r := c.R
	var jobs []any
	for _, mode := range []string{"client", "both"} {
		for k := 0; k < 2; k++ {
			in := c05In{Mode: mode, Versions: []int{1 + r.Intn(2)}, Protos: []int{1}, MaxServers: 2, Behaviour: "ok", Run: []string{}, Skip: []string{}}
			for i, sm := range []int{0, 1, 2, r.Intn(3)} {
				s := c05Suite{Name: fmt.Sprintf("%s%d", []string{"Plain", "ClientOnly", "ServerOnly"}[sm], i), SuiteMode: sm}
				for t := 0; t < 1+r.Intn(2); t++ {
					s.Tests = append(s.Tests, c05Test{Name: fmt.Sprintf("g/t%d", t), St: 1})
				}
				in.Suites = append(in.Suites, s)
			}
			jobs = append(jobs, in)
		}
	}
	c.DoParallel("runmode", jobs, 4)
}
