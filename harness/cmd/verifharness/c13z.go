package main

// C13 — compressed responses through the complete wire path.
//
// The ops of c13.go hand the examiners their input directly (cerr/cend/grpcweb) or put an
// end-stream message into a hand-made trace (serve/wire). A real server may compress what the
// examiners look at: the body of a Connect unary error (Content-Encoding), the end-stream
// message of a Connect stream (Connect-Content-Encoding + the envelope's compressed flag) and
// the trailers frame of gRPC-Web (Grpc-Encoding + flag). Which decompressor is used is decided
// by glue code in three places (examineWireDetails, tracer.propertiesFromHeaders,
// tracer.GetDecompressor) from the *header value*, and names of content codings are
// case-insensitive (RFC 9110 §8.4.1).
//
// ops (bytes are hex)
//   zcerr    : {json, kind, comp, enc, status, chunk}                  Connect unary error body
//   zcend    : {json, kind, comp, enc, flag, dataBefore, chunk}        Connect end-stream message
//   zgrpcweb : {block, comp, enc, flag, dataBefore, chunk}             gRPC-Web trailers frame
// comp 0..5 = identity, gzip, br, zstd, deflate, snappy is the coding really applied; enc is the
// header value announcing it (absent when null). The exchange is performed in memory through
// newWireCaptureTransport (tracing round tripper, wire reader), the body is read to EOF and
// examineWireDetails reports. The output is that of cerr / cend / grpcweb on the *plain*
// payload with the feedback replaced by the feedback of the exchange (and the former kept as
// `direct`), so that the driver judges it with the same predicates.

import (
	"bytes"
	"encoding/json"
	"net/http"
	"strings"

	rc "connectrpc.com/conformance/internal/app/referenceclient"
	"connectrpc.com/conformance/internal/compression"
	conformancev1 "connectrpc.com/conformance/internal/gen/proto/go/connectrpc/conformance/v1"
	"connectrpc.com/conformance/internal/verifharness/gen"
)

func init() {
	gen.RegisterOp("c13", "zcerr", func(c *gen.Ctx, raw json.RawMessage) any {
		return c13ZJSON(c, gen.Into[c13ZIn](raw), false)
	})
	gen.RegisterOp("c13", "zcend", func(c *gen.Ctx, raw json.RawMessage) any {
		return c13ZJSON(c, gen.Into[c13ZIn](raw), true)
	})
	gen.RegisterOp("c13", "zgrpcweb", func(c *gen.Ctx, raw json.RawMessage) any {
		return c13ZBlock(c, gen.Into[c13ZIn](raw))
	})
}

type c13ZIn struct {
	JSON       string  `json:"json,omitempty"`  // hex (zcerr, zcend)
	Block      string  `json:"block,omitempty"` // hex (zgrpcweb)
	Kind       string  `json:"kind"`            // own | mut:<class> (zcerr, zcend)
	Comp       int     `json:"comp"`
	Enc        *string `json:"enc"`
	Flag       bool    `json:"flag"` // the end-stream envelope has the compressed flag (and is compressed)
	DataBefore bool    `json:"dataBefore"`
	Status     int     `json:"status"`
	Chunk      int     `json:"chunk"`
}

var c13Codings = []string{"identity", "gzip", "br", "zstd", "deflate", "snappy"}

// c13Compress applies coding comp (0..5) with the repository's own compressors.
func c13Compress(comp int, data []byte) []byte {
	cmp, err := compression.GetCompressor(conformancev1.Compression(comp + 1))
	if err != nil {
		panic(err)
	}
	if comp == 0 {
		return data
	}
	var buf bytes.Buffer
	cmp.Reset(&buf)
	if _, err := cmp.Write(data); err != nil {
		panic(err)
	}
	if err := cmp.Close(); err != nil {
		panic(err)
	}
	return buf.Bytes()
}

type c13ZJSONOut struct {
	c13JSONOut
	Direct []string `json:"direct"`
	OK     bool     `json:"ok"`
}

type c13ZBlockOut struct {
	c13ExamineOut
	Direct1 []string `json:"direct1"`
	Direct2 []string `json:"direct2"`
	Other   []string `json:"other"`
	OK      bool     `json:"ok"`
}

// c13ZStreamBody: optional data message, then the end-stream frame.
func c13ZStreamBody(in c13ZIn, endFlags byte, payload []byte) []byte {
	var body []byte
	if in.DataBefore {
		msg := []byte("\x0a\x03abc")
		if in.Comp != 0 {
			body = append(body, c13Envelope(1, c13Compress(in.Comp, msg))...)
		} else {
			body = append(body, c13Envelope(0, msg)...)
		}
	}
	if in.Flag {
		return append(body, c13Envelope(endFlags|1, c13Compress(in.Comp, payload))...)
	}
	return append(body, c13Envelope(endFlags, payload)...)
}

func c13ZExchange(c *gen.Ctx, r rc.VerifC13Response) ([]string, bool) {
	_, ok, msgs, err := rc.VerifC13Exchange(r)
	if err != nil {
		panic(err)
	}
	return c13Classes(c, msgs), ok
}

func c13ZJSON(c *gen.Ctx, in c13ZIn, endStream bool) c13ZJSONOut {
	raw := c13Un(in.JSON)
	out := c13ZJSONOut{c13JSONOut: c13ExamineJSON(c, c13JSONIn{JSON: in.JSON, Kind: in.Kind}, endStream)}
	out.Direct = out.Fb
	r := rc.VerifC13Response{StatusCode: in.Status, Header: http.Header{}, Chunk: in.Chunk}
	if endStream {
		r.StatusCode = http.StatusOK
		r.Header.Set("Content-Type", "application/connect+proto")
		if in.Enc != nil {
			r.Header.Set("Connect-Content-Encoding", *in.Enc)
		}
		r.Body = c13ZStreamBody(in, 0x02, raw)
	} else {
		r.Header.Set("Content-Type", "application/json")
		if in.Enc != nil {
			r.Header.Set("Content-Encoding", *in.Enc)
		}
		r.Body = c13Compress(in.Comp, raw)
	}
	out.Fb, out.OK = c13ZExchange(c, r)
	c13ZCount(c, in, endStream)
	return out
}

func c13ZBlock(c *gen.Ctx, in c13ZIn) c13ZBlockOut {
	block := c13Un(in.Block)
	out := c13ZBlockOut{c13ExamineOut: c13Examine(c, string(block)), Other: []string{}}
	out.Direct1, out.Direct2 = out.Fb1, out.Fb2
	r := rc.VerifC13Response{StatusCode: http.StatusOK, Header: http.Header{}, Chunk: in.Chunk}
	r.Header.Set("Content-Type", "application/grpc-web+proto")
	if in.Enc != nil {
		r.Header.Set("Grpc-Encoding", *in.Enc)
	}
	r.Body = c13ZStreamBody(in, 0x80, block)
	fb, ok := c13ZExchange(c, r)
	out.OK = ok
	out.Fb1, out.Fb2 = []string{}, []string{}
	for _, f := range fb {
		switch {
		case strings.HasPrefix(f, "es:"):
			out.Fb1 = append(out.Fb1, f)
		case strings.HasPrefix(f, "st:"):
			out.Fb2 = append(out.Fb2, f)
		default:
			out.Other = append(out.Other, f)
		}
	}
	c13ZCount(c, in, true)
	return out
}

func c13ZCount(c *gen.Ctx, in c13ZIn, stream bool) {
	c.E.Count("z:coding:" + c13Codings[in.Comp])
	switch {
	case in.Enc == nil:
		c.E.Count("z:enc:absent")
	case *in.Enc == strings.ToLower(*in.Enc):
		c.E.Count("z:enc:lower-case")
	case *in.Enc == strings.ToUpper(*in.Enc):
		c.E.Count("z:enc:upper-case")
	default:
		c.E.Count("z:enc:mixed-case")
	}
	if stream && !in.Flag {
		c.E.Count("z:end-stream-not-compressed")
	}
}

// ---------------------------------------------------------------- generator

// c13Casings: the spellings of a coding name - lower, Title, UPPER (+ alternating ones in the
// thorough tier).
func c13Casings(name string, thorough bool) []string {
	out := []string{name, strings.ToUpper(name[:1]) + name[1:], strings.ToUpper(name)}
	if thorough {
		alt := func(odd int) string {
			b := []byte(name)
			for i := range b {
				if i%2 == odd {
					b[i] = strings.ToUpper(string(b[i]))[0]
				}
			}
			return string(b)
		}
		for _, s := range []string{alt(1), alt(0), name[:len(name)-1] + strings.ToUpper(name[len(name)-1:])} {
			dup := false
			for _, o := range out {
				dup = dup || o == s
			}
			if !dup {
				out = append(out, s)
			}
		}
	}
	return out
}

// c13ZGen: every coding x every spelling, for the three places a compressed payload reaches the
// examiners, well-formed payloads of the repository's own server and single malformations.
func c13ZGen(c *gen.Ctx, errBodies, endBodies [][]byte, blocks []string) {
	r := c.R
	thorough := c.Thorough()
	pick := func(n, limit int) int {
		if n < limit {
			return n
		}
		return limit
	}
	nBodies := 4
	if thorough {
		nBodies = 16
	}
	chunks := []int{0, 0, 1, 3, 7, 64}
	statuses := []int{400, 404, 429, 500, 503}
	type variant struct {
		comp int
		enc  *string
	}
	var variants []variant
	for comp, name := range c13Codings {
		for _, s := range c13Casings(name, thorough) {
			s := s
			variants = append(variants, variant{comp, &s})
		}
	}
	variants = append(variants, variant{0, nil}) // identity by omission
	each := func(nMutants int, wellFormed func(v variant, i int), mutant func(v variant, i, k int), n int) {
		for i := 0; i < n; i++ {
			for vi, v := range variants {
				wellFormed(v, i)
				for k := 0; k < nMutants; k++ {
					mutant(v, i, vi*nMutants+k)
				}
			}
		}
	}
	// a header that does not announce the coding applied (unknown name, another coding, none):
	// nothing is demanded of the feedback, the examiner must merely survive
	for i, enc := range []string{"gzipx", "x-gzip", "br", "", "snappy, gzip", "\xc3\x9fzip"} {
		enc := enc
		encp := &enc
		if enc == "" {
			encp = nil
		}
		comp := 1 + i%5
		if len(errBodies) > 0 {
			c.Do("zcerr", c13ZIn{JSON: gen.Hex(errBodies[0]), Kind: "own", Comp: comp, Enc: encp, Status: 400})
		}
		if len(endBodies) > 0 {
			c.Do("zcend", c13ZIn{JSON: gen.Hex(endBodies[0]), Kind: "own", Comp: comp, Enc: encp, Flag: true})
		}
		if len(blocks) > 0 {
			c.Do("zgrpcweb", c13ZIn{Block: c13Hx(blocks[0]), Comp: comp, Enc: encp, Flag: true, DataBefore: true})
		}
		c.E.Count("kind:z-coding-not-announced")
	}
	nMut := 2
	if thorough {
		nMut = 6
	}
	// Connect unary error bodies
	each(nMut, func(v variant, i int) {
		c.Do("zcerr", c13ZIn{JSON: gen.Hex(errBodies[i]), Kind: "own", Comp: v.comp, Enc: v.enc, Status: gen.Pick(r, statuses), Chunk: gen.Pick(r, chunks)})
		c.E.Count("kind:z-cerr-own")
	}, func(v variant, i, k int) {
		ms := c13JSONMutants(errBodies[i], false)
		if len(ms) == 0 {
			return
		}
		m := ms[k%len(ms)]
		c.Do("zcerr", c13ZIn{JSON: gen.Hex(m.json), Kind: "mut:" + m.cls, Comp: v.comp, Enc: v.enc, Status: gen.Pick(r, statuses), Chunk: gen.Pick(r, chunks)})
		c.E.Count("kind:z-cerr-mutant")
	}, pick(len(errBodies), nBodies))
	// Connect end-stream messages
	each(nMut, func(v variant, i int) {
		c.Do("zcend", c13ZIn{JSON: gen.Hex(endBodies[i]), Kind: "own", Comp: v.comp, Enc: v.enc, Flag: v.comp != 0, DataBefore: r.Bool(), Chunk: gen.Pick(r, chunks)})
		if v.comp != 0 && i%2 == 0 { // negotiated, but this message is not compressed
			c.Do("zcend", c13ZIn{JSON: gen.Hex(endBodies[i]), Kind: "own", Comp: v.comp, Enc: v.enc, Flag: false, DataBefore: r.Bool(), Chunk: gen.Pick(r, chunks)})
		}
		c.E.Count("kind:z-cend-own")
	}, func(v variant, i, k int) {
		ms := c13JSONMutants(endBodies[i], true)
		if len(ms) == 0 {
			return
		}
		m := ms[k%len(ms)]
		c.Do("zcend", c13ZIn{JSON: gen.Hex(m.json), Kind: "mut:" + m.cls, Comp: v.comp, Enc: v.enc, Flag: v.comp != 0, DataBefore: r.Bool(), Chunk: gen.Pick(r, chunks)})
		c.E.Count("kind:z-cend-mutant")
	}, pick(len(endBodies), nBodies))
	// gRPC-Web trailer frames
	each(nMut, func(v variant, i int) {
		c.Do("zgrpcweb", c13ZIn{Block: c13Hx(blocks[i]), Comp: v.comp, Enc: v.enc, Flag: v.comp != 0, DataBefore: r.Bool(), Chunk: gen.Pick(r, chunks)})
		if v.comp != 0 && i%2 == 0 {
			c.Do("zgrpcweb", c13ZIn{Block: c13Hx(blocks[i]), Comp: v.comp, Enc: v.enc, Flag: false, DataBefore: r.Bool(), Chunk: gen.Pick(r, chunks)})
		}
		c.E.Count("kind:z-grpcweb-own")
	}, func(v variant, i, k int) {
		ms := c13StructuredMutants(r, blocks[i])
		if len(ms) == 0 {
			return
		}
		m := ms[k%len(ms)]
		if m == "" {
			return
		}
		c.Do("zgrpcweb", c13ZIn{Block: c13Hx(m), Comp: v.comp, Enc: v.enc, Flag: v.comp != 0, DataBefore: r.Bool(), Chunk: gen.Pick(r, chunks)})
		c.E.Count("kind:z-grpcweb-mutant")
	}, pick(len(blocks), nBodies))
}
