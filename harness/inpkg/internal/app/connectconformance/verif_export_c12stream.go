//go:build verif

package connectconformance

import (
	"context"
	"errors"
	"io"
	"sort"
	"sync"
	"time"

	conformancev1 "connectrpc.com/conformance/internal/gen/proto/go/connectrpc/conformance/v1"
	"google.golang.org/protobuf/proto"
)

// C12 - the REAL runTestCasesForServer as the reader of a reference server's whole stderr
// stream, for a batch of test cases, with the stream an io.Reader of the caller's choice (a
// recorded stream cut into reads of a given size, or the read end of a pipe that the server
// writes while the batch runs) and a hook that runs while the batch is under way: the scripted
// client calls `during(i, name)` when it is handed the request of case i (that is when a real
// client would send its RPC to the server) and answers with the expected response.

// VerifC12BatchObs is what the runner made of the stream.
type VerifC12BatchObs struct {
	Sideband  [][2]string // sorted (test case, feedback recorded for it)
	Forwarded []string    // lines passed on to the user as noise
	BadPrefix int
	Outcomes  [][2]string // sorted (test case, class)
	Hang      bool        // runTestCasesForServer did not return within the window
	Sent      int         // requests handed to the client
}

// VerifC12HangWindow: how long the batch may take before it is declared hung. A correct run
// takes milliseconds; the window only decides how long a run that will never finish is waited
// for, so it is generous rather than tight.
const VerifC12HangWindow = 30 * time.Second

type verifC12Client struct {
	cases  []*conformancev1.TestCase
	during func(i int, name string)
	mu     sync.Mutex
	calls  int
}

func (c *verifC12Client) sendRequest(req *conformancev1.ClientCompatRequest, whenDone func(string, *conformancev1.ClientCompatResponse, error)) error {
	c.mu.Lock()
	i := c.calls
	c.calls++
	c.mu.Unlock()
	if i >= len(c.cases) {
		return errors.New("verif: more requests than cases")
	}
	if c.during != nil {
		c.during(i, req.TestName)
	}
	whenDone(req.TestName, &conformancev1.ClientCompatResponse{TestName: req.TestName, Result: &conformancev1.ClientCompatResponse_Response{
		Response: proto.Clone(c.cases[i].ExpectedResponse).(*conformancev1.ClientResponseResult), //nolint:forcetypeassert
	}}, nil)
	return nil
}

func (c *verifC12Client) closeSend()              {}
func (c *verifC12Client) waitForResponses() error { return nil }
func (c *verifC12Client) isRunning() bool         { return true }
func (c *verifC12Client) stop()                   {}

// VerifC12RunBatch runs the real runTestCasesForServer for a reference server whose stderr is
// `stderr`. onExit is called when the runner ends the server process (abort): a real process
// closes its end of the stderr pipe then. unblock is called when the batch hangs, before the
// wrapper gives up waiting (it should make pending writes of the server fail).
func VerifC12RunBatch(names []string, stderr io.Reader, during func(i int, name string), onExit func(), unblock func()) VerifC12BatchObs {
	cases := make([]*conformancev1.TestCase, len(names))
	for i, n := range names {
		cases[i] = &conformancev1.TestCase{
			Request:          &conformancev1.ClientCompatRequest{TestName: n},
			ExpectedResponse: &conformancev1.ClientResponseResult{Payloads: []*conformancev1.ConformancePayload{{Data: []byte("data")}}},
		}
	}
	results := newResults(len(cases), &testTrie{}, &testTrie{}, nil)
	printer := &verifC11Printer{}
	proc := &verifC11Proc{doneCh: make(chan struct{})}
	if onExit != nil {
		proc.whenDone(func(error) { onExit() })
	}
	starter := func(_ context.Context, _ bool) (*process, error) {
		return &process{processController: proc, stdin: &verifC11Stdin{spec: &VerifC11Spec{Write: "ok", Close: "ok"}},
			stdout: &verifC11Stdout{proc: proc, data: verifC11RespBytes(false)}, stderr: stderr}, nil
	}
	client := &verifC12Client{cases: cases, during: during}
	meta := serverInstance{protocol: conformancev1.Protocol_PROTOCOL_CONNECT, httpVersion: conformancev1.HTTPVersion_HTTP_VERSION_1}
	done := make(chan struct{})
	go func() {
		defer close(done)
		runTestCasesForServer(context.Background(), false, true, meta, cases, nil, nil, starter,
			verifNopPrinter{}, printer, results, client, nil, false)
	}()
	var obs VerifC12BatchObs
	t := time.NewTimer(VerifC12HangWindow)
	select {
	case <-done:
		t.Stop()
	case <-t.C:
		obs.Hang = true
		if unblock != nil {
			unblock()
		}
		proc.stop()
		t2 := time.NewTimer(VerifC12HangWindow)
		select {
		case <-done:
		case <-t2.C:
		}
		t2.Stop()
	}
	client.mu.Lock()
	obs.Sent = client.calls
	client.mu.Unlock()
	results.mu.Lock()
	for name, o := range results.outcomes {
		obs.Outcomes = append(obs.Outcomes, [2]string{name, verifC11Class(o)})
	}
	for name, msg := range results.serverSideband {
		obs.Sideband = append(obs.Sideband, [2]string{name, msg})
	}
	results.mu.Unlock()
	sort.Slice(obs.Outcomes, func(i, j int) bool { return obs.Outcomes[i][0] < obs.Outcomes[j][0] })
	sort.Slice(obs.Sideband, func(i, j int) bool { return obs.Sideband[i][0] < obs.Sideband[j][0] })
	printer.mu.Lock()
	obs.Forwarded = append([]string{}, printer.forwarded...)
	obs.BadPrefix = printer.bad
	printer.mu.Unlock()
	if obs.Outcomes == nil {
		obs.Outcomes = [][2]string{}
	}
	if obs.Sideband == nil {
		obs.Sideband = [][2]string{}
	}
	return obs
}

// ---------------------------------------------------------------------------------------------
// The reference CLIENT's feedback (mode server: the client under the runner's control is the
// reference client; its ClientResponseResult.feedback lists what it found wrong with the server's
// response). The callback of runTestCasesForServer hands every message to
// results.recordSideband(resp.TestName, msg); report() merges them into the outcomes.
// ---------------------------------------------------------------------------------------------

// VerifC12ClientCase: what the scripted reference client answers for one case.
type VerifC12ClientCase struct {
	Name     string
	Mismatch bool     // the response differs from the expected one (the case fails on its own account)
	Feedback []string // ClientResponseResult.feedback
}

type VerifC12ClientFbObs struct {
	Sideband [][2]string // sorted (test case, message held for it) after the batch
	Merged   [][2]string // sorted (test case, text of its failure) after the merge report() performs; cases without failure are absent
	Hang     bool
}

type verifC12FbClient struct {
	cases []VerifC12ClientCase
	tcs   []*conformancev1.TestCase
	mu    sync.Mutex
	calls int
}

func (c *verifC12FbClient) sendRequest(req *conformancev1.ClientCompatRequest, whenDone func(string, *conformancev1.ClientCompatResponse, error)) error {
	c.mu.Lock()
	i := c.calls
	c.calls++
	c.mu.Unlock()
	if i >= len(c.cases) {
		return errors.New("verif: more requests than cases")
	}
	result := proto.Clone(c.tcs[i].ExpectedResponse).(*conformancev1.ClientResponseResult) //nolint:forcetypeassert
	if c.cases[i].Mismatch {
		result.Payloads = []*conformancev1.ConformancePayload{{Data: []byte("other")}}
	}
	result.Feedback = append([]string{}, c.cases[i].Feedback...)
	whenDone(req.TestName, &conformancev1.ClientCompatResponse{TestName: req.TestName,
		Result: &conformancev1.ClientCompatResponse_Response{Response: result}}, nil)
	return nil
}

func (c *verifC12FbClient) closeSend()              {}
func (c *verifC12FbClient) waitForResponses() error { return nil }
func (c *verifC12FbClient) isRunning() bool         { return true }
func (c *verifC12FbClient) stop()                   {}

// VerifC12ClientFeedback runs the real runTestCasesForServer (reference client, server under
// test) on a scripted server process and the scripted reference client.
func VerifC12ClientFeedback(cases []VerifC12ClientCase) VerifC12ClientFbObs {
	tcs := make([]*conformancev1.TestCase, len(cases))
	for i, cs := range cases {
		tcs[i] = &conformancev1.TestCase{
			Request:          &conformancev1.ClientCompatRequest{TestName: cs.Name},
			ExpectedResponse: &conformancev1.ClientResponseResult{Payloads: []*conformancev1.ConformancePayload{{Data: []byte("data")}}},
		}
	}
	results := newResults(len(tcs), &testTrie{}, &testTrie{}, nil)
	proc := &verifC11Proc{doneCh: make(chan struct{})}
	starter := func(_ context.Context, _ bool) (*process, error) {
		return &process{processController: proc, stdin: &verifC11Stdin{spec: &VerifC11Spec{Write: "ok", Close: "ok"}},
			stdout: &verifC11Stdout{proc: proc, data: verifC11RespBytes(false)}, stderr: &verifC11Stderr{eof: make(chan struct{})}}, nil
	}
	client := &verifC12FbClient{cases: cases, tcs: tcs}
	meta := serverInstance{protocol: conformancev1.Protocol_PROTOCOL_CONNECT, httpVersion: conformancev1.HTTPVersion_HTTP_VERSION_1}
	done := make(chan struct{})
	go func() {
		defer close(done)
		runTestCasesForServer(context.Background(), true, false, meta, tcs, nil, nil, starter,
			verifNopPrinter{}, verifNopPrinter{}, results, client, nil, false)
	}()
	var obs VerifC12ClientFbObs
	t := time.NewTimer(VerifC12HangWindow)
	select {
	case <-done:
		t.Stop()
	case <-t.C:
		obs.Hang = true
		proc.stop()
		return obs
	}
	results.mu.Lock()
	for name, msg := range results.serverSideband {
		obs.Sideband = append(obs.Sideband, [2]string{name, msg})
	}
	// what report() does first
	results.processSidebandInfoLocked()
	for name, o := range results.outcomes {
		if o.actualFailure != nil {
			obs.Merged = append(obs.Merged, [2]string{name, o.actualFailure.Error()})
		}
	}
	results.mu.Unlock()
	sort.Slice(obs.Sideband, func(i, j int) bool { return obs.Sideband[i][0] < obs.Sideband[j][0] })
	sort.Slice(obs.Merged, func(i, j int) bool { return obs.Merged[i][0] < obs.Merged[j][0] })
	if obs.Sideband == nil {
		obs.Sideband = [][2]string{}
	}
	if obs.Merged == nil {
		obs.Merged = [][2]string{}
	}
	return obs
}
