package main

import (
	"bytes"
	"encoding/json"
	"fmt"
	"os"
	"os/exec"
	"path/filepath"
	"regexp"
	"sort"
	"strconv"
	"strings"
	"syscall"
	"time"

	cc "connectrpc.com/conformance/internal/app/connectconformance"
	"connectrpc.com/conformance/internal/verifharness/gen"
)

// C04, op "runcli": the scenarios of op "runloop" through the real command `connectconformance`
// built from the tree (cmd/connectconformance: flag parsing, the mapping of flags to
// connectconformance.Flags, the printers on stdout / stderr, and the exit status).  Input and
// output have the shape of "runloop"; `ok` is "the process exited with status 0", any status
// other than 0 and 1 (and a death by signal) is reported in `err`.  The Lean driver judges it
// with the same rule and the same model (ConfModel.RunLoop) as "runloop": the exit status of the
// command is the verdict of the run.
//
// The flags are spelled in the ways the command line accepts: patterns as repeated flags or
// through an @file, -v or nothing, --max-servers as `--max-servers N` or `--max-servers=N`.

var (
	c04CliReFailed   = regexp.MustCompile(`(?m)^FAILED: ([^\n]+):$`)
	c04CliReFailedUP = regexp.MustCompile(`(?m)^FAILED: ([^\n]+) was expected to fail but did not$`)
	c04CliReInfo     = regexp.MustCompile(`(?m)^INFO: ([^\n]+) failed \(as expected\):$`)
	c04CliReTotal    = regexp.MustCompile(`(?m)^Total cases: (\d+)\n(\d+) passed, (\d+) failed$`)
	c04CliReNotRun   = regexp.MustCompile(`(?m)^Another (\d+) could not be run due to client timing out or exiting prematurely\.$`)
	c04CliReExpected = regexp.MustCompile(`(?m)^\(Another (\d+) failed as expected due to being known failures/flakes\.\)$`)
)

func init() {
	gen.RegisterOp("c04", "runcli", func(c *gen.Ctx, raw json.RawMessage) any {
		return c04RunCli(c, gen.Into[c04LoopIn](raw))
	})
}

func c04RunCli(c *gen.Ctx, in c04LoopIn) c04LoopOut {
	valid := in.Layout >= 1 && in.Layout <= 3 && in.MaxServers >= 1 && len(in.Cases) > 0
	switch in.Stop {
	case "serve", "serve3", "exit0", "exit3", "closeout", "blind0":
	default:
		valid = false
	}
	for _, code := range in.Cases {
		if len(code) != 2 || (code[0] != 'r' && code[0] != 'w') || (code[1] != 'u' && code[1] != 'f' && code[1] != 'k') {
			valid = false
		}
	}
	if !valid || c.BinDir == "" {
		return c04LoopOut{Invalid: true}
	}
	suite, failing, flaky := c04LoopSuite(in.Cases)
	cfg := c04LoopCfg(in.Layout)
	dir := filepath.Join(c.WorkDir, fmt.Sprintf("c04cli-%d-%d", os.Getpid(), c04RunSeq.Add(1)))
	if err := os.MkdirAll(dir, 0o755); err != nil {
		panic(err)
	}
	defer os.RemoveAll(dir)
	out := c04LoopOut{Total: -1, Answered: []string{}, Blind: []string{}, FailedNames: []string{}, InfoNames: []string{}}
	suitePath, cfgPath := filepath.Join(dir, "suite.yaml"), filepath.Join(dir, "config.yaml")
	batches, err := cc.VerifC04Batches(suitePath, suite, cfg)
	if err != nil {
		out.Err = "load: " + err.Error()
		return out
	}
	out.Batches = batches
	if err := os.WriteFile(suitePath, []byte(suite), 0o600); err != nil {
		panic(err)
	}
	if err := os.WriteFile(cfgPath, []byte(cfg), 0o600); err != nil {
		panic(err)
	}
	args := []string{"--mode", "client", "--conf", cfgPath, "--test-file", suitePath, "--bind", "127.0.0.1"}
	// the spelling of the flags is derived from the scenario (a pure function of the input)
	variant := in.K + in.Layout + in.MaxServers + len(in.Cases)
	if variant%2 == 0 {
		args = append(args, "--max-servers", strconv.Itoa(in.MaxServers))
	} else {
		args = append(args, "--max-servers="+strconv.Itoa(in.MaxServers))
	}
	if !in.Quiet {
		args = append(args, "-v")
	}
	addPatterns := func(flag string, pats []string, viaFile bool) {
		if len(pats) == 0 {
			return
		}
		if viaFile {
			p := filepath.Join(dir, strings.TrimPrefix(flag, "--")+".txt")
			if err := os.WriteFile(p, []byte("# patterns\n"+strings.Join(pats, "\n")+"\n"), 0o600); err != nil {
				panic(err)
			}
			args = append(args, flag, "@"+p)
			return
		}
		for _, p := range pats {
			args = append(args, flag, p)
		}
	}
	addPatterns("--known-failing", failing, variant%3 == 0)
	addPatterns("--known-flaky", flaky, variant%3 == 1)
	self, _ := os.Executable()
	args = append(args, "--", self, "c04peer", dir, filepath.Join(c.BinDir, "referenceclient"), strconv.Itoa(in.K), in.Stop)
	cmd := exec.Command(filepath.Join(c.BinDir, "connectconformance"), args...)
	var stdout, stderr bytes.Buffer
	cmd.Stdout, cmd.Stderr = &stdout, &stderr
	cmd.SysProcAttr = &syscall.SysProcAttr{Setpgid: true}
	done := make(chan error, 1)
	if err := cmd.Start(); err != nil {
		out.Err = "start: " + err.Error()
		return out
	}
	go func() { done <- cmd.Wait() }()
	var werr error
	select {
	case werr = <-done:
	case <-time.After(150 * time.Second):
		_ = syscall.Kill(-cmd.Process.Pid, syscall.SIGKILL)
		<-done
		out.Err = "the command did not end within 150 s"
		return out
	}
	code := 0
	if werr != nil {
		if ee, ok := werr.(*exec.ExitError); ok {
			code = ee.ExitCode()
		} else {
			code = -2
		}
	}
	out.OK = code == 0
	if code != 0 && code != 1 {
		out.Err = fmt.Sprintf("exit status %d: %s", code, c04Tail(stderr.String(), 300))
	} else if code == 1 {
		// status 1 is both "the run failed" and fatal(): the latter prints to stderr and no totals
		if !c04CliReTotal.MatchString(stdout.String()) {
			out.Err = "exit status 1 without a report: " + c04Tail(stderr.String(), 300)
		}
	}
	text := stdout.String()
	atoi := func(s string) int { v, _ := strconv.Atoi(s); return v }
	for _, g := range c04CliReFailedUP.FindAllStringSubmatch(text, -1) {
		out.FailedNames = append(out.FailedNames, g[1])
	}
	for _, g := range c04CliReFailed.FindAllStringSubmatch(text, -1) {
		out.FailedNames = append(out.FailedNames, g[1])
	}
	for _, g := range c04CliReInfo.FindAllStringSubmatch(text, -1) {
		out.InfoNames = append(out.InfoNames, g[1])
	}
	if g := c04CliReTotal.FindStringSubmatch(text); g != nil {
		out.Total, out.Passed, out.Failed = atoi(g[1]), atoi(g[2]), atoi(g[3])
	}
	if g := c04CliReNotRun.FindStringSubmatch(text); g != nil {
		out.NotRun = atoi(g[1])
	}
	if g := c04CliReExpected.FindStringSubmatch(text); g != nil {
		out.Expected = atoi(g[1])
	}
	logs, _ := filepath.Glob(filepath.Join(dir, "cli-*.log"))
	for _, l := range logs {
		data, _ := os.ReadFile(l)
		for _, n := range strings.Split(string(data), "\n") {
			if strings.HasPrefix(n, "!") {
				n = n[1:]
				out.Blind = append(out.Blind, n)
			}
			if n != "" {
				out.Answered = append(out.Answered, n)
			}
		}
	}
	sort.Strings(out.Answered)
	sort.Strings(out.Blind)
	sort.Strings(out.FailedNames)
	sort.Strings(out.InfoNames)
	return out
}

func c04Tail(s string, n int) string {
	if len(s) > n {
		return s[len(s)-n:]
	}
	return s
}

// c04CliGen: a cut through the scenarios of c04LoopGen (no scenario that waits for the 20 s
// response time-out): every way the command can end — success, failing cases, cases that could
// not be run, a client that dies — with and without -v, --max-servers 1 and more.
func c04CliGen(c *gen.Ctx) {
	if c.BinDir == "" {
		return
	}
	r := c.R.Fork()
	var ins []any
	add := func(layout, ms int, cases []string, k int, stop string, quiet bool) {
		ins = append(ins, c04LoopIn{Layout: layout, MaxServers: ms, Cases: cases, K: k, Stop: stop, Quiet: quiet})
		c.E.Count("runcli:" + stop)
	}
	good := []string{"ru", "wf", "rk"}
	add(1, 1, good, -1, "serve", true)                      // everything answered and as expected: status 0
	add(2, 4, good, -1, "serve", false)                     // the same, two batches, -v
	add(1, 1, []string{"ru", "wu"}, -1, "serve", true)      // an unmarked case fails: status 1, named
	add(2, 2, []string{"rf", "ru"}, -1, "serve", true)      // a known-failing case passes: status 1
	add(1, 4, []string{"wk", "rk", "wf"}, -1, "serve", false)
	add(1, 1, good, -1, "serve3", true)                     // every case answered, then the client exits with 3
	add(1, 1, []string{"ru"}, 0, "exit0", true)             // the client exits before any request
	add(2, 1, good, 3, "exit0", true)                       // exactly between two batches
	add(2, 4, good, 2, "exit0", false)                      // inside a batch
	add(3, 1, []string{"ru", "rf"}, 3, "exit3", true)
	add(2, 1, []string{"rk", "rk", "rk"}, 2, "blind0", true) // no error latched (F03 + F04)
	nRand := 3
	if c.Thorough() {
		nRand = 40
	}
	codes := []string{"ru", "rf", "rk", "wu", "wf", "wk"}
	for i := 0; i < nRand; i++ {
		layout := r.Range(1, 3)
		cs := make([]string, r.Range(1, 4))
		for j := range cs {
			if r.Chance(2, 3) {
				cs[j] = gen.Pick(r, good)
			} else {
				cs[j] = gen.Pick(r, codes)
			}
		}
		n := len(cs) * layout
		stop := gen.Pick(r, []string{"exit0", "exit0", "exit3", "serve", "serve", "serve3"})
		k := r.Range(0, n)
		if stop == "serve" || stop == "serve3" {
			k = -1
		}
		add(layout, gen.Pick(r, []int{1, 2, 4}), cs, k, stop, r.Bool())
	}
	c.DoParallel("runcli", ins, 8)
}

// ---- op "cliargs": the command line's own decisions (cmd/connectconformance/main.go run()):
// which invocations are refused and with which message, how the positional arguments are split
// into client and server command.  No peer is ever started: every command name used does not
// exist (or only the client's does), so an invocation that passes validation ends in the look-up
// of the first command name that does not exist, which names it.
//
// in  = {mode?, version, command, maxServers?, port?, parallel?, bind?, cert?, key?}; a flag is
//       given on the command line iff its field is present; cert/key: "" | "missing" | "present"
// impl = {exit, class}: class is the refusal (by its fixed message), "version", "lookpath:<name>",
//       "open:<cert|key>", or "other: <text>"

type c04ArgsIn struct {
	Mode       *string  `json:"mode,omitempty"`
	Version    bool     `json:"version,omitempty"`
	Command    []string `json:"command"`
	MaxServers *int     `json:"maxServers,omitempty"`
	Port       *int     `json:"port,omitempty"`
	Parallel   *int     `json:"parallel,omitempty"`
	Bind       *string  `json:"bind,omitempty"`
	Cert       *string  `json:"cert,omitempty"`
	Key        *string  `json:"key,omitempty"`
}

type c04ArgsOut struct {
	Exit  int    `json:"exit"`
	Class string `json:"class"`
}

var c04ArgsMsgs = []struct {
	re    *regexp.Regexp
	class string
}{
	{regexp.MustCompile(`^Positional arguments are required`), "noCommand"},
	{regexp.MustCompile(`^Invalid max servers: must be greater than zero`), "maxServersZero"},
	{regexp.MustCompile(`^Invalid max servers: cannot be greater than one when non-zero --port`), "maxServersWithPort"},
	{regexp.MustCompile(`^Invalid parallelism: must be greater than zero`), "parallelZero"},
	{regexp.MustCompile(`^Command is missing "----" separator`), "noSeparator"},
	{regexp.MustCompile(`^Client command \(before the "----"\) is empty`), "emptyClient"},
	{regexp.MustCompile(`^Server command \(after the "----"\) is empty`), "emptyServer"},
	{regexp.MustCompile(`^Invalid mode: expecting "client", "server", or "both"`), "badMode"},
	{regexp.MustCompile(`^Cannot specify --cert flag when mode is `), "certNotClient"},
	{regexp.MustCompile(`^Cannot specify --key flag when mode is `), "keyNotClient"},
	{regexp.MustCompile(`^Cannot specify --port flag when mode is `), "portNotClient"},
	{regexp.MustCompile(`^Cannot specify --bind flag when mode is `), "bindNotClient"},
	{regexp.MustCompile(`^Cannot specify --parallel/-p flag when mode is `), "parallelNotServer"},
	{regexp.MustCompile(`^Missing TLS key: `), "missingKey"},
	{regexp.MustCompile(`^Missing TLS certificate: `), "missingCert"},
}

func init() {
	gen.RegisterOp("c04", "cliargs", func(c *gen.Ctx, raw json.RawMessage) any {
		return c04CliArgs(c, gen.Into[c04ArgsIn](raw))
	})
}

func c04CliArgs(c *gen.Ctx, in c04ArgsIn) c04ArgsOut {
	if c.BinDir == "" {
		return c04ArgsOut{Exit: -1, Class: "no-binary"}
	}
	dir := filepath.Join(c.WorkDir, fmt.Sprintf("c04args-%d-%d", os.Getpid(), c04RunSeq.Add(1)))
	if err := os.MkdirAll(dir, 0o755); err != nil {
		panic(err)
	}
	defer os.RemoveAll(dir)
	file := func(kind string, v *string) (string, bool) {
		if v == nil {
			return "", false
		}
		switch *v {
		case "":
			return "", true
		case "present":
			p := filepath.Join(dir, kind+".pem")
			_ = os.WriteFile(p, []byte("x"), 0o600)
			return p, true
		default:
			return filepath.Join(dir, "no-such-"+kind+".pem"), true
		}
	}
	var args []string
	if in.Mode != nil {
		args = append(args, "--mode", *in.Mode)
	}
	if in.Version {
		args = append(args, "--version")
	}
	if in.MaxServers != nil {
		args = append(args, "--max-servers", strconv.Itoa(*in.MaxServers))
	}
	if in.Port != nil {
		args = append(args, "--port", strconv.Itoa(*in.Port))
	}
	if in.Parallel != nil {
		args = append(args, "--parallel", strconv.Itoa(*in.Parallel))
	}
	if in.Bind != nil {
		args = append(args, "--bind", *in.Bind)
	}
	if p, ok := file("cert", in.Cert); ok {
		args = append(args, "--cert", p)
	}
	if p, ok := file("key", in.Key); ok {
		args = append(args, "--key", p)
	}
	args = append(args, "--")
	args = append(args, in.Command...)
	cmd := exec.Command(filepath.Join(c.BinDir, "connectconformance"), args...)
	var stdout, stderr bytes.Buffer
	cmd.Stdout, cmd.Stderr = &stdout, &stderr
	cmd.Stdin = nil
	cmd.Dir = dir
	done := make(chan error, 1)
	if err := cmd.Start(); err != nil {
		return c04ArgsOut{Exit: -2, Class: "start: " + err.Error()}
	}
	go func() { done <- cmd.Wait() }()
	var werr error
	select {
	case werr = <-done:
	case <-time.After(60 * time.Second):
		_ = cmd.Process.Kill()
		<-done
		return c04ArgsOut{Exit: -3, Class: "other: did not end within 60 s"}
	}
	out := c04ArgsOut{}
	if ee, ok := werr.(*exec.ExitError); ok {
		out.Exit = ee.ExitCode()
	} else if werr != nil {
		out.Exit = -2
	}
	msg := strings.TrimSpace(stderr.String())
	switch {
	case out.Exit == 0 && regexp.MustCompile(`^connectconformance \S+\n?$`).MatchString(stdout.String()) && msg == "":
		out.Class = "version"
	case out.Exit == 1:
		out.Class = "other: " + c04Tail(msg, 200)
		for _, m := range c04ArgsMsgs {
			if m.re.MatchString(msg) {
				out.Class = m.class
			}
		}
		if strings.Contains(msg, "executable file not found") || strings.Contains(msg, "no such file or directory") {
			for _, name := range in.Command {
				if name != "/bin/true" && strings.Contains(msg, `"`+name+`"`) && !strings.Contains(msg, ".pem") {
					out.Class = "lookpath:" + name
					break
				}
			}
			if strings.Contains(msg, "no-such-cert.pem") {
				out.Class = "open:cert"
			} else if strings.Contains(msg, "no-such-key.pem") {
				out.Class = "open:key"
			}
		}
	default:
		out.Class = fmt.Sprintf("other: exit %d: %s", out.Exit, c04Tail(msg, 200))
	}
	return out
}

// c04ArgsGen: bounded-exhaustive over the decision inputs of run() (mode x each flag absent / zero
// / small / large x command shapes around the separator), then random combinations.
func c04ArgsGen(c *gen.Ctx) {
	if c.BinDir == "" {
		return
	}
	r := c.R.Fork()
	ip := func(v int) *int { return &v }
	sp := func(v string) *string { return &v }
	modes := []*string{sp("client"), sp("server"), sp("both"), sp("Both"), sp(""), nil, sp("clients")}
	commands := [][]string{
		{}, {"nx-a"}, {"nx-a", "arg"}, {"----"}, {"nx-a", "----"}, {"----", "nx-b"}, {"nx-a", "----", "nx-b"},
		{"nx-a", "x", "----", "nx-b", "y"}, {"nx-a", "----", "nx-b", "----", "nx-c"}, {"nx-a", "----", "----", "nx-b"},
		{"/bin/true", "----", "nx-b"}, {"/bin/true", "x", "----", "nx-b", "----"}, {"nx-a", "---"}, {"nx-a", "-----", "nx-b"},
	}
	var ins []any
	add := func(in c04ArgsIn) {
		// never an invocation that would really start a peer: in modes client / server the command
		// name must not exist
		if in.Mode != nil && (*in.Mode == "client" || *in.Mode == "server") && len(in.Command) > 0 && in.Command[0] == "/bin/true" {
			return
		}
		ins = append(ins, in)
		c.E.Count("cliargs")
	}
	// (i) mode x command shape, no other flag
	for _, m := range modes {
		for _, cmd := range commands {
			add(c04ArgsIn{Mode: m, Command: cmd})
		}
	}
	// (ii) every single flag in every mode, with the values around its decision points
	base := [][]string{{"nx-a"}, {"nx-a", "----", "nx-b"}}
	for mi, m := range modes[:3] {
		cmd := base[0]
		if mi == 2 {
			cmd = base[1]
		}
		for _, v := range []int{0, 1, 2, 7} {
			add(c04ArgsIn{Mode: m, Command: cmd, MaxServers: ip(v)})
			add(c04ArgsIn{Mode: m, Command: cmd, Parallel: ip(v)})
			add(c04ArgsIn{Mode: m, Command: cmd, Port: ip(v * 4321)})
			for _, ms := range []int{0, 1, 2} {
				add(c04ArgsIn{Mode: m, Command: cmd, Port: ip(v * 4321), MaxServers: ip(ms)})
			}
		}
		add(c04ArgsIn{Mode: m, Command: cmd, Bind: sp("127.0.0.1")})
		for _, cert := range []*string{nil, sp(""), sp("missing"), sp("present")} {
			for _, key := range []*string{nil, sp(""), sp("missing"), sp("present")} {
				add(c04ArgsIn{Mode: m, Command: cmd, Cert: cert, Key: key})
			}
		}
		add(c04ArgsIn{Mode: m, Command: cmd, Version: true})
	}
	add(c04ArgsIn{Version: true, Command: []string{}})
	// (iii) random combinations: the order of the checks decides which refusal is reported
	n := 150
	if c.Thorough() {
		n = 3000
	}
	optInt := func(vals []int) *int {
		if r.Chance(1, 2) {
			return nil
		}
		return ip(gen.Pick(r, vals))
	}
	optStr := func(vals []string) *string {
		if r.Chance(3, 5) {
			return nil
		}
		return sp(gen.Pick(r, vals))
	}
	for i := 0; i < n; i++ {
		add(c04ArgsIn{Mode: gen.Pick(r, modes), Command: gen.Pick(r, commands), Version: r.Chance(1, 25),
			MaxServers: optInt([]int{0, 1, 2, 4}), Port: optInt([]int{0, 0, 8080}), Parallel: optInt([]int{0, 1, 8}),
			Bind: optStr([]string{"127.0.0.1", "0.0.0.0"}), Cert: optStr([]string{"", "missing", "present"}), Key: optStr([]string{"", "missing", "present"})})
	}
	c.DoParallel("cliargs", ins, 16)
}
