/-
End-to-end (C15): elementary facts about the property's bookkeeping (`Expect.see`,
`supersede`, `expects`).
-/
import ConfModel.Lemmas.H2E2EStep
set_option linter.unusedSimpArgs false
set_option linter.unusedVariables false
namespace ConfModel.H2

theorem see_id (e : Expect) (w : WEv) : (e.see w).id = e.id := by
  cases w with
  | frame r f =>
    cases f <;> simp only [Expect.see] <;> (repeat' split) <;> rfl
  | lost err => simp only [Expect.see]; split <;> rfl
  | timers => simp only [Expect.see]; split <;> rfl

theorem see_fields (e : Expect) (w : WEv) : (e.see w).fields = e.fields := by
  cases w with
  | frame r f =>
    cases f <;> simp only [Expect.see] <;> (repeat' split) <;> rfl
  | lost err => simp only [Expect.see]; split <;> rfl
  | timers => simp only [Expect.see]; split <;> rfl

theorem see_name (e : Expect) (w : WEv) : (e.see w).name = e.name := name_of_fields (see_fields e w)

theorem see_superseded (e : Expect) (w : WEv) : (e.see w).superseded = e.superseded := by
  cases w with
  | frame r f =>
    cases f <;> simp only [Expect.see] <;> (repeat' split) <;> rfl
  | lost err => simp only [Expect.see]; split <;> rfl
  | timers => simp only [Expect.see]; split <;> rfl

theorem see_closed_frame (e : Expect) (hc : e.isOpen = false) (r : Bool) (f : Frame) : e.see (.frame r f) = e := by
  simp [Expect.see, hc]

theorem see_closed_lost (e : Expect) (hc : e.isOpen = false) (err : Err) : e.see (.lost err) = { e with flushedAfter := true } := by
  simp [Expect.see, hc]

theorem see_closed_timers (e : Expect) (hc : e.isOpen = false) : e.see .timers = { e with flushedAfter := true } := by
  simp [Expect.see, hc]

theorem see_open_lost (e : Expect) (ho : e.isOpen = true) (err : Err) : e.see (.lost err) = { e with ending := .lost err } := by
  simp [Expect.see, ho]

theorem see_open_timers (e : Expect) (ho : e.isOpen = true) : e.see .timers = e := by
  simp [Expect.see, ho]

theorem see_closed (e : Expect) (hc : e.isOpen = false) (w : WEv) :
    (e.see w).core = e.core ∧ (e.see w).isOpen = false := by
  cases w with
  | frame r f => rw [see_closed_frame e hc]; exact ⟨rfl, hc⟩
  | lost err => rw [see_closed_lost e hc]; exact ⟨rfl, hc⟩
  | timers => rw [see_closed_timers e hc]; exact ⟨rfl, hc⟩

theorem see_open_of_open (e : Expect) (w : WEv) (h : (e.see w).isOpen = true) : e.isOpen = true := by
  cases ho : e.isOpen with
  | true => rfl
  | false => rw [(see_closed e ho w).2] at h; cases h

theorem see_open_flushed (e : Expect) (ho : e.isOpen = true) (w : WEv) : (e.see w).flushedAfter = e.flushedAfter := by
  cases w with
  | frame r f =>
    cases f <;> simp only [Expect.see, ho] <;> (repeat' split) <;> rfl
  | lost err => rw [see_open_lost e ho]
  | timers => rw [see_open_timers e ho]

theorem see_odd_mono (e : Expect) (w : WEv) (h : e.odd = true) : (e.see w).odd = true := by
  cases w with
  | frame r f =>
    cases f <;> simp only [Expect.see] <;> (repeat' split) <;> simp [h]
  | lost err => simp only [Expect.see]; split <;> exact h
  | timers => simp only [Expect.see]; split <;> exact h

theorem see_other (e : Expect) (r : Bool) (f : Frame) (id : Nat) (hs : frameSid f = some id) (hne : e.id ≠ id) :
    e.see (.frame r f) = e := by
  have hb : ∀ j, j = id → (j != e.id) = true := by intro j hj; subst hj; simp; exact fun h => hne h.symm
  cases f with
  | goaway l c => simp [frameSid] at hs
  | other => simp [frameSid] at hs
  | headers j fields es =>
    have := hb j (by simpa [frameSid] using hs)
    simp [Expect.see, this]
  | data j p es =>
    have := hb j (by simpa [frameSid] using hs)
    simp [Expect.see, this]
  | rst j c =>
    have := hb j (by simpa [frameSid] using hs)
    simp [Expect.see, this]

theorem see_frame_other (e : Expect) (r : Bool) : e.see (.frame r .other) = e := by
  simp [Expect.see]

theorem see_goaway (e : Expect) (r : Bool) (last code : Nat) :
    e.see (.frame r (.goaway last code)) = if e.isOpen = true ∧ e.id > last then { e with ending := .goaway code } else e := by
  cases ho : e.isOpen <;> simp [Expect.see, ho]

/-! ### `supersede` -/

theorem supersede_fst_map (n : String) (acc : List Expect) :
    (supersede n acc).1 = if n == "" then acc else acc.map (fun x => if x.name == n && x.held then { x with superseded := true } else x) := by
  unfold supersede; split <;> rfl

theorem supersede_snd (n : String) (acc : List Expect) :
    (supersede n acc).2 = if n == "" then false else acc.any (fun x => x.name == n && !x.held && !x.superseded) := by
  unfold supersede; split <;> rfl

/-- one member through `supersede` -/
def supOne (n : String) (x : Expect) : Expect :=
  if n != "" && x.name == n && x.held then { x with superseded := true } else x

theorem supersede_fst (n : String) (acc : List Expect) : (supersede n acc).1 = acc.map (supOne n) := by
  rw [supersede_fst_map]
  by_cases hn : n = ""
  · subst hn
    have : supOne "" = id := by funext x; simp [supOne]
    simp [this]
  · have : (n == "") = false := by simp [hn]
    have h2 : (n != "") = true := by simp [hn]
    simp only [this, Bool.false_eq_true, if_false]
    congr 1
    funext x
    simp only [supOne, h2, Bool.true_and]

theorem supOne_core (n : String) (x : Expect) : (supOne n x).core = x.core := by
  unfold supOne; split <;> rfl
theorem supOne_id (n : String) (x : Expect) : (supOne n x).id = x.id := by
  unfold supOne; split <;> rfl
theorem supOne_name (n : String) (x : Expect) : (supOne n x).name = x.name := by
  unfold supOne; split <;> rfl
theorem supOne_odd (n : String) (x : Expect) : (supOne n x).odd = x.odd := by
  unfold supOne; split <;> rfl
theorem supOne_isOpen (n : String) (x : Expect) : (supOne n x).isOpen = x.isOpen := by
  unfold supOne; split <;> rfl
theorem supOne_flushed (n : String) (x : Expect) : (supOne n x).flushedAfter = x.flushedAfter := by
  unfold supOne; split <;> rfl
theorem supOne_open (n : String) (x : Expect) (ho : x.isOpen = true) : supOne n x = x := by
  simp [supOne, Expect.held, ho]
theorem supOne_other (n : String) (x : Expect) (hn : x.name ≠ n) : supOne n x = x := by
  simp [supOne, hn]
theorem supOne_superseded (n : String) (x : Expect) :
    (supOne n x).superseded = (x.superseded || (n != "" && x.name == n && x.held)) := by
  unfold supOne
  split
  · rename_i h; simp [h]
  · rename_i h
    have : (n != "" && x.name == n && x.held) = false := by simpa using h
    rw [this]; simp

/-! ### `expects`, one event at a time -/

theorem expects_cons (acc : List Expect) (w : WEv) (ws : List WEv) :
    expects acc (w :: ws) = expects (expects acc [w]) ws := by
  cases w with
  | lost err => simp [expects]
  | timers => simp [expects]
  | frame r f =>
    cases r with
    | false => simp [expects]
    | true =>
      cases f with
      | headers id fields es =>
        simp only [expects]
        split <;> rfl
      | data id p es => simp [expects]
      | rst id c => simp [expects]
      | goaway l c => simp [expects]
      | other => simp [expects]

/-- a request HEADERS frame for an id that is not open starts a stream -/
def opensStream (acc : List Expect) : WEv → Bool
  | .frame true (.headers id _ _) => !acc.any (fun e => e.id == id && e.isOpen)
  | _ => false

theorem expects_one_plain (acc : List Expect) (w : WEv) (h : opensStream acc w = false) :
    expects acc [w] = acc.map (fun e => e.see w) := by
  cases w with
  | lost err => simp [expects]
  | timers => simp [expects]
  | frame r f =>
    cases r with
    | false => simp [expects]
    | true =>
      cases f with
      | headers id fields es =>
        simp only [opensStream, Bool.not_eq_false'] at h
        simp [expects, h]
      | data id p es => simp [expects]
      | rst id c => simp [expects]
      | goaway l c => simp [expects]
      | other => simp [expects]

theorem expects_one_open (acc : List Expect) (id : Nat) (fields : Fields) (es : Bool)
    (h : acc.any (fun e => e.id == id && e.isOpen) = false) :
    expects acc [.frame true (.headers id fields es)] =
      (acc.map (fun e => e.see (.frame true (.headers id fields es)))).map (supOne (getHeader fields testNameHeader)) ++
        [{ id := id, fields := fields, reqEnded := es,
           odd := (supersede (getHeader fields testNameHeader) (acc.map (fun e => e.see (.frame true (.headers id fields es))))).2 }] := by
  simp only [expects, h, Bool.false_eq_true, if_false, supersede_fst]

/-! ### well-formedness, prefix-closed -/

/-- no malformed use seen so far, no stream id used twice -/
def Good (acc : List Expect) : Prop := (∀ e ∈ acc, e.odd = false) ∧ (acc.map (·.id)).Nodup

theorem nodupNat_iff : ∀ (l : List Nat), nodupNat l = true ↔ l.Nodup
  | [] => by simp [nodupNat]
  | x :: xs => by simp [nodupNat, nodupNat_iff xs]

theorem good_of_step (acc : List Expect) (w : WEv) (h : Good (expects acc [w])) : Good acc := by
  by_cases ho : opensStream acc w = false
  · rw [expects_one_plain acc w ho] at h
    refine ⟨fun e he => ?_, ?_⟩
    · cases hodd : e.odd with
      | false => rfl
      | true =>
        have := h.1 (e.see w) (List.mem_map_of_mem he)
        rw [see_odd_mono e w hodd] at this; cases this
    · have := h.2
      simp only [List.map_map] at this
      have e : ((fun x : Expect => x.id) ∘ fun e => e.see w) = (fun x : Expect => x.id) := by funext x; simp [see_id]
      rw [e] at this; exact this
  · cases w with
    | lost err => simp [opensStream] at ho
    | timers => simp [opensStream] at ho
    | frame r f =>
      cases r with
      | false => simp [opensStream] at ho
      | true =>
        cases f with
        | data id p es => simp [opensStream] at ho
        | rst id c => simp [opensStream] at ho
        | goaway l c => simp [opensStream] at ho
        | other => simp [opensStream] at ho
        | headers id fields es =>
          have hany : acc.any (fun e => e.id == id && e.isOpen) = false := by
            simp only [opensStream, Bool.not_eq_false', Bool.not_eq_true] at ho
            cases hx : acc.any (fun e => e.id == id && e.isOpen) with
            | false => rfl
            | true => rw [hx] at ho; simp at ho
          rw [expects_one_open acc id fields es hany] at h
          refine ⟨fun e he => ?_, ?_⟩
          · cases hodd : e.odd with
            | false => rfl
            | true =>
              have hm : supOne (getHeader fields testNameHeader) (e.see (.frame true (.headers id fields es))) ∈
                  (acc.map (fun e => e.see (.frame true (.headers id fields es)))).map (supOne (getHeader fields testNameHeader)) :=
                List.mem_map_of_mem (List.mem_map_of_mem he)
              have := h.1 _ (List.mem_append_left _ hm)
              rw [supOne_odd, see_odd_mono e _ hodd] at this; cases this
          · have := h.2
            simp only [List.map_append, List.map_map] at this
            have e : ((fun x : Expect => x.id) ∘ supOne (getHeader fields testNameHeader) ∘ fun e => e.see (.frame true (.headers id fields es)))
                = (fun x : Expect => x.id) := by funext x; simp [see_id, supOne_id]
            rw [e] at this
            exact (List.nodup_append.mp this).1

end ConfModel.H2
