/-
C14 — Body tracing reconstructs the exact message sequence and never alters the data.
Property theorems only; helper lemmas live in `ConfModel.Lemmas.DataTracer`.
All statements hold for every configuration (request/response side, stream or not, any
decompressor function), every byte string, every way of cutting it into reads/writes and every
truncation point (a truncated body is just another byte string).
-/
import ConfModel.Lemmas.DataTracer
import ConfModel.Lemmas.DataTracerSeg
import ConfModel.Lemmas.DataTracerW
import ConfModel.Lemmas.EnvelopeEncode
import ConfModel.Lemmas.CallerBuf
import ConfModel.Lemmas.H2Body
import ConfModel.Lemmas.H2DataFrame
import ConfModel.Model.H2Conn
import ConfModel.Generated.C14Facts
namespace ConfModel.Props.C14
open ConfModel.DataTracer ConfModel.Envelopes

/-- `dataTracer.trace` is a monoid action on every reachable state: tracing `a` and then `b`
emits the same events and reaches the same state as tracing `a ++ b` in one call. -/
theorem trace_append (c : Cfg) (s : St) (a b : Bytes) (hi : Inv s) :
    run c s (a ++ b) = ((run c (run c s a).1 b).1, (run c s a).2 ++ (run c (run c s a).1 b).2) :=
  run_append' c s a b hi

/-- `binary.BigEndian.Uint32` of the four length bytes fits `uint32` … -/
theorem be32_lt (b : Bytes) (h : b.length = 4) : be32 b < 2 ^ 32 := by
  match b, h with
  | [a, b, c, d], _ =>
    have ha := a.toNat_lt; have hb := b.toNat_lt; have hc := c.toNat_lt; have hd := d.toNat_lt
    simp only [be32, List.foldl_cons, List.foldl_nil]
    omega

/-- … and on every reachable state `actual < expecting`, so Go's wrapping `uint32` subtraction
`d.expecting - uint32(d.actual)` is the exact difference the model computes in `Nat`. -/
theorem need_no_wrap (s : St) (hi : Inv s) (he : s.expecting ≠ 0) (hb : s.expecting < 2 ^ 32) :
    (s.expecting + 2 ^ 32 - s.actual % 2 ^ 32) % 2 ^ 32 = s.expecting - s.actual := by
  have := (hi.2.2 he).1
  omega

/-- the hypothesis of `trace_append` holds initially and is preserved by `trace` -/
theorem inv_reachable (c : Cfg) (chunks : List Bytes) (hs : c.isStream = true) :
    Inv (feedAll c init chunks).1 := by
  rw [feedAll_stream c hs chunks init inv_init]
  exact inv_run c _ _ (Nat.le_refl _) init inv_init

example : Inv (run ⟨false, true, some⟩ init [0, 0, 0, 0]).1 ∧
    (run ⟨false, true, some⟩ init ([0, 0, 0, 0] ++ [2, 7, 7])).2 = [Ev.data (some ⟨0, 2⟩) 2] := by
  refine ⟨inv_run _ _ _ (Nat.le_refl _) init inv_init, by decide⟩

/-- The events do not depend on how the bytes were split across reads or writes. -/
theorem chunk_independent (c : Cfg) (chunks : List Bytes) :
    feedAll c init chunks = feed c init chunks.flatten := by
  cases hs : c.isStream
  · rw [feedAll_count c hs, ← List.append_nil chunks.flatten, ← List.flatten_singleton (l := chunks.flatten)]
    simp [feed, hs]
  · rw [feedAll_stream c hs chunks init inv_init]; simp [feed, hs]

/-- two chunkings of the same bytes give the same events and state -/
theorem chunk_independent_pair (c : Cfg) (xs ys : List Bytes) (h : xs.flatten = ys.flatten) :
    feedAll c init xs = feedAll c init ys := by
  rw [chunk_independent, chunk_independent, h]

/-- The trace of one side of an operation — any number of reads/writes, then the end of the
body (EOF, error, Close, handler return) — is the specified one: one data event per enveloped
message with its exact flags and declared length, numbered 0,1,2,…, the end-stream content
(decompressed iff the compressed flag is set), a final partial event with the byte count seen
if the body stops inside a prefix or a payload, and one body-end event. -/
theorem trace_eq_spec (c : Cfg) (chunks : List Bytes) (err : EndErr) :
    observe c (chunks.map Op.data ++ [Op.fin err]) = specTrace c chunks.flatten err := by
  unfold observe specTrace
  rw [wrun_append, wrun_datas]
  simp only [wrun, wstep, winit, Bool.false_eq_true, if_false, List.append_nil]
  rw [← List.append_assoc, ← List.map_append, number_evs, chunk_independent]
  congr 2
  unfold specEvents
  cases hs : c.isStream
  · simp [feed, hs, unfinished, init, countEvents]
  · simp only [feed, hs, if_true]
    exact run_init_spec c chunks.flatten

example : observe ⟨false, true, fun _ => none⟩
      ([[0, 0], [0, 0, 1, 9, 2, 0, 0], [0, 2, 0x7b, 0x7d, 0, 0, 0]].map Op.data ++ [Op.fin .inner]) =
    [.data (some ⟨0, 1⟩) 1 0, .data (some ⟨2, 2⟩) 2 1, .endStream [0x7b, 0x7d], .data none 3 2, .bodyEnd .inner] := by
  decide

/-- every truncation point: the trace of the first `k` bytes is the specified trace of those bytes -/
theorem truncated_spec (c : Cfg) (b : Bytes) (k : Nat) (err : EndErr) :
    observe c [Op.data (b.take k), Op.fin err] = specTrace c (b.take k) err := by
  have := trace_eq_spec c [b.take k] err
  simpa using this

/-- non-envelope protocols: a single byte count -/
theorem non_stream_counts_bytes (c : Cfg) (hs : c.isStream = false) (chunks : List Bytes) (err : EndErr) :
    observe c (chunks.map Op.data ++ [Op.fin err]) =
      (if chunks.flatten.length > 0 then [NEv.data none chunks.flatten.length 0] else []) ++ [NEv.bodyEnd err] := by
  rw [trace_eq_spec]
  simp only [specTrace, specEvents, hs, Bool.false_eq_true, if_false, countEvents]
  split <;> simp [numberEvs]

example : observe ⟨true, false, some⟩ ([[1, 2], [3]].map Op.data ++ [Op.fin .nil]) =
    [.data none 3 0, .bodyEnd .nil] := by decide

/-- At most one body-end event whatever the user of the wrapper does (reads after EOF, Close
twice, …), and exactly one as soon as one finishing operation occurs. -/
theorem one_body_end (c : Cfg) (ops : List Op) :
    ((observe c ops).filter isBodyEnd).length = if ops.any isFin then 1 else 0 := by
  unfold observe
  rw [number_filter_end, wrun_ends c ops winit rfl]

/-- finishing again (Close after EOF, a second Close, the deferred `tryFinish` after a failed
Write) changes nothing -/
theorem fin_idempotent (c : Cfg) (chunks : List Bytes) (e : EndErr) (more : List EndErr) :
    observe c (chunks.map Op.data ++ [Op.fin e] ++ more.map Op.fin) = specTrace c chunks.flatten e := by
  rw [← trace_eq_spec]
  unfold observe
  rw [wrun_append c (chunks.map Op.data ++ [Op.fin e])]
  have hc : (wrun c winit (chunks.map Op.data ++ [Op.fin e])).1.closed = true := by
    rw [wrun_append, wrun_datas]; simp [wrun, wstep, winit]
  have : ∀ (l : List EndErr) (w : WSt), w.closed = true → (wrun c w (l.map Op.fin)).2 = [] := by
    intro l
    induction l with
    | nil => intro w _; simp [wrun]
    | cons x t ih => intro w h; simp [wrun, wstep, h, ih w h]
  rw [this more _ hc]
  simp

/-- Data events are numbered 0,1,2,… in order (partial events included). -/
theorem indices_consecutive (c : Cfg) (ops : List Op) :
    indices (observe c ops) = List.range (indices (observe c ops)).length := by
  unfold observe
  rw [List.range_eq_range']
  exact number_indices 0 _

/-- `tracingReader.Read` / `tracingResponseWriter.Write` hand the inner result to the caller
unchanged: in the model the wrapper's result *is* the inner result and the only effect is the
operation list fed to the tracer.  (The implementation half of the check compares the bytes
and errors the caller saw with the inner reader's/writer's script on every case.) -/
def wrapRead (inner : Bytes × Option EndErr) : (Bytes × Option EndErr) × List Op :=
  (inner, Op.data inner.1 :: (match inner.2 with | some e => [Op.fin e] | none => []))

theorem passthrough (inner : Bytes × Option EndErr) : (wrapRead inner).1 = inner := rfl

/-- the tracer sees exactly the bytes that went through -/
theorem passthrough_traced (inner : Bytes × Option EndErr) :
    (wrapRead inner).2.head? = some (Op.data inner.1) := rfl

/-- F09 (fixed): before the fix the decision ignored the compressed flag, so an uncompressed
end-stream message (flags 0x02) was pushed through the negotiated decompressor and lost
whenever that failed; with the fix it is reported raw. -/
theorem f09_witness :
    let c : Cfg := ⟨false, true, fun _ => none⟩   -- e.g. gzip negotiated, payload is not gzip
    contentF09 c 2 [0x7b, 0x7d] = none ∧ content c 2 [0x7b, 0x7d] = some [0x7b, 0x7d] ∧
    observe c [Op.data [2, 0, 0, 0, 2, 0x7b, 0x7d], Op.fin .nil] =
      [.data (some ⟨2, 2⟩) 2 0, .endStream [0x7b, 0x7d], .bodyEnd .nil] := by
  decide

/-- the compressed flag alone decides — flag clear: the raw payload is the content -/
theorem eos_uncompressed (c : Cfg) (hr : c.isRequest = false) (e : Env) (payload : Bytes)
    (hend : isEndFlag e.flags = true) (hflag : isCompressed e.flags = false)
    (hlen : payload.length = e.len) (hpos : e.len ≠ 0) :
    itemEvents c ⟨e, payload⟩ = [Ev.data (some e) e.len, Ev.endStream payload] := by
  have h0 : (e.len != 0) = true := by simpa using hpos
  have hp : payload ≠ [] := by intro h; subst h; simp at hlen; omega
  simp [itemEvents, hr, hend, h0, hflag, hp]

/-- flag set: the content is the negotiated decompressor's output -/
theorem eos_compressed (c : Cfg) (hr : c.isRequest = false) (e : Env) (payload x : Bytes)
    (hend : isEndFlag e.flags = true) (hflag : isCompressed e.flags = true)
    (hpos : e.len ≠ 0) (hdec : c.dec payload = some x) (hx : x ≠ []) :
    itemEvents c ⟨e, payload⟩ = [Ev.data (some e) e.len, Ev.endStream x] := by
  have h0 : (e.len != 0) = true := by simpa using hpos
  simp [itemEvents, hr, hend, h0, hflag, hdec, hx]

example : itemEvents ⟨false, true, fun _ => some [1]⟩ ⟨⟨2, 1⟩, [9]⟩ = [Ev.data (some ⟨2, 1⟩) 1, Ev.endStream [9]] := by
  decide

example : itemEvents ⟨false, true, fun _ => some [1]⟩ ⟨⟨3, 1⟩, [9]⟩ = [Ev.data (some ⟨3, 1⟩) 1, Ev.endStream [1]] := by
  decide

/-! ### the counters at their real widths: nothing wraps -/

/-- The widths the fixed-width machine (`Model/DataTracerW.lean`: `expecting : UInt32`,
`actual : UInt64`, event length `uint64`) is written for are those of the Go fields, read off the
compiled struct and event types on every run (`Generated/C14Facts.lean`). -/
theorem width_facts :
    Generated.C14Facts.expectingBits = expectingBits ∧ Generated.C14Facts.actualBits = actualBits ∧
    Generated.C14Facts.envLenBits = envLenBits ∧ Generated.C14Facts.reqDataLenBits = dataLenBits ∧
    Generated.C14Facts.respDataLenBits = dataLenBits ∧
    (Generated.C14Facts.expectingSigned || Generated.C14Facts.actualSigned || Generated.C14Facts.envLenSigned ||
      Generated.C14Facts.reqDataLenSigned || Generated.C14Facts.respDataLenSigned) = false ∧
    UInt32.size = 2 ^ expectingBits ∧ UInt64.size = 2 ^ actualBits := by decide

/-- The fixed-width machine simulates the `Nat` machine call by call: from the initial state, over
any chunks — for a body that is not an envelope stream as long as its total stays below 2^64 —,
states correspond (`StW.abs`) and the same events are emitted.  In an envelope stream no
hypothesis on sizes is needed at all: `actual < expecting < 2^32` on every reachable state. -/
theorem widths_simulate (c : Cfg) (chunks : List Bytes)
    (h : c.isStream = false → chunks.flatten.length < 2 ^ 64) :
    ((feedAllW c initW chunks).1.abs, (feedAllW c initW chunks).2) = feedAll c init chunks := by
  have := feedAllW_sim c chunks initW (fun _ => inv_init) (fun hs => by
    have := h hs; simpa [initW] using this)
  rw [this, abs_initW]

/-- **No counter wraps**: for every configuration and every way of cutting a body of fewer than
2^64 bytes into calls, the machine with Go's `uint32` / `uint64` arithmetic reports exactly the
specified events — in particular a body that is not an envelope stream is reported with its exact
byte count, also beyond 2^32. -/
theorem widths_no_wrap (c : Cfg) (chunks : List Bytes) (h : chunks.flatten.length < 2 ^ 64) :
    eventsW c chunks = specEvents c chunks.flatten := by
  have hsim := widths_simulate c chunks (fun _ => h)
  have h1 := congrArg Prod.fst hsim; have h2 := congrArg Prod.snd hsim
  simp only at h1 h2
  have hp : (feedAllW c initW chunks).1.pfx.length < 2 ^ 64 := by
    have : (feedAllW c initW chunks).1.pfx = (feedAll c init chunks).1.pfx := by rw [← h1]; rfl
    rw [this]
    cases hs : c.isStream
    · rw [feedAll_count c hs]; simp [init]
    · have := (inv_reachable c chunks hs).1; omega
  unfold eventsW
  rw [unfinishedW_sim _ hp, h1, h2, chunk_independent]
  unfold specEvents
  cases hs : c.isStream
  · simp [feed, hs, unfinished, init, countEvents]
  · simp only [feed, hs, if_true]
    exact run_init_spec c chunks.flatten

example : eventsW ⟨true, false, some⟩ [[1, 2], [3]] = [Ev.data none 3] := by decide

/-- why the width of `actual` matters: a 32-bit running total reports a body of 4 GiB + 12345
bytes as 12345 bytes (and one of exactly 4 GiB as empty) -/
theorem narrow_total_wraps :
    (UInt32.ofNat (2 ^ 32 + 12345)).toNat = 12345 ∧ (UInt32.ofNat (2 ^ 32)).toNat = 0 ∧
    (UInt64.ofNat (2 ^ 32 + 12345)).toNat = 2 ^ 32 + 12345 := by decide

/-! ### bodies given by segments (what the driver runs on bodies of 4 GiB and more) -/

/-- running the wrapper on segments is running it on their bytes -/
theorem seg_run_eq_bytes (c : Cfg) (ops : List SOp) : observeS c ops = observe c (ops.map SOp.toOp) := by
  unfold observeS observe
  rw [wrunS_eq c ops winit (winv_init c)]

/-- hence the trace of a body fed as segments is the specified trace of the segments' bytes -/
theorem seg_trace_eq_spec (c : Cfg) (segs : List Seg) (err : EndErr) :
    observeS c (segs.map SOp.seg ++ [SOp.fin err]) = specTrace c (segs.map Seg.bytes).flatten err := by
  rw [seg_run_eq_bytes, ← trace_eq_spec]
  simp [SOp.toOp, Function.comp_def]

example : observeS ⟨true, true, some⟩ ([Seg.lit [0, 0, 0, 0, 7], Seg.fill 3, Seg.fill 4, Seg.fill 2].map SOp.seg ++ [SOp.fin .nil]) =
    [.data (some ⟨0, 7⟩) 7 0, .data none 2 1, .bodyEnd .nil] := by decide

/-- a body that is not an envelope stream: one data event with the exact total of the calls'
lengths, whatever its size -/
theorem non_stream_total (c : Cfg) (hs : c.isStream = false) (segs : List Seg) (err : EndErr) :
    observeS c (segs.map SOp.seg ++ [SOp.fin err]) =
      numberEvs 0 (countEvents (segs.map Seg.length).sum) ++ [NEv.bodyEnd err] := by
  rw [seg_trace_eq_spec]
  have : (segs.map Seg.bytes).flatten.length = (segs.map Seg.length).sum := by
    rw [List.length_flatten, List.map_map]
    congr 1
    apply List.map_congr_left
    intro g _; exact seg_bytes_length g
  simp [specTrace, specEvents, hs, this]

example : observeS ⟨false, false, some⟩ ([Seg.fill (2 ^ 32), Seg.lit [1], Seg.fill (2 ^ 33)].map SOp.seg ++ [SOp.fin .inner]) =
    [.data none (2 ^ 32 + 1 + 2 ^ 33) 0, .bodyEnd .inner] := by
  rw [non_stream_total _ rfl]; decide

/-! ### the specification on a body given by its structure -/

/-- `parse` inverts the envelope encoding: complete messages (any flags, any declared length
below 2^32 with a payload of that length) followed by anything parse as those messages followed
by the parse of the rest -/
theorem parse_encode (items : List Item) (hw : ∀ it ∈ items, it.wf) (rest : Bytes) :
    parse (encode items ++ rest) = (items ++ (parse rest).1, (parse rest).2) :=
  parse_encode_append items hw rest

/-- The specified events of an envelope stream, read off its structure: one data event per
message, then nothing (clean end), the count of 1..4 stray prefix bytes, or the count of payload
bytes seen of a message whose payload is cut. -/
theorem spec_of_envelopes (c : Cfg) (hs : c.isStream = true) (items : List Item) (hw : ∀ it ∈ items, it.wf) :
    specEvents c (encode items) = items.flatMap (itemEvents c) ∧
    (∀ t : Bytes, 0 < t.length → t.length < 5 →
      specEvents c (encode items ++ t) = items.flatMap (itemEvents c) ++ tailEvents (.partialPrefix t.length)) ∧
    (∀ (e : Env) (p : Bytes), e.len < 2 ^ 32 → p.length < e.len →
      specEvents c (encode items ++ (prefixOf e ++ p)) =
        items.flatMap (itemEvents c) ++ tailEvents (.partialPayload e p.length)) := by
  refine ⟨?_, ?_, ?_⟩
  · have := parse_encode items hw []
    simp only [List.append_nil, parse_nil] at this
    simp [specEvents, hs, eventsOf, this, tailEvents]
  · intro t h0 h5
    simp [specEvents, hs, eventsOf, parse_encode items hw t, parse_short t h0 h5]
  · intro e p hlt hp
    simp [specEvents, hs, eventsOf, parse_encode items hw (prefixOf e ++ p), parse_partial e hlt p hp]

example : specEvents ⟨false, true, some⟩ (encode [⟨⟨0, 2⟩, [7, 7]⟩, ⟨⟨2, 1⟩, [9]⟩] ++ (prefixOf ⟨1, 300⟩ ++ [5, 5, 5])) =
    [Ev.data (some ⟨0, 2⟩) 2, Ev.data (some ⟨2, 1⟩) 1, Ev.endStream [9], Ev.data (some ⟨1, 300⟩) 3] := by decide

/-- the payload of a message enters the specification only for an end-stream message on the
response side (so the structure need not carry the others) -/
theorem payload_irrelevant (c : Cfg) (e : Env) (p q : Bytes)
    (h : (!c.isRequest && isEndFlag e.flags && e.len != 0) = false) :
    itemEvents c ⟨e, p⟩ = itemEvents c ⟨e, q⟩ :=
  itemEvents_payload_irrel c e p q h

example : itemEvents ⟨true, true, some⟩ ⟨⟨2, 3⟩, [1, 2, 3]⟩ = itemEvents ⟨true, true, some⟩ ⟨⟨2, 3⟩, []⟩ := by decide

/-! ### streams traced at the HTTP/2 connection level: `emitUnfinished` once or twice, ends in any order -/

/-- **`emitUnfinished` is idempotent**: it resets the whole state (the partial prefix included), so
a second call — `closeStreamLocked` calls the request tracer's again when the response ends —
emits nothing, from every state. -/
theorem emit_unfinished_idempotent (c : Cfg) (s : St) :
    bstep c (bstep c s .flush).1 .flush = (init, []) ∧
    brun c s [.flush, .flush] = brun c s [.flush] := by
  constructor
  · simp [bstep, unfinished_init]
  · simp [brun, bstep, unfinished_init]

/-- One tracer at the connection level: the DATA payloads of a body, then `emitUnfinished` once,
twice or any number of times, give exactly the specified events of the bytes that arrived — one
data event per message, a final partial one with the count seen, nothing lost, nothing twice. -/
theorem h2_body_events_eq_spec (c : Cfg) (chunks : List Bytes) (k : Nat) :
    (brun c init (chunks.map BOp.data ++ List.replicate (k+1) BOp.flush)).2 = specEvents c chunks.flatten := by
  rw [brun_append, brun_datas, List.replicate_succ]
  simp only [brun, bstep, brun_flushes_init, List.append_nil]
  rw [chunk_independent]
  unfold specEvents
  cases hs : c.isStream
  · simp [feed, hs, unfinished, init, countEvents]
  · simp only [feed, hs, if_true]
    exact run_init_spec c chunks.flatten

example : (brun ⟨true, true, some⟩ init ([[0, 0, 0], [0, 2, 7]].map BOp.data ++ [.flush, .flush])).2 =
    [Ev.data (some ⟨0, 2⟩) 1] := by decide

/-- corollary: the body events do not depend on the SIZES of the DATA frames — `h2_body_events_eq_spec`
has no bound on a chunk, so two framings of the same bytes (frames of 16384 bytes, one frame of
2^20 bytes, one frame per byte), each followed by any positive number of `emitUnfinished` calls,
give the same events -/
theorem h2_body_events_frame_size_independent (c : Cfg) (f1 f2 : List Bytes) (k1 k2 : Nat)
    (h : f1.flatten = f2.flatten) :
    (brun c init (f1.map BOp.data ++ List.replicate (k1+1) BOp.flush)).2 =
    (brun c init (f2.map BOp.data ++ List.replicate (k2+1) BOp.flush)).2 := by
  rw [h2_body_events_eq_spec, h2_body_events_eq_spec, h]

/-- non-vacuity: ANY body `a ++ b` (of 16385 bytes, of 2^20) in one DATA frame or cut at `a`; and a concrete pair -/
example (c : Cfg) (a b : Bytes) :
    (brun c init ([a ++ b].map BOp.data ++ List.replicate 1 BOp.flush)).2 =
    (brun c init ([a, b].map BOp.data ++ List.replicate 2 BOp.flush)).2 :=
  h2_body_events_frame_size_independent c [a ++ b] [a, b] 0 1 (by simp)

example : [[0, 0, 0, 0, 1, 65, 0]].flatten = [[0, 0, 0], [0, 1, 65], ([0] : Bytes)].flatten ∧
    (brun ⟨true, true, some⟩ init ([[0, 0, 0, 0, 1, 65, 0]].map BOp.data ++ [.flush])).2 =
      [Ev.data (some ⟨0, 1⟩) 1, Ev.data none 1] := by decide

example : (brun ⟨true, true, some⟩ init ([[0, 0, 0]].map BOp.data ++ [.flush, .flush, .flush])).2 =
    [Ev.data none 3] := by decide

/-- **A stream's body events, whatever the order in which its two directions end.**  For every
sequence of frame-level events of a stream (request / response DATA in any interleaving; the
request ending first, or the response — END_STREAM, RST_STREAM, GOAWAY, connection loss — while
the request is part-way through a prefix or a payload): if the request's share of it is its DATA
payloads followed by one or more `emitUnfinished` calls, the request-side events are the
specified events of the request bytes that arrived; likewise for the response side. -/
theorem h2_stream_body_events (cq cp : Cfg) (ops : List HOp) (chunks : List Bytes) (k : Nat) :
    (reqProj ops = chunks.map BOp.data ++ List.replicate (k+1) BOp.flush →
      qEvs (hrun cq cp hinit ops).2 = specEvents cq chunks.flatten) ∧
    (respProj ops = chunks.map BOp.data ++ List.replicate (k+1) BOp.flush →
      pEvs (hrun cq cp hinit ops).2 = specEvents cp chunks.flatten) := by
  constructor
  · intro h
    rw [(hrun_req cq cp ops hinit).1, h]
    exact h2_body_events_eq_spec cq chunks k
  · intro h
    rw [(hrun_resp cq cp ops hinit).1, h]
    exact h2_body_events_eq_spec cp chunks k

/-- non-vacuity: the response ends (trailers-only / RST) while the request has seen 3 bytes of a
prefix; and: the request ends inside a prefix, the response ends later (second `emitUnfinished`) -/
example :
    reqProj [.reqData [0, 0], .reqData [0], .respEnd] = [[0, 0], [0]].map BOp.data ++ List.replicate 1 BOp.flush ∧
    hrun ⟨true, true, some⟩ ⟨false, true, some⟩ hinit [.reqData [0, 0], .reqData [0], .respEnd] =
      (hinit, [.q (Ev.data none 3), .pEnd]) ∧
    reqProj [.reqData [0, 0], .reqEnd, .respData [0, 0, 0, 0, 0], .respEnd] =
      [[0, 0]].map BOp.data ++ List.replicate 2 BOp.flush ∧
    (hrun ⟨true, true, some⟩ ⟨false, true, some⟩ hinit [.reqData [0, 0], .reqEnd, .respData [0, 0, 0, 0, 0], .respEnd]).2 =
      [.q (Ev.data none 2), .qEnd, .p (Ev.data (some ⟨0, 0⟩) 0), .pEnd] := by decide

/-! ### GOAWAY: which streams it ends -/

/-- **A stream is abandoned by a GOAWAY iff its id is ABOVE the last-stream-id** (model of
`setMaxStreamIDLocked`, `ConfModel.H2.setMax`): a stream of the table stays in it — and goes on being
fed its DATA frames, so that its body events are those of all bytes that arrive — exactly when
`id ≤ last`; in particular the stream whose id EQUALS the last-stream-id (graceful shutdown in the
middle of a call) is still served. -/
theorem goaway_abandons_iff (c : ConfModel.H2.L2) (last : Nat) (err : ConfModel.H2.Err)
    (p : Nat × ConfModel.H2.Stream) (hp : p ∈ c.streams) :
    (p ∈ (ConfModel.H2.setMax c last err).1.streams ↔ p.1 ≤ last) ∧
    ((ConfModel.H2.setMax c last err).1.maxId = last) := by
  constructor
  · simp only [ConfModel.H2.setMax, List.mem_filter, hp, true_and]
    simp [Nat.not_lt]
  · rfl

/-- the boundary itself: last-stream-id = id keeps the stream, last-stream-id = id - 1 ends it -/
example (st : ConfModel.H2.Stream) (e : ConfModel.H2.Err) :
    ((ConfModel.H2.setMax ⟨false, [(3, st)], 0⟩ 3 e).1.streams = [(3, st)]) ∧
    ((ConfModel.H2.setMax ⟨false, [(3, st)], 0⟩ 2 e).1.streams = []) := by
  simp [ConfModel.H2.setMax]

/-! ### DATA frames: the Pad Length octet and the padding are not body -/

/-- **What reaches the envelope state machine is the frame's data, not its payload**: for every
data, every padding (any content, any length a Pad Length octet can express, the empty padding
included) `parseDataFrame` applied to what `WriteDataPadded` puts on the wire gives back the data. -/
theorem data_frame_padding_stripped (d : PData) (h : d.wellFormed = true) :
    d.wire.data = some d.data :=
  data_wire d h

example : (PData.wire ⟨[0, 0, 0, 0, 1, 65], some [9, 9, 9]⟩) = ⟨true, [3, 0, 0, 0, 0, 1, 65, 9, 9, 9]⟩ ∧
    (PData.wire ⟨[0, 0, 0, 0, 1, 65], some [9, 9, 9]⟩).data = some [0, 0, 0, 0, 1, 65] ∧
    (PData.wire ⟨[], some []⟩) = ⟨true, [0]⟩ ∧ (PData.wire ⟨[], some []⟩).data = some [] := by decide

/-- Conversely every DATA frame the framer accepts is a well-formed padded form of the data it yields
(the model of the receiver has no other accepted inputs); the two rejected shapes are witnessed below. -/
theorem data_frame_accepted (f : DFrame) (x : Bytes) (h : f.data = some x) :
    ∃ d : PData, d.wellFormed = true ∧ d.wire = f ∧ d.data = x :=
  data_some f x h

example : (DFrame.mk true [2, 7, 7, 0, 0]).data = some [7, 7] ∧ (DFrame.mk true []).data = none ∧
    (DFrame.mk true [3, 7, 7]).data = none ∧ (DFrame.mk false [3, 7, 7]).data = some [3, 7, 7] := by decide

/-- **The body events of a stream do not depend on the padding of its DATA frames.**  For every life
of a stream (DATA frames of both directions in any interleaving and cut anywhere relative to the
envelopes, any way of ending) and EVERY padding assignment: all frames parse, and what the builder
receives is what it receives for the bare data — hence the same as when the peer sends the very same
frames without any padding. -/
theorem h2_body_events_padding_independent (cq cp : Cfg) (ops : List PadOp)
    (h : ∀ o ∈ ops, o.wellFormed = true) :
    wrunH cq cp (ops.map PadOp.wire) = some (hrun cq cp hinit (ops.map PadOp.plain)).2 ∧
    wrunH cq cp (ops.map PadOp.wire) = wrunH cq cp ((ops.map PadOp.unpadded).map PadOp.wire) := by
  have h1 : wrunH cq cp (ops.map PadOp.wire) = some (hrun cq cp hinit (ops.map PadOp.plain)).2 := by
    simp [wrunH, decodeOps_wire ops h]
  refine ⟨h1, ?_⟩
  rw [h1]
  have h2 := decodeOps_wire (ops.map PadOp.unpadded) (by
    intro o ho
    obtain ⟨o', _, rfl⟩ := List.mem_map.1 ho
    exact unpadded_wellFormed o')
  have h3 : (ops.map PadOp.unpadded).map PadOp.plain = ops.map PadOp.plain := by
    simp [List.map_map, Function.comp_def, unpadded_plain]
  unfold wrunH
  rw [h2, h3]
  rfl

/-- non-vacuity: a message whose prefix is cut over two padded frames (Pad Length 0 and 2, padding
that itself looks like an envelope prefix), END_STREAM by a padded EMPTY frame -/
example :
    wrunH ⟨true, true, some⟩ ⟨false, true, some⟩
      ([.reqData ⟨[0, 0, 0], some []⟩, .reqData ⟨[0, 1, 65], some [2, 0]⟩, .reqData ⟨[], some [0, 0, 0, 0, 9]⟩, .reqEnd,
        .respEnd].map PadOp.wire) =
      some [.q (Ev.data (some ⟨0, 1⟩) 1), .qEnd, .pEnd] := by decide

/-- … and the specification: whatever the padding, each direction's events are the specified events
of the DATA (not payload) bytes that arrived. -/
theorem h2_padded_stream_body_events (cq cp : Cfg) (ops : List PadOp) (h : ∀ o ∈ ops, o.wellFormed = true)
    (chunks : List Bytes) (k : Nat) :
    (reqProj (ops.map PadOp.plain) = chunks.map BOp.data ++ List.replicate (k+1) BOp.flush →
      (wrunH cq cp (ops.map PadOp.wire)).map qEvs = some (specEvents cq chunks.flatten)) ∧
    (respProj (ops.map PadOp.plain) = chunks.map BOp.data ++ List.replicate (k+1) BOp.flush →
      (wrunH cq cp (ops.map PadOp.wire)).map pEvs = some (specEvents cp chunks.flatten)) := by
  rw [(h2_body_events_padding_independent cq cp ops h).1]
  have hs := h2_stream_body_events cq cp (ops.map PadOp.plain) chunks k
  exact ⟨fun hq => by simp [hs.1 hq], fun hp => by simp [hs.2 hp]⟩

example :
    (∀ o ∈ [PadOp.reqData ⟨[0, 0, 0], some []⟩, .reqData ⟨[0, 1, 65], some [2, 0]⟩, .respEnd], o.wellFormed = true) ∧
    reqProj ([PadOp.reqData ⟨[0, 0, 0], some []⟩, .reqData ⟨[0, 1, 65], some [2, 0]⟩, .respEnd].map PadOp.plain) =
      [[0, 0, 0], [0, 1, 65]].map BOp.data ++ List.replicate 1 BOp.flush := by decide

/-- why the stripping matters (witness): the same message fed with its Pad Length octet and padding
as if they were body is reported as a different message sequence -/
theorem padding_fed_as_body_differs :
    let d : PData := ⟨[0, 0, 0, 0, 1, 65], some [0]⟩
    (brun ⟨true, true, some⟩ init [.data d.wire.payload, .flush]).2 = [Ev.data (some ⟨1, 0⟩) 0, Ev.data none 3] ∧
    specEvents ⟨true, true, some⟩ d.data = [Ev.data (some ⟨0, 1⟩) 1] := by decide

/-! ### body ends of a stream traced at the connection level; finding F33 -/

/-
Full statement (C14: "a single body-end event"): for EVERY sequence of events of a stream's life the
trace has at most one request body end.  It does NOT hold for the code as it is (F33, below): the
model, like the code, adds one `RequestBodyEnd` per request-ending operation (`hrun_qEnds`).  Proved:
the statement under the hypothesis that the request side is ended at most once — i.e. there is no
client reset / loss of the connection on the client side AFTER the request's END_STREAM.
-/
theorem h2_one_request_body_end_partial (cq cp : Cfg) (ops : List HOp)
    (h : (ops.filter isReqEndOp).length ≤ 1) : qEnds (hrun cq cp hinit ops).2 ≤ 1 := by
  rw [hrun_qEnds]; exact h

/-- … and exactly one as soon as the request side ends once -/
theorem h2_request_body_ends (cq cp : Cfg) (ops : List HOp) :
    qEnds (hrun cq cp hinit ops).2 = (ops.filter isReqEndOp).length :=
  hrun_qEnds cq cp ops hinit

example : ([HOp.reqData [0, 0], .reqEnd, .respData [0], .respEnd].filter isReqEndOp).length ≤ 1 := by decide

/-- **F33 (known finding, not repaired).**  Client side: the request ends (END_STREAM), the response
is under way, the connection is lost — `cancelAll` adds `RequestBodyEnd{err}` although the trace has
one already (the code's own TODO).  The as-is model emits two request body ends on that script; the
specification of the request direction (the bytes that arrived + one end) has one. -/
theorem f33_witness :
    let cq : Cfg := ⟨true, true, some⟩
    let cp : Cfg := ⟨false, true, some⟩
    let ops : List HOp := [.reqData [0, 0, 0, 0, 1, 7], .reqEnd, .respData [0, 0, 0, 0, 3, 120, 121, 122], .reqAbort]
    (hrun cq cp hinit ops).2 =
      [.q (Ev.data (some ⟨0, 1⟩) 1), .qEnd, .p (Ev.data (some ⟨0, 3⟩) 3), .qEnd] ∧
    qEnds (hrun cq cp hinit ops).2 = 2 ∧
    ((specTrace cq (reqBytes ops).flatten .nil).filter isBodyEnd).length = 1 := by decide

/-! ### a caller that reuses one array for all its calls -/

open ConfModel.CallerBuf in
/-- **Chunk values suffice.**  A caller that reuses one array — overwriting it arbitrarily
between calls (`before`), handing the wrapper a window at any offset — makes the tracer see the
same thing as a caller with a fresh slice per call: the trace depends on the *values* in the
windows only, i.e. on the chunks.  (This is the contract the code must keep — copy what it
remembers — and what the harness observes by running every session in the reusing discipline.) -/
theorem reused_buffer_values_suffice (c : Cfg) (calls : List BCall) (hf : ∀ b ∈ calls, b.fits) (err : EndErr) :
    observe c ((calls.map BCall.window).map Op.data ++ [Op.fin err]) =
      specTrace c (calls.map BCall.chunk).flatten err := by
  rw [windows_eq_chunks calls hf, trace_eq_spec]

open ConfModel.CallerBuf in
/-- … and the caller finds in its whole array — in front of the window, in it, beyond `n`, in the
capacity region — exactly what the inner reader / it itself had put there -/
theorem caller_array_untouched (b : BCall) (h : b.fits) :
    b.callerSees = b.before.take b.off ++ b.chunk ++ b.before.drop (b.off + b.chunk.length) ∧
    b.callerSees.length = b.before.length :=
  ⟨rfl, array_length b h⟩

open ConfModel.CallerBuf in
example : (⟨[9, 9, 9, 9, 9, 9], 1, [0, 0, 5]⟩ : BCall).fits ∧
    (⟨[9, 9, 9, 9, 9, 9], 1, [0, 0, 5]⟩ : BCall).window = [0, 0, 5] ∧
    (⟨[9, 9, 9, 9, 9, 9], 1, [0, 0, 5]⟩ : BCall).callerSees = [9, 0, 0, 5, 9, 9] := by decide

end ConfModel.Props.C14
