import ConfModel.Driver.Common
namespace ConfModel.Driver.C20
open Lean ConfModel.Driver

def handle : Handler := fun op _inp _impl => bad ("C20: unknown op " ++ op)

end ConfModel.Driver.C20
