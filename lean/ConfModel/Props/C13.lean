/-
C13 — Reference client wire checks accept well-formed responses, flag malformed ones.
Property theorems only.
-/
import ConfModel.Model.WireChecks
import ConfModel.Spec.WireChecks
import ConfModel.Generated.C13Facts
namespace ConfModel.Props.C13
open ConfModel.WireChecks ConfModel.WireChecksSpec

/-! ## The byte tables of the code, regenerated on every run, are the model's -/

set_option maxRecDepth 100000 in
theorem shouldEscape_table :
    Generated.C13.shouldEscapeTable = (List.range 256).map (fun n => shouldEscape (UInt8.ofNat n)) := by decide

set_option maxRecDepth 100000 in
theorem fieldName_table :
    Generated.C13.fieldNameTable = (List.range 256).map (fun n => isTchar (UInt8.ofNat n)) := by decide

set_option maxRecDepth 100000 in
theorem fieldValue_table :
    Generated.C13.fieldValueTable = (List.range 256).map (fun n => isValueByte (UInt8.ofNat n)) := by decide

set_option maxRecDepth 100000 in
theorem hexDigit_table :
    Generated.C13.hexDigitTable = (List.range 256).map (fun n => isHex (UInt8.ofNat n)) := by decide

set_option maxRecDepth 100000 in
theorem plainByte_table :
    Generated.C13.plainByteTable =
      (List.range 256).map (fun n => !shouldEscape (UInt8.ofNat n)) := by decide

set_option maxRecDepth 100000 in
theorem canonToken_table :
    Generated.C13.canonTokenTable = (List.range 256).map (fun n => isTchar (UInt8.ofNat n)) := by decide

/-- the empty string is not a valid field name (F15), it is a valid field value -/
theorem empty_name_value :
    Generated.C13.emptyNameValid = validFieldName [] ∧ Generated.C13.emptyValueValid = validFieldValue [] := by
  decide

end ConfModel.Props.C13
