package main

// C13 — the Connect JSON examiners against the Lean model (Model/ConnectJson.lean): the
// harness sends the document as a parsed value in which duplicate keys are kept (a tokenizer on
// top of json.Decoder.Token, the same token stream checkNoDuplicateKeys reads), and the
// outcome of the protojson comparison of every detail's "debug" member, which the model takes
// as an oracle.
//
// encoding of a parsed value: null -> null, bool -> bool, number -> 0, string -> {"s": hex},
// array -> [..], object -> {"o": [[hex key, value], ..]} (document order, duplicates kept).

import (
	"bytes"
	"encoding/base64"
	"encoding/json"
	"io"

	rc "connectrpc.com/conformance/internal/app/referenceclient"
	"connectrpc.com/conformance/internal/verifharness/gen"
	"github.com/google/go-cmp/cmp"
	"google.golang.org/protobuf/encoding/protojson"
	"google.golang.org/protobuf/proto"
	"google.golang.org/protobuf/reflect/protoreflect"
	"google.golang.org/protobuf/reflect/protoregistry"
	"google.golang.org/protobuf/testing/protocmp"
	"google.golang.org/protobuf/types/known/anypb"
	"google.golang.org/protobuf/types/known/emptypb"
	"google.golang.org/protobuf/types/known/wrapperspb"

	conformancev1 "connectrpc.com/conformance/internal/gen/proto/go/connectrpc/conformance/v1"
	"sort"
)

type c13JSONOut struct {
	Fb []string `json:"fb"`
	// Tokenized: the document is syntactically valid JSON and every token can be read
	Tokenized bool `json:"tokenized"`
	Parsed    any  `json:"parsed"`
	// Oracle: what examineConnectErrorDetailDebugData prints for detail I when called with
	// (Type, Data, the raw "debug" member)
	Oracle []c13DebugOracle `json:"oracle"`
}

type c13DebugOracle struct {
	I    int      `json:"i"`
	Type string   `json:"type"` // hex
	Data string   `json:"data"` // hex
	Fb   []string `json:"fb"`
	// Steps: what the protobuf libraries say about (Type, Data, debug) - the atoms from which the
	// Lean model (Model/ConnectJson.lean: debugDataFb) derives the message; Fb must be that message
	Steps c13DebugSteps `json:"steps"`
}

// c13DebugSteps: the outcome of every library call examineConnectErrorDetailDebugData can make,
// each computed here on its own (the examiner's decisions - which call follows which, which type
// name a type URL stands for - are the model's).
type c13DebugSteps struct {
	Resolved bool   `json:"resolved"` // protoregistry.GlobalTypes.FindMessageByName(type)
	ValueOK  bool   `json:"valueOk"`  // proto.Unmarshal(data) into that type
	DirectOK bool   `json:"directOk"` // protojson.Unmarshal(debug) into that type
	EqDirect bool   `json:"eqDirect"` // ... and it equals the message of the value (cmp.Diff, protocmp.Transform)
	AnyOK    bool   `json:"anyOk"`    // protojson.Unmarshal(debug) into a google.protobuf.Any
	AnyURL   string `json:"anyUrl"`   // hex: its type URL
	NewOK    bool   `json:"newOk"`    // anyMsg.UnmarshalNew()
	EqAny    bool   `json:"eqAny"`    // ... and it equals the message of the value
}

func c13Steps(msgName string, data, debugJSON []byte) (s c13DebugSteps) {
	mt, err := protoregistry.GlobalTypes.FindMessageByName(protoreflect.FullName(msgName))
	if err != nil {
		return s
	}
	s.Resolved = true
	fromValue := mt.New().Interface()
	if proto.Unmarshal(data, fromValue) != nil {
		return s
	}
	s.ValueOK = true
	direct := mt.New().Interface()
	if protojson.Unmarshal(debugJSON, direct) == nil {
		s.DirectOK = true
		s.EqDirect = cmp.Diff(fromValue, direct, protocmp.Transform()) == ""
	}
	var anyMsg anypb.Any
	if protojson.Unmarshal(debugJSON, &anyMsg) == nil {
		s.AnyOK = true
		s.AnyURL = c13Hx(anyMsg.GetTypeUrl())
		if m, err := anyMsg.UnmarshalNew(); err == nil {
			s.NewOK = true
			s.EqAny = m.ProtoReflect().Descriptor().FullName() == fromValue.ProtoReflect().Descriptor().FullName() &&
				cmp.Diff(fromValue, m, protocmp.Transform()) == ""
		}
	}
	return s
}

// c13ParseValue reads one JSON value from the token stream.
func c13ParseValue(dec *json.Decoder) (any, error) {
	tok, err := dec.Token()
	if err != nil {
		return nil, err
	}
	switch t := tok.(type) {
	case json.Delim:
		switch t {
		case '[':
			out := []any{}
			for dec.More() {
				v, err := c13ParseValue(dec)
				if err != nil {
					return nil, err
				}
				out = append(out, v)
			}
			if _, err := dec.Token(); err != nil { // ']'
				return nil, err
			}
			return out, nil
		case '{':
			members := [][2]any{}
			for dec.More() {
				kt, err := dec.Token()
				if err != nil {
					return nil, err
				}
				key, ok := kt.(string)
				if !ok {
					return nil, io.ErrUnexpectedEOF
				}
				v, err := c13ParseValue(dec)
				if err != nil {
					return nil, err
				}
				members = append(members, [2]any{c13Hx(key), v})
			}
			if _, err := dec.Token(); err != nil { // '}'
				return nil, err
			}
			return map[string]any{"o": members}, nil
		}
		return nil, io.ErrUnexpectedEOF
	case string:
		return map[string]any{"s": c13Hx(t)}, nil
	case float64, json.Number:
		return 0, nil
	case bool:
		return t, nil
	case nil:
		return nil, nil
	}
	return nil, io.ErrUnexpectedEOF
}

// c13Parse: the duplicate-preserving parse of a document, if it is valid JSON whose tokens
// can all be read (a number outside float64 cannot).
func c13Parse(raw []byte) (any, bool) {
	if !json.Valid(raw) {
		return nil, false
	}
	v, err := c13ParseValue(json.NewDecoder(bytes.NewReader(raw)))
	if err != nil {
		return nil, false
	}
	return v, true
}

// c13DebugOracles runs the real protojson comparison for every detail of the error document
// for which the struct decoding of encoding/json yields a type name and a "debug" member, with
// the two byte strings the examiner can call it with: nothing (nil) and the RawStdEncoding
// decoding of the member "value".
func c13DebugOracles(raw []byte, endStream bool) []c13DebugOracle {
	out := []c13DebugOracle{}
	if endStream {
		var es struct {
			Error json.RawMessage `json:"error"`
		}
		if json.Unmarshal(raw, &es) != nil || len(es.Error) == 0 {
			return out
		}
		raw = es.Error
	}
	var ce *struct {
		Details []json.RawMessage `json:"details"`
	}
	_ = json.Unmarshal(raw, &ce) // a type error elsewhere leaves the other fields decoded
	if ce == nil {
		return out
	}
	for i, d := range ce.Details {
		var det *struct {
			Type  *string         `json:"type"`
			Value *string         `json:"value"`
			Debug json.RawMessage `json:"debug"`
		}
		_ = json.Unmarshal(d, &det)
		if det == nil || det.Type == nil || len(det.Debug) == 0 {
			continue
		}
		datas := [][]byte{nil}
		var asAny map[string]any
		if json.Unmarshal(d, &asAny) == nil {
			if s, ok := asAny["value"].(string); ok {
				if b, err := base64.RawStdEncoding.DecodeString(s); err == nil && len(b) > 0 {
					datas = append(datas, b)
				}
			}
		}
		for _, data := range datas {
			fb := []string{}
			for _, m := range rc.VerifC13DebugData(i, *det.Type, data, det.Debug) {
				fb = append(fb, c13Class(m))
			}
			out = append(out, c13DebugOracle{I: i, Type: c13Hx(*det.Type), Data: gen.Hex(data), Fb: fb, Steps: c13Steps(*det.Type, data, det.Debug)})
		}
	}
	return out
}

func c13ExamineJSON(c *gen.Ctx, in c13JSONIn, endStream bool) c13JSONOut {
	raw := c13Un(in.JSON)
	var msgs []string
	if endStream {
		msgs = rc.VerifC13ExamineConnectEndStream(raw)
	} else {
		msgs = rc.VerifC13ExamineConnectError(raw)
	}
	out := c13JSONOut{Fb: c13Classes(c, msgs)}
	out.Parsed, out.Tokenized = c13Parse(raw)
	out.Oracle = c13DebugOracles(raw, endStream)
	if out.Tokenized {
		c.E.Count("json:tokenized")
	} else {
		c.E.Count("json:not-tokenized")
	}
	return out
}

// ---------------------------------------------------------------- generator: small documents

// c13Members: every member list of length <= maxLen over keys x values (duplicates included),
// written as a JSON object.
func c13Members(keys, values []string, maxLen int, f func(obj string)) {
	var members []string
	for _, k := range keys {
		for _, v := range values {
			members = append(members, k+":"+v)
		}
	}
	var rec func(prefix []string)
	rec = func(prefix []string) {
		f("{" + stringsJoin(prefix, ",") + "}")
		if len(prefix) == maxLen {
			return
		}
		for _, m := range members {
			rec(append(append([]string{}, prefix...), m))
		}
	}
	rec(nil)
}

func stringsJoin(xs []string, sep string) string {
	out := ""
	for i, x := range xs {
		if i > 0 {
			out += sep
		}
		out += x
	}
	return out
}

// c13JSONSmall: bounded-exhaustive documents for the three examiners - every object with at
// most two members over the keys the struct decoding and the callbacks distinguish (exact,
// differently cased, unknown) and one value per JSON type / per branch of the callbacks.
func c13JSONSmall(c *gen.Ctx) {
	do := func(op, doc string) {
		c.Do(op, c13JSONIn{JSON: c13Hx(doc), Kind: "small"})
		c.E.Count("kind:json-small")
	}
	goodDetail := `{"type":"google.protobuf.Empty","value":""}`
	// top level of examineConnectError
	c13Members(
		[]string{`"code"`, `"message"`, `"details"`, `"Code"`, `"DETAILS"`, `"x"`},
		[]string{`null`, `1`, `"internal"`, `"bogus"`, `[]`, `{}`, `[{}]`, `[` + goodDetail + `]`, `[1,null]`},
		2, func(o string) { do("cerr", o) })
	for _, top := range []string{`null`, `1`, `"x"`, `[]`, `true`, ` {"code":"internal"} `, `{"code":"internal"}{}`, `{"code":1e999}`, `{"x":1e999}`,
		`{"code":"internal","meſſage":1}`, `{"code":"internal","meſſage":"m"}`, `{"Kode":"internal"}`, `{"code":"internal","é":1}`} {
		do("cerr", top)
		do("cend", top)
		do("cend", `{"error":`+top+`}`)
	}
	// one detail
	c13Members(
		[]string{`"type"`, `"value"`, `"debug"`, `"TYPE"`, `"Value"`, `"Debug"`, `"x"`},
		[]string{`null`, `1`, `"google.protobuf.Empty"`, `"9"`, `"QQ"`, `"Q"`, `{"a":1,"a":2}`, `{}`},
		2, func(o string) { do("cerr", `{"code":"internal","details":[`+goodDetail+`,`+o+`]}`) })
	// type names and base64 spellings
	for _, t := range []string{``, `a`, `a.B`, `a.`, `.a`, `a..b`, `_x.y9`, `9a`, `a.9`, `a-b`, `a b`, `a/b`, `é`, `a.b.c.D_1`} {
		q, _ := json.Marshal(t)
		do("cerr", `{"code":"internal","details":[{"type":`+string(q)+`,"value":"QQ"}]}`)
	}
	for _, v := range []string{``, `Q`, `QQ`, `QR`, `QUI`, `QUJD`, `QUJDR`, `QQ==`, `QUI=`, `QUJD=`, `Q\nQ`, `\r\nQUJD\n`, `\n`, `Q Q`, `Q-_Q`, `+/+/`, `QQ\u0000`, `Q=Q`, `=`, `QUJDRA`, `é`} {
		for _, dbg := range []string{``, `,"debug":{}`, `,"debug":{"value":"x"}`} {
			do("cerr", `{"code":"internal","details":[{"type":"google.protobuf.StringValue","value":"`+v+`"`+dbg+`}]}`)
		}
	}
	// the debug comparison: reached or not, with the data the callback decoded or none
	for _, d := range []string{
		`{"type":"google.protobuf.StringValue","value":"CgFh","debug":"a"}`,
		`{"type":"google.protobuf.StringValue","value":"CgFh","debug":"b"}`,
		`{"type":"google.protobuf.StringValue","VALUE":"CgFh","debug":"a"}`,
		`{"type":"google.protobuf.StringValue","VALUE":"CgFh","debug":""}`,
		`{"TYPE":"google.protobuf.StringValue","value":"CgFh","debug":"b"}`,
		`{"type":"google.protobuf.StringValue","TYPE":null,"value":"CgFh","debug":"b"}`,
		`{"TYPE":null,"type":"google.protobuf.StringValue","value":"CgFh","debug":"b"}`,
		`{"type":"google.protobuf.StringValue","value":"CgFh","VALUE":null,"debug":"b"}`,
		`{"type":"google.protobuf.StringValue","value":"CgFh","Debug":"b"}`,
		`{"type":"google.protobuf.StringValue","value":"CgFh","debug":"a","DEBUG":"b"}`,
		`{"type":"google.protobuf.StringValue","value":"!","VALUE":"CgFh","debug":"b"}`,
		`{"type":"no.such.Type","value":"CgFh","debug":"b"}`,
		`{"type":"google.protobuf.StringValue","value":"/w","debug":"b"}`,
		`{"type":"google.protobuf.StringValue","value":"CgFh","debug":{"@type":"type.googleapis.com/google.protobuf.StringValue","value":"a"}}`,
		`{"type":"google.protobuf.StringValue","value":"CgFh","debug":{"@type":"type.googleapis.com/google.protobuf.Int32Value","value":1}}`,
		`{"type":"google.protobuf.StringValue","value":"CgFh","debug":null}`,
	} {
		do("cerr", `{"code":"internal","details":[`+d+`]}`)
		do("cerr", `{"code":"internal","details":[`+goodDetail+`,`+d+`],"DETAILS":[`+d+`]}`)
		do("cend", `{"error":{"code":"internal","details":[`+d+`]}}`)
	}
	// top level of examineConnectEndStream
	c13Members(
		[]string{`"error"`, `"metadata"`, `"ERROR"`, `"Metadata"`, `"x"`},
		[]string{`null`, `1`, `{}`, `{"code":"internal"}`, `{"code":5}`, `{"x-a":["v","w"],"x-b":[]}`, `{"bad name":["v"],"":[]}`,
			`{"x-a":null}`, `{"x-a":[null,"v"]}`, `{"x-a":[1]}`, `{"x-a":["\u0000"],"x-b":"v"}`, `{"x-a":["v"],"x-a":["w"]}`},
		2, func(o string) { do("cend", o) })
}

// ---------------------------------------------------------------- generator: random valid JSON near the grammar

var c13AnyValues = []string{`null`, `1`, `true`, `"s"`, `[]`, `{}`, `[null]`, `{"a":1}`, `{"a":1,"a":1}`, `[{"b":[{"c":1,"c":2}]}]`, `-0.5e3`, `{" k k":[{"c c":1,"c c":2}]}`}

func c13Quote(s string) string {
	b, _ := json.Marshal(s)
	return string(b)
}

func c13RandMembers(r *gen.Rand, n int, member func() string) string {
	var ms []string
	for i := 0; i < n; i++ {
		ms = append(ms, member())
	}
	if len(ms) > 1 && r.Intn(12) == 0 { // duplicate a member
		ms = append(ms, ms[r.Intn(len(ms))])
	}
	return "{" + stringsJoin(ms, ",") + "}"
}

func c13RandDetailDoc(r *gen.Rand) string {
	if r.Intn(15) == 0 {
		return gen.Pick(r, c13AnyValues)
	}
	keys := []string{"type", "value", "debug", "type", "value", "Type", "VALUE", "x", "Debug"}
	i := 0
	return c13RandMembers(r, r.Range(1, 4), func() string {
		k := keys[i%3]
		i++
		if r.Intn(6) == 0 {
			k = gen.Pick(r, keys)
		}
		var v string
		switch {
		case r.Intn(8) == 0:
			v = gen.Pick(r, c13AnyValues)
		case k == "type" || k == "Type":
			v = c13Quote(gen.Pick(r, []string{"google.protobuf.StringValue", "google.protobuf.Empty", "a.B", "no.such.Type", "", "9x", "a..b", "connectrpc.conformance.v1.Header"}))
		case k == "value" || k == "VALUE":
			v = c13Quote(gen.Pick(r, []string{"", "CgFh", "CgFi", "QQ", "Q", "QQ==", "Q\nQ", "/w", "!!", "CgFh="}))
		default:
			v = gen.Pick(r, []string{`"a"`, `"b"`, `{}`, `{"value":"a"}`, `null`, `{"@type":"type.googleapis.com/google.protobuf.StringValue","value":"a"}`, `{"name":"n","name":"m"}`,
				`{"@type":` + c13Quote(c13RandURLPrefix(r)+gen.Pick(r, []string{"google.protobuf.StringValue", "google.protobuf.StringValue", "google.protobuf.Empty", "a.B", ""})) + `,"value":"a"}`})
		}
		return c13Quote(k) + ":" + v
	})
}

func c13RandErrorDoc(r *gen.Rand) string {
	if r.Intn(20) == 0 {
		return gen.Pick(r, c13AnyValues)
	}
	keys := []string{"code", "message", "details", "code", "Code", "MESSAGE", "Details", "x", "meſſage"}
	i := 0
	return c13RandMembers(r, r.Range(1, 4), func() string {
		k := keys[i%3]
		i++
		if r.Intn(6) == 0 {
			k = gen.Pick(r, keys)
		}
		var v string
		switch {
		case r.Intn(8) == 0:
			v = gen.Pick(r, c13AnyValues)
		case k == "code" || k == "Code":
			v = c13Quote(gen.Pick(r, []string{"internal", "canceled", "unauthenticated", "data_loss", "ok", "Internal", "code_17", ""}))
		case k == "details" || k == "Details":
			var ds []string
			for n := r.Intn(4); n > 0; n-- {
				ds = append(ds, c13RandDetailDoc(r))
			}
			v = "[" + stringsJoin(ds, ",") + "]"
		default:
			v = c13Quote(c13ValidUTF8(c13RandMsg(r)))
		}
		return c13Quote(k) + ":" + v
	})
}

func c13RandMetadataDoc(r *gen.Rand) string {
	return c13RandMembers(r, r.Intn(4), func() string {
		name := gen.Pick(r, c13GoodNames)
		if r.Intn(5) == 0 {
			name = gen.Pick(r, c13OddNames)
		}
		if r.Intn(8) == 0 {
			return c13Quote(name) + ":" + gen.Pick(r, c13AnyValues)
		}
		var vs []string
		for n := r.Intn(3); n > 0; n-- {
			switch r.Intn(8) {
			case 0:
				vs = append(vs, gen.Pick(r, c13AnyValues))
			case 1:
				vs = append(vs, c13Quote(c13ValidUTF8(gen.Pick(r, c13OddVals))))
			default:
				vs = append(vs, c13Quote(c13ValidUTF8(gen.Pick(r, c13GoodVals))))
			}
		}
		return c13Quote(name) + ":[" + stringsJoin(vs, ",") + "]"
	})
}

func c13RandEndStreamDoc(r *gen.Rand) string {
	keys := []string{"error", "metadata", "error", "Error", "METADATA", "x"}
	i := 0
	return c13RandMembers(r, r.Intn(4), func() string {
		k := keys[i%2]
		i++
		if r.Intn(6) == 0 {
			k = gen.Pick(r, keys)
		}
		var v string
		switch {
		case r.Intn(10) == 0:
			v = gen.Pick(r, c13AnyValues)
		case k == "error" || k == "Error":
			v = c13RandErrorDoc(r)
		default:
			v = c13RandMetadataDoc(r)
		}
		return c13Quote(k) + ":" + v
	})
}

// c13JSONRandom: n random documents per examiner that are valid JSON and close to the grammar.
func c13JSONRandom(c *gen.Ctx, n int) {
	for i := 0; i < n; i++ {
		c.Do("cerr", c13JSONIn{JSON: c13Hx(c13RandErrorDoc(c.R)), Kind: "structured"})
		c.Do("cend", c13JSONIn{JSON: c13Hx(c13RandEndStreamDoc(c.R)), Kind: "structured"})
		c.E.Count("kind:json-structured-random")
	}
}

// ---------------------------------------------------------------- generator: "debug" in google.protobuf.Any form

// c13AnyParts: for a message, its full name, its serialized bytes and the members its
// google.protobuf.Any rendering has besides "@type" (as protojson writes them, compacted).
type c13AnyParts struct {
	name    string
	value   []byte
	members string // `,"k":v,...` in key order, or ""
}

func c13AnyPartsOf(m proto.Message) c13AnyParts {
	name := string(m.ProtoReflect().Descriptor().FullName())
	value, err := proto.MarshalOptions{Deterministic: true}.Marshal(m)
	if err != nil {
		panic(err)
	}
	js, err := protojson.Marshal(&anypb.Any{TypeUrl: "type.googleapis.com/" + name, Value: value})
	if err != nil {
		panic(err)
	}
	var ms map[string]json.RawMessage
	if err := json.Unmarshal(js, &ms); err != nil {
		panic(err)
	}
	delete(ms, "@type")
	keys := make([]string, 0, len(ms))
	for k := range ms {
		keys = append(keys, k)
	}
	sort.Strings(keys)
	out := c13AnyParts{name: name, value: value}
	for _, k := range keys {
		var buf bytes.Buffer
		if err := json.Compact(&buf, ms[k]); err != nil {
			panic(err)
		}
		out.members += "," + c13Quote(k) + ":" + buf.String()
	}
	return out
}

// c13AnyDetail: an error detail of type `typ` with value `value` whose "debug" member is the
// Any rendering `{"@type": url, members...}`.
func c13AnyDetail(typ string, value []byte, url, members string) string {
	return `{"type":` + c13Quote(typ) + `,"value":"` + base64.RawStdEncoding.EncodeToString(value) + `","debug":{"@type":` + c13Quote(url) + members + `}}`
}

// c13URLPrefixes: what may stand in front of the message name in a type URL - nothing but the
// slash, the default host, other hosts, hosts with a path, several slashes, a scheme, a prefix that
// repeats the default one or looks like a message name.
var c13URLPrefixes = []string{"type.googleapis.com/", "/", "types.example.com/", "example.com/schemas/v1/", "//", "https://example.com/a/b/",
	"type.googleapis.com/type.googleapis.com/", "type.googleapis.com//", "a.B/", "google.protobuf.Int32Value/", "TYPE.GOOGLEAPIS.COM/", "x/"}

func c13RandURLPrefix(r *gen.Rand) string {
	if r.Intn(4) == 0 {
		return gen.Pick(r, c13URLPrefixes)
	}
	var sb bytes.Buffer
	for k := r.Intn(14); k > 0; k-- {
		sb.WriteByte(gen.Pick(r, []byte("abzAZ09.-_:/~/")))
	}
	return sb.String() + "/"
}

// c13JSONAnyForm: Connect errors whose details carry the "debug" member in google.protobuf.Any
// form (as older connect-go and other encoders write it) with every kind of type URL prefix:
// well-formed ones (the URL names the detail's type, the message is the value's: no feedback may
// come), and per well-formed one the malformations of that form (the URL names another type; the
// message differs; no name after the last slash).
func c13JSONAnyForm(c *gen.Ctx, nRand int) {
	r := c.R
	msgs := []proto.Message{
		wrapperspb.String("a"),
		&emptypb.Empty{},
		&conformancev1.Header{Name: "x-k", Value: []string{"v1", "v/2"}},
		&conformancev1.Error{Code: conformancev1.Code_CODE_ABORTED, Message: proto.String("m/n")},
		wrapperspb.Int32(7),
	}
	var parts []c13AnyParts
	for _, m := range msgs {
		parts = append(parts, c13AnyPartsOf(m))
	}
	other := c13AnyPartsOf(wrapperspb.String("b"))
	goodDetail := `{"type":"google.protobuf.Empty","value":""}`
	do := func(kind, detail string, second bool) {
		ds := detail
		if second {
			ds = goodDetail + "," + detail
		}
		errDoc := `{"code":"internal","message":"m","details":[` + ds + `]}`
		c.Do("cerr", c13JSONIn{JSON: c13Hx(errDoc), Kind: kind})
		c.Do("cend", c13JSONIn{JSON: c13Hx(`{"error":` + errDoc + `,"metadata":{"x-a":["1"]}}`), Kind: kind})
		c.E.Count("kind:json-anyform-" + kind)
	}
	one := func(p c13AnyParts, prefix string, second bool) {
		do("anyform", c13AnyDetail(p.name, p.value, prefix+p.name, p.members), second)
		// the URL names another (resolvable) type, rendered as that type
		q := parts[(len(p.name)+len(prefix))%len(parts)]
		if q.name == p.name {
			q = other
		}
		do("mut:cd:debug-type", c13AnyDetail(p.name, p.value, prefix+q.name, q.members), second)
		// nothing after the last slash / the name followed by a slash
		do("random", c13AnyDetail(p.name, p.value, prefix, p.members), second)
		do("random", c13AnyDetail(p.name, p.value, prefix+p.name+"/", p.members), second)
	}
	for _, p := range parts {
		for _, prefix := range c13URLPrefixes {
			one(p, prefix, len(prefix)%2 == 0)
		}
		// no slash at all: the URL is the name
		do("anyform", c13AnyDetail(p.name, p.value, p.name, p.members), false)
	}
	// the message differs from the value, whatever the prefix
	for _, prefix := range c13URLPrefixes {
		do("mut:cd:debug-mismatch", c13AnyDetail(other.name, parts[0].value, prefix+other.name, other.members), false)
	}
	for i := 0; i < nRand; i++ {
		one(gen.Pick(r, parts), c13RandURLPrefix(r), r.Bool())
	}
}
