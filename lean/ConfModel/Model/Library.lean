/-
Executable model of internal/app/connectconformance/test_case_library.go:
newTestCaseLibrary, expandSuite, expandCases, generateTestCasePrefix, groupTestCases,
serverInstanceForCase, allPermutations, filterGRPCImplTestCases, addGRPCMarkerToName and the
raw-payload validation of parseTestSuites.  Branch by branch, in the order of the Go code.
Core Lean only.  Reuses the `Case` type of the config model (C06).
-/
import ConfModel.Model.Config
namespace ConfModel.Library
open ConfModel.Config

/-! ### Go library functions: path.Join / path.Clean

Written over the characters of the strings (`List Char`) with structural recursion only, so that
`Props/C07.names_injective` can reason about them; `pathJoin` is the function the driver runs. -/

/-- `strings.Split(s, "/")`: the segments between the slashes (always at least one) -/
def splitSlash : List Char → List (List Char)
  | [] => [[]]
  | c :: cs =>
    if c = '/' then [] :: splitSlash cs
    else match splitSlash cs with
      | [] => [[c]]
      | seg :: rest => (c :: seg) :: rest

/-- `strings.Join(segs, "/")` -/
def joinSlash : List (List Char) → List Char
  | [] => []
  | [a] => a
  | a :: b :: rest => a ++ '/' :: joinSlash (b :: rest)

/-- the component loop of `path.Clean`; `stack` is the output so far, reversed -/
def cleanComps (rooted : Bool) : List (List Char) → List (List Char) → List (List Char)
  | stack, [] => stack.reverse
  | stack, c :: cs =>
    if c = [] ∨ c = ['.'] then cleanComps rooted stack cs
    else if c = ['.', '.'] then
      match stack with
      | top :: rest =>
        if top = ['.', '.'] then cleanComps rooted (['.', '.'] :: stack) cs else cleanComps rooted rest cs
      | [] => if rooted then cleanComps rooted [] cs else cleanComps rooted [['.', '.']] cs
    else cleanComps rooted (c :: stack) cs

/-- Go `path.Clean`, on the characters -/
def pathCleanL (s : List Char) : List Char :=
  if s = [] then ['.'] else
  let rooted := s.head? = some '/'
  let out := joinSlash (cleanComps rooted [] (splitSlash s))
  if rooted then '/' :: out else if out = [] then ['.'] else out

/-- Go `path.Join`, on the characters: empty elements are ignored, the rest joined with "/" and cleaned -/
def pathJoinL (elems : List (List Char)) : List Char :=
  let ne := elems.filter (fun e => e ≠ [])
  if ne.isEmpty then [] else pathCleanL (joinSlash ne)

/-- Go `path.Clean` -/
def pathClean (s : String) : String := String.ofList (pathCleanL s.toList)

/-- Go `path.Join` -/
def pathJoin (elems : List String) : String := String.ofList (pathJoinL (elems.map String.toList))

/-! ### data -/

inductive Mode | unspec | client | server
  deriving DecidableEq, Repr, Inhabited

def Mode.ofNum (n : Nat) : Mode := [Mode.unspec, .client, .server].getD n .unspec

/-- Go `run()` (connectconformance.go): the run mode is derived from which commands were given —
only a client command: a client is tested (against the reference server); only a server command:
a server is tested; both or neither: unspecified (neither client- nor server-only suites). -/
def runMode (clientCmd serverCmd : Bool) : Mode :=
  if !serverCmd && clientCmd then .client
  else if !clientCmd && serverCmd then .server
  else .unspec

/-- a test case template of a suite: what expansion reads; everything else is carried along -/
structure Test where
  name : String
  st : ST
  service : String      -- "" = not given
  method : String       -- "" = not given
  rawRequest : Bool     -- Request.RawRequest != nil
  rawResponse : Bool    -- hasRawResponse(Request.RequestMessages)
  hasExpected : Bool    -- ExpectedResponse != nil
  deriving DecidableEq, Repr, Inhabited

structure Suite where
  name : String
  mode : Mode
  protocols : List Proto
  versions : List Ver
  codecs : List Codec
  comps : List Comp
  cvm : CVM
  reliesOnTls : Bool
  reliesOnCerts : Bool
  reliesOnGet : Bool
  reliesOnLimit : Bool
  tests : List Test
  deriving DecidableEq, Repr, Inhabited

/-- one entry of `lib.testCases` (the cloned and populated TestCase) together with
`lib.testCaseNames[fullName]`; `suite`, `case`, `test` record where it came from -/
structure Perm where
  fullName : String     -- Request.TestName = map key
  simpleName : String   -- lib.testCaseNames[fullName]
  v : Ver
  p : Proto
  c : Codec
  z : Comp
  st : ST
  serverCert : Bool     -- len(Request.ServerTlsCert) > 0
  clientCreds : Bool    -- Request.ClientTlsCreds != nil
  service : String
  method : String
  rawRequest : Bool
  rawResponse : Bool
  certText : String     -- string(Request.ServerTlsCert)
  credsText : String    -- "" when Request.ClientTlsCreds == nil, else key ++ "|" ++ cert
  recvLimit : Nat       -- Request.MessageReceiveLimit
  suite : String
  case : Case
  test : Test
  deriving DecidableEq, Repr, Inhabited

inductive LibErr
  | suiteNoName | suiteNoTests | suiteDuplicate (name : String)
  | misconfigured (suite : String)
  | testNoName (i : Nat) | testNoStreamType (i : Nat) | methodWithoutService (i : Nat) | serviceWithoutMethod (i : Nat)
  | duplicateName (full : String)
  | noTestCases
  deriving DecidableEq, Repr

/-! ### enum spellings used in names -/

def _root_.ConfModel.Config.Proto.str : Proto → String
  | .unspec => "PROTOCOL_UNSPECIFIED" | .connect => "PROTOCOL_CONNECT" | .grpc => "PROTOCOL_GRPC"
  | .grpcWeb => "PROTOCOL_GRPC_WEB"
def _root_.ConfModel.Config.Codec.str : Codec → String
  | .unspec => "CODEC_UNSPECIFIED" | .proto => "CODEC_PROTO" | .json => "CODEC_JSON" | .text => "CODEC_TEXT"
def _root_.ConfModel.Config.Comp.str : Comp → String
  | .unspec => "COMPRESSION_UNSPECIFIED" | .identity => "COMPRESSION_IDENTITY" | .gzip => "COMPRESSION_GZIP"
  | .br => "COMPRESSION_BR" | .zstd => "COMPRESSION_ZSTD" | .deflate => "COMPRESSION_DEFLATE"
  | .snappy => "COMPRESSION_SNAPPY"
def boolStr (b : Bool) : String := if b then "true" else "false"

/-! ### expansion -/

/-- `allProtocols` … `allStreamTypes`: every enum value except the zero value, ascending -/
def realProtos : List Proto := [.connect, .grpc, .grpcWeb]
def realVers : List Ver := [.v1, .v2, .v3]
def realCodecs : List Codec := [.proto, .json, .text]
def realComps : List Comp := [.identity, .gzip, .br, .zstd, .deflate, .snappy]
def realSTs : List ST := [.unary, .client, .server, .half, .full]

/-- `if len(xs) == 0 { xs = allXs }` -/
def orAll {α} (l all : List α) : List α := if l.isEmpty then all else l

/-- the config cases `expandSuite` looks up, in the order of its nested loops -/
def suiteCases (s : Suite) : List Case :=
  (orAll s.protocols realProtos).flatMap fun p =>
  (orAll s.versions realVers).flatMap fun v =>
  (if s.reliesOnTls then [true] else [true, false]).flatMap fun t =>
  (orAll s.codecs realCodecs).flatMap fun c =>
  (orAll s.comps realComps).flatMap fun z =>
  realSTs.map fun st =>
    (⟨v, p, c, z, st, t, s.reliesOnCerts, s.reliesOnGet, s.reliesOnLimit, s.cvm⟩ : Case)

/-- Go `generateTestCasePrefix` (`components := make([]string, 1, 5)` starts with one empty string) -/
def namePrefix (s : Suite) (c : Case) : List String :=
  [""] ++ [s.name] ++
  (if s.versions.length ≠ 1 then ["HTTPVersion:" ++ toString c.v.num] else []) ++
  (if s.protocols.length ≠ 1 then ["Protocol:" ++ c.p.str] else []) ++
  (if s.codecs.length ≠ 1 then ["Codec:" ++ c.c.str] else []) ++
  (if s.comps.length ≠ 1 then ["Compression:" ++ c.z.str] else []) ++
  (if s.reliesOnTls = false then ["TLS:" ++ boolStr c.tls] else [])

def serviceName : String := "connectrpc.conformance.v1.ConformanceService"

/-- `clientReceiveLimit` (tied to the tree by `Generated.C07Facts` + `Props.C07.receive_limit_fact`) -/
def clientReceiveLimit : Nat := 1048576

/-- `[]byte("PLACEHOLDER")`: "to be replaced with actual cert provided by server" -/
def placeholder : String := "PLACEHOLDER"

/-- the stream type → method switch of `expandCases` -/
def defaultMethod : ST → String
  | .unary => "Unary" | .client => "ClientStream" | .server => "ServerStream"
  | .half => "BidiStream" | .full => "BidiStream" | .unspec => ""

/-- the clone-and-populate block of `expandCases` -/
def mkPerm (join : List String → String) (s : Suite) (c : Case) (pre : List String) (t : Test) : Perm :=
  { fullName := join (pre ++ [t.name]),
    simpleName := t.name,
    v := c.v, p := c.p, c := c.c, z := c.z,
    st := t.st,
    serverCert := c.tls,
    clientCreds := if c.tls then c.certs else false,
    service := if t.service = "" then serviceName else t.service,
    method := if t.service = "" then defaultMethod t.st else t.method,
    rawRequest := t.rawRequest, rawResponse := t.rawResponse,
    certText := if c.tls then placeholder else "",
    credsText := if c.tls then (if c.certs then placeholder ++ "|" ++ placeholder else "") else "",
    recvLimit := clientReceiveLimit,
    suite := s.name, case := c, test := t }

/-- Go `expandCases`; `i` = index of the head test case, `acc` = `lib.testCases` so far -/
def expandCases (join : List String → String) (s : Suite) (c : Case) (pre : List String) :
    List Test → Nat → List Perm → Except LibErr (List Perm)
  | [], _, acc => .ok acc
  | t :: ts, i, acc =>
    if t.name = "" then .error (.testNoName (i + 1)) else
    if t.st = .unspec then .error (.testNoStreamType (i + 1)) else
    if t.st ≠ c.s then expandCases join s c pre ts (i + 1) acc else
    if t.service = "" ∧ t.method ≠ "" then .error (.methodWithoutService (i + 1)) else
    if t.service ≠ "" ∧ t.method = "" then .error (.serviceWithoutMethod (i + 1)) else
    let full := join (pre ++ [t.name])
    if acc.any (fun q => q.fullName = full) then .error (.duplicateName full) else
    expandCases join s c pre ts (i + 1) (mkPerm join s c pre t :: acc)

/-- the body of the nested loops of `expandSuite` for the looked-up cases that are in the set -/
def expandAll (join : List String → String) (s : Suite) : List Case → List Perm → Except LibErr (List Perm)
  | [], acc => .ok acc
  | c :: cs, acc =>
    match expandCases join s c (namePrefix s c) s.tests 0 acc with
    | .error e => .error e
    | .ok acc' => expandAll join s cs acc'

/-- the four "is misconfigured" checks of `expandSuite` -/
def misconfigured (s : Suite) : Bool :=
  (s.reliesOnCerts && !s.reliesOnTls) ||
  (s.reliesOnGet && !only s.protocols .connect) ||
  (s.cvm = .ignore && !only s.protocols .connect) ||
  (s.cvm = .require && !only s.protocols .connect)

/-- Go `expandSuite`; `inCases` = membership in `configCaseSet` -/
def expandSuite (join : List String → String) (s : Suite) (inCases : Case → Bool) (acc : List Perm) :
    Except LibErr (List Perm) :=
  if misconfigured s then .error (.misconfigured s.name) else
  expandAll join s ((suiteCases s).filter inCases) acc

/-- the suite loop of `newTestCaseLibrary`; `seen` = keys of `suitesIndex` -/
def expandSuites (join : List String → String) (inCases : Case → Bool) (mode : Mode) :
    List Suite → List String → List Perm → Except LibErr (List Perm)
  | [], _, acc => .ok acc
  | s :: ss, seen, acc =>
    if s.name = "" then .error .suiteNoName else
    if s.tests.isEmpty then .error .suiteNoTests else
    if seen.contains s.name then .error (.suiteDuplicate s.name) else
    if s.mode ≠ .unspec ∧ s.mode ≠ mode then expandSuites join inCases mode ss (s.name :: seen) acc else
    match expandSuite join s inCases acc with
    | .error e => .error e
    | .ok acc' => expandSuites join inCases mode ss (s.name :: seen) acc'

/-- Go `newTestCaseLibrary` up to `populateExpectedResponses` (not modelled: the expected
responses are opaque here). The list is read as a map keyed by `fullName`. -/
def newLibrary (join : List String → String) (suites : List Suite) (inCases : Case → Bool) (mode : Mode) :
    Except LibErr (List Perm) :=
  match expandSuites join inCases mode suites [] [] with
  | .error e => .error e
  | .ok lib => if lib.isEmpty then .error .noTestCases else .ok lib

/-! ### grouping by server instance -/

/-- Go `serverInstance` -/
structure ServerKey where
  p : Proto
  v : Ver
  tls : Bool
  certs : Bool
  deriving DecidableEq, Repr, Inhabited

/-- Go `serverInstanceForCase` -/
def keyOf (q : Perm) : ServerKey := ⟨q.p, q.v, q.serverCert, q.clientCreds⟩

/-- `lib.casesByServer[svr] = append(lib.casesByServer[svr], testCase)` -/
def addToGroup (k : ServerKey) (q : Perm) : List (ServerKey × List Perm) → List (ServerKey × List Perm)
  | [] => [(k, [q])]
  | (k', l) :: rest => if k' = k then (k', l ++ [q]) :: rest else (k', l) :: addToGroup k q rest

/-- Go `groupTestCases` -/
def group (perms : List Perm) : List (ServerKey × List Perm) :=
  perms.foldl (fun g q => addToGroup (keyOf q) q g) []

/-! ### permutations against the gRPC reference peers -/

def grpcImplMarker (client server : Bool) : String :=
  if client && server then "(grpc impls)" else if client then "(grpc client impl)"
  else if server then "(grpc server impl)" else ""

/-- Go `strings.TrimSuffix` -/
def trimSuffix (s suffix : String) : String :=
  if s.endsWith suffix then (s.dropEnd suffix.length).toString else s

/-- Go `addGRPCMarkerToName` -/
def addMarker (fullName simpleName : String) (client server : Bool) : String :=
  trimSuffix fullName simpleName ++ grpcImplMarker client server ++ "/" ++ simpleName

/-- the `continue` conditions of `filterGRPCImplTestCases` -/
def grpcApplicable (client server : Bool) (q : Perm) : Bool :=
  !((client && q.p ≠ .grpc) || q.p = .connect) &&
  (if q.p = .grpcWeb then (q.v = .v1 || q.v = .v2) else q.v = .v2) &&
  q.c = .proto &&
  (q.z = .identity || q.z = .gzip) &&
  !q.serverCert &&
  !(q.rawRequest && client) &&
  !(q.rawResponse && server)

/-- Go `filterGRPCImplTestCases` -/
def filterGRPC (client server : Bool) (perms : List Perm) : List Perm :=
  if !client && !server then perms else
  (perms.filter (grpcApplicable client server)).map fun q =>
    { q with fullName := addMarker q.fullName q.simpleName client server }

/-- Go `allPermutations` -/
def allPermutations (client server : Bool) (perms : List Perm) : List Perm :=
  perms ++ (if client then filterGRPC true false perms else []) ++
  (if server then filterGRPC false true perms else []) ++
  (if client && server then filterGRPC true true perms else [])

/-! ### parseTestSuites: where raw payloads are allowed -/

inductive ParseErr | rawRequest | rawResponse | rawResponseNoExpected
  deriving DecidableEq, Repr

/-- the per-test-case checks of `parseTestSuites` (without the expand-requests directive) -/
def checkTests (mode : Mode) : List Test → Option ParseErr
  | [] => none
  | t :: ts =>
    if t.rawRequest = true ∧ mode ≠ .server then some .rawRequest else
    if t.rawResponse = true ∧ mode ≠ .client then some .rawResponse else
    if t.rawResponse = true ∧ t.hasExpected = false then some .rawResponseNoExpected else
    checkTests mode ts

def parseSuites : List Suite → Option ParseErr
  | [] => none
  | s :: ss =>
    match checkTests s.mode s.tests with
    | some e => some e
    | none => parseSuites ss

end ConfModel.Library
