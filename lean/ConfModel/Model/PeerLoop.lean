/-
C09 — the request loop of a peer over a decoder that READS AHEAD (encoding/json.Decoder, any
buffered reader): what the decoder has pulled from the stream and not yet handed out lives in
the decoder.  `loopOne` is the loop of grpcclient.RunWithTrace / referenceclient.run: ONE
decoder for the whole of stdin.  `loopFresh` is the one-shot idiom of the servers
(`codec.NewDecoder(in).DecodeNext(req)`) put inside a loop: a fresh decoder for every message,
whose buffer dies with it.  The stream arrives as a list of reads (each read delivered whole:
the decoder's buffer is large enough).
-/
import ConfModel.Spec.Framing
namespace ConfModel.PeerLoop
open ConfModel.Delimited ConfModel.Framing

/-- the first complete frame of a buffer and what follows it -/
def split (max : Nat) (buf : Bytes) : Option (Bytes × Bytes) :=
  match (frames max 1 buf).1 with
  | m :: _ => some (m, buf.drop (4 + m.length))
  | [] => none

/-- one `DecodeNext` of a decoder whose buffer holds `buf`: hand out the first frame of the
buffer; while there is none, take the next read into the buffer; at the end of the stream a
non-empty buffer is a truncated message. Returns the buffer and the reads that are left. -/
def next (max : Nat) : Bytes → List Bytes → Res × Bytes × List Bytes
  | buf, [] =>
    match split max buf with
    | some (m, rest) => (.msg m, rest, [])
    | none => (if buf.isEmpty then .eof else .unexpectedEOF, buf, [])
  | buf, c :: cs =>
    match split max buf with
    | some (m, rest) => (.msg m, rest, c :: cs)
    | none => next max (buf ++ c) cs

/-- the loop over ONE decoder (at most `k` results; stops at the first non-message) -/
def loopOne (max : Nat) : Nat → Bytes → List Bytes → List Res
  | 0, _, _ => []
  | k+1, buf, reads =>
    match next max buf reads with
    | (.msg m, buf', reads') => .msg m :: loopOne max k buf' reads'
    | (r, _, _) => [r]

/-- the loop with a FRESH decoder per message: the buffer is dropped after every message -/
def loopFresh (max : Nat) : Nat → List Bytes → List Res
  | 0, _ => []
  | k+1, reads =>
    match next max [] reads with
    | (.msg m, _, reads') => .msg m :: loopFresh max k reads'
    | (r, _, _) => [r]

/-- cut `d` into pieces of the given sizes (what is left comes as one last piece) -/
def pieces : List Nat → Bytes → List Bytes
  | [], d => if d.isEmpty then [] else [d]
  | n :: ns, d => d.take n :: pieces ns (d.drop n)

end ConfModel.PeerLoop
