package main

// C20 — every supported compression round-trips, also when instances are reused.

import (
	"bytes"
	"compress/gzip"
	"compress/zlib"
	"encoding/hex"
	"encoding/json"
	"fmt"
	"go/ast"
	"go/parser"
	"go/token"
	"io"
	"net/http"
	"os"
	"path/filepath"
	"sort"
	"strings"
	"sync"

	"connectrpc.com/conformance/internal/app/referenceserver"
	"connectrpc.com/conformance/internal/compression"
	conformancev1 "connectrpc.com/conformance/internal/gen/proto/go/connectrpc/conformance/v1"
	"connectrpc.com/conformance/internal/tracer"
	"connectrpc.com/conformance/internal/verifharness/gen"
	"connectrpc.com/connect"
	"github.com/andybalholm/brotli"
	"github.com/golang/snappy"
	"github.com/klauspost/compress/zstd"
)

func init() {
	areas["c20"] = runC20
	areas["c20facts"] = runC20Facts
	gen.RegisterOp("c20", "hist", func(_ *gen.Ctx, raw json.RawMessage) any { return c20Hist(gen.Into[c20HistIn](raw)) })
	gen.RegisterOp("c20", "comp", func(_ *gen.Ctx, raw json.RawMessage) any { return c20Comp(gen.Into[c20CompIn](raw)) })
}

type c20Step struct {
	K    string `json:"k"`    // valid | corrupt | trunc | close | resetEmpty | read
	Data string `json:"data"` // hex payload (valid, corrupt, trunc)
	Bit  int    `json:"bit"`  // corrupt: bit to flip (mod stream length)
	Cut  int    `json:"cut"`  // trunc: bytes kept (mod stream length)
	Wrap bool   `json:"wrap,omitempty"` // hand Reset a plain io.Reader instead of a *bytes.Buffer
}
type c20HistIn struct {
	Enc   int32     `json:"enc"`
	Via   string    `json:"via"` // "" compression.GetDecompressor | "tracer" tracer.GetDecompressor(name)
	Steps []c20Step `json:"steps"`
}
type c20Look struct {
	ResetOk bool    `json:"resetOk"`
	Read    *string `json:"read"` // hex or null (error)
}
type c20StepOut struct {
	Src   string   `json:"src"`             // hex of the source given to Reset (msg steps)
	Fresh *c20Look `json:"fresh,omitempty"` // what a fresh instance does with that source
	Subs  []string `json:"subs"`            // results of the method calls of this step, in order
}
type c20HistOut struct {
	Empty c20Look      `json:"empty"` // fresh instance on an empty source
	Steps []c20StepOut `json:"steps"`
}
type c20CompIn struct {
	Enc  int32    `json:"enc"`
	Msgs []string `json:"msgs"`
	// Split: write each message in two pieces
	Split bool `json:"split"`
	// Via: how a message reaches the compressor: "" one Write (also for the empty message) | writeto
	// (bytes.Buffer.WriteTo, as connect-go's envelope writer: NO Write at all for an empty message) |
	// bytes (one Write per byte) | readfrom (io.Copy from a plain reader: chunked Writes, none when empty)
	Via string `json:"via,omitempty"`
	// NoPut: the instance is not Reset(io.Discard) after Close (a pool that resets only on Get)
	NoPut bool `json:"noPut,omitempty"`
}
type c20CompOut struct {
	Outs []*string `json:"outs"` // each destination decoded by a fresh decompressor (null: error)
}

var c20Names = map[int32]string{1: compression.Identity, 2: compression.Gzip, 3: compression.Brotli, 4: compression.Zstd, 5: compression.Deflate, 6: compression.Snappy}

func c20NewDecompressor(enc int32, via string) connect.Decompressor {
	if via == "tracer" {
		return tracer.GetDecompressor(c20Names[enc])
	}
	d, err := compression.GetDecompressor(conformancev1.Compression(enc))
	if err != nil {
		panic(err)
	}
	return d
}

var (
	c20Mu        sync.Mutex
	c20CompCache = map[string][]byte{}
	c20LookCache = map[string]c20Look{}
)

// c20Compress compresses data with a fresh compressor of the real tree.
func c20Compress(enc int32, data []byte) []byte {
	key := fmt.Sprintf("%d:%s", enc, data)
	c20Mu.Lock()
	if v, ok := c20CompCache[key]; ok {
		c20Mu.Unlock()
		return v
	}
	c20Mu.Unlock()
	c, err := compression.GetCompressor(conformancev1.Compression(enc))
	if err != nil {
		panic(err)
	}
	var buf bytes.Buffer
	c.Reset(&buf)
	if _, err := c.Write(data); err != nil {
		panic(err)
	}
	if err := c.Close(); err != nil {
		panic(err)
	}
	out := append([]byte{}, buf.Bytes()...)
	c20Mu.Lock()
	if len(c20CompCache) < 20000 && len(data) <= 4096 {
		c20CompCache[key] = out
	}
	c20Mu.Unlock()
	return out
}

func c20ReadAll(d io.Reader) (res string) {
	p := gen.Recover(func() {
		b, err := io.ReadAll(d)
		if err != nil {
			res = "err"
		} else {
			res = "data:" + gen.Hex(b)
		}
	})
	if p != "" {
		return "panic:" + p
	}
	return res
}

// c20FreshLook: what a fresh decompressor does with src (Reset, then read everything).
func c20FreshLook(enc int32, src []byte) c20Look {
	key := fmt.Sprintf("%d:%s", enc, src)
	c20Mu.Lock()
	if v, ok := c20LookCache[key]; ok {
		c20Mu.Unlock()
		return v
	}
	c20Mu.Unlock()
	d := c20NewDecompressor(enc, "")
	var look c20Look
	var rd io.Reader = bytes.NewBuffer(src)
	if len(src) == 0 {
		rd = http.NoBody
	}
	look.ResetOk = d.Reset(rd) == nil
	if r := c20ReadAll(d); strings.HasPrefix(r, "data:") {
		h := r[5:]
		look.Read = &h
	}
	gen.Recover(func() { _ = d.Close() })
	c20Mu.Lock()
	if len(c20LookCache) < 50000 && len(src) <= 4096 {
		c20LookCache[key] = look
	}
	c20Mu.Unlock()
	return look
}

func c20Call(f func() error) string {
	var err error
	if p := gen.Recover(func() { err = f() }); p != "" {
		return "panic:" + p
	}
	if err != nil {
		return "err"
	}
	return "ok"
}

func c20Hist(in c20HistIn) c20HistOut {
	out := c20HistOut{Empty: c20FreshLook(in.Enc, nil), Steps: []c20StepOut{}}
	d := c20NewDecompressor(in.Enc, in.Via)
	for _, st := range in.Steps {
		var so c20StepOut
		so.Subs = []string{}
		switch st.K {
		case "valid", "corrupt", "trunc":
			data, _ := hex.DecodeString(st.Data)
			src := append([]byte{}, c20Compress(in.Enc, data)...)
			switch st.K {
			case "corrupt":
				if len(src) > 0 {
					bit := st.Bit % (8 * len(src))
					src[bit/8] ^= 1 << uint(bit%8)
				}
			case "trunc":
				if len(src) > 0 {
					src = src[:st.Cut%len(src)]
				}
			}
			so.Src = gen.Hex(src)
			look := c20FreshLook(in.Enc, src)
			so.Fresh = &look
			// one message through the pooled instance, as connect-go's compressionPool does
			var rd io.Reader = bytes.NewBuffer(append([]byte{}, src...))
			if st.Wrap {
				rd = struct{ io.Reader }{rd}
			}
			r := c20Call(func() error { return d.Reset(rd) })
			so.Subs = append(so.Subs, r)
			if r == "ok" {
				so.Subs = append(so.Subs, c20ReadAll(d))
				so.Subs = append(so.Subs, c20Call(d.Close))
				so.Subs = append(so.Subs, c20Call(func() error { return d.Reset(http.NoBody) }))
			}
		case "close":
			so.Subs = append(so.Subs, c20Call(d.Close))
		case "resetEmpty":
			so.Subs = append(so.Subs, c20Call(func() error { return d.Reset(http.NoBody) }))
		case "read":
			so.Subs = append(so.Subs, c20ReadAll(d))
		}
		out.Steps = append(out.Steps, so)
	}
	gen.Recover(func() { _ = d.Close() })
	return out
}

func c20Comp(in c20CompIn) c20CompOut {
	c, err := compression.GetCompressor(conformancev1.Compression(in.Enc))
	if err != nil {
		panic(err)
	}
	bufs := make([]*bytes.Buffer, len(in.Msgs))
	for i, m := range in.Msgs {
		data, _ := hex.DecodeString(m)
		bufs[i] = &bytes.Buffer{}
		c.Reset(bufs[i])
		if in.Split && len(data) > 1 {
			if _, err := c.Write(data[:len(data)/2]); err != nil {
				panic(err)
			}
			data = data[len(data)/2:]
		}
		switch in.Via {
		case "writeto":
			if _, err := bytes.NewBuffer(data).WriteTo(c); err != nil {
				panic(err)
			}
		case "bytes":
			for k := range data {
				if _, err := c.Write(data[k : k+1]); err != nil {
					panic(err)
				}
			}
		case "readfrom":
			if _, err := io.Copy(c, struct{ io.Reader }{bytes.NewReader(data)}); err != nil {
				panic(err)
			}
		default:
			if _, err := c.Write(data); err != nil {
				panic(err)
			}
		}
		if err := c.Close(); err != nil {
			panic(err)
		}
		if !in.NoPut {
			c.Reset(io.Discard) // as connect-go's putCompressor
		}
	}
	out := c20CompOut{Outs: make([]*string, len(in.Msgs))}
	for i := range in.Msgs {
		look := c20FreshLook(in.Enc, bufs[i].Bytes())
		if look.ResetOk {
			out.Outs[i] = look.Read
		}
	}
	return out
}

// ---------------------------------------------------------------- generator

func c20Payload(r *gen.Rand, max int) []byte {
	n := 0
	switch r.Intn(6) {
	case 0:
		n = 0
	case 1:
		n = r.Intn(16)
	case 2, 3:
		n = r.Intn(max/16 + 1)
	default:
		n = r.Intn(max + 1)
	}
	b := make([]byte, n)
	switch r.Intn(3) {
	case 0: // incompressible
		copy(b, r.Bytes(n))
	case 1: // text-like, compressible
		words := []string{"connect", "grpc", "conformance", " ", "\n", "payload", "0123456789", "é"}
		var sb strings.Builder
		for sb.Len() < n {
			sb.WriteString(gen.Pick(r, words))
		}
		copy(b, sb.String())
	default: // runs
		for i := 0; i < n; {
			v := byte(r.Uint64())
			l := r.Range(1, 300)
			for k := 0; k < l && i < n; k++ {
				b[i] = v
				i++
			}
		}
	}
	return b
}

func runC20(c *gen.Ctx) error {
	r := c.R
	e := c.E
	th := c.Thorough()
	encs := []int32{1, 2, 3, 4, 5, 6}
	ref := [][]byte{[]byte("hello, conformance! hello, conformance!"), {0, 1, 2, 3, 250, 251, 252, 253, 254, 255}, []byte(strings.Repeat("ab", 40))}

	// (0) fresh construction + round trip under different GOMAXPROCS values, serially, before
	//     anything runs in parallel (c20procs.go)
	c20ProcsGen(c)

	// (a) every history up to length 4 (thorough 5) over {valid, empty, corrupt, trunc, close, resetEmpty}
	alphabet := func(pos int) []c20Step {
		d := gen.Hex(append([]byte(fmt.Sprintf("m%d:", pos)), ref[pos%len(ref)]...))
		return []c20Step{
			{K: "valid", Data: d},
			{K: "valid", Data: ""},
			{K: "corrupt", Data: d, Bit: 8*(3+5*pos) + pos},
			{K: "trunc", Data: d, Cut: 7 + 3*pos},
			{K: "close"},
			{K: "resetEmpty"},
		}
	}
	maxLen := 4
	if th {
		maxLen = 5
	}
	var hists [][]c20Step
	var rec func(cur []c20Step)
	rec = func(cur []c20Step) {
		if len(cur) > 0 {
			hists = append(hists, append([]c20Step{}, cur...))
		}
		if len(cur) == maxLen {
			return
		}
		for _, s := range alphabet(len(cur)) {
			rec(append(cur, s))
		}
	}
	rec(nil)
	var jobs []any
	for _, enc := range encs {
		for _, h := range hists {
			// end every history with a valid message: "whatever happened earlier"
			steps := append(append([]c20Step{}, h...), c20Step{K: "valid", Data: gen.Hex([]byte("final message"))})
			jobs = append(jobs, c20HistIn{Enc: enc, Steps: steps})
		}
	}
	e.Add("histories-exhaustive", len(jobs))
	c.DoParallel("hist", jobs, 8)

	// (b) every single-bit flip and every cut of reference streams, followed by valid messages
	jobs = nil
	nref := len(ref)
	for _, enc := range encs {
		for _, p := range ref[:nref] {
			n := len(c20Compress(enc, p))
			good := c20Step{K: "valid", Data: gen.Hex(p)}
			for bit := 0; bit < 8*n; bit++ {
				jobs = append(jobs, c20HistIn{Enc: enc, Steps: []c20Step{{K: "corrupt", Data: gen.Hex(p), Bit: bit}, good, {K: "valid", Data: ""}}})
			}
			for cut := 0; cut < n; cut++ {
				jobs = append(jobs, c20HistIn{Enc: enc, Steps: []c20Step{{K: "trunc", Data: gen.Hex(p), Cut: cut}, good}})
			}
		}
	}
	e.Add("histories-flips-and-cuts", len(jobs))
	c.DoParallel("hist", jobs, 8)

	// (c) random histories with random payloads 0..64 KiB, also through tracer.GetDecompressor,
	//     stray reads between messages, and the unspecified enum value 0 (identity)
	jobs = nil
	nRand := 600
	if th {
		nRand = 6000
	}
	for i := 0; i < nRand; i++ {
		enc := gen.Pick(r, encs)
		via := ""
		if r.Chance(1, 4) {
			via = "tracer"
		} else if r.Chance(1, 12) {
			enc = 0
		}
		max := 2048
		if i%4 == 0 {
			max = 65536
		}
		n := r.Range(1, 5)
		steps := make([]c20Step, 0, n+1)
		cycles := 0
		for k := 0; k < n; k++ {
			p := gen.Hex(c20Payload(r, max))
			switch x := r.Intn(12); {
			case x < 6:
				steps = append(steps, c20Step{K: "valid", Data: p})
				cycles++
			case x < 8:
				steps = append(steps, c20Step{K: "corrupt", Data: p, Bit: r.Intn(1 << 20)})
				cycles++
			case x < 9:
				steps = append(steps, c20Step{K: "trunc", Data: p, Cut: r.Intn(1 << 16)})
				cycles++
			case x < 10:
				steps = append(steps, c20Step{K: "close"})
			case x < 11:
				steps = append(steps, c20Step{K: "resetEmpty"})
			default:
				if cycles > 0 {
					steps = append(steps, c20Step{K: "read"})
				}
			}
		}
		steps = append(steps, c20Step{K: "valid", Data: gen.Hex(c20Payload(r, max))})
		jobs = append(jobs, c20HistIn{Enc: enc, Via: via, Steps: steps})
	}
	c.DoParallel("hist", jobs, 8)

	// (c') large messages (beyond the libraries' synchronous small-input paths and internal block
	//      sizes: 150-400 KiB incompressible, 1 MiB compressible) on closed-and-reused instances,
	//      and sources that are plain io.Readers rather than *bytes.Buffer
	jobs = nil
	big := func(n int, compressible bool) string {
		b := make([]byte, n)
		if compressible {
			for i := range b {
				b[i] = byte((i / 97) % 251)
			}
		} else {
			copy(b, r.Bytes(n))
		}
		return gen.Hex(b)
	}
	for _, enc := range encs {
		l1, l2 := big(r.Range(150000, 400000), false), big(r.Range(140000, 300000), false)
		small := gen.Hex(c20Payload(r, 300))
		jobs = append(jobs,
			c20HistIn{Enc: enc, Steps: []c20Step{{K: "valid", Data: l1}, {K: "valid", Data: small}, {K: "valid", Data: l2}, {K: "valid", Data: ""}}},
			c20HistIn{Enc: enc, Steps: []c20Step{{K: "valid", Data: small}, {K: "close"}, {K: "valid", Data: l2}, {K: "trunc", Data: l1, Cut: 70000}, {K: "valid", Data: l1}}},
			c20HistIn{Enc: enc, Steps: []c20Step{{K: "valid", Data: small, Wrap: true}, {K: "close"}, {K: "valid", Data: small, Wrap: true}, {K: "corrupt", Data: small, Bit: 77, Wrap: true}, {K: "valid", Data: l1, Wrap: true}}},
		)
		if th {
			jobs = append(jobs, c20HistIn{Enc: enc, Steps: []c20Step{{K: "valid", Data: big(1<<20, true)}, {K: "close"}, {K: "valid", Data: big(1<<20, true)}, {K: "valid", Data: big(600000, false), Wrap: true}}})
		}
	}
	e.Add("histories-large-messages", len(jobs))
	c.DoParallel("hist", jobs, 6)

	// (d) pooled compressors
	jobs = nil
	nComp := 300
	if th {
		nComp = 3000
	}
	for i := 0; i < nComp; i++ {
		msgs := make([]string, r.Range(1, 4))
		for k := range msgs {
			max := 1024
			if i%6 == 0 {
				max = 65536
			}
			msgs[k] = gen.Hex(c20Payload(r, max))
		}
		jobs = append(jobs, c20CompIn{Enc: int32(r.Range(0, 6)), Msgs: msgs, Split: r.Bool()})
	}
	// every history of up to 3 (thorough 4) messages over {empty, 1 byte, small, 2 KiB} x every way of handing a
	// message over x with/without the pool's Reset(io.Discard): what a pooled instance went through before
	// (an empty message is Reset + Close with no Write at all under WriteTo) must not matter
	{
		kinds := []string{"", "00", gen.Hex([]byte("connect conformance")), gen.Hex(c20Payload(r, 2048) )}
		maxLen := 3
		if th {
			maxLen = 4
		}
		var hist func(prefix []string)
		var hists [][]string
		hist = func(prefix []string) {
			if len(prefix) > 0 {
				hists = append(hists, append([]string{}, prefix...))
			}
			if len(prefix) == maxLen {
				return
			}
			for _, k := range kinds {
				hist(append(prefix, k))
			}
		}
		hist(nil)
		for _, enc := range encs {
			for _, via := range []string{"", "writeto", "bytes", "readfrom"} {
				for hi, h := range hists {
					if !th && via != "writeto" && hi%3 != int(enc)%3 {
						continue
					}
					jobs = append(jobs, c20CompIn{Enc: enc, Msgs: h, Via: via, NoPut: hi%5 == 4})
					e.Count("comp-history:" + via)
				}
			}
		}
	}
	for i := 0; i < nComp; i++ {
		msgs := make([]string, r.Range(1, 4))
		for k := range msgs {
			msgs[k] = gen.Hex(c20Payload(r, 1024))
		}
		jobs = append(jobs, c20CompIn{Enc: int32(r.Range(0, 6)), Msgs: msgs, Split: r.Bool(), Via: gen.Pick(r, []string{"writeto", "bytes", "readfrom"}), NoPut: r.Chance(1, 4)})
	}
	c.DoParallel("comp", jobs, 8)

	// (e)-(g) the raw-payload encoders, (h)-(i) the wire tracer's end-stream path (c20raw.go)
	c20RawGen(c)
	c20TresGen(c)
	return nil
}

// ---------------------------------------------------------------- facts: naming tables

const c20ProbeText = "the quick brown fox jumps over the lazy dog; the quick brown fox jumps over the lazy dog; 0123456789"

// c20RefEncode / c20RefDecode use the third-party libraries directly (not the repository's
// wrappers): they define what the algorithm labels mean.
func c20RefEncode(alg string, data []byte) []byte {
	var buf bytes.Buffer
	var w io.WriteCloser
	switch alg {
	case "identity":
		return data
	case "gzip":
		w = gzip.NewWriter(&buf)
	case "zlib":
		w = zlib.NewWriter(&buf)
	case "brotli":
		w = brotli.NewWriter(&buf)
	case "zstd":
		zw, _ := zstd.NewWriter(&buf)
		w = zw
	case "snappy":
		w = snappy.NewBufferedWriter(&buf)
	}
	w.Write(data)
	w.Close()
	return buf.Bytes()
}

func c20RefDecode(alg string, src []byte) ([]byte, error) {
	switch alg {
	case "identity":
		return src, nil
	case "gzip":
		r, err := gzip.NewReader(bytes.NewReader(src))
		if err != nil {
			return nil, err
		}
		return io.ReadAll(r)
	case "zlib":
		r, err := zlib.NewReader(bytes.NewReader(src))
		if err != nil {
			return nil, err
		}
		return io.ReadAll(r)
	case "brotli":
		return io.ReadAll(brotli.NewReader(bytes.NewReader(src)))
	case "zstd":
		r, err := zstd.NewReader(bytes.NewReader(src))
		if err != nil {
			return nil, err
		}
		defer r.Close()
		return io.ReadAll(r)
	case "snappy":
		return io.ReadAll(snappy.NewReader(bytes.NewReader(src)))
	}
	return nil, fmt.Errorf("alg %s", alg)
}

var c20Algs = []string{"identity", "gzip", "brotli", "zstd", "zlib", "snappy"}

// c20LabelCompressor: which algorithm's reference decoder returns the payload.
func c20LabelCompressor(c connect.Compressor) string {
	var buf bytes.Buffer
	label := "broken"
	gen.Recover(func() {
		c.Reset(&buf)
		if _, err := c.Write([]byte(c20ProbeText)); err != nil {
			return
		}
		if err := c.Close(); err != nil {
			return
		}
		var hits []string
		for _, alg := range c20Algs {
			var out []byte
			var err error
			gen.Recover(func() { out, err = c20RefDecode(alg, buf.Bytes()) })
			if err == nil && string(out) == c20ProbeText {
				hits = append(hits, alg)
			}
		}
		if len(hits) > 0 {
			label = strings.Join(hits, "+")
		}
	})
	return label
}

// c20LabelDecompressor: which algorithm's reference stream it decodes to the payload.
func c20LabelDecompressor(d connect.Decompressor) string {
	var hits []string
	for _, alg := range c20Algs {
		src := c20RefEncode(alg, []byte(c20ProbeText))
		gen.Recover(func() {
			if err := d.Reset(bytes.NewBuffer(src)); err != nil {
				return
			}
			out, err := io.ReadAll(d)
			if err == nil && string(out) == c20ProbeText {
				hits = append(hits, alg)
			}
		})
	}
	if len(hits) == 0 {
		return "broken"
	}
	return strings.Join(hits, "+")
}

var (
	c20ConstByIdent = map[string]string{"Identity": compression.Identity, "Gzip": compression.Gzip, "Brotli": compression.Brotli,
		"Deflate": compression.Deflate, "Snappy": compression.Snappy, "Zstd": compression.Zstd}
	c20DecompByIdent = map[string]func() connect.Decompressor{"NewBrotliDecompressor": compression.NewBrotliDecompressor,
		"NewZstdDecompressor": compression.NewZstdDecompressor, "NewDeflateDecompressor": compression.NewDeflateDecompressor,
		"NewSnappyDecompressor": compression.NewSnappyDecompressor}
	c20CompByIdent = map[string]func() connect.Compressor{"NewBrotliCompressor": compression.NewBrotliCompressor,
		"NewZstdCompressor": compression.NewZstdCompressor, "NewDeflateCompressor": compression.NewDeflateCompressor,
		"NewSnappyCompressor": compression.NewSnappyCompressor}
	// must be ConfModel.Compression.probeNames
	c20ProbeNames = []string{"", "identity", "gzip", "br", "zstd", "deflate", "snappy", "GZIP", "Br", "Identity", "ZSTD", "Deflate", "SNAPPY",
		"brotli", "zlib", "x-gzip", "compress", "lz4", "gzip ", " gzip", "zstandard"}
)

func c20Sel(e ast.Expr) (pkg, name string) {
	if s, ok := e.(*ast.SelectorExpr); ok {
		if id, ok := s.X.(*ast.Ident); ok {
			return id.Name, s.Sel.Name
		}
		if inner, ok := s.X.(*ast.SelectorExpr); ok {
			return inner.Sel.Name, s.Sel.Name
		}
	}
	if id, ok := e.(*ast.Ident); ok {
		return "", id.Name
	}
	return "", ""
}

type c20Reg struct{ name, dec, comp string }

// c20RegsIn: registrations (connect.<fn>(compression.X, compression.NewXDecompressor, compression.NewXCompressor)) under node.
func c20RegsIn(node ast.Node, fn string) ([]c20Reg, error) {
	var regs []c20Reg
	var ferr error
	ast.Inspect(node, func(n ast.Node) bool {
		call, ok := n.(*ast.CallExpr)
		if !ok {
			return true
		}
		if pkg, name := c20Sel(call.Fun); pkg != "connect" || name != fn || len(call.Args) != 3 {
			return true
		}
		_, nameIdent := c20Sel(call.Args[0])
		nm, ok := c20ConstByIdent[nameIdent]
		if !ok {
			ferr = fmt.Errorf("%s: unknown name constant %q", fn, nameIdent)
			return false
		}
		reg := c20Reg{name: nm, dec: "nil", comp: "nil"}
		if _, d := c20Sel(call.Args[1]); d != "nil" {
			f, ok := c20DecompByIdent[d]
			if !ok {
				ferr = fmt.Errorf("%s: unknown decompressor constructor %q", fn, d)
				return false
			}
			reg.dec = c20LabelDecompressor(f())
		}
		if _, cc := c20Sel(call.Args[2]); cc != "nil" {
			f, ok := c20CompByIdent[cc]
			if !ok {
				ferr = fmt.Errorf("%s: unknown compressor constructor %q", fn, cc)
				return false
			}
			reg.comp = c20LabelCompressor(f())
		}
		regs = append(regs, reg)
		return true
	})
	return regs, ferr
}

func c20SendNames(node ast.Node) []string {
	var out []string
	ast.Inspect(node, func(n ast.Node) bool {
		call, ok := n.(*ast.CallExpr)
		if !ok {
			return true
		}
		pkg, name := c20Sel(call.Fun)
		if pkg == "connect" && name == "WithSendCompression" && len(call.Args) == 1 {
			_, id := c20Sel(call.Args[0])
			out = append(out, c20ConstByIdent[id])
		}
		if pkg == "connect" && name == "WithSendGzip" {
			out = append(out, "gzip") // connect-go's built-in
		}
		return true
	})
	return out
}

func c20Str(s string) string { return fmt.Sprintf("%q", s) }

func runC20Facts(c *gen.Ctx) error {
	var sb strings.Builder
	sb.WriteString("-- GENERATED by `verifharness c20facts` from the repository tree; do not edit.\n")
	sb.WriteString("import ConfModel.Spec.Compression\nnamespace ConfModel.Generated.C20Facts\nopen ConfModel.CompressionSpec\n\n")
	var items []string
	// name constants
	var idents []string
	for k := range c20ConstByIdent {
		idents = append(idents, k)
	}
	sort.Strings(idents)
	for _, k := range idents {
		items = append(items, fmt.Sprintf("(%s, %s)", c20Str(k), c20Str(c20ConstByIdent[k])))
	}
	fmt.Fprintf(&sb, "/-- the name constants of internal/compression -/\ndef nameConsts : List (String × String) := [%s]\n\n", strings.Join(items, ", "))
	// enum -> algorithm, by behaviour
	var comp, decomp, check []string
	for e := int32(0); e <= 8; e++ {
		lc, ld := "none", "none"
		if cc, err := compression.GetCompressor(conformancev1.Compression(e)); err == nil {
			lc = c20LabelCompressor(cc)
		}
		if dd, err := compression.GetDecompressor(conformancev1.Compression(e)); err == nil {
			ld = c20LabelDecompressor(dd)
		}
		comp = append(comp, fmt.Sprintf("(%d, %s)", e, c20Str(lc)))
		decomp = append(decomp, fmt.Sprintf("(%d, %s)", e, c20Str(ld)))
		// checkCompression: the names accepted without complaint, over all four ways of announcing
		var accepted []string
		for _, n := range c20ProbeNames {
			ok := true
			for _, how := range []string{"connect-unary", "connect-stream", "grpc", "get"} {
				if referenceserver.VerifC20CheckCompression(e, how, n, true) != 0 {
					ok = false
				}
			}
			if ok {
				accepted = append(accepted, n)
			}
		}
		absent := referenceserver.VerifC20CheckCompression(e, "connect-unary", "", false) == 0 &&
			referenceserver.VerifC20CheckCompression(e, "grpc", "", false) == 0 &&
			referenceserver.VerifC20CheckCompression(e, "get", "", false) == 0
		var acc []string
		for _, a := range accepted {
			acc = append(acc, c20Str(a))
		}
		check = append(check, fmt.Sprintf("(%d, [%s], %v)", e, strings.Join(acc, ", "), absent))
	}
	fmt.Fprintf(&sb, "/-- compression.GetCompressor: enum value ↦ algorithm whose reference decoder (the library, used directly) returns the payload -/\ndef compressorOf : List (Nat × String) := [%s]\n\n", strings.Join(comp, ", "))
	fmt.Fprintf(&sb, "/-- compression.GetDecompressor: enum value ↦ algorithm whose reference stream it decodes -/\ndef decompressorOf : List (Nat × String) := [%s]\n\n", strings.Join(decomp, ", "))
	fmt.Fprintf(&sb, "/-- referenceserver.checkCompression: expected enum value ↦ (probe names accepted without complaint, accepted when no encoding is announced) -/\ndef checkOf : List (Nat × List String × Bool) := [%s]\n\n", strings.Join(check, ", "))
	// tracer.GetDecompressor
	items = nil
	for _, n := range c20ProbeNames {
		items = append(items, fmt.Sprintf("(%s, %s)", c20Str(n), c20Str(c20LabelDecompressor(tracer.GetDecompressor(n)))))
	}
	fmt.Fprintf(&sb, "/-- tracer.GetDecompressor on the probe names -/\ndef tracerOf : List (String × String) := [%s]\n\n", strings.Join(items, ", "))
	// registrations (go/ast)
	fset := token.NewFileSet()
	srvFile, err := parser.ParseFile(fset, filepath.Join(c.RepoDir, "internal/app/referenceserver/server.go"), nil, 0)
	if err != nil {
		return err
	}
	regs, err := c20RegsIn(srvFile, "WithCompression")
	if err != nil {
		return err
	}
	items = nil
	for _, rg := range regs {
		items = append(items, fmt.Sprintf("(%s, %s, %s)", c20Str(rg.name), c20Str(rg.dec), c20Str(rg.comp)))
	}
	fmt.Fprintf(&sb, "/-- referenceserver/server.go: connect.WithCompression(name, decompressor, compressor) -/\ndef serverRegs : List (String × String × String) := [%s]\n\n", strings.Join(items, ", "))
	cliFile, err := parser.ParseFile(fset, filepath.Join(c.RepoDir, "internal/app/referenceclient/client.go"), nil, 0)
	if err != nil {
		return err
	}
	items = nil
	found := false
	var ferr error
	ast.Inspect(cliFile, func(n ast.Node) bool {
		sw, ok := n.(*ast.SwitchStmt)
		if !ok {
			return true
		}
		if pkg, name := c20Sel(sw.Tag); pkg != "req" || name != "Compression" {
			return true
		}
		found = true
		for _, st := range sw.Body.List {
			cl := st.(*ast.CaseClause)
			rs, err := c20RegsIn(&ast.BlockStmt{List: cl.Body}, "WithAcceptCompression")
			if err != nil {
				ferr = err
				return false
			}
			var rstr []string
			for _, rg := range rs {
				rstr = append(rstr, fmt.Sprintf("(%s, %s, %s)", c20Str(rg.name), c20Str(rg.dec), c20Str(rg.comp)))
			}
			var sstr []string
			for _, s := range c20SendNames(&ast.BlockStmt{List: cl.Body}) {
				sstr = append(sstr, c20Str(s))
			}
			for _, ex := range cl.List {
				_, id := c20Sel(ex)
				num, ok := conformancev1.Compression_value[strings.TrimPrefix(id, "Compression_")]
				if !ok {
					ferr = fmt.Errorf("client.go: unknown compression constant %q", id)
					return false
				}
				items = append(items, fmt.Sprintf("(%d, [%s], [%s])", num, strings.Join(rstr, ", "), strings.Join(sstr, ", ")))
			}
		}
		return false
	})
	if ferr != nil {
		return ferr
	}
	if !found {
		return fmt.Errorf("client.go: switch req.Compression not found")
	}
	sort.Strings(items)
	c20RawFacts(&sb)
	fmt.Fprintf(&sb, "/-- referenceclient/client.go, switch req.Compression: enum value ↦ (WithAcceptCompression registrations, send-compression names) -/\ndef clientRegs : List (Nat × List (String × String × String) × List String) := [%s]\n\n", strings.Join(items, ", "))
	sb.WriteString("def tables : Tables :=\n  { nameConsts := nameConsts, compressorOf := compressorOf, decompressorOf := decompressorOf, checkOf := checkOf,\n    tracerOf := tracerOf, serverRegs := serverRegs, clientRegs := clientRegs,\n    rawEncoderOf := rawEncoderOf, rawEmptyOf := rawEmptyOf }\n\n")
	sb.WriteString("end ConfModel.Generated.C20Facts\n")
	out := ""
	for i, a := range os.Args {
		if a == "--out" && i+1 < len(os.Args) {
			out = os.Args[i+1]
		}
	}
	if out == "" {
		fmt.Print(sb.String())
		return nil
	}
	return os.WriteFile(out, []byte(sb.String()), 0o644)
}
