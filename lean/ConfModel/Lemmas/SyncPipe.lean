/-
Helper lemmas for the reader over a pipe with write boundaries (`Model/SyncPipe.lean`).
-/
import ConfModel.Model.SyncPipe
import ConfModel.Lemmas.Delimited
namespace ConfModel.SyncPipe
open ConfModel.Delimited ConfModel.Framing

/-- the pipe after the reader has obtained the next `n` bytes, one `Read` at a time, stopping as
soon as it has them: (cur, next, met) -/
def advAux : List Bytes → Nat → Bytes → Nat → Bytes × List Bytes × Nat
  | [], n, cur, met => (cur.drop n, [], met)
  | w :: ws, n, cur, met =>
    if n ≤ cur.length then (cur.drop n, w :: ws, met) else advAux ws (n - cur.length) w (met + 1)

def adv (n : Nat) (p : Pipe) : Pipe :=
  { p with cur := (advAux p.next n p.cur p.met).1, next := (advAux p.next n p.cur p.met).2.1,
           met := (advAux p.next n p.cur p.met).2.2 }

theorem advAux_le (next : List Bytes) (n : Nat) (cur : Bytes) (met : Nat) (h : n ≤ cur.length) :
    advAux next n cur met = (cur.drop n, next, met) := by
  cases next with
  | nil => rfl
  | cons w ws => simp [advAux, h]

theorem advAux_gt (w : Bytes) (ws : List Bytes) (n : Nat) (cur : Bytes) (met : Nat) (h : cur.length < n) :
    advAux (w :: ws) n cur met = advAux ws (n - cur.length) w (met + 1) := by
  simp [advAux, Nat.not_le.mpr h]

theorem adv_zero (p : Pipe) : adv 0 p = p := by
  unfold adv
  rw [advAux_le _ _ _ _ (Nat.zero_le _)]
  simp

theorem loop_succ (n fuel : Nat) (acc : Bytes) (p : Pipe) :
    loop n (fuel+1) acc p =
    match p.read (n - acc.length) with
    | (.data bs, p') =>
      if acc.length + bs.length = n then .ok (acc ++ bs) p'
      else loop n fuel (acc ++ bs) p'
    | (.eof, p') => .err (if acc.length > 0 then .unexpectedEOF else .eof) acc.length p'
    | (.stall, p') => .stall acc.length p' := rfl

theorem read_cur (c : UInt8) (cs : Bytes) (next : List Bytes) (met : Nat) (e : End) (eb : Bool) (k : Nat)
    (hk : k ≠ 0) :
    Pipe.read ⟨c :: cs, next, met, e, eb⟩ k =
      (.data ((c :: cs).take k), ⟨(c :: cs).drop k, next, met, e, eb⟩) := by
  simp [Pipe.read, hk]

theorem read_next (w : Bytes) (ws : List Bytes) (met : Nat) (e : End) (eb : Bool) (k : Nat) (hk : k ≠ 0) :
    Pipe.read ⟨[], w :: ws, met, e, eb⟩ k = (.data (w.take k), ⟨w.drop k, ws, met + 1, e, eb⟩) := by
  simp [Pipe.read, hk]

theorem read_end (met : Nat) (e : End) (eb : Bool) (k : Nat) (hk : k ≠ 0) :
    Pipe.read ⟨[], [], met, e, eb⟩ k =
      (match e with | .closed => Step.eof | .stall => Step.stall, ⟨[], [], met, e, eb⟩) := by
  cases e <;> simp [Pipe.read, hk]

/-- the loop with the write in progress used up: it goes through the coming writes until it has
its bytes -/
theorem loop_fresh (n : Nat) (e : End) (eb : Bool) : ∀ (next : List Bytes) (fuel : Nat) (acc : Bytes) (met : Nat),
    next.length + 1 ≤ fuel → acc.length < n → n - acc.length ≤ next.flatten.length →
    loop n fuel acc ⟨[], next, met, e, eb⟩ =
      .ok (acc ++ next.flatten.take (n - acc.length))
        ⟨(advAux next (n - acc.length) [] met).1, (advAux next (n - acc.length) [] met).2.1,
         (advAux next (n - acc.length) [] met).2.2, e, eb⟩
  | [], _, acc, _, _, hlt, hd => by simp at hd; omega
  | w :: ws, 0, _, _, hf, _, _ => by simp at hf
  | w :: ws, fuel+1, acc, met, hf, hlt, hd => by
    have hk : n - acc.length ≠ 0 := by omega
    rw [loop_succ, read_next w ws met e eb _ hk]
    simp only
    by_cases hw : n - acc.length ≤ w.length
    · have hl : (w.take (n - acc.length)).length = n - acc.length := by
        rw [List.length_take]; omega
      rw [if_pos (by rw [hl]; omega)]
      have h0 : ([] : Bytes).length < n - acc.length := by simp; omega
      rw [advAux_gt w ws _ [] met h0]
      simp only [List.length_nil, Nat.sub_zero]
      rw [advAux_le ws _ w (met + 1) hw]
      simp only [List.flatten_cons]
      rw [List.take_append_of_le_length hw]
    · have hw' : w.length < n - acc.length := Nat.not_le.mp hw
      have ht : w.take (n - acc.length) = w := List.take_of_length_le (by omega)
      have hdr : w.drop (n - acc.length) = [] := List.drop_of_length_le (by omega)
      rw [ht, hdr, if_neg (by omega)]
      have hd' : n - (acc ++ w).length ≤ ws.flatten.length := by
        simp only [List.flatten_cons, List.length_append] at hd ⊢; omega
      have := loop_fresh n e eb ws fuel (acc ++ w) (met + 1) (by simp at hf; omega)
        (by simp only [List.length_append]; omega) hd'
      rw [this]
      have h0 : ([] : Bytes).length < n - acc.length := by simp; omega
      rw [advAux_gt w ws _ [] met h0]
      simp only [List.length_nil, Nat.sub_zero]
      have e1 : n - (acc ++ w).length = n - acc.length - w.length := by
        simp only [List.length_append]; omega
      rw [e1]
      cases ws with
      | nil => simp only [List.flatten_nil, List.length_nil, List.length_append] at hd'; omega
      | cons w' ws' =>
        rw [advAux_gt w' ws' _ w (met + 1) hw']
        have h0' : ([] : Bytes).length < n - acc.length - w.length := by simp; omega
        rw [advAux_gt w' ws' _ [] (met + 1) h0']
        simp only [List.length_nil, Nat.sub_zero, List.flatten_cons, List.append_assoc]
        congr 2
        rw [List.take_append (l₁ := w), ht]

/-- the loop from any state of the pipe -/
theorem loop_any (n : Nat) (e : End) (eb : Bool) (cur : Bytes) (next : List Bytes) (fuel : Nat) (acc : Bytes)
    (met : Nat) (hf : next.length + 2 ≤ fuel) (hlt : acc.length < n)
    (hd : n - acc.length ≤ (cur ++ next.flatten).length) :
    loop n fuel acc ⟨cur, next, met, e, eb⟩ =
      .ok (acc ++ (cur ++ next.flatten).take (n - acc.length))
        ⟨(advAux next (n - acc.length) cur met).1, (advAux next (n - acc.length) cur met).2.1,
         (advAux next (n - acc.length) cur met).2.2, e, eb⟩ := by
  cases cur with
  | nil =>
    simp only [List.nil_append] at hd ⊢
    exact loop_fresh n e eb next fuel acc met (by omega) hlt hd
  | cons c cs =>
    obtain ⟨fuel, rfl⟩ : ∃ f, fuel = f + 1 := ⟨fuel - 1, by omega⟩
    have hk : n - acc.length ≠ 0 := by omega
    rw [loop_succ, read_cur c cs next met e eb _ hk]
    simp only
    by_cases hw : n - acc.length ≤ (c :: cs).length
    · have hl : ((c :: cs).take (n - acc.length)).length = n - acc.length := by
        rw [List.length_take]; omega
      rw [if_pos (by rw [hl]; omega), advAux_le next _ (c :: cs) met hw,
        List.take_append_of_le_length hw]
    · have hw' : (c :: cs).length < n - acc.length := Nat.not_le.mp hw
      have ht : (c :: cs).take (n - acc.length) = c :: cs := List.take_of_length_le (by omega)
      have hdr : (c :: cs).drop (n - acc.length) = [] := List.drop_of_length_le (by omega)
      rw [ht, hdr, if_neg (by omega)]
      have hd' : n - (acc ++ c :: cs).length ≤ next.flatten.length := by
        simp only [List.length_append] at hd ⊢; omega
      rw [loop_fresh n e eb next fuel (acc ++ c :: cs) met (by omega)
        (by simp only [List.length_append]; omega) hd']
      have e1 : n - (acc ++ c :: cs).length = n - acc.length - (c :: cs).length := by
        simp only [List.length_append]; omega
      rw [e1]
      cases next with
      | nil => simp only [List.flatten_nil, List.length_nil, List.length_append] at hd'; omega
      | cons w ws =>
        rw [advAux_gt w ws _ (c :: cs) met hw']
        have h0 : ([] : Bytes).length < n - acc.length - (c :: cs).length := by simp only [List.length_nil]; omega
        rw [advAux_gt w ws _ [] met h0]
        simp only [List.length_nil, Nat.sub_zero, List.append_assoc]
        congr 2
        rw [List.take_append (l₁ := c :: cs), ht]

/-- `read(n)` with the bytes to come: exactly the next `n` bytes, and the reader has met only the
writes it took to get them — provided it does not issue an empty `Read` that blocks -/
theorem readN_ok (guard : Bool) (n : Nat) (p : Pipe)
    (h : guard = true ∨ p.emptyBlocks = false ∨ n ≠ 0) (hd : n ≤ p.data.length) :
    readN guard n p = .ok (p.data.take n) (adv n p) := by
  obtain ⟨cur, next, met, e, eb⟩ := p
  by_cases hn : n = 0
  · subst hn
    rcases h with h | h | h
    · simp [readN, h, adv_zero]
    · simp only at h
      subst h
      by_cases hg : guard = true
      · simp [readN, hg, adv_zero]
      · simp [readN, hg, loop_succ, Pipe.read, adv_zero]
    · exact absurd rfl h
  · have : ¬ (guard = true ∧ n = 0) := fun hh => hn hh.2
    unfold readN
    rw [if_neg this]
    have := loop_any n e eb cur next (next.length + 2) [] met (Nat.le_refl _) (by simp; omega)
      (by simpa [Pipe.data] using hd)
    simpa [adv, Pipe.data] using this

theorem advAux_data : ∀ (next : List Bytes) (n : Nat) (cur : Bytes) (met : Nat),
    (advAux next n cur met).1 ++ (advAux next n cur met).2.1.flatten = (cur ++ next.flatten).drop n
  | [], n, cur, met => by simp [advAux]
  | w :: ws, n, cur, met => by
    by_cases h : n ≤ cur.length
    · rw [advAux_le _ _ _ _ h]
      simp only
      rw [List.drop_append_of_le_length h]
    · have h' : cur.length < n := Nat.not_le.mp h
      rw [advAux_gt _ _ _ _ _ h', advAux_data ws (n - cur.length) w (met + 1)]
      simp only [List.flatten_cons]
      rw [List.drop_append (l₁ := cur), List.drop_of_length_le (by omega : cur.length ≤ n)]
      simp

theorem adv_data (n : Nat) (p : Pipe) : (adv n p).data = p.data.drop n := by
  simp only [adv, Pipe.data]
  exact advAux_data p.next n p.cur p.met

theorem adv_emptyBlocks (n : Nat) (p : Pipe) : (adv n p).emptyBlocks = p.emptyBlocks := rfl

theorem advAux_add : ∀ (next : List Bytes) (a b : Nat) (cur : Bytes) (met : Nat),
    advAux (advAux next b cur met).2.1 a (advAux next b cur met).1 (advAux next b cur met).2.2
      = advAux next (a + b) cur met
  | [], a, b, cur, met => by
    simp only [advAux, List.drop_drop]
    rw [Nat.add_comm]
  | w :: ws, a, b, cur, met => by
    by_cases hb : b ≤ cur.length
    · rw [advAux_le _ _ _ _ hb]
      simp only
      by_cases ha : a ≤ (cur.drop b).length
      · rw [advAux_le _ _ _ _ ha, advAux_le _ _ _ _ (by rw [List.length_drop] at ha; omega), List.drop_drop,
          Nat.add_comm]
      · have ha' : (cur.drop b).length < a := Nat.not_le.mp ha
        rw [advAux_gt _ _ _ _ _ ha', advAux_gt _ _ _ _ _ (by rw [List.length_drop] at ha'; omega)]
        congr 1
        rw [List.length_drop]; omega
    · have hb' : cur.length < b := Nat.not_le.mp hb
      rw [advAux_gt _ _ _ _ _ hb', advAux_add ws a (b - cur.length) w (met + 1),
        advAux_gt _ _ _ _ _ (by omega : cur.length < a + b)]
      congr 1
      omega

theorem adv_add (a b : Nat) (p : Pipe) : adv a (adv b p) = adv (a + b) p := by
  simp only [adv]
  rw [advAux_add]

theorem advAux_met : ∀ (next : List Bytes) (k : Nat) (cur : Bytes) (met : Nat),
    (advAux next k cur met).2.2 = met + (if k ≤ cur.length then 0 else needed next (k - cur.length))
  | [], k, cur, met => by
    simp only [advAux]
    split
    · rfl
    · cases hk : k - cur.length <;> simp [needed]
  | w :: ws, k, cur, met => by
    by_cases h : k ≤ cur.length
    · rw [advAux_le _ _ _ _ h]; simp [h]
    · have h' : cur.length < k := Nat.not_le.mp h
      rw [advAux_gt _ _ _ _ _ h', advAux_met ws (k - cur.length) w (met + 1), if_neg h]
      obtain ⟨j, hj⟩ : ∃ j, k - cur.length = j + 1 := ⟨k - cur.length - 1, by omega⟩
      rw [hj]
      simp only [needed]
      split <;> omega

theorem adv_fresh_met (writes : List Bytes) (e : End) (eb : Bool) (k : Nat) :
    (adv k (Pipe.fresh writes e eb)).met = needed writes k := by
  simp only [adv, Pipe.fresh]
  rw [advAux_met]
  cases k with
  | zero => cases writes <;> simp [needed]
  | succ j => simp

/-- nothing more to come: the reader meets the remaining (empty) writes and then the end -/
theorem loop_end (n : Nat) (hn : n ≠ 0) (e : End) (eb : Bool) : ∀ (next : List Bytes) (fuel : Nat) (met : Nat),
    next.length + 1 ≤ fuel → next.flatten = [] →
    ∃ p', loop n fuel [] ⟨[], next, met, e, eb⟩ =
      (match e with | .closed => RN.err .eof 0 p' | .stall => RN.stall 0 p')
  | [], 0, _, hf, _ => by simp at hf
  | [], fuel+1, met, _, _ => by
    refine ⟨⟨[], [], met, e, eb⟩, ?_⟩
    rw [loop_succ, read_end met e eb _ (by simpa using hn)]
    cases e <;> simp
  | w :: ws, 0, _, hf, _ => by simp at hf
  | w :: ws, fuel+1, met, hf, hd => by
    have hw : w = [] := by
      simp only [List.flatten_cons, List.append_eq_nil_iff] at hd; exact hd.1
    have hws : ws.flatten = [] := by
      simp only [List.flatten_cons, List.append_eq_nil_iff] at hd; exact hd.2
    subst hw
    rw [loop_succ, read_next [] ws met e eb _ (by simpa using hn)]
    simp only [List.take_nil, List.drop_nil, List.length_nil, Nat.add_zero, List.append_nil]
    rw [if_neg (by omega)]
    exact loop_end n hn e eb ws fuel (met + 1) (by simp at hf; omega) hws

/-- one frame: the message is returned as soon as the reader has its bytes -/
theorem readMessage_frame (guard : Bool) (max : Nat) (p : Pipe) (m rest : Bytes)
    (h : guard = true ∨ p.emptyBlocks = false) (hd : p.data = encode m ++ rest)
    (hm : m.length ≤ max) (h32 : m.length < 4294967296) :
    readMessage guard max p = ⟨.msg m, adv (m.length + 4) p⟩ := by
  have hlen : 4 ≤ p.data.length := by rw [hd]; simp [encode, putBe32]
  have h1 := readN_ok guard 4 p (by rcases h with h | h; exact Or.inl h; exact Or.inr (Or.inl h)) hlen
  have ht : p.data.take 4 = putBe32 m.length := by rw [hd]; exact encode_append_take4 m rest
  have hsz : msgSize (putBe32 m.length) = Int.ofNat m.length := by
    rw [msgSize_eq_be32 _ (putBe32_length _), be32_putBe32 _ h32]
  have hd4 : (adv 4 p).data = m ++ rest := by
    rw [adv_data, hd]; simp [encode, putBe32]
  have h2 := readN_ok guard m.length (adv 4 p)
    (by rcases h with h | h; exact Or.inl h; exact Or.inr (Or.inl (by rw [adv_emptyBlocks]; exact h)))
    (by rw [hd4]; simp)
  unfold readMessage
  rw [h1, ht]
  simp only [hsz, Int.ofNat_eq_natCast, Int.toNat_natCast, gt_iff_lt, Int.ofNat_lt]
  rw [if_neg (by omega), h2, hd4, adv_add, List.take_left' rfl]

theorem readAll_succ (guard : Bool) (max k : Nat) (p : Pipe) :
    readAll guard max (k+1) p =
      if (readMessage guard max p).res.isMsg then
        ⟨(readMessage guard max p).res :: (readAll guard max k (readMessage guard max p).rest).results,
         (readMessage guard max p).rest.met :: (readAll guard max k (readMessage guard max p).rest).mets,
         (readAll guard max k (readMessage guard max p).rest).rest⟩
      else ⟨[(readMessage guard max p).res], [(readMessage guard max p).rest.met], (readMessage guard max p).rest⟩ := rfl

/-- the result once nothing more is to come -/
def endRes : End → Res
  | .closed => .eof
  | .stall => .timeout false 0 4

theorem readMessage_end (guard : Bool) (max : Nat) (p : Pipe) (hd : p.data = []) :
    (readMessage guard max p).res = endRes p.ending := by
  obtain ⟨cur, next, met, e, eb⟩ := p
  simp only [Pipe.data, List.append_eq_nil_iff] at hd
  obtain ⟨hc, hn⟩ := hd
  subst hc
  obtain ⟨p', hp⟩ := loop_end 4 (by decide) e eb next (next.length + 2) met (by omega) hn
  unfold readMessage readN
  rw [if_neg (by simp)]
  simp only
  rw [hp]
  cases e <;> rfl

theorem frameEnds_shift : ∀ (msgs : List Bytes) (off d : Nat),
    frameEnds (off + d) msgs = (frameEnds off msgs).map (· + d)
  | [], _, _ => rfl
  | m :: ms, off, d => by
    simp only [frameEnds, List.map_cons]
    have : off + d + 4 + m.length = off + 4 + m.length + d := by omega
    rw [this, frameEnds_shift ms (off + 4 + m.length) d]

/-- the whole sequence: every message comes out, each as soon as the reader has its bytes -/
theorem readAll_msgs (guard : Bool) (max : Nat) : ∀ (msgs : List Bytes) (p : Pipe),
    (guard = true ∨ p.emptyBlocks = false) → p.data = msgs.flatMap encode → Fits max msgs →
    (readAll guard max (msgs.length + 1) p).results = msgs.map Res.msg ++ [endRes p.ending] ∧
    (readAll guard max (msgs.length + 1) p).mets.take msgs.length =
      (frameEnds 0 msgs).map (fun o => (adv o p).met)
  | [], p, _, hd, _ => by
    have := readMessage_end guard max p (by simpa using hd)
    rw [List.length_nil, Nat.zero_add, readAll_succ, this]
    cases p.ending <;> simp [endRes, Res.isMsg, frameEnds]
  | m :: ms, p, h, hd, hf => by
    have hm := hf m (by simp)
    have hms : Fits max ms := fun x hx => hf x (by simp [hx])
    have hfr := readMessage_frame guard max p m (ms.flatMap encode) h
      (by rw [hd, List.flatMap_cons]) hm.1 hm.2
    have hd' : (adv (m.length + 4) p).data = ms.flatMap encode := by
      rw [adv_data, hd, List.flatMap_cons]
      exact List.drop_left' (by rw [encode_length]; omega)
    obtain ⟨ih1, ih2⟩ := readAll_msgs guard max ms (adv (m.length + 4) p)
      (by rcases h with h | h; exact Or.inl h; exact Or.inr (by rw [adv_emptyBlocks]; exact h)) hd' hms
    have hl : (m :: ms).length + 1 = (ms.length + 1) + 1 := by simp
    rw [hl, readAll_succ, hfr]
    simp only [Res.isMsg, if_true]
    refine ⟨?_, ?_⟩
    · rw [ih1]; rfl
    · simp only [List.length_cons, List.take_succ_cons, frameEnds, List.map_cons, Nat.zero_add]
      rw [ih2]
      have e0 : 4 + m.length = 0 + (4 + m.length) := by omega
      rw [e0, frameEnds_shift ms 0 (4 + m.length), List.map_map]
      have e1 : 0 + (4 + m.length) = m.length + 4 := by omega
      congr 1
      · rw [e1]
      · apply List.map_congr_left
        intro o _
        simp only [Function.comp]
        rw [adv_add, Nat.add_comm m.length 4]

end ConfModel.SyncPipe
