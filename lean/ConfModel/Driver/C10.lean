/-
C10 driver.  One line = one scenario (request names, sender goroutines, scripted client) plus the
distinct observations the real `clientProcessRunner` produced on it.

`holds`  := the property's predicates (`Spec.reqOK`, `Spec.refusedOK`, not running — at the end, and
            already when the failure of the output stream is reported: inside the error callbacks and
            as soon as the reader has finished, while the client still lingers —, wait returned)
            evaluated on every *implementation* observation;
`agree`  := every implementation observation is a member of the model's outcome set for that
            scenario, obtained by exploring **all** interleavings of `ClientRunner.step` (the
            function the theorems are about) under the scripted client.
-/
import ConfModel.Driver.Common
import ConfModel.Driver.OSCmd
import ConfModel.Spec.ClientRunner
import ConfModel.Model.Delimited
import Std.Data.HashSet
namespace ConfModel.Driver.C10
open Lean ConfModel.Driver ConfModel.ClientRunner

/-- scripted client actions (see harness `VerifC10Act`) -/
inductive Act
  | recv | resp (m : Nat) | bad | cut (m k len : Nat) | exit (code : Nat) | hang

def parseAct (j : Json) : Option Act :=
  match str (field j "k") with
  | "recv" => some .recv
  | "resp" => some (.resp (nat (field j "m")))
  | "over" => some .bad
  | "garbage" => some .bad
  | "cut" => some (.cut (nat (field j "m")) (nat (field j "n")) (nat (field j "len")))
  | "exit" => some (.exit (nat (field j "code")))
  | "hang" => some .hang
  | _ => none

structure X where
  s : State
  client : List Act
  /-- the reader has consumed a proper, non-empty prefix of a message -/
  midMsg : Bool
  /-- 0 senders running · 1 closeSend called · 2 reader finished: isRunning sampled, lingering client
  released · 3 waitForResponses returned · 4 isRunning()=false seen -/
  mainPc : Nat
  waitRet : String
  /-- isRunning() when the main thread saw the reader finished -/
  runAtDone : Bool := false
  /-- the final drain happened: (after an abort, i.e. the reason was not a clean EOF; isRunning() then) -/
  drain : Option (Bool × Bool) := none

structure Scn where
  n : Nat
  names : Nat → ClientRunner.Name
  threads : List (List Nat)
  /-- the script contains `hang`: the client ignores the abort until the main thread releases it -/
  lingers : Bool := false

def lateName : Nat := 1000000

def spcCode : SPc → Nat
  | .idle => 0 | .waitLock => 1 | .locked => 2 | .writing => 3 | .failed => 4
  | .ret .ok => 5 | .ret .dup => 6 | .ret (.err .closed) => 7 | .ret (.err .fail) => 8

def rpcCode : RPc → String
  | .reading => "r" | .got m => s!"g{m}" | .firing i m => s!"f{i}.{m}" | .failErr => "e" | .failTerm => "t"
  | .failAbort => "a" | .closing => "c" | .draining => "d" | .finishing => "n" | .done => "D"

def firedKey (f : List (Nat × Option ClientRunner.Name)) : List String :=
  sortStrings (f.map fun (i, o) => s!"{i}:{match o with | some m => toString m | none => "x"}")

def actCode : Act → String
  | .recv => "r" | .resp m => s!"p{m}" | .bad => "b" | .cut m k l => s!"c{m}.{k}.{l}" | .exit c => s!"x{c}" | .hang => "h"

def X.key (sc : Scn) (x : X) : String :=
  let s := x.s
  let pcs := (List.range (sc.n + 1)).map (fun i => spcCode (s.spc i))
  s!"{pcs}|{s.sendMu}|{s.closedSend}|{s.pending}|{match s.err with | none => 0 | some .closed => 1 | some .fail => 2}|{s.terminated}|{rpcCode s.rpc}|{firedKey s.fired}|{match s.proc with | .running => "R" | .exited c => s!"E{c}"}|{s.aborted}|{s.hookRan}|{x.client.length}|{x.midMsg}|{x.mainPc}|{x.waitRet}|{x.runAtDone}|{x.drain}"

def isRet : SPc → Bool | .ret _ => true | _ => false

def nextReq (s : State) (t : List Nat) : Option Nat := t.find? (fun i => !isRet (s.spc i))

def tryStep (sc : Scn) (x : X) (e : Event) : List X :=
  match step sc.names x.s e with
  | some s' => [{ x with s := s' }]
  | none => []

def senderMoves (sc : Scn) (x : X) (t : List Nat) : List X :=
  match nextReq x.s t with
  | none => []
  | some i =>
    match x.s.spc i with
    | .idle => tryStep sc x (.sStart i)
    | .waitLock => tryStep sc x (.sLock i)
    | .locked => tryStep sc x (.sRegister i)
    | .writing => tryStep sc x (.sWriteFail i)
    | .failed => tryStep sc x (.sSetErr i)
    | .ret _ => []

def exited (s : State) : Bool := match s.proc with | .running => false | .exited _ => true

def writing? (sc : Scn) (s : State) : Option Nat := (List.range (sc.n + 1)).find? (fun i => s.spc i == .writing)

/-- moves of the scripted client -/
def clientMoves (sc : Scn) (x : X) : List X :=
  if exited x.s then [] else
  let released := x.mainPc ≥ 2
  let abortMove := if x.s.aborted && (!sc.lingers || released) then
      (tryStep sc x (.pExit 1)).map (fun y => { y with client := [] }) else []
  let pop (y : X) : X := { y with client := x.client.tail }
  let normal : List X :=
    match x.client with
    | [] => (tryStep sc x (.pExit 0))
    | .recv :: _ =>
      match writing? sc x.s with
      | some i => (tryStep sc x (.sWriteOk i)).map pop
      | none => if x.s.closedSend then [pop x] else []
    | .resp m :: _ => (tryStep sc x (.rRecv m)).map pop
    | .bad :: _ => (tryStep sc x .rRecvBad).map pop
    | .cut m k len :: _ =>
      if k == 0 then [pop x]
      else if k < len then (if x.s.rpc == .reading then [{ pop x with midMsg := true }] else [])
      else (tryStep sc x (.rRecv m)).map pop
    | .exit c :: _ => (tryStep sc x (.pExit c)).map (fun y => { y with client := [] })
    | .hang :: _ => if released then [pop x] else []
  abortMove ++ normal

def waitClass (s : State) : String :=
  match s.err with
  | some .closed => "closed"
  | some .fail => "fail"
  | none => match s.proc with | .exited 0 => "nil" | _ => "proc"

def mainMoves (sc : Scn) (x : X) : List X :=
  match x.mainPc with
  | 0 =>
    if sc.threads.all (fun t => (nextReq x.s t).isNone) then
      (tryStep sc x .uCloseSend).map (fun y => { y with mainPc := 1 })
    else []
  | 1 => if x.s.rpc == .done then [{ x with mainPc := 2, runAtDone := isRunning x.s }] else []
  | 2 => if x.s.rpc == .done && exited x.s then [{ x with mainPc := 3, waitRet := waitClass x.s }] else []
  | 3 => if x.s.terminated then [{ x with mainPc := 4 }] else []
  | _ => []

def readerMoves (sc : Scn) (x : X) : List X :=
  let internal := [Event.rLookup, .rFire, .rSetErr, .rTerminate, .rAbort, .rCloseSend, .rDone].flatMap (tryStep sc x) ++
    (tryStep sc x .rDrain).map (fun y => { y with drain := some (x.s.aborted, isRunning x.s) })
  let eof := if x.s.rpc == .reading && exited x.s then
      (if x.midMsg then tryStep sc x .rRecvBad else tryStep sc x .rRecvEOF) else []
  internal ++ eof

def moves (sc : Scn) (x : X) : List X :=
  sc.threads.flatMap (senderMoves sc x) ++ (if x.mainPc == 4 then senderMoves sc x [sc.n] else []) ++
    readerMoves sc x ++ tryStep sc x .pHook ++ mainMoves sc x ++ clientMoves sc x

def retClass : SPc → String
  | .ret .ok => "ok" | .ret .dup => "dup" | .ret (.err .closed) => "closed" | .ret (.err .fail) => "fail"
  | _ => "unsent"

def intsKey (l : List Int) : String := ",".intercalate (l.map toString)

def sortInts (l : List Int) : List Int := (l.toArray.qsort (· < ·)).toList

/-- code of an error callback (they all come from the final drain): -1 / -3 the reader's reason
(failure of the output stream), isRunning() false / true inside the callback; -4 clean end of the
stream (`errNoOutcome`).  After a clean end the exit hook of the process stores `terminated`
concurrently with the drain — even between two callbacks of the same drain, which is one atomic
step of the model — so what isRunning() says inside those callbacks (the harness reports it as
-4 / -5) is not compared. -/
def errCode (drain : Option (Bool × Bool)) : Int :=
  match drain with
  | some (true, false) => -1 | some (true, true) => -3
  | some (false, _) => -4
  | none => -1

def cbInts (x : X) (i : Nat) : List Int :=
  sortInts ((Spec.cbsOf x.s i).map fun o => match o with | some m => (m : Int) | none => errCode x.drain)

def obsKey (rets : List String) (cbs : List (List Int)) (runAtDone : Bool) (wait : String) (running : Bool) (late : String) (lateCbs : Nat) : String :=
  s!"{",".intercalate rets}|{";".intercalate (cbs.map intsKey)}|{runAtDone}|{wait}|{running}|{late}|{lateCbs}"

def X.obs (sc : Scn) (x : X) : String :=
  let ids := List.range sc.n
  obsKey (ids.map fun i => retClass (x.s.spc i)) (ids.map (cbInts x)) x.runAtDone x.waitRet (isRunning x.s)
    (retClass (x.s.spc sc.n)) (Spec.cbsOf x.s sc.n).length

def X.final (sc : Scn) (x : X) : Bool := x.mainPc == 4 && isRet (x.s.spc sc.n)

/-- exhaustive exploration; returns (outcome set, number of states, stuck non-final states) -/
partial def explore (sc : Scn) (limit : Nat) (work : List X) (seen : Std.HashSet String)
    (out : Std.HashSet String) (stuck : Nat) : Std.HashSet String × Nat × Nat :=
  match work with
  | [] => (out, seen.size, stuck)
  | x :: rest =>
    if seen.size > limit then (out, seen.size, stuck + 1000000) else
    let ms := moves sc x
    if x.final sc then explore sc limit rest seen (out.insert (x.obs sc)) stuck
    else if ms.isEmpty then explore sc limit rest seen out (stuck + 1)
    else
      let (work', seen') := ms.foldl (fun (acc : List X × Std.HashSet String) y =>
        let k := y.key sc
        if acc.2.contains k then acc else (y :: acc.1, acc.2.insert k)) (rest, seen)
      explore sc limit work' seen' out stuck

def classOfRet (c : String) : Option SendRet :=
  match c with
  | "ok" => some .ok | "dup" => some .dup | "closed" => some (.err .closed) | "fail" => some (.err .fail)
  | _ => none

def isErrCode (v : Int) : Bool := v == -1 || v == -3 || v == -4 || v == -5

def cbOfInt (v : Int) : Option ClientRunner.Name := if isErrCode v then none else if v < 0 then some 999999 else some v.toNat

/-- a lingering client (script with `hang`) is only meaningful — and only then free of the wedge
that an in-process client which ignores its cancellation can cause — if it has consumed all n
requests before it writes anything, and if the reader is certain to have failed before the first
`hang` (oversize / garbage, an answer for a name that is no request, a second answer for a name) -/
def lingerOK (n : Nat) (names : List Nat) (acts : List Act) : Bool :=
  let isRecv (a : Act) : Bool := match a with | .recv => true | _ => false
  let isHang (a : Act) : Bool := match a with | .hang => true | _ => false
  let before := acts.takeWhile (fun a => !isHang a)
  let rec fails : List Act → List Nat → Bool
    | [], _ => false
    | .bad :: _, _ => true
    | .resp m :: rest, seen => !names.contains m || seen.contains m || fails rest (m :: seen)
    | .cut m k len :: rest, seen => if k ≥ len then (!names.contains m || seen.contains m || fails rest (m :: seen)) else fails rest seen
    | _ :: rest, seen => fails rest seen
  (acts.takeWhile isRecv).length ≥ n && fails before []

/-- the client wrote a complete response named m somewhere in its script -/
def scriptAnswers (acts : List Act) (m : Nat) : Bool :=
  acts.any fun a => match a with | .resp m' => m' == m | .cut m' k len => m' == m && k ≥ len | _ => false

/-- a scenario in which nothing can go wrong: distinct names, the client reads all n requests,
then answers each exactly once, then exits 0 -/
def cleanScript (n : Nat) (names : List Nat) (acts : List Act) : Bool :=
  let recvs := acts.takeWhile (fun a => match a with | .recv => true | _ => false)
  let rest := acts.drop recvs.length
  let resps := rest.filterMap (fun a => match a with | .resp m => some m | _ => none)
  names.eraseDups.length == n && recvs.length == n &&
    rest.length == n + 1 && resps.length == n && resps.eraseDups.length == n && resps.all names.contains &&
    (match rest.getLast? with | some (.exit 0) => true | _ => false)

/-- op "wedge": an in-process client that has taken all its requests, answered the first `pos`,
then spoilt its output — and never ends.  `holds`: the reader finishes, waitForResponses and stop
return all the same, every request has exactly one callback (own response or error), the runner says
"not running" from the moment the failure is reported, a later send is refused.  `agree`: the
callbacks are those of the model on the scenario's (only) schedule, and the model of
`waitForResponses` (`wstep`) gets to its return by its own steps, the process never ending. -/
def judgeWedge (inp impl : Json) : Verdict :=
  if !(isNull (field impl "panic")) then
    { agree := false, holds := false, why := "panic: " ++ str (field impl "panic") } else
  if !(bool (field impl "valid")) then { agree := true, holds := true, nontrivial := false, cls := "invalid-input" } else
  let n := nat (field inp "n")
  let pos := nat (field inp "pos")
  let badK := str (field inp "bad")
  let ids := List.range n
  -- the model: all sends first (the client reads everything before it writes), then the answers,
  -- the spoilt output, the reader's shutdown, a late send
  let sends : List Event := ids.flatMap (fun i => [Event.sStart i, .sLock i, .sRegister i, .sWriteOk i])
  let good : List Event := (List.range pos).flatMap (fun m => [Event.rRecv m, .rLookup, .rFire])
  let bad : List Event := match badK with
    | "unknown" => [.rRecv 99, .rLookup]
    | "dup" => [.rRecv (pos - 1), .rLookup]
    | _ => [.rRecvBad]
  let evs := sends ++ [.uCloseSend] ++ good ++ bad ++ [.rSetErr, .rTerminate, .rAbort, .rCloseSend, .rDrain, .rDone, .sStart n]
  let names : Nat → ClientRunner.Name := fun i => if i < n then i else lateName
  let s := run names init evs
  let mRets := ids.map (fun i => retClass (s.spc i))
  let mCbs : List (List Int) := ids.map (fun i => sortInts ((Spec.cbsOf s i).map fun o => match o with | some m => (m : Int) | none => -1))
  let mLate := retClass (s.spc n)
  let w := wsettle (waitCode .inProcess) (wrun (waitCode .inProcess) winit [.rDone]) 7
  let mWait := w.wpc == .returned && !w.procGone
  let rets := strList (field impl "rets")
  let cbs := (arr (field impl "cbs")).map intList
  let waitRet := bool (field impl "waitReturned")
  let stopRet := bool (field impl "stopReturned")
  let readerDone := bool (field impl "readerDone")
  let runAtDone := bool (field impl "runAtDone")
  let running := bool (field impl "running")
  let late := str (field impl "late")
  let lateCbs := nat (field impl "lateCbs")
  let cbsCall := (arr (field impl "cbsCall")).map intList
  let retained := cbsCall == cbs && !(bool (field impl "shared"))
  let perReq := ids.all fun i => Spec.reqOK (names i) (classOfRet (rets.getD i "")) ((cbs.getD i []).map cbOfInt)
  let cbRunning := cbs.any fun l => l.contains (-3)
  let refused := Spec.refusedOK (classOfRet late) (List.replicate lateCbs none)
  let why :=
    if !readerDone then "deadlock: the output reader (consumeOutput) did not finish within 10 s"
    else if !waitRet then "deadlock: waitForResponses did not return although the output reader had finished long ago — it waits for a client process that never ends"
    else if !stopRet then "deadlock: stop() did not return — it waits for a client process that never ends"
    else if !retained then s!"a response handed to a completion callback was written after the hand-over: called with {cbsCall}, holding {cbs} at the end (same object handed twice: {bool (field impl "shared")})"
    else if !perReq then "exactly-once/own-response violated: rets " ++ toString rets ++ " callbacks " ++ toString cbs
    else if !refused then "send after shutdown not refused: " ++ late
    else if cbRunning then "isRunning() still true inside the completion callback that reports the failure of the client's output stream"
    else if runAtDone || running then "isRunning() still true after the output reader had failed and shut down; this client never ends"
    else ""
  let agree := rets == mRets && cbs.map (fun l => sortInts (l.map fun v => if v == -3 then -1 else v)) == mCbs && late == mLate &&
    waitRet == mWait && !(bool (field impl "clientEnded"))
  { agree := agree, holds := why == "", nontrivial := true, cls := "wedge:" ++ badK ++ ":" ++ str (field inp "mode"),
    model := Json.mkObj [("rets", toJson mRets), ("late", mLate), ("waitReturns", mWait)],
    why := if why != "" then why else if agree then "" else
      s!"observation differs from the model: rets {rets} / {mRets}, callbacks {cbs} / {mCbs}, late {late} / {mLate}, wait returned {waitRet} / {mWait}, client ended by itself {bool (field impl "clientEnded")}" }

/-- op "rawout": arbitrary bytes where the reader expects the next length prefix of the client's
output (run in a child process: the death of the runner is the observation `crashed`).  `holds`: the
runner lives, every request has exactly one callback (own response or error), later sends are
refused, not running, waitForResponses returned.  `agree`: the callbacks are the model's on the
scenario's schedule, and the reader's reason is what `Delimited.readAt .client` (the model C09's
theorems are about) makes of those bytes — for a prefix above the limit the very size, which is the
unsigned big-endian value of the four bytes whatever their first bit. -/
def judgeRawOut (inp impl : Json) : Verdict :=
  if !(isNull (field impl "panic")) then
    { agree := false, holds := false, why := "panic: " ++ str (field impl "panic") } else
  if bool (field impl "crashed") then
    { agree := false, holds := false, cls := "crashed",
      why := s!"the whole runner died ({str (field impl "how")}: {str (field impl "detail")}) while reading the client's output {str (field inp "hex")} after {nat (field inp "pos")} good answer(s): no pending callback fired, waitForResponses never returned" } else
  if !(bool (field impl "valid")) then { agree := true, holds := true, nontrivial := false, cls := "invalid-input" } else
  let n := nat (field inp "n")
  let pos := nat (field inp "pos")
  let bytes := unhex (str (field inp "hex"))
  let more := str (field inp "then") == "more"
  let ids := List.range n
  let rd := ConfModel.Delimited.readAt .client ⟨bytes, [], .eofSeparate⟩
  -- what the error callbacks must carry (none: not determined by the model — the content of a body)
  let mClass : Option String := match rd.res with
    | .tooLarge sz => some s!"toolarge:{sz}"
    | .unexpectedEOF => if more then none else some "eof"
    | _ => none
  let rejectedAtOnce := match rd.res with | .tooLarge _ => true | _ => false
  if more && !rejectedAtOnce && (match rd.res with | .msg _ => false | _ => true) then bad "client goes on writing inside an unfinished message" else
  let sends : List Event := ids.flatMap (fun i => [Event.sStart i, .sLock i, .sRegister i, .sWriteOk i])
  let good : List Event := (List.range pos).flatMap (fun m => [Event.rRecv m, .rLookup, .rFire])
  let evs := sends ++ [.uCloseSend] ++ good ++ [.rRecvBad, .rSetErr, .rTerminate, .rAbort, .pExit 1, .rCloseSend, .rDrain, .rDone, .pHook, .sStart n]
  let names : Nat → ClientRunner.Name := fun i => if i < n then i else lateName
  let s := run names init evs
  let mRets := ids.map (fun i => retClass (s.spc i))
  let mCbs : List (List Int) := ids.map (fun i => sortInts ((Spec.cbsOf s i).map fun o => match o with | some m => (m : Int) | none => -1))
  let mLate := retClass (s.spc n)
  let rets := strList (field impl "rets")
  let cbs := (arr (field impl "cbs")).map intList
  let hang := str (field impl "hang")
  let errClass := str (field impl "errClass")
  let late := str (field impl "late")
  let lateCbs := nat (field impl "lateCbs")
  let cbsCall := (arr (field impl "cbsCall")).map intList
  let retained := cbsCall == cbs && !(bool (field impl "shared"))
  let perReq := ids.all fun i => Spec.reqOK (names i) (classOfRet (rets.getD i "")) ((cbs.getD i []).map cbOfInt)
  let cbRunning := cbs.any fun l => l.contains (-3)
  let refused := Spec.refusedOK (classOfRet late) (List.replicate lateCbs none)
  let why :=
    if hang != "" then "deadlock: " ++ hang ++ " did not return within 10 s"
    else if !retained then s!"a response handed to a completion callback was written after the hand-over: called with {cbsCall}, holding {cbs} at the end (same object handed twice: {bool (field impl "shared")})"
    else if !perReq then "exactly-once/own-response violated: rets " ++ toString rets ++ " callbacks " ++ toString cbs
    else if !refused then "send after shutdown not refused: " ++ late
    else if cbRunning then "isRunning() still true inside the completion callback that reports the failure of the client's output stream"
    else if bool (field impl "runAtDone") || bool (field impl "running") then "isRunning() still true after the output reader had failed and shut down"
    else ""
  let classOK := errClass == "" || (match mClass with | some c => errClass == c | none => errClass == "decode" || errClass == "unknown" || errClass == "dup" || errClass == "eof")
  let agree := rets == mRets && cbs.map (fun l => sortInts (l.map fun v => if v == -3 then -1 else v)) == mCbs && late == mLate && classOK &&
    str (field impl "wait") == "fail"
  { agree := agree, holds := why == "", nontrivial := true,
    cls := "rawout:" ++ (match rd.res with | .tooLarge sz => (if sz ≥ 2147483648 then "toolarge-highbit" else "toolarge") | .unexpectedEOF => "short" | .msg _ => "body" | _ => "other"),
    model := Json.mkObj [("rets", toJson mRets), ("late", mLate), ("reason", (mClass.getD "?"))],
    why := if why != "" then why else if agree then "" else
      s!"observation differs from the model: rets {rets} / {mRets}, callbacks {cbs} / {mCbs}, late {late} / {mLate}, reader's reason {errClass} / {mClass}, wait {str (field impl "wait")} / fail" }

def handle : Handler := fun op inp impl =>
  match op with
  | "oscmd" => ConfModel.Driver.OSCmd.judgeClient inp impl
  | "rawout" => judgeRawOut inp impl
  | "wedge" => judgeWedge inp impl
  | "run" =>
    let namesL := natList (field inp "names")
    let n := namesL.length
    let threads := (arr (field inp "senders")).map natList
    let actsO := (arr (field inp "client")).map parseAct
    if actsO.any Option.isNone then bad "unknown client action" else
    let acts := actsO.filterMap id
    -- a cut (0 < k < len) must be followed by exit
    let rec okCut : List Act → Bool
      | .cut _ k len :: rest => (k == 0 || k ≥ len || (match rest with | .exit _ :: _ => true | [] => true | _ => false)) && okCut rest
      | _ :: rest => okCut rest
      | [] => true
    if !okCut acts then bad "script writes after a cut" else
    let lingers := acts.any (fun a => match a with | .hang => true | _ => false)
    if lingers && !lingerOK n namesL acts then bad "lingering client that may wedge the runner or never fails" else
    if !(isNull (field impl "panic")) then
      { agree := false, holds := false, why := "panic: " ++ str (field impl "panic") } else
    let sc : Scn := { n := n, names := fun i => if i < n then namesL.getD i 0 else lateName, threads := threads, lingers := lingers }
    let x0 : X := { s := init, client := acts, midMsg := false, mainPc := 0, waitRet := "" }
    let (outs, states, stuck) := explore sc 400000 [x0] (Std.HashSet.emptyWithCapacity 1024 |>.insert (x0.key sc)) {} 0
    let obsL := arr (field impl "obs")
    let clean := cleanScript n namesL acts
    let judge (o : Json) : Bool × Bool × String :=
      let rets := strList (field o "rets")
      let cbs := (arr (field o "cbs")).map intList
      let wait := str (field o "wait")
      let runAtDone := bool (field o "runAtDone")
      let running := bool (field o "running")
      let late := str (field o "late")
      let lateCbs := nat (field o "lateCbs")
      let hang := str (field o "hang")
      -- the callbacks retain the responses: what they hold at the end (cbs) must be what they were
      -- called with (cbsCall), and no two callbacks may have been handed the same object
      let cbsCall := (arr (field o "cbsCall")).map intList
      let retained := hang != "" || (cbsCall == cbs && !(bool (field o "shared")))
      let key := obsKey rets (cbs.map fun l => sortInts (l.map fun v => if v == -5 then -4 else v)) runAtDone wait running late lateCbs
      let perReq := (List.range n).all fun i =>
        Spec.reqOK (sc.names i) (classOfRet (rets.getD i "")) ((cbs.getD i []).map cbOfInt)
      let causal := (List.range n).all fun i => (cbs.getD i []).all fun v => v < 0 || scriptAnswers acts v.toNat
      -- the failure of the output stream is being reported to a request, yet isRunning() is true
      let cbRunning := cbs.any fun l => l.contains (-3)
      -- the reader has finished and refuses later sends with its reason (c.err), yet isRunning() is true
      let doneRunning := runAtDone && late == "fail"
      let refused := Spec.refusedOK (classOfRet late) (List.replicate lateCbs none)
      let cleanOK := !clean || ((List.range n).all fun i => rets.getD i "" == "ok" && cbs.getD i [] == [(sc.names i : Int)]) && wait == "nil"
      let why :=
        if hang != "" then "deadlock: " ++ hang ++ " did not return within 10 s"
        else if !retained then s!"a response handed to a completion callback was written after the hand-over: the callbacks were called with {cbsCall} and hold {cbs} now that the scenario has ended (two callbacks were handed the same message object: {bool (field o "shared")}) — not 'that test's own response' for a consumer that keeps it"
        else if !perReq then "exactly-once/own-response violated: rets " ++ toString rets ++ " callbacks " ++ toString cbs
        else if !causal then "a callback received a response the client never wrote"
        else if !refused then "send after shutdown not refused: " ++ late
        else if cbRunning then "isRunning() still true inside the completion callback that reports the failure of the client's output stream: callbacks " ++ toString cbs
        else if doneRunning then "isRunning() still true after the output reader had failed and shut down (later sends are refused with its error) — the runner waits for the client process to go away" ++ (if lingers then ", and this client lingers" else "")
        else if running then "isRunning() still true after waitForResponses returned"
        else if !cleanOK then "well-behaved client, yet some request was not answered with its own response (or waitForResponses reported an error)"
        else ""
      (outs.contains key, why == "", why)
    let js := obsL.map judge
    let agree := stuck == 0 && !obsL.isEmpty && js.all (·.1)
    let holds := js.all (·.2.1)
    let why := (js.filter (fun j => !j.2.1)).head?.map (·.2.2) |>.getD
      (if stuck != 0 then s!"model: {stuck} stuck states" else if agree then "" else
        "observation outside the model's outcome set: " ++ toString ((obsL.zip js).filter (fun p => !p.2.1) |>.map (fun p => p.1.compress)))
    { agree := agree, holds := holds, nontrivial := outs.size > 1 || !clean,
      model := Json.mkObj [("outcomes", toJson (sortStrings outs.toList)), ("states", toJson states)],
      why := why, cls := if clean then "clean" else if outs.size > 1 then "racy" else "faulty" }
  | _ => bad ("C10: unknown op " ++ op)

end ConfModel.Driver.C10
