/- Generated from the working tree by `verifharness c14facts` (reflection over internal/tracer: the
   counters of dataTracer and the length fields of Envelope / RequestBodyData / ResponseBodyData).
   Do not edit. -/
namespace ConfModel.Generated.C14Facts

/-- Go kind: uint32 -/
def expectingBits : Nat := 32
def expectingSigned : Bool := false

/-- Go kind: uint64 -/
def actualBits : Nat := 64
def actualSigned : Bool := false

/-- Go kind: uint32 -/
def envLenBits : Nat := 32
def envLenSigned : Bool := false

/-- Go kind: uint64 -/
def reqDataLenBits : Nat := 64
def reqDataLenSigned : Bool := false

/-- Go kind: uint64 -/
def respDataLenBits : Nat := 64
def respDataLenSigned : Bool := false

end ConfModel.Generated.C14Facts
