"""Per-property configuration of check.py (what to build, what to run, what to claim)."""

CHECKS = {
    "C08": {
        "area": "c08",
        "module": "ConfModel.Props.C08",
        "headline": "ConfModel.Props.C08.trie_eq_glob / unmatched_complete / args_all_take_part",
        "bins": ["connectconformance"],
        "level": "proof",
        "shrink": {"trie": ["pats", "names"], "accept": ["run", "skip", "names"], "cli": ["args"]},
        "rule": "trie: every single pattern over {a,b,*,**} up to 4 (thorough 5) components x every such name; every pattern pair up to 3 "
                "components x names up to 3 (4) and a random name subset; random sets of 1-6 patterns with empty/odd components; "
                "accept: random run/skip splits; validate: the real run() validation block on a small library with random failing/flaky/run/skip "
                "lists; cli: the real connectconformance binary, all shapes of <=3 arguments over {plain, @file(1), @file(2)}. "
                "non-trivial = the glob verdict list contains both true and false (trie, accept), a rejection is required (validate), "
                "more than one argument (cli); distinct = distinct (op, input).",
        "assumptions": ["strings.Split / bytes.TrimSpace are modelled by String.splitOn / ASCII trim (generator emits ASCII only)",
                        "test names reach the matcher unchanged (Request.TestName)"],
        "trusted": ["modelled, not verified: Go maps as association lists; atomic counters as sequential (matching is single-threaded in run())"],
    },
}
